// Package yamlgen renders untyped JSON trees (as produced by jx.Parse) as YAML
// in styles other than yaml.v3's default Marshal output. The renderings are
// inputs for the tools under test; callers keep a rendering only when the
// reference loader reads it back JSON-equal to the JSON form.
package yamlgen

import (
	"bytes"
	"encoding/json"
	"sort"
	"strconv"
	"strings"

	yaml "gopkg.in/yaml.v3"
)

// DoubleQuoted renders block-style YAML in which every key and every string is
// a double-quoted scalar with JSON escapes (a subset of YAML's escapes). It is
// written by hand and does not go through any YAML library.
func DoubleQuoted(v any) []byte {
	var b bytes.Buffer
	switch t := v.(type) {
	case map[string]any:
		if len(t) == 0 {
			return []byte("{}\n")
		}
		dqMap(&b, t, 0)
	default:
		dqValue(&b, v, 0)
	}
	return b.Bytes()
}

func dq(s string) string {
	var buf bytes.Buffer
	enc := json.NewEncoder(&buf)
	enc.SetEscapeHTML(false)
	_ = enc.Encode(s)
	out := strings.TrimSuffix(buf.String(), "\n")
	// encoding/json leaves DEL, NEL and other C1 controls raw; YAML wants them escaped
	var sb strings.Builder
	for _, r := range out {
		switch {
		case r == 0x7f || (r >= 0x80 && r <= 0x9f):
			sb.WriteString(`\x` + strconv.FormatInt(int64(r)+0x100, 16)[1:])
		case r == 0xfeff:
			sb.WriteString(`\uFEFF`)
		default:
			sb.WriteRune(r)
		}
	}
	return sb.String()
}

func number(n json.Number) string {
	s := string(n)
	if _, err := strconv.ParseInt(s, 10, 64); err == nil {
		return s
	}
	if !strings.ContainsAny(s, ".eE") {
		// integer beyond int64: the reference loader has no integer type for it
		return s + ".0"
	}
	return s
}

func sortedKeys(m map[string]any) []string {
	ks := make([]string, 0, len(m))
	for k := range m {
		ks = append(ks, k)
	}
	sort.Strings(ks)
	return ks
}

func pad(n int) string { return strings.Repeat(" ", n) }

func dqMap(b *bytes.Buffer, m map[string]any, ind int) {
	for _, k := range sortedKeys(m) {
		b.WriteString(pad(ind) + dq(k) + ":")
		dqValue(b, m[k], ind)
	}
}

// dqValue writes the value that follows "key:" or "-" (the cursor is right after it).
func dqValue(b *bytes.Buffer, v any, ind int) {
	switch t := v.(type) {
	case map[string]any:
		if len(t) == 0 {
			b.WriteString(" {}\n")
			return
		}
		b.WriteString("\n")
		dqMap(b, t, ind+2)
	case []any:
		if len(t) == 0 {
			b.WriteString(" []\n")
			return
		}
		b.WriteString("\n")
		for _, x := range t {
			b.WriteString(pad(ind+2) + "-")
			dqValue(b, x, ind+2)
		}
	case string:
		b.WriteString(" " + dq(t) + "\n")
	case json.Number:
		b.WriteString(" " + number(t) + "\n")
	case float64:
		b.WriteString(" " + strconv.FormatFloat(t, 'g', -1, 64) + "\n")
	case int:
		b.WriteString(" " + strconv.Itoa(t) + "\n")
	case int64:
		b.WriteString(" " + strconv.FormatInt(t, 10) + "\n")
	case bool:
		b.WriteString(" " + strconv.FormatBool(t) + "\n")
	case nil:
		b.WriteString(" null\n")
	}
}

// Plain renders through yaml.v3's node API with every string tagged !!str and
// no style request: the emitter then writes a string plain ("title: on")
// whenever the YAML 1.2 core schema reads it back as a string, which is the way
// hand-written specs look. Key order is sorted.
func Plain(v any) ([]byte, error) {
	n := plainNode(v)
	doc := &yaml.Node{Kind: yaml.DocumentNode, Content: []*yaml.Node{n}}
	return yaml.Marshal(doc)
}

func strNode(s string) *yaml.Node {
	return &yaml.Node{Kind: yaml.ScalarNode, Tag: "!!str", Value: s}
}

func plainNode(v any) *yaml.Node {
	switch t := v.(type) {
	case map[string]any:
		n := &yaml.Node{Kind: yaml.MappingNode}
		for _, k := range sortedKeys(t) {
			n.Content = append(n.Content, strNode(k), plainNode(t[k]))
		}
		return n
	case []any:
		n := &yaml.Node{Kind: yaml.SequenceNode}
		for _, x := range t {
			n.Content = append(n.Content, plainNode(x))
		}
		return n
	case string:
		return strNode(t)
	case json.Number:
		s := number(t)
		tag := "!!float"
		if _, err := strconv.ParseInt(s, 10, 64); err == nil {
			tag = "!!int"
		}
		return &yaml.Node{Kind: yaml.ScalarNode, Tag: tag, Value: s}
	case bool:
		return &yaml.Node{Kind: yaml.ScalarNode, Tag: "!!bool", Value: strconv.FormatBool(t)}
	case nil:
		return &yaml.Node{Kind: yaml.ScalarNode, Tag: "!!null", Value: "null"}
	}
	return strNode("")
}
