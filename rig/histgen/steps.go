package histgen

import (
	"fmt"
	"hash/fnv"
	"math/rand"
	"os"
	"path/filepath"
	"sort"
	"strings"

	"verif/rig/jx"
)

// Step is one event of a history. Exactly one of the three groups is used.
type Step struct {
	Kind string `json:"kind"` // gen | user | spec

	Cmd  string   `json:"cmd,omitempty"`  // gen: server client cli model operation support
	Opts []string `json:"opts,omitempty"` // gen: option atom ids, sorted

	Act string `json:"act,omitempty"` // user: see UserActs

	Edit string `json:"edit,omitempty"` // spec: see SpecEdits

	Sel int `json:"sel"` // selects among candidates (tag, operation, model, file ...)
}

// Atom is the stable identifier of what a step does (without selector).
func (s Step) Atom() string {
	switch s.Kind {
	case "gen":
		return "gen:" + s.Cmd + "/" + OptLabel(s.Opts)
	case "user":
		return "user:" + s.Act
	default:
		return "spec:" + s.Edit
	}
}

// OptLabel renders an option set for keys and signatures.
func OptLabel(opts []string) string {
	if len(opts) == 0 {
		return "-"
	}
	o := append([]string(nil), opts...)
	sort.Strings(o)
	return strings.Join(o, "+")
}

// History is a sequence of steps against one target directory.
type History struct {
	ID     string `json:"id"`
	Pass   string `json:"pass"`           // A | B | replay
	Atom   string `json:"atom,omitempty"` // pass A: the atom under test
	Prior  string `json:"prior,omitempty"`
	Spec   string `json:"spec"`   // base spec id
	Layout string `json:"layout"` // root (target = module root, no -t) | subdir (-t app)
	Steps  []Step `json:"steps"`
	Doc    jx.J   `json:"doc,omitempty"` // replay: the initial document
}

// ---------------------------------------------------------------------------
// option atoms

// BaseName and OtherName are the two application names used with -A. Both are
// plain lower-case words, for which the documented configure file name
// configure_<name>.go needs no name mangling.
const (
	BaseName  = "inventory"
	OtherName = "shop"
	// MixedName needs name mangling on its way to a file name (configure_todo_list.go).
	MixedName = "TodoList"
)

// ResolveCtx is what an option needs to become concrete arguments.
type ResolveCtx struct {
	Doc jx.J
	Cmd string
	Sel int
}

func pick(list []string, sel int) string {
	if len(list) == 0 {
		return ""
	}
	if sel < 0 {
		sel = -sel
	}
	return list[sel%len(list)]
}

type optDef struct {
	id   string
	cmds string // space separated commands accepting it
	args func(c ResolveCtx) []string
}

func fixed(a ...string) func(ResolveCtx) []string {
	return func(ResolveCtx) []string { return a }
}

const (
	allApp = "server client cli support"
)

var optDefs = []optDef{
	{"A=other", allApp, nil}, // handled by nameArgs
	{"A=title", allApp, nil},
	{"A=mixed", allApp, nil},
	{"tags", "server client cli support operation", func(c ResolveCtx) []string {
		if t := pick(Tags(c.Doc), c.Sel); t != "" {
			return []string{"--tags", t}
		}
		return []string{"--tags", "nosuchtag"}
	}},
	{"tags=unknown", "server client support operation", fixed("--tags", "nosuchtag")}, // selects nothing: the run fails
	{"M=unknown", "server model", func(c ResolveCtx) []string {
		if c.Cmd == "model" {
			return []string{"-n", "NoSuchModel"}
		}
		return []string{"-M", "NoSuchModel"}
	}},
	{"O", "server client cli support operation", func(c ResolveCtx) []string {
		var ids []string
		for _, o := range Ops(c.Doc) {
			ids = append(ids, o.ID)
		}
		if c.Cmd == "operation" {
			return []string{"-n", pick(ids, c.Sel)}
		}
		return []string{"-O", pick(ids, c.Sel)}
	}},
	{"M", "server client cli support model", func(c ResolveCtx) []string {
		if c.Cmd == "model" {
			return []string{"-n", pick(Defs(c.Doc), c.Sel)}
		}
		return []string{"-M", pick(Defs(c.Doc), c.Sel)}
	}},
	{"skip-models", "server client cli", fixed("--skip-models")},
	{"skip-operations", "server client cli", fixed("--skip-operations")},
	{"skip-support", "server", fixed("--skip-support")},
	{"exclude-main", "server", fixed("--exclude-main")},
	{"exclude-spec", "server", fixed("--exclude-spec")},
	{"regenerate-configureapi", "server", fixed("--regenerate-configureapi")},
	{"s=pkg", "server support operation", fixed("-s", "internal/rest")},
	{"m=pkg", "server client cli support model operation", fixed("-m", "dto")},
	{"a=pkg", "server support operation", fixed("-a", "ops")},
	{"c=pkg", "client cli", fixed("-c", "sdk")},
	{"main-package", "server", fixed("--main-package", "inventoryd")},
	{"skip-tag-packages", "server client support operation", fixed("--skip-tag-packages")},
	{"flag-strategy=pflag", "server", fixed("--flag-strategy", "pflag")},
	{"strict-responders", "server operation", fixed("--strict-responders")},
	{"flatten=full", "server client model support", fixed("--with-flatten", "full")},
	{"with-expand", "server client model", fixed("--with-expand")},
	{"implementation-package", "server", fixed("--implementation-package", "vfmod/mod/internal/impl")},
	{"template=stratoscale", "server client support", fixed("--template", "stratoscale")},
	{"config-file=layout", "server support", func(ResolveCtx) []string { return []string{"-C", filepath.Join(LayoutDir, "server-layout.yml")} }},
	{"config-file=layout-doc", "server support", func(ResolveCtx) []string { return []string{"-C", filepath.Join(LayoutDir, "server-layout-doc.yml")} }},
	{"skip-validation", "server client model", fixed("--skip-validation")},
	{"keep-spec-order", "server model", fixed("--keep-spec-order")},
	{"default-scheme=https", "server", fixed("--default-scheme", "https")},
	{"struct-tags", "server model", fixed("--struct-tags", "db")},
	{"principal", "server", fixed("-P", "models.LegacyRecord")},
	{"cli-app-name", "cli", fixed("--cli-app-name", "invctl")},
	{"skip-handler", "operation", fixed("--skip-handler")},
	{"skip-parameters", "operation", fixed("--skip-parameters")},
	{"skip-responses", "operation", fixed("--skip-responses")},
	{"skip-url-builder", "operation", fixed("--skip-url-builder")},
}

// LayoutDir is where the executor keeps the configuration files of the config-file options
// (set by the check before any history is resolved).
var LayoutDir = "."

// ServerLayout is a --config-file that spells out the built-in server layout, the way the
// template documentation tells users to start a custom layout: the configure file is the
// user's, hence skip_exists: true.
const ServerLayout = `layout:
  application:
    - name: configure
      source: asset:serverConfigureapi
      target: '{{ joinFilePath .Target (toPackagePath .ServerPackage) }}'
      file_name: 'configure_{{ (snakize (pascalize .Name)) }}.go'
      skip_exists: true
    - name: main
      source: asset:serverMain
      target: '{{ joinFilePath .Target "cmd" .MainPackage }}'
      file_name: 'main.go'
    - name: embedded_spec
      source: asset:swaggerJsonEmbed
      target: '{{ joinFilePath .Target (toPackagePath .ServerPackage) }}'
      file_name: 'embedded_spec.go'
    - name: server
      source: asset:serverServer
      target: '{{ joinFilePath .Target (toPackagePath .ServerPackage) }}'
      file_name: 'server.go'
    - name: builder
      source: asset:serverBuilder
      target: '{{ joinFilePath .Target (toPackagePath .ServerPackage) (toPackagePath .APIPackage) }}'
      file_name: '{{ snakize (pascalize .Name) }}_api.go'
    - name: doc
      source: asset:serverDoc
      target: '{{ joinFilePath .Target (toPackagePath .ServerPackage) }}'
      file_name: 'doc.go'
  models:
    - name: definition
      source: asset:model
      target: '{{ joinFilePath .Target (toPackagePath .ModelPackage) }}'
      file_name: '{{ (snakize (pascalize .Name)) }}.go'
  operations:
    - name: parameters
      source: asset:serverParameter
      target: '{{ if .UseTags }}{{ joinFilePath .Target (toPackagePath .ServerPackage) (toPackagePath .APIPackage) (toPackagePath .Package) }}{{ else }}{{ joinFilePath .Target (toPackagePath .ServerPackage) (toPackagePath .Package) }}{{ end }}'
      file_name: '{{ (snakize (pascalize .Name)) }}_parameters.go'
    - name: urlbuilder
      source: asset:serverUrlbuilder
      target: '{{ if .UseTags }}{{ joinFilePath .Target (toPackagePath .ServerPackage) (toPackagePath .APIPackage) (toPackagePath .Package) }}{{ else }}{{ joinFilePath .Target (toPackagePath .ServerPackage) (toPackagePath .Package) }}{{ end }}'
      file_name: '{{ (snakize (pascalize .Name)) }}_urlbuilder.go'
    - name: responses
      source: asset:serverResponses
      target: '{{ if .UseTags }}{{ joinFilePath .Target (toPackagePath .ServerPackage) (toPackagePath .APIPackage) (toPackagePath .Package) }}{{ else }}{{ joinFilePath .Target (toPackagePath .ServerPackage) (toPackagePath .Package) }}{{ end }}'
      file_name: '{{ (snakize (pascalize .Name)) }}_responses.go'
    - name: handler
      source: asset:serverOperation
      target: '{{ if .UseTags }}{{ joinFilePath .Target (toPackagePath .ServerPackage) (toPackagePath .APIPackage) (toPackagePath .Package) }}{{ else }}{{ joinFilePath .Target (toPackagePath .ServerPackage) (toPackagePath .Package) }}{{ end }}'
      file_name: '{{ (snakize (pascalize .Name)) }}.go'
`

// ServerLayoutDoc is the same layout with the configure file named the way the template
// documentation spells it (docs/reference/templates/template_layout.md): the rendered name is
// not in file-name form yet when the application name is not a plain word.
var ServerLayoutDoc = strings.Replace(ServerLayout, "file_name: 'configure_{{ (snakize (pascalize .Name)) }}.go'", "file_name: 'configure_{{ .Name }}.go'", 1)

// WriteLayouts creates the configuration files under LayoutDir.
func WriteLayouts() error {
	if err := os.MkdirAll(LayoutDir, 0o755); err != nil {
		return err
	}
	if err := os.WriteFile(filepath.Join(LayoutDir, "server-layout-doc.yml"), []byte(ServerLayoutDoc), 0o644); err != nil {
		return err
	}
	return os.WriteFile(filepath.Join(LayoutDir, "server-layout.yml"), []byte(ServerLayout), 0o644)
}

// exclusive option groups: at most one member per step
var exclusive = [][]string{
	{"A=other", "A=title", "A=mixed"},
	{"flatten=full", "with-expand"},
	{"implementation-package", "template=stratoscale", "regenerate-configureapi", "config-file=layout", "config-file=layout-doc"},
	{"skip-handler", "skip-parameters", "skip-responses"}, // all three together render nothing
	{"skip-models", "M", "M=unknown"},
	{"skip-operations", "O", "tags", "tags=unknown"},
}

func optByID(id string) *optDef {
	for i := range optDefs {
		if optDefs[i].id == id {
			return &optDefs[i]
		}
	}
	return nil
}

func accepts(o *optDef, cmd string) bool {
	for _, c := range strings.Fields(o.cmds) {
		if c == cmd {
			return true
		}
	}
	return false
}

// Cmds is the ordered list of generate targets.
var Cmds = []string{"server", "client", "cli", "model", "operation", "support"}

// OptsFor lists the option atoms a command accepts.
func OptsFor(cmd string) []string {
	var out []string
	for i := range optDefs {
		if accepts(&optDefs[i], cmd) {
			out = append(out, optDefs[i].id)
		}
	}
	return out
}

// HasOpt reports whether the step carries the option.
func (s Step) HasOpt(id string) bool {
	for _, o := range s.Opts {
		if o == id {
			return true
		}
	}
	return false
}

// AppName returns the -A value of the step: the name, and whether -A is given.
func (s Step) AppName() (string, bool) {
	switch s.Cmd {
	case "model", "operation":
		return "", false
	}
	switch {
	case s.HasOpt("A=title"):
		return "", false
	case s.HasOpt("A=other"):
		return OtherName, true
	case s.HasOpt("A=mixed"):
		return MixedName, true
	}
	return BaseName, true
}

// Args resolves the step into the swagger arguments that follow
// "generate <cmd> -f <spec> [-t <target>]".
func (s Step) Args(doc jx.J) []string {
	var out []string
	if n, ok := s.AppName(); ok {
		out = append(out, "-A", n)
	}
	opts := append([]string(nil), s.Opts...)
	sort.Strings(opts)
	for k, id := range opts {
		o := optByID(id)
		if o == nil || o.args == nil {
			continue
		}
		out = append(out, o.args(ResolveCtx{Doc: doc, Cmd: s.Cmd, Sel: s.Sel + k})...)
	}
	return out
}

// ---------------------------------------------------------------------------
// user actions

// UserFileClasses are the kinds of files a user adds. The executor decides the
// concrete path from the class and the current state of the tree.
var UserFileClasses = []string{
	"go-in-server-pkg",    // restapi/my_handlers.go
	"go-in-models-pkg",    // models/extra.go
	"lookalike-params",    // restapi/operations/foo_parameters.go (no such operation)
	"lookalike-in-tag",    // restapi/operations/<tag>/foo_responses.go
	"lookalike-model",     // models/foo_bar.go (no such definition)
	"lookalike-handler",   // restapi/operations/foo.go
	"test-sibling",        // <generated file>_test.go next to a generated file
	"case-variant",        // a generated file's name with an upper-case initial
	"readme",              // README.md at the target root
	"nested-dir",          // docs/notes/design.txt
	"user-cmd",            // cmd/tool/main.go
	"go-in-client-pkg",    // client/my_transport.go
	"go-in-cli-pkg",       // cli/extra_cmd.go
	"go-in-main-pkg",      // a second file in the generated main package
	"dotfile",             // .gitignore
	"executable",          // scripts/regen.sh, mode 0755
	"makefile",            // Makefile
	"precreated-config",   // restapi/configure_<other name>.go written by hand before any generation for that name
	"go-in-custom-pkgs",   // internal/rest/my_handlers.go, dto/extra.go, sdk/my_transport.go
	"backup-of-generated", // <generated file>.orig
}

// UserActs lists every user action atom.
func UserActs() []string {
	out := []string{"bundle", "edit-configure", "edit-generated:comment", "edit-generated:garbage", "edit-generated:truncate",
		"delete-generated", "delete-generated-dir", "delete-configure", "edit-user-file", "chmod-generated"}
	for _, c := range UserFileClasses {
		out = append(out, "add:"+c)
	}
	return out
}

// ---------------------------------------------------------------------------
// pass A: the fixed catalogue

func gen(cmd string, opts ...string) Step {
	sort.Strings(opts)
	return Step{Kind: "gen", Cmd: cmd, Opts: opts}
}
func user(act string, sel int) Step   { return Step{Kind: "user", Act: act, Sel: sel} }
func specS(edit string, sel int) Step { return Step{Kind: "spec", Edit: edit, Sel: sel} }

// Priors are the prior-state classes of the catalogue.
var Priors = []string{"empty+user-files", "server+edits", "client+edits", "cli+edits", "server-customised+edits", "client-customised+edits"}

func prefix(prior string) []Step {
	switch prior {
	case "empty+user-files":
		return []Step{user("bundle", 0)}
	case "server+edits":
		return []Step{gen("server"), user("bundle", 1)}
	case "client+edits":
		return []Step{gen("client"), user("bundle", 2)}
	case "cli+edits":
		return []Step{gen("cli"), user("bundle", 3)}
	case "server-customised+edits":
		return []Step{gen("server", "a=pkg", "m=pkg", "s=pkg"), user("bundle", 4)}
	case "client-customised+edits":
		return []Step{gen("client", "c=pkg", "m=pkg"), user("bundle", 5)}
	}
	return nil
}

// Catalogue returns the seed-independent histories of pass A. full adds the
// cross product of spec evolution operators with every generate atom.
func Catalogue(full bool) []History {
	var hs []History
	specs := BaseSpecs()
	forceSpec := ""
	add := func(atom, prior string, steps []Step) {
		// spec and layout are a function of the history's content, so that adding
		// an atom to the catalogue does not move the others to another spec
		i := len(hs)
		f := fnv.New32a()
		for _, s := range steps {
			f.Write([]byte(s.Atom() + ";"))
		}
		hv := int(f.Sum32() >> 4)
		layout := "subdir"
		if hv%3 == 1 {
			layout = "root"
		}
		spec := specs[(hv/3)%len(specs)].ID
		if forceSpec != "" {
			spec = forceSpec
		}
		hs = append(hs, History{ID: fmt.Sprintf("A%03d", i), Pass: "A", Atom: atom, Prior: prior,
			Spec: spec, Layout: layout, Steps: steps})
	}
	type ga struct {
		cmd string
		opt string
	}
	var gas []ga
	for _, cmd := range Cmds {
		gas = append(gas, ga{cmd, ""})
		for _, o := range OptsFor(cmd) {
			gas = append(gas, ga{cmd, o})
		}
	}
	mk := func(g ga, sel int) Step {
		s := gen(g.cmd)
		if g.opt != "" {
			s = gen(g.cmd, g.opt)
		}
		s.Sel = sel
		return s
	}
	// 1. every generate atom in two or three prior states
	for gi, g := range gas {
		for pi, prior := range []string{"empty+user-files", "server+edits", "client+edits"} {
			if !full {
				clientSide := g.cmd == "client" || g.cmd == "cli" || g.cmd == "model"
				if prior == "client+edits" && !clientSide {
					continue
				}
				if g.cmd == "cli" && g.opt != "" && prior != "client+edits" {
					continue // generate cli is ten times dearer than the other targets
				}
				if prior == "empty+user-files" && g.opt != "" && !strings.Contains("A=other A=title s=pkg m=pkg a=pkg c=pkg main-package skip-tag-packages implementation-package cli-app-name config-file=layout", g.opt) {
					continue // quick tier: only the options that move files
				}
			}
			s := mk(g, gi+pi)
			add(s.Atom(), prior, append(prefix(prior), s))
		}
	}
	// 2. the option-less atom of every command in the remaining prior states, on
	// the least regular document (tagged and untagged operations, allOf, two
	// media types)
	forceSpec = "tickets"
	for _, cmd := range Cmds {
		for _, prior := range []string{"cli+edits", "server-customised+edits"} {
			s := gen(cmd)
			add(s.Atom(), prior, append(prefix(prior), s))
		}
	}
	// same options as the customised prior: the regeneration a user would really run
	for _, cmd := range []string{"server", "support", "operation"} {
		s := gen(cmd, "a=pkg", "m=pkg", "s=pkg")
		add(s.Atom(), "server-customised+edits", append(prefix("server-customised+edits"), s))
	}
	// a target generated with non-default client packages, regenerated with and without them
	for _, cmd := range []string{"client", "cli"} {
		s := gen(cmd)
		add(s.Atom(), "client-customised+edits", append(prefix("client-customised+edits"), s))
		s = gen(cmd, "c=pkg", "m=pkg")
		add(s.Atom(), "client-customised+edits", append(prefix("client-customised+edits"), s))
	}
	forceSpec = ""
	// 3. spec evolution between two generations
	for ei, e := range SpecEdits {
		for gi, g := range gas {
			if !full && g.opt != "" {
				continue
			}
			if g.cmd == "cli" && g.opt != "" && g.opt != "tags" && g.opt != "M" {
				continue
			}
			if g.cmd == "cli" && !full && e != "gain-op" && e != "lose-op" {
				continue
			}
			if g.opt != "" && (gi+ei)%7 > 2 {
				continue // thorough tier: every optioned atom meets three of the seven operators
			}
			for sel := 0; sel < 2; sel++ {
				if sel == 1 && (g.cmd != "server" || g.opt != "") {
					continue
				}
				first := gen("server")
				if g.cmd == "client" || g.cmd == "cli" {
					first = gen(g.cmd)
				}
				s := mk(g, gi+sel)
				add("spec:"+e, "generated+"+e, []Step{first, user("bundle", ei), specS(e, sel+gi), s})
			}
		}
	}
	// 3b. the same optioned command before and after the spec changes: the regeneration a user
	// who settled on an option really runs
	for oi, o := range []string{"implementation-package", "template=stratoscale", "skip-tag-packages", "A=other", "main-package", "strict-responders", "principal", "flag-strategy=pflag", "exclude-spec", "keep-spec-order"} {
		for ei, e := range []string{"gain-op", "lose-op", "gain-def", "retitle"} {
			if !full && (ei > 0 || oi > 3) && !(ei == 1 && oi == 0) {
				continue
			}
			s := gen("server", o)
			s.Sel = oi
			s2 := s
			add("spec:"+e+"/same-opts", "generated-with-"+o+"+"+e, []Step{s, user("bundle", oi+ei), specS(e, oi+ei), s2})
		}
	}
	for oi, o := range []string{"c=pkg", "skip-tag-packages", "template=stratoscale", "A=other"} {
		for ei, e := range []string{"gain-op", "lose-op"} {
			if !full && (ei > 0 || oi > 1) {
				continue
			}
			s := gen("client", o)
			s.Sel = oi
			add("spec:"+e+"/same-opts", "generated-with-"+o+"+"+e, []Step{s, user("bundle", oi+ei), specS(e, oi+ei), s})
		}
	}
	// 4. every user action between two generations of the same kind
	for ui, a := range UserActs() {
		for _, cmd := range []string{"server", "client", "cli"} {
			if cmd != "server" && (a == "edit-configure" || a == "delete-configure") {
				continue
			}
			if cmd == "cli" && (!full || !strings.Contains("bundle add:go-in-cli-pkg add:go-in-client-pkg add:test-sibling add:backup-of-generated edit-generated:comment edit-generated:garbage delete-generated delete-generated-dir", a)) {
				continue // generate cli is ten times dearer than the other targets
			}
			add("user:"+a, cmd+"-generated", []Step{gen(cmd), user(a, ui), gen(cmd)})
		}
		cfgRelated := a == "bundle" || a == "edit-configure" || a == "delete-configure" || a == "add:precreated-config" || a == "add:go-in-server-pkg" || a == "add:test-sibling"
		if full || cfgRelated {
			add("user:"+a, "server-generated", []Step{gen("server"), user(a, ui+1), gen("support")})
			add("user:"+a, "server-generated", []Step{gen("server"), user(a, ui+2), gen("server", "regenerate-configureapi")})
		}
	}
	// 5. two applications in one target, and explicit regeneration of only one of them
	add("gen:server/A=other", "two-apps", []Step{gen("server"), user("edit-configure", 0), gen("server", "A=other"), user("edit-configure", 1), gen("server", "A=other", "regenerate-configureapi")})
	add("gen:server/A=title", "two-apps", []Step{gen("server", "A=title"), user("edit-configure", 0), specS("retitle", 0), gen("server", "A=title"), gen("server", "A=title", "regenerate-configureapi")})
	add("gen:support/-", "support-first", []Step{gen("support"), user("edit-configure", 0), gen("server"), gen("support")})
	add("gen:server/implementation-package", "configure-exists", []Step{gen("server"), user("edit-configure", 0), gen("server", "implementation-package"), gen("server")})
	add("gen:server/config-file=layout", "configure-exists", []Step{gen("server", "config-file=layout"), user("edit-configure", 0), gen("server", "config-file=layout"), specS("gain-op", 0), gen("server", "config-file=layout")})
	// an application name that is mangled on its way to the file name, with the built-in layout
	// and with configuration files naming the configure file in both documented spellings
	for _, lay := range []string{"", "config-file=layout", "config-file=layout-doc"} {
		opts := []string{"A=mixed"}
		id := "gen:server/A=mixed"
		if lay != "" {
			opts = append(opts, lay)
			id += "+" + lay
		}
		add(id, "configure-exists", []Step{gen("server", opts...), user("edit-configure", 0), gen("server", opts...), specS("gain-op", 0), gen("server", opts...)})
	}
	add("gen:support/config-file=layout-doc+A=mixed", "configure-exists", []Step{gen("server", "A=mixed", "config-file=layout-doc"), user("edit-configure", 1), gen("support", "A=mixed", "config-file=layout-doc")})
	add("gen:support/config-file=layout", "configure-exists", []Step{gen("server", "config-file=layout"), user("edit-configure", 1), gen("support", "config-file=layout")})
	add("gen:server/template=stratoscale", "configure-exists", []Step{gen("server"), user("edit-configure", 0), gen("server", "template=stratoscale"), gen("server")})
	return hs
}

// ---------------------------------------------------------------------------
// pass B: seeded histories

func weighted(rng *rand.Rand, items []string, weights []int) string {
	t := 0
	for _, w := range weights {
		t += w
	}
	r := rng.Intn(t)
	for i, w := range weights {
		if r < w {
			return items[i]
		}
		r -= w
	}
	return items[len(items)-1]
}

func conflicts(have []string, cand string) bool {
	for _, grp := range exclusive {
		in := false
		for _, g := range grp {
			if g == cand {
				in = true
			}
		}
		if !in {
			continue
		}
		for _, h := range have {
			for _, g := range grp {
				if g == h {
					return true
				}
			}
		}
	}
	for _, h := range have {
		if h == cand {
			return true
		}
	}
	return false
}

// Random draws one history of 4-10 steps. ok tells whether an atom (Step.Atom of
// a single-option step, "user:<act>", "spec:<edit>") held in pass A.
func Random(rng *rand.Rand, id string, ok func(atom string) bool) History {
	specs := BaseSpecs()
	h := History{ID: id, Pass: "B", Spec: specs[rng.Intn(len(specs))].ID, Layout: []string{"subdir", "root"}[rng.Intn(2)]}
	n := 4 + rng.Intn(7)
	acts := UserActs()
	// a history has a "house style": options that the user passes on most runs
	var house []string
	if rng.Intn(3) == 0 {
		house = append(house, []string{"s=pkg", "m=pkg", "a=pkg", "skip-tag-packages", "A=other", "A=title"}[rng.Intn(6)])
	}
	var since []string // user/spec atoms since the previous generate step
	randGen := func() Step {
		for try := 0; ; try++ {
			cmd := weighted(rng, Cmds, []int{42, 15, 5, 11, 12, 15})
			if !ok("gen:" + cmd + "/-") {
				if try > 50 {
					return Step{Kind: "user", Act: "add:readme"}
				}
				continue
			}
			avail := OptsFor(cmd)
			var opts []string
			for _, hopt := range house {
				if o := optByID(hopt); o != nil && accepts(o, cmd) && rng.Intn(5) > 0 && ok("gen:"+cmd+"/"+hopt) {
					opts = append(opts, hopt)
				}
			}
			k := []int{0, 0, 0, 1, 1, 1, 1, 2, 2, 3}[rng.Intn(10)]
			for j := 0; j < k && len(avail) > 0; j++ {
				c := avail[rng.Intn(len(avail))]
				if conflicts(opts, c) || !ok("gen:"+cmd+"/"+c) {
					continue
				}
				opts = append(opts, c)
			}
			// pairs (user/spec action, generate atom) that did not hold in pass A
			bad := false
			for _, prev := range since {
				if !ok("pair:" + prev + ">gen:" + cmd + "/-") {
					bad = true
				}
				for _, o := range opts {
					if !ok("pair:" + prev + ">gen:" + cmd + "/" + o) {
						bad = true
					}
				}
			}
			if bad && try < 50 {
				continue
			}
			s := gen(cmd, opts...)
			s.Sel = rng.Intn(1000)
			return s
		}
	}
	for i := 0; i < n; i++ {
		kind := weighted(rng, []string{"gen", "user", "spec"}, []int{50, 32, 18})
		if i == 0 && rng.Intn(5) > 0 {
			kind = "gen"
		}
		if i == n-1 {
			kind = "gen" // a history ends with a judged step
		}
		switch kind {
		case "gen":
			h.Steps = append(h.Steps, randGen())
			since = nil
		case "user":
			for try := 0; try < 50; try++ {
				a := acts[rng.Intn(len(acts))]
				if a == "bundle" && rng.Intn(3) > 0 {
					continue
				}
				if ok("user:" + a) {
					h.Steps = append(h.Steps, user(a, rng.Intn(1000)))
					since = append(since, "user:"+a)
					break
				}
			}
		case "spec":
			for try := 0; try < 50; try++ {
				e := SpecEdits[rng.Intn(len(SpecEdits))]
				if ok("spec:" + e) {
					h.Steps = append(h.Steps, specS(e, rng.Intn(1000)))
					since = append(since, "spec:"+e)
					break
				}
			}
		}
	}
	return h
}
