// Package histgen provides the workload of check C11: small realistic Swagger 2.0
// documents, spec evolution operators, the step/option atoms and the catalogue and
// seeded generators of regeneration histories.
package histgen

import (
	"sort"
	"strings"

	"verif/rig/jx"
)

// ---------------------------------------------------------------------------
// spec construction helpers

func ref(n string) jx.J { return jx.J{"$ref": "#/definitions/" + n} }

func arrOf(items any) jx.J { return jx.J{"type": "array", "items": items} }

func resp(desc string, schema any) jx.J {
	r := jx.J{"description": desc}
	if schema != nil {
		r["schema"] = schema
	}
	return r
}

func qp(name, typ, format string, more jx.J) jx.J {
	p := jx.J{"name": name, "in": "query", "type": typ}
	if format != "" {
		p["format"] = format
	}
	for k, v := range more {
		p[k] = v
	}
	return p
}

func pp(name, typ, format string) jx.J {
	p := jx.J{"name": name, "in": "path", "required": true, "type": typ}
	if format != "" {
		p["format"] = format
	}
	return p
}

func hp(name, typ string, required bool) jx.J {
	return jx.J{"name": name, "in": "header", "type": typ, "required": required}
}

func bp(schema any) jx.J {
	return jx.J{"name": "body", "in": "body", "required": true, "schema": schema}
}

func op(id string, tags []string, params jx.A, responses jx.J) jx.J {
	o := jx.J{"operationId": id, "responses": responses}
	if len(tags) > 0 {
		t := jx.A{}
		for _, s := range tags {
			t = append(t, s)
		}
		o["tags"] = t
	}
	if len(params) > 0 {
		o["parameters"] = params
	}
	return o
}

func obj(required []string, props jx.J) jx.J {
	o := jx.J{"type": "object", "properties": props}
	if len(required) > 0 {
		r := jx.A{}
		for _, s := range required {
			r = append(r, s)
		}
		o["required"] = r
	}
	return o
}

func str(more jx.J) jx.J {
	s := jx.J{"type": "string"}
	for k, v := range more {
		s[k] = v
	}
	return s
}

func integer(format string, more jx.J) jx.J {
	s := jx.J{"type": "integer"}
	if format != "" {
		s["format"] = format
	}
	for k, v := range more {
		s[k] = v
	}
	return s
}

func tagList(names ...string) jx.A {
	out := jx.A{}
	for _, n := range names {
		out = append(out, jx.J{"name": n, "description": "operations on " + n})
	}
	return out
}

// SpecInfo is one base document.
type SpecInfo struct {
	ID  string
	Doc jx.J
}

// BaseSpecs returns the fixed base documents (fresh trees on every call).
func BaseSpecs() []SpecInfo {
	return []SpecInfo{
		{"inventory", inventory()},
		{"library", library()},
		{"tickets", tickets()},
		{"telemetry", telemetry()},
	}
}

// BaseSpec returns the base document with the given id (nil if unknown).
func BaseSpec(id string) jx.J {
	for _, s := range BaseSpecs() {
		if s.ID == id {
			return s.Doc
		}
	}
	return nil
}

func errResp() jx.J { return resp("unexpected error", ref("Error")) }

func inventory() jx.J {
	return jx.J{
		"swagger":  "2.0",
		"info":     jx.J{"title": "Inventory Service", "version": "1.0.0", "description": "warehouse stock keeping"},
		"basePath": "/v1",
		"schemes":  jx.A{"http"},
		"consumes": jx.A{"application/json"},
		"produces": jx.A{"application/json"},
		"tags":     tagList("widgets", "orders"),
		"paths": jx.J{
			"/widgets": jx.J{
				"get": op("listWidgets", []string{"widgets"}, jx.A{
					qp("limit", "integer", "int32", jx.J{"default": 20, "maximum": 100}),
					qp("colour", "string", "", jx.J{"enum": jx.A{"red", "green", "blue"}}),
				}, jx.J{"200": resp("the widgets", arrOf(ref("Widget"))), "default": errResp()}),
				"post": op("createWidget", []string{"widgets"}, jx.A{bp(ref("Widget"))},
					jx.J{"201": resp("created", ref("Widget")), "default": errResp()}),
			},
			"/widgets/{id}": jx.J{
				"parameters": jx.A{pp("id", "integer", "int64")},
				"get": op("getWidget", []string{"widgets"}, nil,
					jx.J{"200": resp("the widget", ref("Widget")), "404": resp("not found", nil), "default": errResp()}),
				"delete": op("deleteWidget", []string{"widgets"}, jx.A{hp("If-Match", "string", false)},
					jx.J{"204": resp("deleted", nil), "default": errResp()}),
			},
			"/orders": jx.J{
				"post": op("placeOrder", []string{"orders"}, jx.A{bp(ref("Order"))},
					jx.J{"201": resp("placed", ref("Order")), "422": resp("rejected", ref("Error"))}),
			},
			"/status": jx.J{
				"get": op("getStatus", nil, nil, jx.J{"200": resp("service status", obj(nil, jx.J{"up": jx.J{"type": "boolean"}}))}),
			},
			"/orders/{orderId}": jx.J{
				"get": op("getOrder", []string{"orders"}, jx.A{pp("orderId", "string", "uuid")},
					jx.J{"200": resp("the order", ref("Order")), "404": resp("not found", nil)}),
			},
		},
		"definitions": jx.J{
			"Widget": obj([]string{"name"}, jx.J{
				"id":     integer("int64", jx.J{"readOnly": true}),
				"name":   str(jx.J{"minLength": 1, "maxLength": 64}),
				"colour": str(jx.J{"enum": jx.A{"red", "green", "blue"}}),
				"tags":   arrOf(str(nil)),
				"weight": jx.J{"type": "number", "format": "double", "minimum": 0},
			}),
			"Order": obj([]string{"lines"}, jx.J{
				"id":      str(jx.J{"format": "uuid"}),
				"placed":  str(jx.J{"format": "date-time"}),
				"lines":   jx.J{"type": "array", "minItems": 1, "items": ref("OrderLine")},
				"address": ref("Address"),
			}),
			"OrderLine": obj([]string{"widget", "quantity"}, jx.J{
				"widget":   ref("Widget"),
				"quantity": integer("int32", jx.J{"minimum": 1}),
			}),
			"Address": obj(nil, jx.J{
				"street":  str(nil),
				"city":    str(nil),
				"country": str(jx.J{"pattern": "^[A-Z]{2}$"}),
			}),
			"Error": obj([]string{"message"}, jx.J{
				"code":    integer("int32", nil),
				"message": str(nil),
			}),
			"LegacyRecord": obj(nil, jx.J{"payload": str(nil), "version": integer("", nil)}),
		},
	}
}

func library() jx.J {
	return jx.J{
		"swagger":  "2.0",
		"info":     jx.J{"title": "book library", "version": "0.3"},
		"host":     "library.example.org",
		"basePath": "/api",
		"schemes":  jx.A{"https", "http"},
		"consumes": jx.A{"application/json"},
		"produces": jx.A{"application/json"},
		"tags":     tagList("books", "members", "loans"),
		"securityDefinitions": jx.J{
			"apiKey": jx.J{"type": "apiKey", "in": "header", "name": "X-Library-Key"},
		},
		"paths": jx.J{
			"/books": jx.J{
				"get": op("searchBooks", []string{"books"}, jx.A{
					qp("q", "string", "", jx.J{"minLength": 2}),
					qp("author", "array", "", jx.J{"items": jx.J{"type": "string"}, "collectionFormat": "csv"}),
					qp("page", "integer", "int32", jx.J{"minimum": 1, "default": 1}),
				}, jx.J{"200": resp("page of books", ref("BookPage"))}),
				"post": func() jx.J {
					o := op("addBook", []string{"books"}, jx.A{bp(ref("Book"))},
						jx.J{"201": resp("added", ref("Book")), "400": resp("invalid", ref("Problem"))})
					o["security"] = jx.A{jx.J{"apiKey": jx.A{}}}
					return o
				}(),
			},
			"/books/{isbn}": jx.J{
				"get": op("getBook", []string{"books"}, jx.A{pp("isbn", "string", "")},
					jx.J{"200": resp("book", ref("Book")), "404": resp("unknown", ref("Problem"))}),
			},
			"/members": jx.J{
				"post": op("registerMember", []string{"members"}, jx.A{
					jx.J{"name": "name", "in": "formData", "type": "string", "required": true},
					jx.J{"name": "email", "in": "formData", "type": "string", "format": "email"},
				}, jx.J{"201": resp("registered", ref("Member"))}),
			},
			"/members/{memberId}/loans": jx.J{
				"parameters": jx.A{pp("memberId", "integer", "int64")},
				"get": op("listLoans", []string{"loans", "members"}, jx.A{qp("open", "boolean", "", nil)},
					jx.J{"200": resp("loans", arrOf(ref("Loan")))}),
				"post": op("borrowBook", []string{"loans"}, jx.A{bp(obj([]string{"isbn"}, jx.J{"isbn": str(nil), "days": integer("int32", jx.J{"default": 14})}))},
					jx.J{"201": resp("loan", ref("Loan")), "409": resp("not available", ref("Problem"))}),
			},
		},
		"definitions": jx.J{
			"Book": obj([]string{"isbn", "title"}, jx.J{
				"isbn":    str(jx.J{"pattern": "^[0-9-]{10,17}$"}),
				"title":   str(nil),
				"authors": arrOf(ref("Author")),
				"year":    integer("int32", jx.J{"minimum": 1400}),
			}),
			"Author": obj([]string{"name"}, jx.J{"name": str(nil), "born": str(jx.J{"format": "date"})}),
			"BookPage": obj(nil, jx.J{
				"items": arrOf(ref("Book")),
				"total": integer("int64", nil),
				"next":  str(jx.J{"format": "uri"}),
			}),
			"Member": obj([]string{"name"}, jx.J{
				"id":    integer("int64", nil),
				"name":  str(nil),
				"email": str(jx.J{"format": "email"}),
			}),
			"Loan": obj(nil, jx.J{
				"book":   ref("Book"),
				"member": ref("Member"),
				"due":    str(jx.J{"format": "date"}),
				"state":  str(jx.J{"enum": jx.A{"open", "returned", "overdue"}}),
			}),
			"Problem":      obj(nil, jx.J{"title": str(nil), "status": integer("int32", nil), "detail": str(nil)}),
			"LegacyRecord": obj(nil, jx.J{"payload": str(nil)}),
		},
	}
}

func tickets() jx.J {
	return jx.J{
		"swagger":  "2.0",
		"info":     jx.J{"title": "Tickets", "version": "2"},
		"basePath": "/",
		"consumes": jx.A{"application/json"},
		"produces": jx.A{"application/json", "text/plain"},
		"paths": jx.J{
			"/tickets": jx.J{
				"get": op("listTickets", nil, jx.A{
					qp("status", "string", "", jx.J{"enum": jx.A{"open", "closed"}}),
					qp("since", "string", "date-time", nil),
				}, jx.J{"200": resp("tickets", arrOf(ref("Ticket")))}),
				"post": op("openTicket", nil, jx.A{bp(ref("NewTicket"))},
					jx.J{"201": resp("opened", ref("Ticket")), "default": resp("error", ref("Fault"))}),
			},
			"/tickets/{ticketId}": jx.J{
				"parameters": jx.A{pp("ticketId", "integer", "int64")},
				"get": op("getTicket", nil, nil,
					jx.J{"200": resp("ticket", ref("Ticket")), "404": resp("missing", nil)}),
				"patch": op("updateTicket", []string{"admin"}, jx.A{bp(ref("TicketPatch"))},
					jx.J{"200": resp("updated", ref("Ticket")), "default": resp("error", ref("Fault"))}),
			},
			"/tickets/{ticketId}/comments": jx.J{
				"post": op("addComment", []string{"comments"}, jx.A{pp("ticketId", "integer", "int64"), bp(ref("Comment"))},
					jx.J{"201": resp("added", ref("Comment"))}),
			},
			"/ping": jx.J{
				"get": func() jx.J {
					o := op("ping", nil, nil, jx.J{"200": resp("pong", str(nil))})
					o["produces"] = jx.A{"text/plain"}
					return o
				}(),
			},
		},
		"definitions": jx.J{
			"NewTicket": obj([]string{"subject"}, jx.J{
				"subject":  str(jx.J{"minLength": 3}),
				"body":     str(nil),
				"priority": integer("int32", jx.J{"minimum": 1, "maximum": 5, "default": 3}),
			}),
			"Ticket": jx.J{"allOf": jx.A{ref("NewTicket"), obj([]string{"id"}, jx.J{
				"id":       integer("int64", nil),
				"status":   str(jx.J{"enum": jx.A{"open", "closed"}}),
				"comments": arrOf(ref("Comment")),
			})}},
			"TicketPatch": obj(nil, jx.J{
				"status":   str(jx.J{"enum": jx.A{"open", "closed"}}),
				"assignee": str(jx.J{"x-nullable": true}),
			}),
			"Comment": obj([]string{"text"}, jx.J{
				"author": str(nil),
				"text":   str(nil),
				"at":     str(jx.J{"format": "date-time"}),
			}),
			"Fault":        obj(nil, jx.J{"reason": str(nil)}),
			"LegacyRecord": obj(nil, jx.J{"payload": str(nil)}),
		},
	}
}

func telemetry() jx.J {
	return jx.J{
		"swagger":  "2.0",
		"info":     jx.J{"title": "Telemetry-API v2", "version": "2.1.0", "license": jx.J{"name": "Apache-2.0"}},
		"basePath": "/telemetry",
		"schemes":  jx.A{"https"},
		"consumes": jx.A{"application/json"},
		"produces": jx.A{"application/json"},
		"tags":     tagList("devices", "readings"),
		"paths": jx.J{
			"/devices": jx.J{
				"get": op("listDevices", []string{"devices"}, jx.A{qp("kind", "string", "", nil)},
					jx.J{"200": resp("devices", arrOf(ref("Device")))}),
			},
			"/devices/{deviceId}": jx.J{
				"parameters": jx.A{pp("deviceId", "string", "uuid")},
				"get": op("getDevice", []string{"devices"}, nil,
					jx.J{"200": resp("device", ref("Device")), "404": resp("unknown", ref("ApiError"))}),
				"put": op("replaceDevice", []string{"devices"}, jx.A{bp(ref("Device"))},
					jx.J{"200": resp("device", ref("Device")), "default": resp("error", ref("ApiError"))}),
			},
			"/version": jx.J{
				"get": op("getVersion", nil, nil, jx.J{"200": resp("version", ref("SemVer"))}),
			},
			"/devices/{deviceId}/readings": jx.J{
				"parameters": jx.A{pp("deviceId", "string", "uuid")},
				"get": op("queryReadings", []string{"readings"}, jx.A{
					qp("from", "string", "date-time", jx.J{"required": true}),
					qp("to", "string", "date-time", nil),
					qp("metric", "array", "", jx.J{"items": jx.J{"type": "string"}, "collectionFormat": "multi"}),
				}, jx.J{"200": resp("readings", arrOf(ref("Reading"))), "default": resp("error", ref("ApiError"))}),
				"post": op("pushReadings", []string{"readings"}, jx.A{bp(arrOf(ref("Reading"))), hp("X-Batch-Id", "string", true)},
					jx.J{"202": resp("accepted", nil), "default": resp("error", ref("ApiError"))}),
			},
		},
		"definitions": jx.J{
			"Device": obj([]string{"id", "kind"}, jx.J{
				"id":       str(jx.J{"format": "uuid"}),
				"kind":     str(jx.J{"enum": jx.A{"sensor", "gateway"}}),
				"labels":   jx.J{"type": "object", "additionalProperties": jx.J{"type": "string"}},
				"location": ref("GeoPosition"),
				"firmware": ref("SemVer"),
			}),
			"GeoPosition": obj([]string{"lat", "lon"}, jx.J{
				"lat": jx.J{"type": "number", "minimum": -90, "maximum": 90},
				"lon": jx.J{"type": "number", "minimum": -180, "maximum": 180},
			}),
			"SemVer": str(jx.J{"pattern": `^\d+\.\d+\.\d+$`}),
			"Reading": obj([]string{"metric", "value", "at"}, jx.J{
				"metric": str(nil),
				"value":  jx.J{"type": "number", "format": "double"},
				"at":     str(jx.J{"format": "date-time"}),
				"unit":   str(jx.J{"x-nullable": true}),
			}),
			"ReadingBatch": obj(nil, jx.J{"readings": arrOf(ref("Reading")), "count": integer("int32", nil)}),
			"ApiError":     obj([]string{"code"}, jx.J{"code": str(nil), "details": jx.J{"type": "object", "additionalProperties": true}}),
			"LegacyRecord": obj(nil, jx.J{"payload": str(nil)}),
		},
	}
}

// ---------------------------------------------------------------------------
// inspection

var methods = []string{"get", "put", "post", "delete", "options", "head", "patch"}

// OpRef locates one operation.
type OpRef struct {
	ID, Path, Method string
	Tags             []string
}

// Ops lists the operations of a document sorted by operation id.
func Ops(doc jx.J) []OpRef {
	var out []OpRef
	paths := jx.GetJ(doc, "paths")
	for p, pi := range paths {
		pim, ok := pi.(jx.J)
		if !ok {
			continue
		}
		for _, m := range methods {
			o, ok := pim[m].(jx.J)
			if !ok {
				continue
			}
			id, _ := o["operationId"].(string)
			var tags []string
			if ts, ok := o["tags"].(jx.A); ok {
				for _, t := range ts {
					if s, ok := t.(string); ok {
						tags = append(tags, s)
					}
				}
			}
			out = append(out, OpRef{ID: id, Path: p, Method: m, Tags: tags})
		}
	}
	sort.Slice(out, func(i, j int) bool { return out[i].ID < out[j].ID })
	return out
}

// Tags lists the tags used by at least one operation, sorted.
func Tags(doc jx.J) []string {
	set := map[string]bool{}
	for _, o := range Ops(doc) {
		for _, t := range o.Tags {
			set[t] = true
		}
	}
	out := jx.Keys(set)
	sort.Strings(out)
	return out
}

// Defs lists the definition names, sorted.
func Defs(doc jx.J) []string {
	out := jx.Keys(jx.GetJ(doc, "definitions"))
	sort.Strings(out)
	return out
}

func collectRefs(v any, into map[string]bool) {
	switch t := v.(type) {
	case jx.J:
		for k, x := range t {
			if k == "$ref" {
				if s, ok := x.(string); ok {
					into[strings.TrimPrefix(s, "#/definitions/")] = true
				}
				continue
			}
			collectRefs(x, into)
		}
	case jx.A:
		for _, x := range t {
			collectRefs(x, into)
		}
	}
}

// UnreferencedDefs lists the definitions no $ref points to, sorted.
func UnreferencedDefs(doc jx.J) []string {
	refs := map[string]bool{}
	collectRefs(doc, refs)
	var out []string
	for _, d := range Defs(doc) {
		if !refs[d] {
			out = append(out, d)
		}
	}
	return out
}

// ---------------------------------------------------------------------------
// evolution operators: each returns the new document and a short description, or
// ok=false when it does not apply to this document (the step is then a no-op).

type extraOp struct {
	id, path, method string
	tag              string // "" = untagged, "@first" = first tag in use, else a new tag
	build            func() jx.J
	defs             jx.J
}

func extraOps() []extraOp {
	return []extraOp{
		{id: "listAudit", path: "/audit", method: "get", tag: "audit",
			build: func() jx.J {
				return op("listAudit", nil, jx.A{qp("actor", "string", "", nil)}, jx.J{"200": resp("entries", arrOf(ref("AuditEntry")))})
			},
			defs: jx.J{"AuditEntry": obj([]string{"actor"}, jx.J{"actor": str(nil), "action": str(nil), "at": str(jx.J{"format": "date-time"})})}},
		{id: "getHealth", path: "/health", method: "get", tag: "",
			build: func() jx.J {
				return op("getHealth", nil, nil, jx.J{"200": resp("alive", nil), "503": resp("down", nil)})
			}},
		{id: "getReport", path: "/reports/{year}", method: "get", tag: "@first",
			build: func() jx.J {
				return op("getReport", nil, jx.A{pp("year", "integer", "int32"), qp("detailed", "boolean", "", nil)},
					jx.J{"200": resp("report", obj(nil, jx.J{"year": integer("int32", nil), "totals": jx.J{"type": "object", "additionalProperties": jx.J{"type": "integer"}}}))})
			}},
		{id: "bulkImport", path: "/bulk", method: "post", tag: "@first",
			build: func() jx.J {
				return op("bulkImport", nil, jx.A{bp(arrOf(str(nil)))}, jx.J{"202": resp("accepted", nil), "400": resp("bad input", nil)})
			}},
	}
}

func extraDefs() []struct {
	name string
	def  jx.J
} {
	return []struct {
		name string
		def  jx.J
	}{
		{"Attachment", obj([]string{"name"}, jx.J{"name": str(nil), "size": integer("int64", nil), "mime": str(nil)})},
		{"GeoPoint", obj(nil, jx.J{"lat": jx.J{"type": "number"}, "lon": jx.J{"type": "number"}})},
		{"AuditTrail", obj(nil, jx.J{"entries": arrOf(str(nil)), "sealed": jx.J{"type": "boolean"}})},
	}
}

// SpecEdits is the ordered list of evolution operator names.
var SpecEdits = []string{"gain-op", "lose-op", "gain-def", "lose-def", "gain-tag", "lose-tag", "retitle"}

// Evolve applies the named operator; sel selects among the candidates.
func Evolve(doc jx.J, edit string, sel int) (out jx.J, what string, ok bool) {
	d := jx.CloneJ(doc)
	if sel < 0 {
		sel = -sel
	}
	switch edit {
	case "gain-op":
		have := map[string]bool{}
		for _, o := range Ops(d) {
			have[o.ID] = true
		}
		var cands []extraOp
		for _, e := range extraOps() {
			if !have[e.id] {
				cands = append(cands, e)
			}
		}
		if len(cands) == 0 {
			return doc, "", false
		}
		e := cands[sel%len(cands)]
		o := e.build()
		switch e.tag {
		case "":
		case "@first":
			if ts := Tags(d); len(ts) > 0 {
				o["tags"] = jx.A{ts[0]}
			}
		default:
			o["tags"] = jx.A{e.tag}
		}
		paths := jx.GetJ(d, "paths")
		pi, _ := paths[e.path].(jx.J)
		if pi == nil {
			pi = jx.J{}
			paths[e.path] = pi
		}
		pi[e.method] = o
		defs := jx.GetJ(d, "definitions")
		for k, v := range e.defs {
			if _, exists := defs[k]; !exists {
				defs[k] = jx.Clone(v)
			}
		}
		return d, "spec gains operation " + e.id, true
	case "lose-op":
		ops := Ops(d)
		if len(ops) < 3 {
			return doc, "", false
		}
		o := ops[sel%len(ops)]
		paths := jx.GetJ(d, "paths")
		pi := paths[o.Path].(jx.J)
		delete(pi, o.Method)
		left := false
		for _, m := range methods {
			if _, ok := pi[m]; ok {
				left = true
			}
		}
		if !left {
			delete(paths, o.Path)
		}
		return d, "spec loses operation " + o.ID, true
	case "gain-def":
		defs := jx.GetJ(d, "definitions")
		var cands []int
		for i, e := range extraDefs() {
			if _, ok := defs[e.name]; !ok {
				cands = append(cands, i)
			}
		}
		if len(cands) == 0 {
			return doc, "", false
		}
		e := extraDefs()[cands[sel%len(cands)]]
		defs[e.name] = e.def
		return d, "spec gains definition " + e.name, true
	case "lose-def":
		un := UnreferencedDefs(d)
		if len(un) == 0 {
			return doc, "", false
		}
		n := un[sel%len(un)]
		delete(jx.GetJ(d, "definitions"), n)
		return d, "spec loses definition " + n, true
	case "gain-tag":
		ops := Ops(d)
		o := ops[sel%len(ops)]
		opj := jx.GetJ(d, "paths", o.Path, o.Method)
		opj["tags"] = jx.A{"extras"}
		return d, "operation " + o.ID + " moves to the new tag extras", true
	case "lose-tag":
		var tagged []OpRef
		for _, o := range Ops(d) {
			if len(o.Tags) > 0 {
				tagged = append(tagged, o)
			}
		}
		if len(tagged) == 0 {
			return doc, "", false
		}
		o := tagged[sel%len(tagged)]
		delete(jx.GetJ(d, "paths", o.Path, o.Method), "tags")
		return d, "operation " + o.ID + " loses its tags", true
	case "retitle":
		info := jx.GetJ(d, "info")
		t, _ := info["title"].(string)
		if strings.HasSuffix(t, " NG") {
			info["title"] = strings.TrimSuffix(t, " NG")
		} else {
			info["title"] = t + " NG"
		}
		return d, "info.title becomes " + info["title"].(string), true
	}
	return doc, "", false
}
