package core

import (
	"bufio"
	"bytes"
	"context"
	"encoding/json"
	"fmt"
	"io"
	"os"
	"os/exec"
	"path/filepath"
	"regexp"
	"sort"
	"strings"
	"sync"
	"syscall"
	"time"
)

// GoEnv is the environment every go invocation needs in this sandbox.
func GoEnv() []string {
	env := os.Environ()
	env = append(env, "GOFLAGS=-mod=mod", "GOPROXY=off", "GOSUMDB=off", "GOTOOLCHAIN=local", "CGO_ENABLED=0")
	return env
}

// Result of a child process.
type Result struct {
	Stdout   string
	Stderr   string
	Exit     int
	TimedOut bool
	Err      error
}

// Run executes a command with a generous watchdog. A watchdog expiry is reported
// through TimedOut and must be treated as inconclusive by callers.
func Run(dir string, env []string, timeout time.Duration, stdin string, name string, args ...string) Result {
	ctx, cancel := context.WithTimeout(context.Background(), timeout)
	defer cancel()
	cmd := exec.CommandContext(ctx, name, args...)
	cmd.Dir = dir
	if env != nil {
		cmd.Env = env
	}
	cmd.SysProcAttr = &syscall.SysProcAttr{Setpgid: true}
	cmd.Cancel = func() error {
		// kill the whole group
		return syscall.Kill(-cmd.Process.Pid, syscall.SIGKILL)
	}
	if stdin != "" {
		cmd.Stdin = strings.NewReader(stdin)
	}
	var so, se bytes.Buffer
	cmd.Stdout, cmd.Stderr = &so, &se
	err := cmd.Run()
	r := Result{Stdout: so.String(), Stderr: se.String(), Err: err}
	if ctx.Err() == context.DeadlineExceeded {
		r.TimedOut = true
		r.Exit = -1
		return r
	}
	if err != nil {
		if ee, ok := err.(*exec.ExitError); ok {
			r.Exit = ee.ExitCode()
		} else {
			r.Exit = -2
		}
	}
	return r
}

// BuildSwagger builds the swagger binary from the repository's current working
// tree (with the verif hooks on) into the scratch directory.
func (c *Ctx) BuildSwagger() string {
	out := filepath.Join(c.Scratch, "bin", "swagger")
	if _, err := os.Stat(out); err == nil {
		return out
	}
	_ = os.MkdirAll(filepath.Dir(out), 0o755)
	r := Run(c.Repo, GoEnv(), 15*time.Minute, "", "go", "build", "-tags", "verif", "-o", out, "./cmd/swagger")
	if r.Exit != 0 {
		fmt.Println("INCONCLUSIVE cannot build swagger from", c.Repo, ":", oneLine(r.Stderr))
		c.Cleanup()
		os.Exit(2)
	}
	return out
}

// Module is a scratch Go module whose go-swagger dependency is the repository
// working tree, so generated code resolves the pinned go-openapi versions offline.
type Module struct {
	Dir  string
	Path string // module path
}

// NewModule creates <scratch>/<name> as module "vfmod/<name>".
func (c *Ctx) NewModule(name string) *Module {
	dir := filepath.Join(c.Scratch, name)
	return c.NewModuleAt(dir, "vfmod/"+filepath.Base(name))
}

func (c *Ctx) NewModuleAt(dir, modpath string) *Module {
	_ = os.MkdirAll(dir, 0o755)
	gomod := fmt.Sprintf("module %s\n\ngo 1.21\n\nrequire github.com/go-swagger/go-swagger v0.0.0\n\nreplace github.com/go-swagger/go-swagger => %s\n", modpath, c.Repo)
	must(os.WriteFile(filepath.Join(dir, "go.mod"), []byte(gomod), 0o644))
	sum, err := os.ReadFile(filepath.Join(c.Repo, "go.sum"))
	must(err)
	must(os.WriteFile(filepath.Join(dir, "go.sum"), sum, 0o644))
	return &Module{Dir: dir, Path: modpath}
}

func must(err error) {
	if err != nil {
		fmt.Println("INCONCLUSIVE infrastructure:", err)
		os.Exit(2)
	}
}

// Must aborts the check as inconclusive on infrastructure errors.
func Must(err error) { must(err) }

var rxDiag = regexp.MustCompile(`^(\.?/?[^\s:]+\.go):(\d+):(\d+)?:? (.*)$`)

// GoBuild compiles packages of a module and returns the diagnostics grouped by
// the (module-relative) directory of the file they point to. ok is true when the
// build exited 0.
func (m *Module) GoBuild(timeout time.Duration, pkgs ...string) (ok bool, diags map[string][]string, raw string, timedOut bool) {
	args := append([]string{"build", "-gcflags=-e"}, pkgs...)
	r := Run(m.Dir, GoEnv(), timeout, "", "go", args...)
	diags = map[string][]string{}
	raw = r.Stderr + r.Stdout
	if r.TimedOut {
		return false, diags, raw, true
	}
	for _, line := range strings.Split(raw, "\n") {
		line = strings.TrimSpace(line)
		if line == "" || strings.HasPrefix(line, "#") {
			continue
		}
		if mm := rxDiag.FindStringSubmatch(line); mm != nil {
			d := filepath.Dir(strings.TrimPrefix(mm[1], "./"))
			diags[d] = append(diags[d], line)
		} else if strings.Contains(line, "too many errors") {
			continue
		} else {
			diags["?"] = append(diags["?"], line)
		}
	}
	return r.Exit == 0, diags, raw, false
}

// DiagsUnder returns the diagnostics whose directory is dir or below it.
func DiagsUnder(diags map[string][]string, dir string) []string {
	var out []string
	keys := make([]string, 0, len(diags))
	for k := range diags {
		keys = append(keys, k)
	}
	sort.Strings(keys)
	for _, k := range keys {
		if k == dir || strings.HasPrefix(k, dir+"/") {
			out = append(out, diags[k]...)
		}
	}
	return out
}

// ---------------------------------------------------------------------------
// Line-oriented child workers: one JSON request per line on stdin, one JSON
// answer per line on stdout. Each request carries "id"; the worker prints the
// id on stderr ("BEGIN <id>") before it starts working on it, so a crash
// (panic, fatal error, kill) is attributed to the request in flight.

type Req struct {
	ID   string
	Body any // marshalled with an added "id"
}

type Crash struct {
	ID     string
	Output string
	Killed bool // watchdog: inconclusive
}

// RunWorker feeds reqs to `bin args...`, restarting the child after a crash with
// the remaining requests. perReq is the watchdog per request.
func RunWorker(dir string, env []string, perReq time.Duration, bin string, args []string, reqs []map[string]any) (answers map[string]json.RawMessage, crashes []Crash) {
	answers = map[string]json.RawMessage{}
	pending := reqs
	for len(pending) > 0 {
		done, crash := runWorkerOnce(dir, env, perReq, bin, args, pending)
		for k, v := range done {
			answers[k] = v
		}
		if crash == nil {
			// child exited cleanly: anything unanswered is a protocol error
			var rest []map[string]any
			for _, r := range pending {
				if _, ok := answers[r["id"].(string)]; !ok {
					rest = append(rest, r)
				}
			}
			for _, r := range rest {
				crashes = append(crashes, Crash{ID: r["id"].(string), Output: "worker exited without answering", Killed: true})
			}
			return
		}
		crashes = append(crashes, *crash)
		var rest []map[string]any
		for _, r := range pending {
			id := r["id"].(string)
			if _, ok := answers[id]; ok || id == crash.ID {
				continue
			}
			rest = append(rest, r)
		}
		if len(rest) == len(pending) { // no progress (crash before any BEGIN)
			for _, r := range rest {
				crashes = append(crashes, Crash{ID: r["id"].(string), Output: "worker died before BEGIN: " + crash.Output, Killed: true})
			}
			return
		}
		pending = rest
	}
	return
}

func runWorkerOnce(dir string, env []string, perReq time.Duration, bin string, args []string, reqs []map[string]any) (map[string]json.RawMessage, *Crash) {
	cmd := exec.Command(bin, args...)
	cmd.Dir = dir
	if env != nil {
		cmd.Env = env
	}
	cmd.SysProcAttr = &syscall.SysProcAttr{Setpgid: true}
	stdin, _ := cmd.StdinPipe()
	stdout, _ := cmd.StdoutPipe()
	var se lockedBuf
	cmd.Stderr = &se
	if err := cmd.Start(); err != nil {
		return nil, &Crash{ID: "", Output: "cannot start worker: " + err.Error(), Killed: true}
	}
	answers := map[string]json.RawMessage{}
	lines := make(chan []byte, 16)
	go func() {
		rd := bufio.NewReaderSize(stdout, 1<<20)
		for {
			b, err := rd.ReadBytes('\n')
			if len(b) > 0 {
				lines <- append([]byte(nil), b...)
			}
			if err != nil {
				close(lines)
				return
			}
		}
	}()
	go func() {
		w := bufio.NewWriter(stdin)
		for _, r := range reqs {
			b, _ := json.Marshal(r)
			w.Write(b)
			w.WriteByte('\n')
			if w.Flush() != nil {
				break
			}
		}
		stdin.Close()
	}()
	timer := time.NewTimer(perReq)
	defer timer.Stop()
	killed := false
loop:
	for {
		select {
		case b, ok := <-lines:
			if !ok {
				break loop
			}
			var hdr struct {
				ID string `json:"id"`
			}
			if json.Unmarshal(b, &hdr) == nil && hdr.ID != "" {
				answers[hdr.ID] = json.RawMessage(bytes.TrimSpace(b))
			}
			if !timer.Stop() {
				select {
				case <-timer.C:
				default:
				}
			}
			timer.Reset(perReq)
		case <-timer.C:
			killed = true
			_ = syscall.Kill(-cmd.Process.Pid, syscall.SIGQUIT)
			time.Sleep(500 * time.Millisecond)
			_ = syscall.Kill(-cmd.Process.Pid, syscall.SIGKILL)
			break loop
		}
	}
	go func() { // drain
		for range lines {
		}
	}()
	err := cmd.Wait()
	if err == nil && !killed && len(answers) >= len(reqs) {
		return answers, nil
	}
	errText := se.String()
	// which request was in flight?
	last := ""
	for _, l := range strings.Split(errText, "\n") {
		if strings.HasPrefix(l, "BEGIN ") {
			id := strings.TrimSpace(strings.TrimPrefix(l, "BEGIN "))
			if _, ok := answers[id]; !ok {
				last = id
			}
		}
	}
	if err == nil && !killed && last == "" {
		return answers, nil
	}
	if len(errText) > 6000 {
		errText = errText[:3000] + "\n…\n" + errText[len(errText)-3000:]
	}
	return answers, &Crash{ID: last, Output: errText, Killed: killed}
}

type lockedBuf struct {
	mu sync.Mutex
	b  bytes.Buffer
}

func (l *lockedBuf) Write(p []byte) (int, error) {
	l.mu.Lock()
	defer l.mu.Unlock()
	if l.b.Len() > 4<<20 {
		return len(p), nil
	}
	return l.b.Write(p)
}
func (l *lockedBuf) String() string { l.mu.Lock(); defer l.mu.Unlock(); return l.b.String() }

// ServeWorker is the child side of RunWorker.
func ServeWorker(handle func(req json.RawMessage) any) {
	rd := bufio.NewReaderSize(os.Stdin, 1<<20)
	out := bufio.NewWriter(os.Stdout)
	for {
		b, err := rd.ReadBytes('\n')
		if len(bytes.TrimSpace(b)) > 0 {
			var hdr struct {
				ID string `json:"id"`
			}
			_ = json.Unmarshal(b, &hdr)
			fmt.Fprintf(os.Stderr, "BEGIN %s\n", hdr.ID)
			ans := handle(json.RawMessage(b))
			ab, merr := json.Marshal(ans)
			if merr != nil {
				ab, _ = json.Marshal(map[string]any{"id": hdr.ID, "marshal_error": merr.Error()})
			}
			out.Write(ab)
			out.WriteByte('\n')
			out.Flush()
		}
		if err != nil {
			if err != io.EOF {
				os.Exit(3)
			}
			return
		}
	}
}

// Parallel runs f over n indices on w goroutines.
func Parallel(n, w int, f func(i int)) {
	if w < 1 {
		w = 1
	}
	var wg sync.WaitGroup
	ch := make(chan int)
	for k := 0; k < w; k++ {
		wg.Add(1)
		go func() {
			defer wg.Done()
			for i := range ch {
				f(i)
			}
		}()
	}
	for i := 0; i < n; i++ {
		ch <- i
	}
	close(ch)
	wg.Wait()
}
