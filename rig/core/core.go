// Package core is the shared plumbing of the /verif runtime monitors: verdict
// accounting, known-findings matching, evidence and replay writers.
package core

import (
	"encoding/json"
	"fmt"
	"os"
	"path/filepath"
	"regexp"
	"sort"
	"strconv"
	"strings"
	"sync"
	"time"
)

// Finding is one entry of /verif/known-findings.json.
type Finding struct {
	Property string `json:"property"`
	Key      string `json:"key"`
	Status   string `json:"status"` // known | fixed
	Commit   string `json:"commit,omitempty"`
	What     string `json:"what"`
	Repro    string `json:"repro,omitempty"`
}

type violation struct {
	Key   string `json:"key"`
	What  string `json:"what"`
	Path  string `json:"replay,omitempty"`
	Known bool   `json:"known"`
}

// Ctx carries one check run.
type Ctx struct {
	Prop    string
	Tier    string
	Seed    int64
	Repo    string
	Verif   string
	Scratch string
	Replay  string // non-empty: replay mode, path of a violation directory
	Start   time.Time

	mu        sync.Mutex
	evals     int
	sigs      map[string]int
	samples   []any
	viols     map[string]*violation
	violOrder []string
	incon     []string
	notes     []string
	Extra     map[string]any
	known     map[string]Finding
	knownSeen map[string]bool
}

func envOr(k, d string) string {
	if v := os.Getenv(k); v != "" {
		return v
	}
	return d
}

// New parses the command line shared by every check binary:
//
//	<bin> [quick|thorough] | --replay <dir>
func New(prop string) *Ctx {
	c := &Ctx{Prop: prop, Tier: "quick", Seed: 1, Start: time.Now(),
		sigs: map[string]int{}, viols: map[string]*violation{}, Extra: map[string]any{},
		known: map[string]Finding{}, knownSeen: map[string]bool{}}
	c.Repo = envOr("VF_REPO", "/repo")
	c.Verif = envOr("VF_VERIF", "/verif")
	if t := os.Getenv("VERIF_TIER"); t == "quick" || t == "thorough" {
		c.Tier = t
	}
	args := os.Args[1:]
	for i := 0; i < len(args); i++ {
		switch args[i] {
		case "quick", "thorough":
			c.Tier = args[i]
		case "--replay":
			if i+1 < len(args) {
				c.Replay = args[i+1]
				i++
			}
		}
	}
	if s := os.Getenv("VERIF_SEED"); s != "" {
		if n, err := strconv.ParseInt(s, 10, 64); err == nil {
			c.Seed = n
		}
	}
	dir, err := os.MkdirTemp("", "vf."+strings.ToLower(prop)+".")
	if err != nil {
		fmt.Println("INCONCLUSIVE cannot create scratch:", err)
		os.Exit(2)
	}
	c.Scratch = dir
	// everything this process and its children put into the temp dir goes below the scratch
	// directory (swagger --keep-spec-order, for one, leaves go-swagger-* files behind)
	tmp := filepath.Join(dir, "tmp")
	if os.MkdirAll(tmp, 0o755) == nil {
		_ = os.Setenv("TMPDIR", tmp)
	}
	c.loadKnown()
	return c
}

func (c *Ctx) Thorough() bool { return c.Tier == "thorough" }

// Pick returns q for the quick tier and t for the thorough tier.
func (c *Ctx) Pick(q, t int) int {
	if c.Thorough() {
		return t
	}
	return q
}

func (c *Ctx) loadKnown() {
	c.loadKnownFile(filepath.Join(c.Verif, "known-findings.json"))
	if extra := os.Getenv("VF_KNOWN_EXTRA"); extra != "" { // development aid only
		c.loadKnownFile(extra)
	}
}

func (c *Ctx) loadKnownFile(path string) {
	b, err := os.ReadFile(path)
	if err != nil {
		return
	}
	var doc struct {
		Findings []Finding `json:"findings"`
	}
	if err := json.Unmarshal(b, &doc); err != nil {
		fmt.Println("INCONCLUSIVE known-findings.json unreadable:", err)
		os.Exit(2)
	}
	for _, f := range doc.Findings {
		if f.Property == c.Prop && f.Status == "known" {
			c.known[f.Key] = f
		}
	}
}

// Eval records one judged execution with its feature signature.
func (c *Ctx) Eval(sig string) {
	c.mu.Lock()
	c.evals++
	if sig != "" {
		c.sigs[sig]++
	}
	c.mu.Unlock()
}

// Sig registers a feature signature observed in a judged execution without
// counting another evaluation.
func (c *Ctx) Sig(sig string) {
	c.mu.Lock()
	if sig != "" {
		c.sigs[sig]++
	}
	c.mu.Unlock()
}

// EvalN records n judged executions under one signature.
func (c *Ctx) EvalN(sig string, n int) {
	c.mu.Lock()
	c.evals += n
	if sig != "" && n > 0 {
		c.sigs[sig] += n
	}
	c.mu.Unlock()
}

// Sample keeps an actual case for the evidence file (bounded).
func (c *Ctx) Sample(v any) {
	c.mu.Lock()
	if len(c.samples) < 12 {
		c.samples = append(c.samples, v)
	}
	c.mu.Unlock()
}

func (c *Ctx) Note(format string, a ...any) {
	c.mu.Lock()
	if len(c.notes) < 200 {
		c.notes = append(c.notes, fmt.Sprintf(format, a...))
	}
	c.mu.Unlock()
}

func (c *Ctx) Inconclusive(format string, a ...any) {
	c.mu.Lock()
	c.incon = append(c.incon, fmt.Sprintf(format, a...))
	c.mu.Unlock()
}

var rxUnsafe = regexp.MustCompile(`[^A-Za-z0-9._=@+-]+`)

// Violation records a violation identified by a stable key. files are written
// to the replay directory (unless the key is a listed known finding).
func (c *Ctx) Violation(key, what string, files map[string]string) {
	c.mu.Lock()
	defer c.mu.Unlock()
	if _, dup := c.viols[key]; dup {
		return
	}
	v := &violation{Key: key, What: what}
	if _, ok := c.known[key]; ok {
		v.Known = true
		c.knownSeen[key] = true
	} else {
		name := rxUnsafe.ReplaceAllString(key, "_")
		if len(name) > 120 {
			name = name[:120]
		}
		dir := filepath.Join(c.Verif, "replay", c.Prop, name)
		_ = os.RemoveAll(dir)
		if err := os.MkdirAll(dir, 0o755); err == nil {
			for n, body := range files {
				p := filepath.Join(dir, n)
				_ = os.MkdirAll(filepath.Dir(p), 0o755)
				mode := os.FileMode(0o644)
				if strings.HasSuffix(n, ".sh") {
					mode = 0o755
				}
				_ = os.WriteFile(p, []byte(body), mode)
			}
			meta, _ := json.MarshalIndent(map[string]any{"property": c.Prop, "key": key, "what": what,
				"seed": c.Seed, "tier": c.Tier, "repo": c.Repo}, "", " ")
			_ = os.WriteFile(filepath.Join(dir, "violation.json"), meta, 0o644)
			v.Path = dir
		}
	}
	c.viols[key] = v
	c.violOrder = append(c.violOrder, key)
}

// HasViolation reports whether key was recorded in this run.
func (c *Ctx) HasViolation(key string) bool {
	c.mu.Lock()
	defer c.mu.Unlock()
	_, ok := c.viols[key]
	return ok
}

// Cleanup removes the scratch directory.
func (c *Ctx) Cleanup() {
	if os.Getenv("VF_KEEP") == "" && c.Scratch != "" {
		_ = os.RemoveAll(c.Scratch)
	}
}

// Finish writes the evidence file, prints the verdict lines and exits.
func (c *Ctx) Finish(rule string, floorEvals, floorDistinct int, assumptions []string) {
	c.Cleanup()
	c.mu.Lock()
	defer c.mu.Unlock()
	unlisted := 0
	var vlist []*violation
	for _, k := range c.violOrder {
		v := c.viols[k]
		vlist = append(vlist, v)
		if v.Known {
			fmt.Printf("KNOWN-FINDING: property=%s %s %s\n", c.Prop, v.Key, oneLine(c.known[v.Key].What))
		} else {
			unlisted++
			fmt.Printf("VIOLATION property=%s replay=%s key=%s %s\n", c.Prop, v.Path, v.Key, oneLine(v.What))
		}
	}
	var stale []string
	for k := range c.known {
		if !c.knownSeen[k] {
			stale = append(stale, k)
		}
	}
	sort.Strings(stale)
	distinct := len(c.sigs)
	if c.evals < floorEvals || distinct < floorDistinct {
		c.incon = append(c.incon, fmt.Sprintf("observed too little: evaluations=%d (floor %d) distinct=%d (floor %d)", c.evals, floorEvals, distinct, floorDistinct))
	}
	sigList := make([]string, 0, len(c.sigs))
	for s := range c.sigs {
		sigList = append(sigList, s)
	}
	sort.Strings(sigList)
	if len(sigList) > 400 {
		sigList = sigList[:400]
	}
	cov := map[string]any{
		"evaluations":         c.evals,
		"distinct_nontrivial": distinct,
		"rule":                rule,
		"samples":             c.samples,
		"signatures":          sigList,
		"violations_detail":   vlist,
		"inconclusive":        c.incon,
		"notes":               c.notes,
		"stale_known_entries": stale,
	}
	if len(c.samples) == 0 {
		cov["samples"] = []any{"(no sample recorded)"}
	}
	for k, v := range c.Extra {
		cov[k] = v
	}
	if c.Replay == "" {
		ev := map[string]any{
			"property_id": c.Prop, "tier": c.Tier, "seed": c.Seed, "level": "exploration",
			"coverage": cov, "assumptions": assumptions,
			"wall_s":     time.Since(c.Start).Seconds(),
			"violations": unlisted,
			"repo":       c.Repo,
		}
		b, _ := json.MarshalIndent(ev, "", " ")
		dir := filepath.Join(c.Verif, "evidence")
		_ = os.MkdirAll(dir, 0o755)
		name := c.Prop + ".json"
		if c.Repo != "/repo" {
			name = c.Prop + ".alt.json" // never overwrite real evidence from a scratch-repo run
		}
		if err := os.WriteFile(filepath.Join(dir, name), b, 0o644); err != nil {
			fmt.Println("INCONCLUSIVE cannot write evidence:", err)
			os.Exit(2)
		}
	}
	fmt.Printf("SUMMARY property=%s tier=%s seed=%d evaluations=%d distinct=%d violations=%d known=%d inconclusive=%d wall=%.1fs\n",
		c.Prop, c.Tier, c.Seed, c.evals, distinct, unlisted, len(vlist)-unlisted, len(c.incon), time.Since(c.Start).Seconds())
	if unlisted > 0 {
		os.Exit(1)
	}
	if len(c.incon) > 0 {
		for _, s := range c.incon {
			fmt.Println("INCONCLUSIVE", oneLine(s))
		}
		os.Exit(2)
	}
	os.Exit(0)
}

func oneLine(s string) string {
	s = strings.ReplaceAll(s, "\n", " | ")
	if len(s) > 300 {
		s = s[:300] + "…"
	}
	return s
}

// OneLine is exported for checks.
func OneLine(s string) string { return oneLine(s) }

// ReplayFallback is used by checks without a dedicated replay mode: it restates the
// recorded violation (violation.json and the stored inputs / observations) and, when the
// directory holds a repro.sh, runs it with SWAGGER pointing at a binary built from the
// current tree. It exits 1 with the VIOLATION line (the stored witness is the evidence).
func (c *Ctx) ReplayFallback() {
	if c.Replay == "" {
		return
	}
	b, err := os.ReadFile(filepath.Join(c.Replay, "violation.json"))
	if err != nil {
		fmt.Println("INCONCLUSIVE no violation.json in", c.Replay)
		c.Cleanup()
		os.Exit(2)
	}
	fmt.Println(string(b))
	entries, _ := os.ReadDir(c.Replay)
	for _, e := range entries {
		fmt.Println("  file:", filepath.Join(c.Replay, e.Name()))
	}
	if _, err := os.Stat(filepath.Join(c.Replay, "repro.sh")); err == nil {
		sw := c.BuildSwagger()
		r := Run(c.Replay, append(os.Environ(), "SWAGGER="+sw), 30*time.Minute, "", "sh", "repro.sh")
		fmt.Println(r.Stdout + r.Stderr)
	}
	fmt.Printf("VIOLATION property=%s replay=%s (recorded witness; re-run `./check %s quick` to re-observe it on the current tree)\n", c.Prop, c.Replay, c.Prop)
	c.Cleanup()
	os.Exit(1)
}
