package gogen

import (
	_ "embed"
	"fmt"
	"strings"
)

// TypeDrvMain is the static source of the reflect-based driver (C16).
//
//go:embed typedrv_main.go.txt
var TypeDrvMain string

// RegEntry registers the model M of one generated package with the driver.
type RegEntry struct {
	Key    string // request key
	Import string // import path
	Enums  [][]string
}

// Registry renders reg.go for the driver.
func Registry(entries []RegEntry) string {
	var b strings.Builder
	b.WriteString("package main\n\nimport (\n")
	for i, e := range entries {
		fmt.Fprintf(&b, "\tp%d %q\n", i, e.Import)
	}
	b.WriteString(")\n\nfunc init() {\n")
	for i, e := range entries {
		fmt.Fprintf(&b, "\treg(%q, p%d.M{})\n", e.Key, i)
		for _, en := range e.Enums {
			var cs []string
			for _, c := range en {
				cs = append(cs, fmt.Sprintf("p%d.%s", i, c))
			}
			fmt.Fprintf(&b, "\tenum(%s)\n", strings.Join(cs, ", "))
		}
	}
	b.WriteString("}\n")
	return b.String()
}
