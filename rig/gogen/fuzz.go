package gogen

import (
	"go/scanner"
	"go/token"
	"math/rand"
	"strings"
)

// FuzzOp is one comment-text fuzz operator. Preserving operators keep the program
// inside the documented grammar (the result must still be a valid document);
// the others only promise "no crash".
type FuzzOp struct {
	ID         string
	Preserving bool
	WholeFile  bool
	apply      func(r *rand.Rand, lines []string) []string
}

func isComment(l string) bool { return strings.HasPrefix(strings.TrimLeft(l, " \t"), "//") }

// split returns indentation+"//" and the text after it.
func splitComment(l string) (string, string) {
	i := strings.Index(l, "//")
	return l[:i+2], l[i+2:]
}

func commentIdx(lines []string, pred func(text string) bool) []int {
	var out []int
	for i, l := range lines {
		if !isComment(l) {
			continue
		}
		_, t := splitComment(l)
		if pred == nil || pred(t) {
			out = append(out, i)
		}
	}
	return out
}

var hostileRunes = []rune{0x2028, 0x2029, 0x00a0, 0x200b, 0x202e, 0xfeff, 0x0301, 0x1f600, 0x3000, 0x00ad, 0xff1a, 0x0660, 0x2014, 0x5b57, 0x0131, 0x212a, 0x7f, 0x1b, 0x0c, 0xfffd, '\t', ':', '-', '|', '*', '/', '{', '}', '[', ']', '"', '\'', '#', '+', '<', '>', '=', '%', '\\'}

func pick(r *rand.Rand, idx []int) int {
	if len(idx) == 0 {
		return -1
	}
	return idx[r.Intn(len(idx))]
}

func hasColon(t string) bool { return strings.Contains(t, ":") }

func insertAfter(lines []string, i int, l string) []string {
	out := append([]string{}, lines[:i+1]...)
	out = append(out, l)
	return append(out, lines[i+1:]...)
}

// FuzzOps is the fixed catalogue of operators.
func FuzzOps() []*FuzzOp {
	return []*FuzzOp{
		{ID: "truncate", apply: func(r *rand.Rand, ls []string) []string {
			for n := 1 + r.Intn(2); n > 0; n-- {
				if i := pick(r, commentIdx(ls, hasColon)); i >= 0 {
					pre, t := splitComment(ls[i])
					rs := []rune(t)
					ls[i] = pre + string(rs[:r.Intn(len(rs)+1)])
				}
			}
			return ls
		}},
		{ID: "tabs.lead", Preserving: true, apply: func(r *rand.Rand, ls []string) []string {
			for i, l := range ls { // gofmt style: the whole file uses "//\t"
				if isComment(l) {
					pre, t := splitComment(l)
					if strings.HasPrefix(t, " ") {
						ls[i] = pre + "\t" + t[1:]
					}
				}
			}
			return ls
		}},
		{ID: "tabs.inner", apply: func(r *rand.Rand, ls []string) []string {
			for n := 1 + r.Intn(6); n > 0; n-- {
				if i := pick(r, commentIdx(ls, nil)); i >= 0 {
					pre, t := splitComment(ls[i])
					if r.Intn(2) == 0 {
						ls[i] = pre + strings.ReplaceAll(t, "  ", "\t")
					} else {
						ls[i] = pre + strings.ReplaceAll(t, " ", "\t")
					}
				}
			}
			return ls
		}},
		{ID: "crlf", Preserving: true, WholeFile: true, apply: func(r *rand.Rand, ls []string) []string {
			for i := range ls {
				ls[i] += "\r"
			}
			return ls
		}},
		{ID: "trailing-space", apply: func(r *rand.Rand, ls []string) []string {
			for n := 1 + r.Intn(6); n > 0; n-- {
				if i := pick(r, commentIdx(ls, nil)); i >= 0 {
					ls[i] += []string{" ", "  ", "\t", " \t "}[r.Intn(4)]
				}
			}
			return ls
		}},
		{ID: "space-only-line", apply: func(r *rand.Rand, ls []string) []string {
			// blank comment lines that carry spaces, tabs or other separators
			blank := func(t string) bool { return strings.TrimSpace(t) == "" }
			for n := 1 + r.Intn(4); n > 0; n-- {
				pad := strings.Repeat([]string{" ", "\t", "\u00a0", "\u3000"}[r.Intn(4)], 1+r.Intn(8))
				if r.Intn(3) == 0 {
					pad = strings.Repeat(" ", 1+r.Intn(12))
				}
				if i := pick(r, commentIdx(ls, blank)); i >= 0 && r.Intn(2) == 0 {
					pre, _ := splitComment(ls[i])
					ls[i] = pre + pad
				} else if i := pick(r, commentIdx(ls, nil)); i >= 0 {
					pre, _ := splitComment(ls[i])
					ls = insertAfter(ls, i, pre+pad)
				}
			}
			return ls
		}},
		{ID: "yaml-indent", apply: func(r *rand.Rand, ls []string) []string {
			for n := 1 + r.Intn(3); n > 0; n-- {
				if i := pick(r, commentIdx(ls, func(t string) bool { return strings.HasPrefix(t, "  ") || strings.HasPrefix(t, " -") || hasColon(t) })); i >= 0 {
					pre, t := splitComment(ls[i])
					switch r.Intn(3) {
					case 0:
						ls[i] = pre + strings.Repeat(" ", 1+r.Intn(4)) + t
					case 1:
						ls[i] = pre + strings.TrimLeft(t, " ")
					default:
						ls[i] = pre + " " + strings.TrimLeft(t, " ")
						if len(t) > 2 {
							ls[i] = pre + t[1:]
						}
					}
				}
			}
			return ls
		}},
		{ID: "empty-value", apply: func(r *rand.Rand, ls []string) []string {
			for n := 1 + r.Intn(2); n > 0; n-- {
				if i := pick(r, commentIdx(ls, func(t string) bool { k := strings.Index(t, ":"); return k >= 0 && strings.TrimSpace(t[k+1:]) != "" })); i >= 0 {
					pre, t := splitComment(ls[i])
					k := strings.Index(t, ":")
					ls[i] = pre + t[:k+1] + []string{"", " ", "  "}[r.Intn(3)]
				}
			}
			return ls
		}},
		{ID: "empty-section", apply: func(r *rand.Rand, ls []string) []string {
			// blank out what follows a section header
			if i := pick(r, commentIdx(ls, func(t string) bool {
				return strings.HasSuffix(strings.TrimSpace(t), ":") || strings.TrimSpace(t) == "---"
			})); i >= 0 {
				for j := i + 1; j < len(ls) && isComment(ls[j]) && j < i+1+r.Intn(6); j++ {
					pre, _ := splitComment(ls[j])
					ls[j] = pre
				}
			}
			return ls
		}},
		{ID: "unknown-annotation", apply: func(r *rand.Rand, ls []string) []string {
			if i := pick(r, commentIdx(ls, nil)); i >= 0 {
				pre, _ := splitComment(ls[i])
				a := []string{" swagger:xyz", " swagger:xyz foo bar", " swagger:", " swagger:routes GET /x x", " swagger:Model", "swagger:model-x", " swagger:enum", " swagger:default", " swagger:name", " swagger:alias", " swagger:type", " swagger:file", " swagger:strfmt", " swagger:discriminated Foo bar"}[r.Intn(14)]
				return insertAfter(ls, i, pre+a)
			}
			return ls
		}},
		{ID: "stray-annotation", apply: func(r *rand.Rand, ls []string) []string {
			// a known annotation in a place it does not belong to, or without its arguments
			if i := pick(r, commentIdx(ls, nil)); i >= 0 {
				pre, _ := splitComment(ls[i])
				a := []string{" swagger:model", " swagger:parameters", " swagger:parameters baseOp", " swagger:response", " swagger:route", " swagger:route GET", " swagger:route GET /x", " swagger:operation GET /y yop", " swagger:meta", " swagger:allOf", " swagger:ignore", " swagger:strfmt date", " swagger:route GET /z zop", " swagger: route GET /w wop", " swagger:operation POST /y"}[r.Intn(15)]
				return insertAfter(ls, i, pre+a)
			}
			return ls
		}},
		{ID: "long-line", apply: func(r *rand.Rand, ls []string) []string {
			if i := pick(r, commentIdx(ls, nil)); i >= 0 {
				pre, _ := splitComment(ls[i])
				unit := []string{"a", "x: ", "- y ", "  ", "{", "[[", "swagger", "é", "\t", "1", "-"}[r.Intn(11)]
				long := strings.Repeat(unit, 10240/len(unit)+1)
				if r.Intn(2) == 0 {
					ls[i] += long
				} else {
					return insertAfter(ls, i, pre+" "+long)
				}
			}
			return ls
		}},
		{ID: "unicode", apply: func(r *rand.Rand, ls []string) []string {
			for n := 1 + r.Intn(5); n > 0; n-- {
				if i := pick(r, commentIdx(ls, nil)); i >= 0 {
					pre, t := splitComment(ls[i])
					rs := []rune(t)
					k := r.Intn(len(rs) + 1)
					var ins []rune
					for m := 1 + r.Intn(3); m > 0; m-- {
						if r.Intn(3) == 0 {
							ins = append(ins, rune(0x80+r.Intn(0x2fff)))
						} else {
							ins = append(ins, hostileRunes[r.Intn(len(hostileRunes))])
						}
					}
					ls[i] = pre + string(rs[:k]) + string(ins) + string(rs[k:])
				}
			}
			return ls
		}},
		{ID: "block-comment", Preserving: true, apply: func(r *rand.Rand, ls []string) []string {
			// turn every top-level comment group that is not a struct-field comment into /* */
			var out []string
			for i := 0; i < len(ls); {
				if !isComment(ls[i]) || strings.HasPrefix(ls[i], "\t") || strings.HasPrefix(ls[i], " ") {
					out = append(out, ls[i])
					i++
					continue
				}
				j := i
				var body []string
				ok := true
				for j < len(ls) && isComment(ls[j]) && !strings.HasPrefix(ls[j], "\t") {
					_, t := splitComment(ls[j])
					if strings.Contains(t, "*/") {
						ok = false
					}
					body = append(body, strings.TrimPrefix(t, " "))
					j++
				}
				if !ok {
					out = append(out, ls[i:j]...)
				} else {
					body[0] = "/* " + body[0]
					out = append(out, body...)
					out = append(out, "*/")
				}
				i = j
			}
			return out
		}},
		{ID: "delete-line", apply: func(r *rand.Rand, ls []string) []string {
			for n := 1 + r.Intn(3); n > 0; n-- {
				if i := pick(r, commentIdx(ls, nil)); i >= 0 {
					ls = append(ls[:i:i], ls[i+1:]...)
				}
			}
			return ls
		}},
		{ID: "duplicate-line", apply: func(r *rand.Rand, ls []string) []string {
			for n := 1 + r.Intn(3); n > 0; n-- {
				if i := pick(r, commentIdx(ls, nil)); i >= 0 {
					ls = insertAfter(ls, i, ls[i])
				}
			}
			return ls
		}},
		{ID: "swap-lines", apply: func(r *rand.Rand, ls []string) []string {
			idx := commentIdx(ls, nil)
			for n := 1 + r.Intn(3); n > 0 && len(idx) > 1; n-- {
				a, b := pick(r, idx), pick(r, idx)
				pa, ta := splitComment(ls[a])
				pb, tb := splitComment(ls[b])
				ls[a], ls[b] = pa+tb, pb+ta
			}
			return ls
		}},
		{ID: "strip-marker-space", apply: func(r *rand.Rand, ls []string) []string {
			// "//text" without the customary space, or extra slashes / stars
			for n := 1 + r.Intn(6); n > 0; n-- {
				if i := pick(r, commentIdx(ls, nil)); i >= 0 {
					pre, t := splitComment(ls[i])
					switch r.Intn(3) {
					case 0:
						ls[i] = pre + strings.TrimLeft(t, " ")
					case 1:
						ls[i] = pre + "/" + t
					default:
						ls[i] = pre + " *" + t
					}
				}
			}
			return ls
		}},
	}
}

// Apply runs the operator on one source file.
func (o *FuzzOp) Apply(r *rand.Rand, src string) string {
	ls := strings.Split(src, "\n")
	ls = o.apply(r, ls)
	for i, l := range ls { // a comment line must stay one line
		if isComment(l) && strings.ContainsAny(l, "\n") {
			ls[i] = strings.ReplaceAll(l, "\n", " ")
		}
	}
	return strings.Join(ls, "\n")
}

// SameCode reports whether two sources have the same non-comment token stream and
// both scan without errors (the fuzzed program compiles iff the original does).
func SameCode(a, b string) bool {
	ta, oka := tokens(a)
	tb, okb := tokens(b)
	if !oka || !okb || len(ta) != len(tb) {
		return false
	}
	for i := range ta {
		if ta[i] != tb[i] {
			return false
		}
	}
	return true
}

func tokens(src string) ([]string, bool) {
	fs := token.NewFileSet()
	f := fs.AddFile("x.go", -1, len(src))
	var s scanner.Scanner
	ok := true
	s.Init(f, []byte(src), func(token.Position, string) { ok = false }, 0)
	var out []string
	for {
		_, tok, lit := s.Scan()
		if tok == token.EOF {
			break
		}
		if tok == token.SEMICOLON && lit == "\n" {
			lit = ";"
		}
		out = append(out, tok.String()+" "+lit)
	}
	return out, ok
}
