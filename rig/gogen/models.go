// Package gogen generates Go source for the codescan checks: model type
// declarations built from a catalogue of field-kind atoms (C16) and annotated
// programs with an intent model plus comment-fuzz operators (C17).
package gogen

import (
	"fmt"
	"sort"
	"strings"
)

// Atom is one field kind: a struct-body fragment plus the declarations it needs.
// Placeholders: § = type-name prefix unique per instance, ¤ = field-name suffix
// unique per instance.
type Atom struct {
	ID      string
	Decls   string
	Fields  string
	Imports []string
	Enums   [][]string // each: constant identifiers (with §) of one enum type
	// value domain
	NoCompose   bool // pass A only
	Unencodable bool // encoding/json cannot marshal the type: C16 does not judge it
	// wrapper atoms hold a child struct: WrapType is a format with one %s (child type name)
	// or "anon" / "embed" / "embedptr"
	Wrap    string
	WrapTag string
	Family  string
}

const childDecl = "type §N struct {\n\tA¤ int `json:\"a¤\"`\n\tB¤ string `json:\"b¤,omitempty\"`\n}\n"

func f(typ string) string { return "\tF¤ " + typ + "\n" }
func ft(typ, tag string) string {
	return "\tF¤ " + typ + " `" + tag + "`\n"
}

var scalarKinds = []string{"bool", "int", "int8", "int16", "int32", "int64", "uint", "uint8", "uint16", "uint32", "uint64", "uintptr", "float32", "float64", "string", "byte", "rune"}

const textMarshalerNamed = `type §Code string

func (c §Code) MarshalText() ([]byte, error) { return []byte("c:" + string(c)), nil }
func (c *§Code) UnmarshalText(b []byte) error {
	s := string(b)
	if len(s) >= 2 && s[:2] == "c:" {
		s = s[2:]
	}
	*c = §Code(s)
	return nil
}
`

const textMarshalerStruct = `type §Pt struct{ X, Y uint8 }

func (p §Pt) MarshalText() ([]byte, error) {
	const hx = "0123456789abcdef"
	return []byte{hx[p.X>>4], hx[p.X&15], hx[p.Y>>4], hx[p.Y&15]}, nil
}
func (p *§Pt) UnmarshalText(b []byte) error {
	v := func(c byte) uint8 {
		switch {
		case c >= '0' && c <= '9':
			return c - '0'
		case c >= 'a' && c <= 'f':
			return c - 'a' + 10
		}
		return 0
	}
	if len(b) >= 4 {
		p.X, p.Y = v(b[0])<<4|v(b[1]), v(b[2])<<4|v(b[3])
	}
	return nil
}
`

const textMarshalerPtrRecv = `type §PR struct{ V uint8 }

func (p *§PR) MarshalText() ([]byte, error) { return []byte{'v', '0' + p.V%10}, nil }
func (p *§PR) UnmarshalText(b []byte) error {
	if len(b) == 2 {
		p.V = b[1] - '0'
	}
	return nil
}
`

const uuidDecl = `type UUID [16]byte

func (u UUID) MarshalText() ([]byte, error) {
	const hx = "0123456789abcdef"
	out := make([]byte, 0, 36)
	for i, b := range u {
		if i == 4 || i == 6 || i == 8 || i == 10 {
			out = append(out, '-')
		}
		out = append(out, hx[b>>4], hx[b&15])
	}
	return out, nil
}
func (u *UUID) UnmarshalText(b []byte) error {
	v := func(c byte) byte {
		switch {
		case c >= '0' && c <= '9':
			return c - '0'
		case c >= 'a' && c <= 'f':
			return c - 'a' + 10
		case c >= 'A' && c <= 'F':
			return c - 'A' + 10
		}
		return 0
	}
	j := 0
	for i := 0; i+1 < len(b) && j < 16; {
		if b[i] == '-' {
			i++
			continue
		}
		u[j] = v(b[i])<<4 | v(b[i+1])
		j++
		i += 2
	}
	return nil
}
`

// Catalogue returns the fixed, ordered list of field-kind atoms.
func Catalogue() []*Atom {
	var as []*Atom
	add := func(a *Atom) {
		if a.Family == "" {
			a.Family = strings.SplitN(a.ID, ".", 2)[0]
		}
		as = append(as, a)
	}
	for _, k := range scalarKinds {
		add(&Atom{ID: "basic." + k, Fields: f(k)})
	}
	for _, k := range scalarKinds {
		add(&Atom{ID: "ptr." + k, Fields: f("*" + k)})
	}
	add(&Atom{ID: "ptr.ptr.int", Fields: f("**int")})
	add(&Atom{ID: "ptr.slice.int", Fields: f("*[]int")})
	add(&Atom{ID: "ptr.map.string.int", Fields: f("*map[string]int")})
	add(&Atom{ID: "ptr.time", Fields: f("*time.Time"), Imports: []string{"time"}})
	add(&Atom{ID: "ptr.named.int", Decls: "type §MyInt int\n", Fields: f("*§MyInt")})

	// json tag options
	for _, k := range []string{"bool", "int", "uint8", "float64", "string", "*int", "*string", "[]int", "map[string]int", "interface{}", "[2]int"} {
		add(&Atom{ID: "omitempty." + kindID(k), Fields: ft(k, `json:"f¤,omitempty"`), Family: "tag"})
	}
	add(&Atom{ID: "omitempty.struct", Decls: childDecl, Fields: ft("§N", `json:"f¤,omitempty"`), Family: "tag"})
	add(&Atom{ID: "omitempty.ptr.struct", Decls: childDecl, Fields: ft("*§N", `json:"f¤,omitempty"`), Family: "tag"})
	add(&Atom{ID: "omitempty.time", Fields: ft("time.Time", `json:"f¤,omitempty"`), Imports: []string{"time"}, Family: "tag"})
	add(&Atom{ID: "tag.rename.int", Fields: ft("int", `json:"renamed¤"`)})
	add(&Atom{ID: "tag.rename.string", Fields: ft("string", `json:"ren_amed-¤"`)})
	add(&Atom{ID: "tag.rename.unicode", Fields: ft("string", `json:"naïve-ключ¤"`)})
	add(&Atom{ID: "tag.rename.punct", Fields: ft("int", `json:"a.b$c@d¤"`)})
	add(&Atom{ID: "tag.rename.invalidchars", Fields: ft("int", `json:"na\\me¤"`)})
	add(&Atom{ID: "tag.rename.struct", Decls: childDecl, Fields: ft("§N", `json:"child¤"`)})
	// JSON names that are spelled like tag options (the name slot must not be read as an option)
	add(&Atom{ID: "tag.rename.named-string.bool", Fields: ft("bool", `json:"string"`), NoCompose: true})
	add(&Atom{ID: "tag.rename.named-string.int", Fields: ft("int64", `json:"string"`), NoCompose: true})
	add(&Atom{ID: "tag.rename.named-string.ptr.float", Fields: ft("*float64", `json:"string"`), NoCompose: true})
	add(&Atom{ID: "tag.rename.named-omitempty.int", Fields: ft("int", `json:"omitempty"`), NoCompose: true})
	add(&Atom{ID: "tag.rename.named-string.omitempty", Fields: ft("int32", `json:"string,omitempty"`), NoCompose: true})
	add(&Atom{ID: "tag.dash", Fields: ft("int", `json:"-"`) + "\tG¤ string\n"})
	add(&Atom{ID: "tag.dash.unencodable", Fields: ft("func()", `json:"-"`) + "\tG¤ string\n"})
	add(&Atom{ID: "tag.dashcomma", Fields: ft("int", `json:"-,"`), NoCompose: true})
	add(&Atom{ID: "tag.emptyname", Fields: ft("int", `json:",omitempty"`)})
	add(&Atom{ID: "tag.othertag", Fields: ft("int", `xml:"x¤" json:"y¤" yaml:"z¤"`)})
	add(&Atom{ID: "tag.nojson", Fields: ft("int", `xml:"x¤"`)})
	add(&Atom{ID: "tag.dup", Fields: "\tF¤ int `json:\"dup¤\"`\n\tG¤ string `json:\"dup¤\"`\n\tH¤ bool\n"})
	add(&Atom{ID: "tag.swapnames", Fields: "\tF¤ int `json:\"G¤\"`\n\tG¤ string `json:\"F¤\"`\n"})
	for _, k := range []string{"bool", "int", "int8", "int16", "int32", "int64", "uint", "uint8", "uint16", "uint32", "uint64", "uintptr", "float32", "float64", "string"} {
		add(&Atom{ID: "tag.string." + k, Fields: ft(k, `json:"f¤,string"`)})
	}
	add(&Atom{ID: "tag.string.ptr.int", Fields: ft("*int", `json:"f¤,string"`)})
	add(&Atom{ID: "tag.string.omitempty.int", Fields: ft("int", `json:"f¤,omitempty,string"`)})
	add(&Atom{ID: "tag.string.named.int", Decls: "type §MyInt int\n", Fields: ft("§MyInt", `json:"f¤,string"`)})
	add(&Atom{ID: "tag.string.named.string", Decls: "type §MyStr string\n", Fields: ft("§MyStr", `json:"f¤,string"`)})
	add(&Atom{ID: "tag.string.slice.int", Fields: ft("[]int", `json:"f¤,string"`)})
	add(&Atom{ID: "tag.string.struct", Decls: childDecl, Fields: ft("§N", `json:"f¤,string"`)})
	add(&Atom{ID: "tag.string.iface", Fields: ft("interface{}", `json:"f¤,string"`)})

	// visibility / ignore
	add(&Atom{ID: "unexported.field", Fields: "\tf¤ int\n\tG¤ string\n", Family: "visibility"})
	add(&Atom{ID: "unexported.tagged", Fields: "\tf¤ int `json:\"f¤\"`\n\tG¤ string\n", Family: "visibility"})
	add(&Atom{ID: "unexported.only", Fields: "\tf¤ int\n", Family: "visibility"})
	add(&Atom{ID: "ignore.field", Fields: "\t// swagger:ignore\n" + f("int") + "\tG¤ string\n", Family: "visibility"})
	add(&Atom{ID: "ignore.type", Decls: "// swagger:ignore\ntype §Ign struct{ A¤ int }\n", Fields: f("§Ign"), Family: "visibility"})

	// slices, arrays
	for _, k := range []string{"int", "string", "bool", "float64", "float32", "int8", "uint16", "uint64", "interface{}"} {
		add(&Atom{ID: "slice." + kindID(k), Fields: f("[]" + k)})
	}
	add(&Atom{ID: "slice.byte", Fields: f("[]byte")})
	add(&Atom{ID: "slice.uint8", Fields: f("[]uint8")})
	add(&Atom{ID: "slice.named.byte", Decls: "type §Oct byte\n", Fields: f("[]§Oct")})
	add(&Atom{ID: "slice.slice.byte", Fields: f("[][]byte")})
	add(&Atom{ID: "slice.struct", Decls: childDecl, Fields: f("[]§N")})
	add(&Atom{ID: "slice.ptr.struct", Decls: childDecl, Fields: f("[]*§N")})
	add(&Atom{ID: "slice.ptr.int", Fields: f("[]*int")})
	add(&Atom{ID: "slice.slice.int", Fields: f("[][]int")})
	add(&Atom{ID: "slice.slice.slice.string", Fields: f("[][][]string")})
	add(&Atom{ID: "slice.map.string.int", Fields: f("[]map[string]int")})
	add(&Atom{ID: "slice.time", Fields: f("[]time.Time"), Imports: []string{"time"}})
	add(&Atom{ID: "slice.anon", Fields: f("[]struct{ Z¤ bool }")})
	add(&Atom{ID: "array.int", Fields: f("[3]int")})
	add(&Atom{ID: "array.string", Fields: f("[2]string")})
	add(&Atom{ID: "array.byte", Fields: f("[4]byte")})
	add(&Atom{ID: "array.zero", Fields: f("[0]int")})
	add(&Atom{ID: "array.struct", Decls: childDecl, Fields: f("[2]§N")})
	add(&Atom{ID: "array.array.int", Fields: f("[2][2]int")})
	add(&Atom{ID: "array.slice.int", Fields: f("[2][]int")})

	// maps
	for _, k := range []string{"int", "string", "bool", "float64", "interface{}", "[]int", "map[string]int", "*int", "[]byte"} {
		add(&Atom{ID: "map.string." + kindID(k), Fields: f("map[string]" + k)})
	}
	add(&Atom{ID: "map.string.struct", Decls: childDecl, Fields: f("map[string]§N")})
	add(&Atom{ID: "map.string.ptr.struct", Decls: childDecl, Fields: f("map[string]*§N")})
	add(&Atom{ID: "map.string.time", Fields: f("map[string]time.Time"), Imports: []string{"time"}})
	add(&Atom{ID: "map.namedstring.int", Decls: "type §Key string\n", Fields: f("map[§Key]int")})
	add(&Atom{ID: "map.intkey.string", Fields: f("map[int]string")})
	add(&Atom{ID: "map.uint8key.int", Fields: f("map[uint8]int")})
	add(&Atom{ID: "map.namedintkey.bool", Decls: "type §IK int64\n", Fields: f("map[§IK]bool")})
	add(&Atom{ID: "map.textkey.int", Decls: textMarshalerStruct, Fields: f("map[§Pt]int")})
	add(&Atom{ID: "map.named", Decls: "type §Dict map[string]int\n", Fields: f("§Dict")})

	// structs
	add(&Atom{ID: "struct.named", Decls: childDecl, Fields: f("§N")})
	add(&Atom{ID: "struct.anon", Fields: f("struct {\n\t\tZ¤ bool\n\t\tY¤ *int `json:\"y¤,omitempty\"`\n\t}")})
	add(&Atom{ID: "struct.anon.nested", Fields: f("struct{ In¤ struct{ Z¤ []string } }")})
	add(&Atom{ID: "struct.empty", Fields: f("struct{}")})
	add(&Atom{ID: "struct.named.empty", Decls: "type §E struct{}\n", Fields: f("§E")})
	add(&Atom{ID: "struct.recursive", Decls: "type §Node struct {\n\tV¤ int\n\tNext¤ *§Node `json:\"next¤,omitempty\"`\n}\n", Fields: f("*§Node")})
	add(&Atom{ID: "struct.recursive.slice", Decls: "type §Tree struct {\n\tV¤ string\n\tKids¤ []§Tree `json:\"kids¤,omitempty\"`\n}\n", Fields: f("§Tree")})
	add(&Atom{ID: "struct.named.model", Decls: "// swagger:model §renamedN\ntype §N struct {\n\tA¤ int `json:\"a¤\"`\n}\n", Fields: f("§N")})

	// embedding
	add(&Atom{ID: "embed.plain", Decls: childDecl, Fields: "\t§N\n\tQ¤ int\n"})
	add(&Atom{ID: "embed.ptr", Decls: childDecl, Fields: "\t*§N\n\tQ¤ int\n"})
	add(&Atom{ID: "embed.tagged", Decls: childDecl, Fields: "\t§N `json:\"inner¤\"`\n\tQ¤ int\n"})
	add(&Atom{ID: "embed.ptr.tagged", Decls: childDecl, Fields: "\t*§N `json:\"inner¤\"`\n\tQ¤ int\n"})
	add(&Atom{ID: "embed.allOf", Decls: childDecl, Fields: "\t// swagger:allOf\n\t§N\n\tQ¤ int\n"})
	add(&Atom{ID: "embed.allOf.ptr", Decls: childDecl, Fields: "\t// swagger:allOf\n\t*§N\n\tQ¤ int\n"})
	add(&Atom{ID: "embed.allOf.class", Decls: childDecl, Fields: "\t// swagger:allOf com.example.§N\n\t§N\n\tQ¤ int\n"})
	add(&Atom{ID: "embed.allOf.model", Decls: "// swagger:model\ntype §N struct {\n\tA¤ int `json:\"a¤\"`\n}\n", Fields: "\t// swagger:allOf\n\t§N\n\tQ¤ int\n"})
	add(&Atom{ID: "embed.allOf.only", Decls: childDecl, Fields: "\t// swagger:allOf\n\t§N\n"})
	add(&Atom{ID: "embed.unexportedtype", Decls: "type §inner struct {\n\tA¤ int\n\tb¤ int\n}\n", Fields: "\t§inner\n\tQ¤ int\n"})
	add(&Atom{ID: "embed.nonstruct", Decls: "type §MyInt int\n", Fields: "\t§MyInt\n\tQ¤ int\n"})
	add(&Atom{ID: "embed.nested", Decls: "type §L2 struct{ Deep¤ string }\ntype §L1 struct {\n\t§L2\n\tMid¤ int\n}\n", Fields: "\t§L1\n\tQ¤ int\n"})
	add(&Atom{ID: "embed.shadow", Decls: "type §Sh struct {\n\tQ¤ string\n\tR¤ bool\n}\n", Fields: "\t§Sh\n\tQ¤ int\n"})
	add(&Atom{ID: "embed.conflict", Decls: "type §C1 struct{ X¤ int }\ntype §C2 struct{ X¤ string }\n", Fields: "\t§C1\n\t§C2\n\tQ¤ int\n"})
	add(&Atom{ID: "embed.dash", Decls: childDecl, Fields: "\t§N `json:\"-\"`\n\tQ¤ int\n"})
	add(&Atom{ID: "embed.ignore", Decls: childDecl, Fields: "\t// swagger:ignore\n\t§N\n\tQ¤ int\n"})
	add(&Atom{ID: "embed.time", Fields: "\ttime.Time\n\tQ¤ int\n", Imports: []string{"time"}, NoCompose: true})
	add(&Atom{ID: "embed.textmarshaler", Decls: textMarshalerStruct, Fields: "\t§Pt\n\tQ¤ int\n", NoCompose: true})

	// well-known library types
	add(&Atom{ID: "time.time", Fields: f("time.Time"), Imports: []string{"time"}})
	add(&Atom{ID: "time.duration", Fields: f("time.Duration"), Imports: []string{"time"}})
	add(&Atom{ID: "time.month", Fields: f("time.Month"), Imports: []string{"time"}})
	add(&Atom{ID: "json.rawmessage", Fields: f("json.RawMessage"), Imports: []string{"encoding/json"}})
	add(&Atom{ID: "json.rawmessage.ptr", Fields: f("*json.RawMessage"), Imports: []string{"encoding/json"}})
	add(&Atom{ID: "json.number", Fields: f("json.Number"), Imports: []string{"encoding/json"}})
	add(&Atom{ID: "iface.empty", Fields: f("interface{}")})
	add(&Atom{ID: "iface.any", Fields: f("any")})

	// named and aliased types
	for _, k := range []string{"int", "int8", "uint8", "string", "bool", "float64", "float32"} {
		add(&Atom{ID: "named." + k, Decls: "type §My " + k + "\n", Fields: f("§My")})
	}
	add(&Atom{ID: "named.named.int", Decls: "type §A0 int16\ntype §A1 §A0\n", Fields: f("§A1")})
	add(&Atom{ID: "named.slice.int", Decls: "type §Ints []int\n", Fields: f("§Ints")})
	add(&Atom{ID: "named.slice.struct", Decls: childDecl + "type §Ns []§N\n", Fields: f("§Ns")})
	add(&Atom{ID: "named.array.int", Decls: "type §Arr [2]int\n", Fields: f("§Arr")})
	add(&Atom{ID: "named.bytes", Decls: "type §Bs []byte\n", Fields: f("§Bs")})
	add(&Atom{ID: "named.ptr.int", Decls: "type §P *int\n", Fields: f("§P")})
	add(&Atom{ID: "named.iface", Decls: "type §Any interface{}\n", Fields: f("§Any")})
	add(&Atom{ID: "named.model.int", Decls: "// swagger:model\ntype §Cnt int32\n", Fields: f("§Cnt")})
	add(&Atom{ID: "named.model.slice", Decls: "// swagger:model\ntype §Lst []string\n", Fields: f("§Lst")})
	add(&Atom{ID: "named.model.map", Decls: "// swagger:model\ntype §Mp map[string]bool\n", Fields: f("§Mp")})
	for _, k := range []string{"int32", "string", "uint8", "float32", "[]int", "map[string]int", "interface{}"} {
		add(&Atom{ID: "alias." + kindID(k), Decls: "type §Al = " + k + "\n", Fields: f("§Al")})
	}
	add(&Atom{ID: "alias.struct", Decls: childDecl + "type §Al = §N\n", Fields: f("§Al")})
	add(&Atom{ID: "alias.ptr.struct", Decls: childDecl + "type §Al = *§N\n", Fields: f("§Al")})
	add(&Atom{ID: "alias.named.int", Decls: "type §My int8\ntype §Al = §My\n", Fields: f("§Al")})
	add(&Atom{ID: "alias.time", Decls: "type §Al = time.Time\n", Fields: f("§Al"), Imports: []string{"time"}})
	add(&Atom{ID: "generic.box.int", Decls: "type §Box[T any] struct{ V¤ T }\n", Fields: f("§Box[int]")})
	add(&Atom{ID: "generic.box.string.ptr", Decls: "type §Box[T any] struct{ V¤ T }\n", Fields: f("*§Box[string]")})
	add(&Atom{ID: "generic.pair", Decls: "type §Pair[K comparable, V any] struct {\n\tKey¤ K\n\tVal¤ V\n}\n", Fields: f("§Pair[string, []float64]")})
	add(&Atom{ID: "generic.list", Decls: "type §List[T any] []T\n", Fields: f("§List[uint16]")})
	add(&Atom{ID: "generic.named.inst", Decls: "type §Box[T any] struct{ V¤ T }\ntype §IntBox §Box[int8]\n", Fields: f("§IntBox")})

	// annotations on types and fields
	add(&Atom{ID: "strfmt.named.password", Decls: "// swagger:strfmt password\ntype §Pw string\n", Fields: f("§Pw")})
	add(&Atom{ID: "strfmt.named.custom", Decls: "// §Cu is a custom format.\n//\n// swagger:strfmt vfcustom\ntype §Cu string\n", Fields: f("§Cu")})
	add(&Atom{ID: "strfmt.field.string", Fields: "\t// swagger:strfmt password\n" + f("string")})
	add(&Atom{ID: "strfmt.bytes", Decls: "// swagger:strfmt byte\ntype §B64 []byte\n", Fields: f("§B64")})
	add(&Atom{ID: "strfmt.slice.named", Decls: "// swagger:strfmt password\ntype §Tags []string\n", Fields: f("§Tags")})
	add(&Atom{ID: "strfmt.struct.textmarshaler", Decls: "// swagger:strfmt vfpoint\n" + textMarshalerStruct, Fields: f("§Pt")})
	add(&Atom{ID: "strfmt.field.time", Fields: "\t// swagger:strfmt date-time\n" + f("time.Time"), Imports: []string{"time"}})
	add(&Atom{ID: "textmarshaler.named", Decls: textMarshalerNamed, Fields: f("§Code")})
	add(&Atom{ID: "textmarshaler.struct", Decls: textMarshalerStruct, Fields: f("§Pt")})
	add(&Atom{ID: "textmarshaler.ptr", Decls: textMarshalerStruct, Fields: f("*§Pt")})
	add(&Atom{ID: "textmarshaler.slice", Decls: textMarshalerStruct, Fields: f("[]§Pt")})
	add(&Atom{ID: "textmarshaler.ptrrecv.ptr", Decls: textMarshalerPtrRecv, Fields: f("*§PR")})
	add(&Atom{ID: "textmarshaler.uuidname", Decls: uuidDecl, Fields: f("UUID"), NoCompose: true})
	add(&Atom{ID: "type.string.textmarshaler", Decls: "// swagger:type string\n" + textMarshalerStruct, Fields: f("§Pt")})
	add(&Atom{ID: "type.int64.named", Decls: "// swagger:type int64\ntype §Cnt int64\n", Fields: f("§Cnt")})
	add(&Atom{ID: "type.object.struct", Decls: "// swagger:type object\ntype §Ob struct{ A¤ int }\n", Fields: f("§Ob")})
	add(&Atom{ID: "enum.string", Decls: "// swagger:enum §Color\ntype §Color string\n\nconst (\n\t§Red §Color = \"red\"\n\t§Blue §Color = \"blue\"\n)\n", Fields: f("§Color"), Enums: [][]string{{"§Red", "§Blue"}}})
	add(&Atom{ID: "enum.int", Decls: "// swagger:enum §Prio\ntype §Prio int\n\nconst (\n\t§Low §Prio = 1\n\t§High §Prio = 7\n)\n", Fields: f("§Prio"), Enums: [][]string{{"§Low", "§High"}}})
	add(&Atom{ID: "enum.float", Decls: "// swagger:enum §Rate\ntype §Rate float64\n\nconst (\n\t§Half §Rate = 0.5\n\t§Twice §Rate = 2.0\n)\n", Fields: f("§Rate"), Enums: [][]string{{"§Half", "§Twice"}}})
	add(&Atom{ID: "enum.iota", Decls: "// swagger:enum §Lvl\ntype §Lvl int\n\nconst (\n\t§L0 §Lvl = iota\n\t§L1\n\t§L2\n)\n", Fields: f("§Lvl"), Enums: [][]string{{"§L0", "§L1", "§L2"}}})
	add(&Atom{ID: "enum.slice", Decls: "// swagger:enum §Color\ntype §Color string\n\nconst (\n\t§Red §Color = \"red\"\n\t§Blue §Color = \"blue\"\n)\n", Fields: f("[]§Color"), Enums: [][]string{{"§Red", "§Blue"}}})
	add(&Atom{ID: "enum.ptr", Decls: "// swagger:enum §Color\ntype §Color string\n\nconst (\n\t§Red §Color = \"red\"\n\t§Blue §Color = \"blue\"\n)\n", Fields: f("*§Color"), Enums: [][]string{{"§Red", "§Blue"}}})
	add(&Atom{ID: "enum.string.tagstring", Decls: "// swagger:enum §Color\ntype §Color string\n\nconst (\n\t§Red §Color = \"red\"\n\t§Blue §Color = \"blue\"\n)\n", Fields: ft("§Color", `json:"f¤,string"`), Enums: [][]string{{"§Red", "§Blue"}}})

	// value-domain atoms: values that encode as null. The vf tag tells the driver's
	// filler that this field may hold nil slices / nil maps / nil container elements.
	add(&Atom{ID: "nil.slice", Fields: ft("[]int", `vf:"nilslice"`)})
	add(&Atom{ID: "nil.slice.omitempty", Fields: ft("[]int", `json:"f¤,omitempty" vf:"nilslice"`)})
	add(&Atom{ID: "nil.slice.struct", Decls: childDecl, Fields: ft("[]§N", `vf:"nilslice"`)})
	add(&Atom{ID: "nil.bytes", Fields: ft("[]byte", `vf:"nilslice"`)})
	add(&Atom{ID: "nil.named.slice", Decls: "type §Ints []int\n", Fields: ft("§Ints", `vf:"nilslice"`)})
	add(&Atom{ID: "nil.rawmessage", Fields: ft("json.RawMessage", `vf:"nilslice"`), Imports: []string{"encoding/json"}})
	add(&Atom{ID: "nil.map", Fields: ft("map[string]int", `vf:"nilmap"`)})
	add(&Atom{ID: "nil.map.omitempty", Fields: ft("map[string]int", `json:"f¤,omitempty" vf:"nilmap"`)})
	add(&Atom{ID: "nil.named.map", Decls: "type §Dict map[string]int\n", Fields: ft("§Dict", `vf:"nilmap"`)})
	add(&Atom{ID: "nil.elem.ptr", Fields: ft("[]*int", `vf:"nilelem"`)})
	add(&Atom{ID: "nil.elem.ptr.struct", Decls: childDecl, Fields: ft("[]*§N", `vf:"nilelem"`)})
	add(&Atom{ID: "nil.elem.slice", Fields: ft("[][]int", `vf:"nilelem"`)})
	add(&Atom{ID: "nil.elem.array.ptr", Fields: ft("[2]*string", `vf:"nilelem"`)})
	add(&Atom{ID: "nil.mapval.ptr", Fields: ft("map[string]*int", `vf:"nilelem"`)})
	add(&Atom{ID: "nil.mapval.slice", Fields: ft("map[string][]int", `vf:"nilelem"`)})
	add(&Atom{ID: "nil.elem.iface", Fields: ft("[]interface{}", `vf:"nilelem"`)})

	// kinds encoding/json cannot marshal (C16 does not judge them; C17 scans them for crashes)
	add(&Atom{ID: "unenc.complex128", Fields: f("complex128"), Unencodable: true})
	add(&Atom{ID: "unenc.complex64", Fields: f("complex64"), Unencodable: true})
	add(&Atom{ID: "unenc.chan", Fields: f("chan int"), Unencodable: true})
	add(&Atom{ID: "unenc.func", Fields: f("func() error"), Unencodable: true})
	add(&Atom{ID: "unenc.error", Fields: f("error"), Unencodable: true})
	add(&Atom{ID: "unenc.unsafeptr", Fields: f("unsafe.Pointer"), Imports: []string{"unsafe"}, Unencodable: true})
	add(&Atom{ID: "unenc.map.boolkey", Fields: f("map[bool]int"), Unencodable: true})
	add(&Atom{ID: "unenc.slice.func", Fields: f("[]func()"), Unencodable: true})
	add(&Atom{ID: "unenc.iface.method", Decls: "type §Str interface{ String() string }\n", Fields: f("§Str"), Unencodable: true})

	// wrappers around a child struct (composition operators of pass B)
	add(&Atom{ID: "wrap.named", Wrap: "%s"})
	add(&Atom{ID: "wrap.ptr", Wrap: "*%s"})
	add(&Atom{ID: "wrap.ptr.omitempty", Wrap: "*%s", WrapTag: `json:"w¤,omitempty"`})
	add(&Atom{ID: "wrap.slice", Wrap: "[]%s"})
	add(&Atom{ID: "wrap.map", Wrap: "map[string]%s"})
	add(&Atom{ID: "wrap.array", Wrap: "[2]%s"})
	add(&Atom{ID: "wrap.anon", Wrap: "anon"})
	add(&Atom{ID: "wrap.embed", Wrap: "embed"})
	add(&Atom{ID: "wrap.embed.ptr", Wrap: "embedptr"})
	seen := map[string]bool{}
	for _, a := range as {
		if seen[a.ID] {
			panic("gogen: duplicate atom id " + a.ID)
		}
		seen[a.ID] = true
	}
	return as
}

func kindID(k string) string {
	r := strings.NewReplacer("interface{}", "iface", "[]", "slice.", "*", "ptr.", "map[string]", "map.string.", "[2]", "array.")
	return r.Replace(k)
}

// Leaf is one placed field of a composite: an atom instance, possibly a wrapper with children.
type Leaf struct {
	Atom  *Atom
	Idx   int // unique per composite: fills § and ¤
	Child []*Leaf
}

// Composite is a model struct M made of leaves.
type Composite struct {
	Fields []*Leaf
}

// Single is the pass-A composite of one atom (wrappers get the fixed child).
func Single(a *Atom, fixedChild *Atom) *Composite {
	l := &Leaf{Atom: a, Idx: 1}
	if a.Wrap != "" {
		l.Child = []*Leaf{{Atom: fixedChild, Idx: 2}, {Atom: fixedChild, Idx: 3}}
	}
	return &Composite{Fields: []*Leaf{l}}
}

func subst(s string, idx int) string {
	s = strings.ReplaceAll(s, "§", fmt.Sprintf("T%d", idx))
	return strings.ReplaceAll(s, "¤", fmt.Sprint(idx))
}

type render struct {
	decls   strings.Builder
	imports map[string]bool
	enums   [][]string
}

func (r *render) body(ls []*Leaf, indent string) string {
	var b strings.Builder
	for _, l := range ls {
		a := l.Atom
		for _, im := range a.Imports {
			r.imports[im] = true
		}
		if a.Wrap == "" {
			if a.Decls != "" {
				r.decls.WriteString(subst(a.Decls, l.Idx))
				r.decls.WriteString("\n")
			}
			for _, e := range a.Enums {
				var cs []string
				for _, c := range e {
					cs = append(cs, subst(c, l.Idx))
				}
				r.enums = append(r.enums, cs)
			}
			fs := subst(a.Fields, l.Idx)
			if indent != "" {
				fs = strings.ReplaceAll(fs, "\n\t", "\n\t"+indent)
				fs = indent + fs
			}
			b.WriteString(fs)
			continue
		}
		name := fmt.Sprintf("T%dW", l.Idx)
		tag := ""
		if a.WrapTag != "" {
			tag = " `" + subst(a.WrapTag, l.Idx) + "`"
		}
		switch a.Wrap {
		case "anon":
			inner := r.body(l.Child, indent+"\t")
			fmt.Fprintf(&b, "%s\tW%d struct {\n%s%s\t}%s\n", indent, l.Idx, inner, indent, tag)
		case "embed", "embedptr":
			r.decls.WriteString("type " + name + " struct {\n" + r.body(l.Child, "") + "}\n\n")
			star := ""
			if a.Wrap == "embedptr" {
				star = "*"
			}
			fmt.Fprintf(&b, "%s\t%s%s\n", indent, star, name)
		default:
			r.decls.WriteString("type " + name + " struct {\n" + r.body(l.Child, "") + "}\n\n")
			fmt.Fprintf(&b, "%s\tW%d %s%s\n", indent, l.Idx, fmt.Sprintf(a.Wrap, name), tag)
		}
	}
	return b.String()
}

// Source renders the composite as package pkg. Enums returns the constant
// identifier groups the driver registry needs.
func (c *Composite) Source(pkg string) (src string, enums [][]string) {
	r := &render{imports: map[string]bool{}}
	body := r.body(c.Fields, "")
	var b strings.Builder
	fmt.Fprintf(&b, "// Package %s holds one generated model.\npackage %s\n\n", pkg, pkg)
	if len(r.imports) > 0 {
		var ims []string
		for im := range r.imports {
			ims = append(ims, im)
		}
		sort.Strings(ims)
		b.WriteString("import (\n")
		for _, im := range ims {
			fmt.Fprintf(&b, "\t%q\n", im)
		}
		b.WriteString(")\n\n")
	}
	b.WriteString(dedupDecls(r.decls.String()))
	b.WriteString("// swagger:model\ntype M struct {\n" + body + "}\n")
	return b.String(), r.enums
}

// dedupDecls drops a declaration block that was emitted twice (embed wrappers render children twice).
func dedupDecls(s string) string {
	parts := strings.Split(s, "\n\n")
	seen := map[string]bool{}
	var out []string
	for _, p := range parts {
		if strings.TrimSpace(p) == "" || seen[p] {
			continue
		}
		seen[p] = true
		out = append(out, p)
	}
	if len(out) == 0 {
		return ""
	}
	return strings.Join(out, "\n\n") + "\n\n"
}

// Leaves lists the non-wrapper leaves in order.
func (c *Composite) Leaves() []*Leaf {
	var out []*Leaf
	var walk func(ls []*Leaf)
	walk = func(ls []*Leaf) {
		for _, l := range ls {
			if l.Atom.Wrap == "" {
				out = append(out, l)
			} else {
				walk(l.Child)
			}
		}
	}
	walk(c.Fields)
	return out
}

// AtomIDs is the sorted set of atom ids (leaves and wrappers) of the composite.
func (c *Composite) AtomIDs() []string {
	set := map[string]bool{}
	var walk func(ls []*Leaf)
	walk = func(ls []*Leaf) {
		for _, l := range ls {
			set[l.Atom.ID] = true
			walk(l.Child)
		}
	}
	walk(c.Fields)
	var out []string
	for k := range set {
		out = append(out, k)
	}
	sort.Strings(out)
	return out
}

// Restrict returns a copy keeping only the leaves whose Idx is in keep; empty wrappers are pruned.
func (c *Composite) Restrict(keep map[int]bool) *Composite {
	var cp func(ls []*Leaf) []*Leaf
	cp = func(ls []*Leaf) []*Leaf {
		var out []*Leaf
		for _, l := range ls {
			if l.Atom.Wrap == "" {
				if keep[l.Idx] {
					out = append(out, l)
				}
				continue
			}
			ch := cp(l.Child)
			if len(ch) > 0 {
				out = append(out, &Leaf{Atom: l.Atom, Idx: l.Idx, Child: ch})
			}
		}
		return out
	}
	return &Composite{Fields: cp(c.Fields)}
}

// Compose draws a seeded composite: n fields from leaves, nesting through wraps up to depth.
func Compose(rnd interface{ Intn(int) int }, leaves, wraps []*Atom, n, depth int) *Composite {
	idx := 0
	var mk func(n, depth int) []*Leaf
	mk = func(n, depth int) []*Leaf {
		var out []*Leaf
		for i := 0; i < n; i++ {
			idx++
			if depth > 1 && len(wraps) > 0 && rnd.Intn(5) == 0 {
				w := wraps[rnd.Intn(len(wraps))]
				l := &Leaf{Atom: w, Idx: idx}
				l.Child = mk(1+rnd.Intn(4), depth-1)
				out = append(out, l)
				continue
			}
			out = append(out, &Leaf{Atom: leaves[rnd.Intn(len(leaves))], Idx: idx})
		}
		return out
	}
	return &Composite{Fields: mk(n, depth)}
}
