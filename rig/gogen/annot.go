package gogen

import (
	"fmt"
	"sort"
	"strings"
)

// Sel selects the first element of an array whose members equal the given values.
type Sel map[string]any

// Exists as Expect.Want: the path must exist, whatever its value.
type Exists struct{}

// Absent as Expect.Want: the path must not exist.
type Absent struct{}

// Expect is one item of the intent model of a program.
type Expect struct {
	Form string
	Path []any
	Want any
}

// Prog is an annotated program under construction: package "api", files doc.go and api.go.
type Prog struct {
	Title, Version string
	MetaOff        bool
	metaDesc       []string
	meta           []string
	decls          []string
	needTime       bool
	Input          map[string]any
	Expect         []Expect
	Forms          []string
	n              int
}

// Form is one annotation form (feature) of the documented grammar.
type Form struct {
	ID       string
	Requires []string
	Apply    func(p *Prog)
}

func (p *Prog) next() int { p.n++; return p.n }

func (p *Prog) e(form string, want any, path ...any) {
	p.Expect = append(p.Expect, Expect{Form: form, Path: path, Want: want})
}

func (p *Prog) drop(pred func(e Expect) bool) {
	var keep []Expect
	for _, e := range p.Expect {
		if !pred(e) {
			keep = append(keep, e)
		}
	}
	p.Expect = keep
}

func comment(lines []string) string {
	var b strings.Builder
	for _, l := range lines {
		if l == "" {
			b.WriteString("//\n")
		} else {
			b.WriteString("// " + l + "\n")
		}
	}
	return b.String()
}

func blockComment(lines []string, inlineClose bool) string {
	if inlineClose {
		return "/* " + strings.Join(lines, "\n") + " */\n"
	}
	return "/* " + strings.Join(lines, "\n") + "\n*/\n"
}

// route adds a swagger:route comment on a handler func.
func (p *Prog) route(method, path, tags, id string, block bool, body ...string) {
	p.routeC(method, path, tags, id, block, false, body...)
}

func (p *Prog) routeC(method, path, tags, id string, block, inlineClose bool, body ...string) {
	hdr := "swagger:route " + method + " " + path + " "
	if tags != "" {
		hdr += tags + " "
	}
	hdr += id
	lines := append([]string{hdr, ""}, body...)
	c := comment(lines)
	if block {
		c = blockComment(lines, inlineClose)
	}
	p.decls = append(p.decls, c+fmt.Sprintf("func H%d() {}\n", p.next()))
}

func (p *Prog) operation(method, path, tags, id string, body ...string) {
	hdr := "swagger:operation " + method + " " + path + " "
	if tags != "" {
		hdr += tags + " "
	}
	hdr += id
	p.decls = append(p.decls, comment(append([]string{hdr, ""}, body...))+fmt.Sprintf("func H%d() {}\n", p.next()))
}

func (p *Prog) decl(src string) { p.decls = append(p.decls, src) }

var okResp = []string{"Responses:", "  200: baseResp"}

func op(path, method string) []any { return []any{"paths", path, strings.ToLower(method)} }
func at(base []any, more ...any) []any {
	return append(append([]any{}, base...), more...)
}

// Files renders the program.
func (p *Prog) Files() map[string]string {
	var doc strings.Builder
	if !p.MetaOff {
		lines := []string{"Package api " + p.Title}
		if len(p.metaDesc) > 0 {
			lines = append(lines, "")
			lines = append(lines, p.metaDesc...)
		}
		lines = append(lines, "")
		if p.Version != "" {
			lines = append(lines, "Version: "+p.Version)
		}
		lines = append(lines, p.meta...)
		lines = append(lines, "", "swagger:meta")
		doc.WriteString(comment(lines))
	} else {
		doc.WriteString("// Package api has no API metadata.\n")
	}
	doc.WriteString("package api\n")
	var api strings.Builder
	api.WriteString("package api\n\n")
	if p.needTime {
		api.WriteString("import \"time\"\n\n")
	}
	api.WriteString(strings.Join(p.decls, "\n"))
	return map[string]string{"doc.go": doc.String(), "api.go": api.String()}
}

// NewProg returns the skeleton every program shares: meta with title and version, one
// route with one named response.
func NewProg() *Prog {
	p := &Prog{Title: "Vf API.", Version: "1.2.3"}
	p.e("meta.base", "Vf API.", "info", "title")
	p.e("meta.base", "1.2.3", "info", "version")
	p.decl("// BaseResp is the plain answer.\n//\n// swagger:response baseResp\ntype BaseResp struct{}\n")
	p.route("GET", "/base", "base", "baseOp", false, okResp...)
	b := op("/base", "GET")
	p.e("route.base", "baseOp", at(b, "operationId")...)
	p.e("route.base", []any{"base"}, at(b, "tags")...)
	p.e("route.base", "#/responses/baseResp", at(b, "responses", "200", "$ref")...)
	p.e("response.base", Exists{}, "responses", "baseResp")
	return p
}

const secDefs = `SecurityDefinitions:
api_key:
     type: apiKey
     name: KEY
     in: header
oauth2:
    type: oauth2
    authorizationUrl: /oauth2/auth
    tokenUrl: /oauth2/token
    scopes:
      read: read things
      write: write things
    flow: accessCode`

func lines(s string) []string { return strings.Split(s, "\n") }

// model helper: declares Model<k> with one int64 field, returns its name.
func (p *Prog) model() string {
	k := p.next()
	name := fmt.Sprintf("Model%d", k)
	p.decl(fmt.Sprintf("// %s is a model.\n//\n// swagger:model\ntype %s struct {\n\t// the id\n\t//\n\t// required: true\n\tID int64 `json:\"id\"`\n\tName string `json:\"name\"`\n}\n", name, name))
	return name
}

// paramField describes one field of a swagger:parameters struct.
type paramField struct {
	form, goName, jsonName, typ string
	doc                         []string
	want                        map[string]any
}

func (p *Prog) paramsStruct(form, opid string, method, path string, fs ...paramField) {
	k := p.next()
	var b strings.Builder
	fmt.Fprintf(&b, "// P%d holds parameters.\n//\n// swagger:parameters %s\ntype P%d struct {\n", k, opid, k)
	for _, f := range fs {
		for _, dl := range f.doc {
			for _, l := range strings.Split(dl, "\n") {
				if l == "" {
					b.WriteString("\t//\n")
				} else {
					b.WriteString("\t// " + l + "\n")
				}
			}
		}
		tag := ""
		if f.jsonName != "" {
			tag = " `json:\"" + f.jsonName + "\"`"
		}
		fmt.Fprintf(&b, "\t%s %s%s\n", f.goName, f.typ, tag)
	}
	b.WriteString("}\n")
	p.decl(b.String())
	for _, f := range fs {
		name := f.jsonName
		if name == "" {
			name = f.goName
		}
		in, _ := f.want["in"].(string)
		base := at(op(path, method), "parameters", Sel{"name": name, "in": in})
		fm := f.form
		if fm == "" {
			fm = form
		}
		p.e(fm, Exists{}, base...)
		for _, key := range sortedKeys(f.want) {
			if key == "in" {
				continue
			}
			p.e(fm, f.want[key], at2(base, key)...)
		}
	}
}

func sortedKeys(m map[string]any) []string {
	var ks []string
	for k := range m {
		ks = append(ks, k)
	}
	sort.Strings(ks)
	return ks
}

func at2(base []any, dotted string) []any {
	out := append([]any{}, base...)
	for _, s := range strings.Split(dotted, ".") {
		out = append(out, s)
	}
	return out
}

// Forms returns the fixed, ordered catalogue of annotation forms.
func Forms() []*Form {
	var fs []*Form
	add := func(id string, apply func(p *Prog), req ...string) {
		fs = append(fs, &Form{ID: id, Apply: apply, Requires: req})
	}
	// ------------------------------------------------------------ meta
	add("meta.description", func(p *Prog) {
		p.metaDesc = []string{"the purpose of this application is to provide an application", "that is using plain go code to define an API"}
		p.e("meta.description", "the purpose of this application is to provide an application\nthat is using plain go code to define an API", "info", "description")
	})
	add("meta.host", func(p *Prog) {
		p.meta = append(p.meta, "Host: api.example.com")
		p.e("meta.host", "api.example.com", "host")
	})
	add("meta.basepath", func(p *Prog) {
		p.meta = append(p.meta, "BasePath: /v2")
		p.e("meta.basepath", "/v2", "basePath")
	})
	add("meta.schemes", func(p *Prog) {
		p.meta = append(p.meta, "Schemes: http, https")
		p.e("meta.schemes", []any{"http", "https"}, "schemes")
	})
	add("meta.consumes", func(p *Prog) {
		p.meta = append(p.meta, "", "Consumes:", "- application/json", "- application/xml", "")
		p.e("meta.consumes", []any{"application/json", "application/xml"}, "consumes")
	})
	add("meta.produces", func(p *Prog) {
		p.meta = append(p.meta, "", "Produces:", "- application/json", "- application/xml", "")
		p.e("meta.produces", []any{"application/json", "application/xml"}, "produces")
	})
	add("meta.license", func(p *Prog) {
		p.meta = append(p.meta, "License: MIT http://opensource.org/licenses/MIT")
		p.e("meta.license", map[string]any{"name": "MIT", "url": "http://opensource.org/licenses/MIT"}, "info", "license")
	})
	add("meta.contact", func(p *Prog) {
		p.meta = append(p.meta, "Contact: John Doe<john.doe@example.com> http://john.doe.com")
		p.e("meta.contact", map[string]any{"name": "John Doe", "email": "john.doe@example.com", "url": "http://john.doe.com"}, "info", "contact")
	})
	add("meta.tos", func(p *Prog) {
		p.meta = append(p.meta, "", "Terms Of Service:", "", "there are no TOS at this moment, use at your own risk", "")
		p.e("meta.tos", "there are no TOS at this moment, use at your own risk", "info", "termsOfService")
	})
	add("meta.securityDefinitions", func(p *Prog) {
		p.meta = append(p.meta, "")
		p.meta = append(p.meta, lines(secDefs)...)
		p.meta = append(p.meta, "")
		p.e("meta.securityDefinitions", "apiKey", "securityDefinitions", "api_key", "type")
		p.e("meta.securityDefinitions", "KEY", "securityDefinitions", "api_key", "name")
		p.e("meta.securityDefinitions", "header", "securityDefinitions", "api_key", "in")
		p.e("meta.securityDefinitions", "oauth2", "securityDefinitions", "oauth2", "type")
		p.e("meta.securityDefinitions", "accessCode", "securityDefinitions", "oauth2", "flow")
		p.e("meta.securityDefinitions", "read things", "securityDefinitions", "oauth2", "scopes", "read")
	})
	add("meta.security", func(p *Prog) {
		p.meta = append(p.meta, "", "Security:", "- api_key:", "")
		p.e("meta.security", []any{map[string]any{"api_key": []any{}}}, "security")
	}, "meta.securityDefinitions")
	add("meta.extensions", func(p *Prog) {
		p.meta = append(p.meta, "", "Extensions:", "x-meta-value: value", "x-meta-array:", "  - value1", "  - value2", "x-meta-array-obj:", "  - name: obj", "    value: field", "")
		p.e("meta.extensions", "value", "x-meta-value")
		p.e("meta.extensions", []any{"value1", "value2"}, "x-meta-array")
		p.e("meta.extensions", []any{map[string]any{"name": "obj", "value": "field"}}, "x-meta-array-obj")
	})
	add("meta.infoExtensions", func(p *Prog) {
		p.meta = append(p.meta, "", "InfoExtensions:", "x-info-value: value", "x-info-array:", "  - value1", "  - value2", "")
		p.e("meta.infoExtensions", "value", "info", "x-info-value")
		p.e("meta.infoExtensions", []any{"value1", "value2"}, "info", "x-info-array")
	})
	add("meta.absent", func(p *Prog) {
		p.MetaOff = true
		p.drop(func(e Expect) bool { return e.Form == "meta.base" })
	})
	add("meta.noversion", func(p *Prog) {
		p.Version = ""
		p.drop(func(e Expect) bool { return e.Form == "meta.base" && e.Path[len(e.Path)-1] == "version" })
	})

	// ------------------------------------------------------------ routes
	for _, m := range []string{"GET", "POST", "PUT", "PATCH", "DELETE", "HEAD", "OPTIONS"} {
		m := m
		add("route.method."+m, func(p *Prog) {
			k := p.next()
			path, id := fmt.Sprintf("/r%d", k), fmt.Sprintf("op%d", k)
			p.route(m, path, "", id, false, okResp...)
			p.e("route.method."+m, id, at(op(path, m), "operationId")...)
			p.e("route.method."+m, "#/responses/baseResp", at(op(path, m), "responses", "200", "$ref")...)
		})
	}
	add("route.method.lowercase", func(p *Prog) {
		k := p.next()
		path, id := fmt.Sprintf("/r%d", k), fmt.Sprintf("op%d", k)
		p.route("get", path, "", id, false, okResp...)
		p.e("route.method.lowercase", id, at(op(path, "GET"), "operationId")...)
	})
	add("route.tags", func(p *Prog) {
		k := p.next()
		path, id := fmt.Sprintf("/r%d", k), fmt.Sprintf("op%d", k)
		p.route("GET", path, "pets users", id, false, okResp...)
		p.e("route.tags", id, at(op(path, "GET"), "operationId")...)
		p.e("route.tags", []any{"pets", "users"}, at(op(path, "GET"), "tags")...)
	})
	add("route.path.complex", func(p *Prog) {
		k := p.next()
		path, id := fmt.Sprintf("/r%d/sub-dir/v1.0/items_x", k), fmt.Sprintf("list-items_%d", k)
		p.route("GET", path, "", id, false, okResp...)
		p.e("route.path.complex", id, at(op(path, "GET"), "operationId")...)
	})
	add("route.summary-desc", func(p *Prog) {
		k := p.next()
		path, id := fmt.Sprintf("/r%d", k), fmt.Sprintf("op%d", k)
		body := append([]string{"Lists pets filtered by some parameters.", "", "This will show all available pets by default.", "You can get the pets that are out of stock", ""}, okResp...)
		p.route("GET", path, "pets", id, false, body...)
		p.e("route.summary-desc", "Lists pets filtered by some parameters.", at(op(path, "GET"), "summary")...)
		p.e("route.summary-desc", "This will show all available pets by default.\nYou can get the pets that are out of stock", at(op(path, "GET"), "description")...)
	})
	for _, v := range []struct {
		id, key, field string
		dash           bool
	}{{"route.consumes", "Consumes:", "consumes", false}, {"route.produces", "Produces:", "produces", false}, {"route.consumes.dashes", "Consumes:", "consumes", true}} {
		v := v
		add(v.id, func(p *Prog) {
			k := p.next()
			path, id := fmt.Sprintf("/r%d", k), fmt.Sprintf("op%d", k)
			pre := ""
			if v.dash {
				pre = "- "
			}
			body := append([]string{v.key, pre + "application/json", pre + "application/x-protobuf", ""}, okResp...)
			p.route("POST", path, "", id, false, body...)
			p.e(v.id, []any{"application/json", "application/x-protobuf"}, at(op(path, "POST"), v.field)...)
		})
	}
	add("route.schemes", func(p *Prog) {
		k := p.next()
		path, id := fmt.Sprintf("/r%d", k), fmt.Sprintf("op%d", k)
		p.route("GET", path, "", id, false, append([]string{"Schemes: http, https, ws, wss", ""}, okResp...)...)
		p.e("route.schemes", []any{"http", "https", "ws", "wss"}, at(op(path, "GET"), "schemes")...)
	})
	add("route.security", func(p *Prog) {
		k := p.next()
		path, id := fmt.Sprintf("/r%d", k), fmt.Sprintf("op%d", k)
		p.route("GET", path, "", id, false, append([]string{"Security:", "  api_key:", "  oauth2: read, write", ""}, okResp...)...)
		p.e("route.security", []any{map[string]any{"api_key": []any{}}, map[string]any{"oauth2": []any{"read", "write"}}}, at(op(path, "GET"), "security")...)
	}, "meta.securityDefinitions")
	add("route.deprecated", func(p *Prog) {
		k := p.next()
		path, id := fmt.Sprintf("/r%d", k), fmt.Sprintf("op%d", k)
		p.route("GET", path, "", id, false, append([]string{"Deprecated: true", ""}, okResp...)...)
		p.e("route.deprecated", true, at(op(path, "GET"), "deprecated")...)
	})
	add("route.extensions.flag", func(p *Prog) {
		k := p.next()
		path, id := fmt.Sprintf("/r%d", k), fmt.Sprintf("op%d", k)
		p.route("GET", path, "", id, false, append(append([]string{}, okResp...), "", "Extensions:", "x-example-flag: true")...)
		p.e("route.extensions.flag", Exists{}, at(op(path, "GET"), "x-example-flag")...)
	})
	add("route.extensions.list", func(p *Prog) {
		k := p.next()
		path, id := fmt.Sprintf("/r%d", k), fmt.Sprintf("op%d", k)
		p.route("GET", path, "", id, false, append(append([]string{}, okResp...), "", "Extensions:", "x-some-list:", "  - dog", "  - cat", "  - bird")...)
		p.e("route.extensions.list", []any{"dog", "cat", "bird"}, at(op(path, "GET"), "x-some-list")...)
	})
	add("route.extensions.object", func(p *Prog) {
		k := p.next()
		path, id := fmt.Sprintf("/r%d", k), fmt.Sprintf("op%d", k)
		p.route("GET", path, "", id, false, append(append([]string{}, okResp...), "", "Extensions:", "x-some-object:", "  key1: value1", "  key2: value2", "  subobject:", "    subkey1: subvalue1", "  key3: value3")...)
		p.e("route.extensions.object", map[string]any{"key1": "value1", "key2": "value2", "subobject": map[string]any{"subkey1": "subvalue1"}, "key3": "value3"}, at(op(path, "GET"), "x-some-object")...)
	})
	add("route.blockcomment", func(p *Prog) {
		k := p.next()
		path, id := fmt.Sprintf("/r%d", k), fmt.Sprintf("op%d", k)
		body := append([]string{"Create a pet based on the parameters.", "", "Consumes:", "- application/json", "", "Schemes: http, https", ""}, "Responses:", "default: baseResp", "200: baseResp")
		p.route("POST", path, "pets", id, true, body...)
		b := op(path, "POST")
		p.e("route.blockcomment", id, at(b, "operationId")...)
		p.e("route.blockcomment", []any{"pets"}, at(b, "tags")...)
		p.e("route.blockcomment", []any{"application/json"}, at(b, "consumes")...)
		p.e("route.blockcomment", []any{"http", "https"}, at(b, "schemes")...)
		p.e("route.blockcomment", "#/responses/baseResp", at(b, "responses", "default", "$ref")...)
		p.e("route.blockcomment", "#/responses/baseResp", at(b, "responses", "200", "$ref")...)
	})
	add("route.blockcomment.inline-close", func(p *Prog) {
		k := p.next()
		path, id := fmt.Sprintf("/r%d", k), fmt.Sprintf("op%d", k)
		body := append([]string{"Create a pet based on the parameters.", "", "Consumes:", "- application/json", "", "Schemes: http, https", ""}, "Responses:", "default: baseResp", "200: baseResp")
		p.routeC("POST", path, "pets", id, true, true, body...)
		b := op(path, "POST")
		p.e("route.blockcomment.inline-close", id, at(b, "operationId")...)
		p.e("route.blockcomment.inline-close", []any{"pets"}, at(b, "tags")...)
		p.e("route.blockcomment.inline-close", []any{"application/json"}, at(b, "consumes")...)
		p.e("route.blockcomment.inline-close", []any{"http", "https"}, at(b, "schemes")...)
		p.e("route.blockcomment.inline-close", "#/responses/baseResp", at(b, "responses", "default", "$ref")...)
		p.e("route.blockcomment.inline-close", "#/responses/baseResp", at(b, "responses", "200", "$ref")...)
	})
	add("route.responses.named", func(p *Prog) {
		k := p.next()
		path, id := fmt.Sprintf("/r%d", k), fmt.Sprintf("op%d", k)
		p.decl(fmt.Sprintf("// Err%d is an error answer.\n//\n// swagger:response err%d\ntype Err%d struct {\n\t// in: body\n\tBody struct {\n\t\tMessage string `json:\"message\"`\n\t}\n}\n", k, k, k))
		p.route("GET", path, "", id, false, "Responses:", "  default: err"+fmt.Sprint(k), "  200: baseResp", "  422: err"+fmt.Sprint(k))
		b := op(path, "GET")
		p.e("route.responses.named", fmt.Sprintf("#/responses/err%d", k), at(b, "responses", "default", "$ref")...)
		p.e("route.responses.named", fmt.Sprintf("#/responses/err%d", k), at(b, "responses", "422", "$ref")...)
		p.e("route.responses.named", "#/responses/baseResp", at(b, "responses", "200", "$ref")...)
		p.e("route.responses.named", "string", "responses", fmt.Sprintf("err%d", k), "schema", "properties", "message", "type")
	})
	// a response and a model published under one swagger name: an untagged or `response:` name
	// in a Responses: block is the response, `body:` the model
	add("route.responses.named.model-namesake", func(p *Prog) {
		const form = "route.responses.named.model-namesake"
		k := p.next()
		path, id := fmt.Sprintf("/r%d", k), fmt.Sprintf("op%d", k)
		name := fmt.Sprintf("apiFault%d", k)
		p.decl(fmt.Sprintf("// Fault%d is the payload of a failure.\n//\n// swagger:model %s\ntype Fault%d struct {\n\t// required: true\n\tCode int32 `json:\"code\"`\n\tMessage string `json:\"message\"`\n}\n", k, name, k))
		p.decl(fmt.Sprintf("// FaultResponse%d is the failure envelope.\n//\n// swagger:response %s\ntype FaultResponse%d struct {\n\t// Correlation id\n\tXRequestID string `json:\"X-Request-Id\"`\n\t// in: body\n\tBody Fault%d `json:\"body\"`\n}\n", k, name, k, k))
		p.route("GET", path, "", id, false, "Responses:", "  default: "+name, "  200: baseResp", "  422: response:"+name, "  409: body:"+name)
		b := op(path, "GET")
		p.e(form, "#/responses/"+name, at(b, "responses", "default", "$ref")...)
		p.e(form, "#/responses/"+name, at(b, "responses", "422", "$ref")...)
		p.e(form, "#/definitions/"+name, at(b, "responses", "409", "schema", "$ref")...)
		p.e(form, "string", "responses", name, "headers", "X-Request-Id", "type")
		p.e(form, "#/definitions/"+name, "responses", name, "schema", "$ref")
		p.e(form, Exists{}, "definitions", name)
	})
	add("route.responses.tagged", func(p *Prog) {
		const form = "route.responses.tagged"
		k := p.next()
		path, id := fmt.Sprintf("/r%d", k), fmt.Sprintf("op%d", k)
		m := p.model()
		p.decl(fmt.Sprintf("// Tagged%d is an answer.\n//\n// swagger:response tagged%d\ntype Tagged%d struct {\n\t// in: body\n\tBody %s\n}\n", k, k, k, m))
		p.route("GET", path, "", id, false, "Responses:", fmt.Sprintf("  200: response:tagged%d", k), fmt.Sprintf("  default: response:tagged%d", k), "  404: "+m)
		b := op(path, "GET")
		p.e(form, fmt.Sprintf("#/responses/tagged%d", k), at(b, "responses", "200", "$ref")...)
		p.e(form, fmt.Sprintf("#/responses/tagged%d", k), at(b, "responses", "default", "$ref")...)
		p.e(form, "#/definitions/"+m, at(b, "responses", "404", "schema", "$ref")...)
	})
	add("route.responses.body", func(p *Prog) {
		k := p.next()
		path, id := fmt.Sprintf("/r%d", k), fmt.Sprintf("op%d", k)
		m := p.model()
		p.route("GET", path, "", id, false, "Responses:", "  200: body:"+m, "  default: body:[]"+m)
		b := op(path, "GET")
		p.e("route.responses.body", "#/definitions/"+m, at(b, "responses", "200", "schema", "$ref")...)
		p.e("route.responses.body", "array", at(b, "responses", "default", "schema", "type")...)
		p.e("route.responses.body", "#/definitions/"+m, at(b, "responses", "default", "schema", "items", "$ref")...)
		p.e("route.responses.body", Exists{}, "definitions", m)
	})
	add("route.responses.description", func(p *Prog) {
		k := p.next()
		path, id := fmt.Sprintf("/r%d", k), fmt.Sprintf("op%d", k)
		p.route("DELETE", path, "", id, false, "Responses:", "  202: description:Some description", "  200: baseResp")
		p.e("route.responses.description", "Some description", at(op(path, "DELETE"), "responses", "202", "description")...)
	})
	add("route.noresponses", func(p *Prog) {
		k := p.next()
		path, id := fmt.Sprintf("/r%d", k), fmt.Sprintf("op%d", k)
		p.route("GET", path, "", id, false, "Just a route without a responses section.")
		p.e("route.noresponses", id, at(op(path, "GET"), "operationId")...)
	})
	add("route.params.inline.query", func(p *Prog) {
		k := p.next()
		path, id := fmt.Sprintf("/r%d", k), fmt.Sprintf("op%d", k)
		p.route("GET", path, "", id, false, append([]string{"Parameters:", "+ name: limit", "  description: maximum number of results to return", "  in: query", "  type: integer", "  format: int32", "  required: false", "+ name: q", "  in: query", "  type: string", "  required: true", ""}, okResp...)...)
		b := at(op(path, "GET"), "parameters", Sel{"name": "limit", "in": "query"})
		p.e("route.params.inline.query", "integer", at(b, "type")...)
		p.e("route.params.inline.query", "int32", at(b, "format")...)
		p.e("route.params.inline.query", "maximum number of results to return", at(b, "description")...)
		b2 := at(op(path, "GET"), "parameters", Sel{"name": "q", "in": "query"})
		p.e("route.params.inline.query", "string", at(b2, "type")...)
		p.e("route.params.inline.query", true, at(b2, "required")...)
	})
	add("route.params.inline.header", func(p *Prog) {
		k := p.next()
		path, id := fmt.Sprintf("/r%d", k), fmt.Sprintf("op%d", k)
		p.route("GET", path, "", id, false, append([]string{"Parameters:", "+ name: X-Rate", "  in: header", "  type: number", ""}, okResp...)...)
		p.e("route.params.inline.header", "number", at(op(path, "GET"), "parameters", Sel{"name": "X-Rate", "in": "header"}, "type")...)
	})
	add("route.params.inline.path", func(p *Prog) {
		k := p.next()
		path, id := fmt.Sprintf("/r%d/{id}", k), fmt.Sprintf("op%d", k)
		p.route("GET", path, "", id, false, append([]string{"Parameters:", "+ name: id", "  description: The pet id", "  in: path", "  type: string", "  required: true", ""}, okResp...)...)
		b := at(op(path, "GET"), "parameters", Sel{"name": "id", "in": "path"})
		p.e("route.params.inline.path", true, at(b, "required")...)
		p.e("route.params.inline.path", "string", at(b, "type")...)
	})
	add("route.params.inline.body", func(p *Prog) {
		k := p.next()
		path, id := fmt.Sprintf("/r%d", k), fmt.Sprintf("op%d", k)
		m := p.model()
		p.route("POST", path, "", id, false, append([]string{"Parameters:", "+ name: request", "  description: The request model.", "  in: body", "  type: " + m, ""}, okResp...)...)
		b := at(op(path, "POST"), "parameters", Sel{"name": "request", "in": "body"})
		p.e("route.params.inline.body", "#/definitions/"+m, at(b, "schema", "$ref")...)
		p.e("route.params.inline.body", Exists{}, "definitions", m)
	})

	// ------------------------------------------------------------ operations (YAML body)
	add("operation.basic", func(p *Prog) {
		k := p.next()
		path, id := fmt.Sprintf("/o%d", k), fmt.Sprintf("oper%d", k)
		p.operation("GET", path, "pets", id, "Returns all pets from the system.", "", "Could be any pet", "", "---", "produces:", "- application/json", "- text/html", "responses:", "  '200':", "    description: pet response", "  default:", "    description: unexpected error")
		b := op(path, "GET")
		p.e("operation.basic", id, at(b, "operationId")...)
		p.e("operation.basic", []any{"pets"}, at(b, "tags")...)
		p.e("operation.basic", "Returns all pets from the system.", at(b, "summary")...)
		p.e("operation.basic", "Could be any pet", at(b, "description")...)
		p.e("operation.basic", []any{"application/json", "text/html"}, at(b, "produces")...)
		p.e("operation.basic", "pet response", at(b, "responses", "200", "description")...)
		p.e("operation.basic", "unexpected error", at(b, "responses", "default", "description")...)
	})
	add("operation.params", func(p *Prog) {
		k := p.next()
		path, id := fmt.Sprintf("/o%d", k), fmt.Sprintf("oper%d", k)
		p.operation("GET", path, "", id, "---", "parameters:", "- name: tags", "  in: query", "  description: tags to filter by", "  required: false", "  type: array", "  items:", "    type: string", "  collectionFormat: csv", "- name: limit", "  in: query", "  description: maximum number of results to return", "  required: false", "  type: integer", "  format: int32", "  maximum: 50", "responses:", "  '200':", "    description: ok")
		b := op(path, "GET")
		t := at(b, "parameters", Sel{"name": "tags", "in": "query"})
		p.e("operation.params", "array", at(t, "type")...)
		p.e("operation.params", "string", at(t, "items", "type")...)
		p.e("operation.params", "csv", at(t, "collectionFormat")...)
		l := at(b, "parameters", Sel{"name": "limit", "in": "query"})
		p.e("operation.params", "int32", at(l, "format")...)
		p.e("operation.params", 50, at(l, "maximum")...)
	})
	add("operation.schema", func(p *Prog) {
		k := p.next()
		path, id := fmt.Sprintf("/o%d/{id}", k), fmt.Sprintf("oper%d", k)
		m := p.model()
		p.operation("PUT", path, "", id, "---", "consumes:", "- application/json", "parameters:", "- name: id", "  in: path", "  required: true", "  type: integer", "  format: int64", "- name: body", "  in: body", "  schema:", "    \"$ref\": \"#/definitions/"+m+"\"", "responses:", "  '200':", "    description: pet response", "    schema:", "      type: array", "      items:", "        \"$ref\": \"#/definitions/"+m+"\"", "  '404':", "    description: not found")
		b := op(path, "PUT")
		p.e("operation.schema", true, at(b, "parameters", Sel{"name": "id", "in": "path"}, "required")...)
		p.e("operation.schema", "#/definitions/"+m, at(b, "parameters", Sel{"name": "body", "in": "body"}, "schema", "$ref")...)
		p.e("operation.schema", "#/definitions/"+m, at(b, "responses", "200", "schema", "items", "$ref")...)
		p.e("operation.schema", "not found", at(b, "responses", "404", "description")...)
		p.e("operation.schema", []any{"application/json"}, at(b, "consumes")...)
	})
	add("operation.security-deprecated", func(p *Prog) {
		k := p.next()
		path, id := fmt.Sprintf("/o%d", k), fmt.Sprintf("oper%d", k)
		p.operation("DELETE", path, "admin", id, "---", "deprecated: true", "security:", "- api_key: []", "- oauth2:", "  - read", "responses:", "  '204':", "    description: gone")
		b := op(path, "DELETE")
		p.e("operation.security-deprecated", true, at(b, "deprecated")...)
		p.e("operation.security-deprecated", []any{map[string]any{"api_key": []any{}}, map[string]any{"oauth2": []any{"read"}}}, at(b, "security")...)
		p.e("operation.security-deprecated", "gone", at(b, "responses", "204", "description")...)
	}, "meta.securityDefinitions")
	add("operation.override", func(p *Prog) {
		k := p.next()
		path, id := fmt.Sprintf("/o%d", k), fmt.Sprintf("oper%d", k)
		p.operation("GET", path, "hdrtag", id, "Header summary.", "", "---", "summary: yaml summary", "tags:", "- yamltag", "responses:", "  '200':", "    description: ok")
		b := op(path, "GET")
		p.e("operation.override", "yaml summary", at(b, "summary")...)
		p.e("operation.override", []any{"yamltag"}, at(b, "tags")...)
	})
	addParams(add)
	addResponses(add)
	addModels(add)
	addMerge(add)
	return fs
}

func addParams(add func(id string, apply func(p *Prog), req ...string)) {
	type pf = paramField
	simple := func(id, method string, f pf, pathSuffix string) {
		f0 := f
		add(id, func(p *Prog) {
			f := f0
			f.want = map[string]any{}
			for key, v := range f0.want {
				f.want[key] = v
			}
			k := p.next()
			path, opid := fmt.Sprintf("/p%d%s", k, pathSuffix), fmt.Sprintf("pop%d", k)
			if strings.Contains(f.typ, "time.") {
				p.needTime = true
			}
			if strings.Contains(f.typ, "§M") {
				m := p.model()
				f.typ = strings.ReplaceAll(f.typ, "§M", m)
				for key, v := range f.want {
					if s, ok := v.(string); ok {
						f.want[key] = strings.ReplaceAll(s, "§M", m)
					}
				}
			}
			p.route(method, path, "", opid, false, okResp...)
			p.paramsStruct(id, opid, method, path, f)
		})
	}
	q := func(extra ...string) []string {
		return append(append([]string{"the value", ""}, extra...), "in: query")
	}
	simple("params.query.string", "GET", pf{goName: "Name", jsonName: "name", typ: "string", doc: q(), want: map[string]any{"in": "query", "type": "string", "description": "the value"}}, "")
	simple("params.query.int64", "GET", pf{goName: "ID", jsonName: "id", typ: "int64", doc: q(), want: map[string]any{"in": "query", "type": "integer", "format": "int64"}}, "")
	simple("params.query.int32", "GET", pf{goName: "Score", jsonName: "score", typ: "int32", doc: q(), want: map[string]any{"in": "query", "type": "integer", "format": "int32"}}, "")
	simple("params.query.bool", "GET", pf{goName: "Flag", jsonName: "flag", typ: "bool", doc: q(), want: map[string]any{"in": "query", "type": "boolean"}}, "")
	simple("params.query.float64", "GET", pf{goName: "Ratio", jsonName: "ratio", typ: "float64", doc: q(), want: map[string]any{"in": "query", "type": "number", "format": "double"}}, "")
	simple("params.query.ptr", "GET", pf{goName: "Opt", jsonName: "opt", typ: "*string", doc: q(), want: map[string]any{"in": "query", "type": "string"}}, "")
	simple("params.query.time", "GET", pf{goName: "Since", jsonName: "since", typ: "time.Time", doc: q(), want: map[string]any{"in": "query", "type": "string", "format": "date-time"}}, "")
	simple("params.query.strfmt", "GET", pf{goName: "Day", jsonName: "day", typ: "string", doc: append([]string{"swagger:strfmt date"}, q()...), want: map[string]any{"in": "query", "type": "string", "format": "date"}}, "")
	simple("params.query.default-in", "GET", pf{goName: "Plain", jsonName: "plain", typ: "string", doc: []string{"no location given: query is the default"}, want: map[string]any{"in": "query", "type": "string"}}, "")
	simple("params.query.noname", "GET", pf{goName: "GoNamed", typ: "string", doc: q(), want: map[string]any{"in": "query", "type": "string"}}, "")
	simple("params.query.slice", "GET", pf{goName: "Tags", jsonName: "tags", typ: "[]string", doc: q(), want: map[string]any{"in": "query", "type": "array", "items.type": "string"}}, "")
	simple("params.query.slice2", "GET", pf{goName: "Grid", jsonName: "grid", typ: "[][]int32", doc: q(), want: map[string]any{"in": "query", "type": "array", "items.type": "array", "items.items.type": "integer", "items.items.format": "int32"}}, "")
	simple("params.header", "GET", pf{goName: "Token", jsonName: "X-Token", typ: "string", doc: []string{"in: header"}, want: map[string]any{"in": "header", "type": "string"}}, "")
	simple("params.path", "GET", pf{goName: "ID", jsonName: "id", typ: "int64", doc: []string{"The id.", "", "in: path"}, want: map[string]any{"in": "path", "type": "integer", "required": true}}, "/{id}")
	simple("params.formData", "POST", pf{goName: "Field", jsonName: "field", typ: "string", doc: []string{"in: formData"}, want: map[string]any{"in": "formData", "type": "string"}}, "")
	simple("params.formData.file", "POST", pf{goName: "Upload", jsonName: "upload", typ: "[]byte", doc: []string{"swagger:file", "in: formData"}, want: map[string]any{"in": "formData", "type": "file"}}, "")
	simple("params.body.model", "POST", pf{goName: "Body", jsonName: "body", typ: "§M", doc: []string{"in: body"}, want: map[string]any{"in": "body", "schema.$ref": "#/definitions/§M"}}, "")
	simple("params.body.ptr.required", "POST", pf{goName: "Body", jsonName: "body", typ: "*§M", doc: []string{"in: body", "required: true"}, want: map[string]any{"in": "body", "schema.$ref": "#/definitions/§M", "required": true}}, "")
	simple("params.body.slice", "POST", pf{goName: "Body", jsonName: "body", typ: "[]§M", doc: []string{"in: body"}, want: map[string]any{"in": "body", "schema.type": "array", "schema.items.$ref": "#/definitions/§M"}}, "")
	simple("params.body.inline", "POST", pf{goName: "Body", jsonName: "body", typ: "struct {\n\t\tNote string `json:\"note\"`\n\t}", doc: []string{"in: body"}, want: map[string]any{"in": "body", "schema.type": "object", "schema.properties.note.type": "string"}}, "")
	simple("params.body.map", "POST", pf{goName: "Body", jsonName: "body", typ: "map[string]int32", doc: []string{"in: body"}, want: map[string]any{"in": "body", "schema.type": "object", "schema.additionalProperties.type": "integer"}}, "")
	// grammatical programs whose parameter type has no Swagger 2.0 counterpart at that location:
	// nothing is declared about the outcome (an error is fine), they must not crash the scanner
	simple("params.query.map", "GET", pf{goName: "Filter", jsonName: "filter", typ: "map[string]int32", doc: q(), want: map[string]any{"in": "query"}}, "")
	simple("params.query.model", "GET", pf{goName: "Obj", jsonName: "obj", typ: "§M", doc: q(), want: map[string]any{"in": "query"}}, "")
	simple("params.required", "GET", pf{goName: "Must", jsonName: "must", typ: "string", doc: q("required: true"), want: map[string]any{"in": "query", "required": true}}, "")
	simple("params.required.false", "GET", pf{goName: "May", jsonName: "may", typ: "string", doc: q("Required: false"), want: map[string]any{"in": "query"}}, "")
	// validations (each keyword alone)
	val := func(id, typ string, docLine string, want map[string]any) {
		want["in"] = "query"
		simple("params.valid."+id, "GET", pf{goName: "V", jsonName: "v", typ: typ, doc: q(docLine), want: want}, "")
	}
	val("maximum", "int32", "maximum: 45", map[string]any{"maximum": 45})
	val("minimum", "int32", "minimum: 3", map[string]any{"minimum": 3})
	val("max", "int64", "max: 1000", map[string]any{"maximum": 1000})
	val("min", "int64", "min: 1", map[string]any{"minimum": 1})
	val("maximum.exclusive", "int32", "maximum: < 45", map[string]any{"maximum": 45, "exclusiveMaximum": true})
	val("minimum.exclusive", "float64", "minimum: > 0.5", map[string]any{"minimum": 0.5, "exclusiveMinimum": true})
	val("minimum.negative", "float64", "minimum: -10.25", map[string]any{"minimum": -10.25})
	val("multipleOf", "int32", "multiple of: 3", map[string]any{"multipleOf": 3})
	val("minLength", "string", "min length: 4", map[string]any{"minLength": 4})
	val("maxLength", "string", "max length: 50", map[string]any{"maxLength": 50})
	val("pattern", "string", `pattern: [A-Z]{3}-\d+`, map[string]any{"pattern": `[A-Z]{3}-\d+`})
	val("enum.json", "string", `enum: ["apple","orange","a,b"]`, map[string]any{"enum": []any{"apple", "orange", "a,b"}})
	val("enum.csv", "string", "enum: apple,orange,pineapple", map[string]any{"enum": []any{"apple", "orange", "pineapple"}})
	val("enum.int", "int32", "enum: [1,3,5]", map[string]any{"enum": []any{1, 3, 5}})
	val("default.string", "string", "default: orange", map[string]any{"default": "orange"})
	val("default.int", "int32", "default: 17", map[string]any{"default": 17})
	val("default.bool", "bool", "default: true", map[string]any{"default": true})
	val("example", "string", "example: some-text", map[string]any{})
	val("minItems", "[]string", "min items: 3", map[string]any{"minItems": 3})
	val("maxItems", "[]string", "max items: 10", map[string]any{"maxItems": 10})
	val("unique", "[]string", "unique: true", map[string]any{"uniqueItems": true})
	val("collectionFormat", "[]string", "collection format: pipes", map[string]any{"collectionFormat": "pipes"})
	val("items.minLength", "[]string", "items.minLength: 3", map[string]any{"items.minLength": 3})
	val("items.maxLength", "[]string", "items.maxLength: 10", map[string]any{"items.maxLength": 10})
	val("items.pattern", "[]string", `items.pattern: \w+`, map[string]any{"items.pattern": `\w+`})
	val("items.enum", "[]string", `items.enum: ["bar1","bar2"]`, map[string]any{"items.enum": []any{"bar1", "bar2"}})
	val("items.default", "[]string", "items.default: bar2", map[string]any{"items.default": "bar2"})
	val("items.maximum", "[]int32", "items.maximum: 9", map[string]any{"items.maximum": 9})
	val("items.minimum", "[]int32", "items.minimum: 2", map[string]any{"items.minimum": 2})
	val("items.minimum.exclusive", "[]int32", "items.minimum: > 2", map[string]any{"items.minimum": 2, "items.exclusiveMinimum": true})
	val("items.maximum.exclusive", "[]int32", "items.maximum: < 9", map[string]any{"items.maximum": 9, "items.exclusiveMaximum": true})
	val("items.min+max.exclusive-min-only", "[]float64", "items.minimum: > 0.5\nitems.maximum: 9.5", map[string]any{"items.minimum": 0.5, "items.exclusiveMinimum": true, "items.maximum": 9.5, "items.exclusiveMaximum": Absent{}})
	val("items.2.minimum.exclusive", "[][]int64", "items.items.minimum: > 1", map[string]any{"items.items.minimum": 1, "items.items.exclusiveMinimum": true})
	val("items.2.minItems", "[][]string", "items.minItems: 4", map[string]any{"items.minItems": 4})
	val("items.2.maxItems", "[][]string", "items.maxItems: 9", map[string]any{"items.maxItems": 9})
	val("items.2.minLength", "[][]string", "items.items.minLength: 3", map[string]any{"items.items.minLength": 3})
	val("items.3.pattern", "[][][]string", `items.items.items.pattern: \w+`, map[string]any{"items.items.items.pattern": `\w+`})
	val("items.3.maxItems", "[][][]string", "items.items.maxItems: 8", map[string]any{"items.items.maxItems": 8})
	val("items.unique", "[][]string", "items.unique: true", map[string]any{"items.uniqueItems": true})
	val("extensions", "string", "Extensions:\n  x-example-flag: true", map[string]any{})
	add("params.docexample", func(p *Prog) { // the example of params.md (minus its example: line, which is params.valid.example, and with the collection format spelt "pipes": "pipe" is not a Swagger 2.0 value)
		k := p.next()
		path, opid := fmt.Sprintf("/p%d", k), fmt.Sprintf("pop%d", k)
		p.route("GET", path, "", opid, false, okResp...)
		p.paramsStruct("params.docexample", opid, "GET", path, pf{goName: "BarSlice", jsonName: "bar_slice", typ: "[][][]string",
			doc: []string{"a BarSlice has bars which are strings", "", "min items: 3", "max items: 10", "unique: true", "items.minItems: 4", "items.maxItems: 9", "items.items.minItems: 5", "items.items.maxItems: 8", "items.items.items.minLength: 3", "items.items.items.maxLength: 10", `items.items.items.pattern: \w+`, "collection format: pipes", "in: query"},
			want: map[string]any{"in": "query", "minItems": 3, "maxItems": 10, "uniqueItems": true, "items.minItems": 4, "items.maxItems": 9, "items.items.minItems": 5, "items.items.maxItems": 8,
				"items.items.items.minLength": 3, "items.items.items.maxLength": 10, "items.items.items.pattern": `\w+`, "collectionFormat": "pipes", "description": "a BarSlice has bars which are strings"}})
	})
	add("params.multiop", func(p *Prog) {
		k := p.next()
		p1, p2 := fmt.Sprintf("/p%da", k), fmt.Sprintf("/p%db", k)
		o1, o2 := fmt.Sprintf("pop%da", k), fmt.Sprintf("pop%db", k)
		p.route("GET", p1, "", o1, false, okResp...)
		p.route("POST", p2, "", o2, false, okResp...)
		p.decl(fmt.Sprintf("// PM%d applies to two operations.\n//\n// swagger:parameters %s %s\ntype PM%d struct {\n\t// in: query\n\tShared string `json:\"shared\"`\n}\n", k, o1, o2, k))
		p.e("params.multiop", "string", at(op(p1, "GET"), "parameters", Sel{"name": "shared", "in": "query"}, "type")...)
		p.e("params.multiop", "string", at(op(p2, "POST"), "parameters", Sel{"name": "shared", "in": "query"}, "type")...)
	})
	add("params.several", func(p *Prog) {
		k := p.next()
		path, opid := fmt.Sprintf("/p%d/{id}", k), fmt.Sprintf("pop%d", k)
		p.route("PUT", path, "", opid, false, okResp...)
		m := p.model()
		p.paramsStruct("params.several", opid, "PUT", path,
			pf{goName: "ID", jsonName: "id", typ: "int64", doc: []string{"in: path"}, want: map[string]any{"in": "path", "required": true}},
			pf{goName: "Verbose", jsonName: "verbose", typ: "bool", doc: []string{"in: query"}, want: map[string]any{"in": "query", "type": "boolean"}},
			pf{goName: "Trace", jsonName: "X-Trace", typ: "string", doc: []string{"in: header"}, want: map[string]any{"in": "header"}},
			pf{goName: "Body", jsonName: "body", typ: "*" + m, doc: []string{"in: body"}, want: map[string]any{"in": "body", "schema.$ref": "#/definitions/" + m}})
	})
	add("params.ignore", func(p *Prog) {
		k := p.next()
		path, opid := fmt.Sprintf("/p%d", k), fmt.Sprintf("pop%d", k)
		p.route("GET", path, "", opid, false, okResp...)
		p.decl(fmt.Sprintf("// PI%d has an ignored field.\n//\n// swagger:parameters %s\ntype PI%d struct {\n\t// in: query\n\tKept string `json:\"kept\"`\n\t// swagger:ignore\n\tHidden string `json:\"hidden\"`\n\tDashed string `json:\"-\"`\n}\n", k, opid, k))
		p.e("params.ignore", Exists{}, at(op(path, "GET"), "parameters", Sel{"name": "kept", "in": "query"})...)
		p.e("params.ignore", Absent{}, at(op(path, "GET"), "parameters", Sel{"name": "hidden"})...)
		p.e("params.ignore", Absent{}, at(op(path, "GET"), "parameters", Sel{"name": "Dashed"})...)
	})
	add("params.embedded", func(p *Prog) {
		k := p.next()
		path, opid := fmt.Sprintf("/p%d", k), fmt.Sprintf("pop%d", k)
		p.route("GET", path, "", opid, false, okResp...)
		p.decl(fmt.Sprintf("// Paging%d is embedded.\ntype Paging%d struct {\n\t// in: query\n\tPage int32 `json:\"page\"`\n}\n\n// PE%d embeds.\n//\n// swagger:parameters %s\ntype PE%d struct {\n\tPaging%d\n\t// in: query\n\tSort string `json:\"sort\"`\n}\n", k, k, k, opid, k, k))
		p.e("params.embedded", "integer", at(op(path, "GET"), "parameters", Sel{"name": "page", "in": "query"}, "type")...)
		p.e("params.embedded", "string", at(op(path, "GET"), "parameters", Sel{"name": "sort", "in": "query"}, "type")...)
	})
}

func addResponses(add func(id string, apply func(p *Prog), req ...string)) {
	resp := func(id string, body func(k int, m string) (decl string, wants map[string]any)) {
		add(id, func(p *Prog) {
			k := p.next()
			path, opid := fmt.Sprintf("/s%d", k), fmt.Sprintf("sop%d", k)
			name := fmt.Sprintf("resp%d", k)
			m := p.model()
			decl, wants := body(k, m)
			if strings.Contains(decl, "time.") {
				p.needTime = true
			}
			p.decl(decl)
			p.route("GET", path, "", opid, false, "Responses:", "  200: "+name)
			p.e(id, "#/responses/"+name, at(op(path, "GET"), "responses", "200", "$ref")...)
			p.e(id, Exists{}, "responses", name)
			for _, key := range sortedKeys(wants) {
				p.e(id, wants[key], at2([]any{"responses", name}, key)...)
			}
		})
	}
	resp("response.description", func(k int, m string) (string, map[string]any) {
		return fmt.Sprintf("// A Resp%d is an error that is used when the required input fails validation.\n//\n// swagger:response resp%d\ntype Resp%d struct{}\n", k, k, k),
			map[string]any{"description": fmt.Sprintf("A Resp%d is an error that is used when the required input fails validation.", k)}
	})
	resp("response.body.model", func(k int, m string) (string, map[string]any) {
		return fmt.Sprintf("// Resp%d returns a model.\n//\n// swagger:response resp%d\ntype Resp%d struct {\n\t// in: body\n\tBody %s\n}\n", k, k, k, m),
			map[string]any{"schema.$ref": "#/definitions/" + m}
	})
	resp("response.body.ptr", func(k int, m string) (string, map[string]any) {
		return fmt.Sprintf("// Resp%d returns a model.\n//\n// swagger:response resp%d\ntype Resp%d struct {\n\t// in: body\n\tBody *%s `json:\"body\"`\n}\n", k, k, k, m),
			map[string]any{"schema.$ref": "#/definitions/" + m}
	})
	resp("response.body.slice", func(k int, m string) (string, map[string]any) {
		return fmt.Sprintf("// Resp%d returns models.\n//\n// swagger:response resp%d\ntype Resp%d struct {\n\t// in: body\n\tBody []%s\n}\n", k, k, k, m),
			map[string]any{"schema.type": "array", "schema.items.$ref": "#/definitions/" + m}
	})
	resp("response.body.inline", func(k int, m string) (string, map[string]any) { // the example of response.md
		return fmt.Sprintf("// A Resp%d is an error that is used when the required input fails validation.\n// swagger:response resp%d\ntype Resp%d struct {\n\t// The error message\n\t// in: body\n\tBody struct {\n\t\t// The validation message\n\t\t//\n\t\t// Required: true\n\t\t// Example: Expected type int\n\t\tMessage string\n\t\t// An optional field name to which this validation applies\n\t\tFieldName string\n\t}\n}\n", k, k, k),
			map[string]any{"schema.type": "object", "schema.properties.Message.type": "string", "schema.properties.FieldName.type": "string", "schema.required": []any{"Message"}, "schema.properties.Message.example": "Expected type int"}
	})
	resp("response.body.map", func(k int, m string) (string, map[string]any) {
		return fmt.Sprintf("// Resp%d returns a map.\n//\n// swagger:response resp%d\ntype Resp%d struct {\n\t// in: body\n\tBody map[string]int64\n}\n", k, k, k),
			map[string]any{"schema.type": "object", "schema.additionalProperties.type": "integer"}
	})
	resp("response.headers", func(k int, m string) (string, map[string]any) {
		return fmt.Sprintf("// Resp%d has headers.\n//\n// swagger:response resp%d\ntype Resp%d struct {\n\t// the rate limit\n\t//\n\t// maximum: 100\n\tLimit int32 `json:\"X-Rate-Limit\"`\n\t// the request id\n\t//\n\t// pattern: [a-f0-9]+\n\tReqID string `json:\"X-Request-Id\"`\n\tActive bool `json:\"X-Active\"`\n\tRatio float64 `json:\"X-Ratio\"`\n}\n", k, k, k),
			map[string]any{"headers.X-Rate-Limit.type": "integer", "headers.X-Rate-Limit.format": "int32", "headers.X-Rate-Limit.maximum": 100, "headers.X-Rate-Limit.description": "the rate limit",
				"headers.X-Request-Id.type": "string", "headers.X-Request-Id.pattern": "[a-f0-9]+", "headers.X-Active.type": "boolean", "headers.X-Ratio.type": "number"}
	})
	resp("response.headers.array", func(k int, m string) (string, map[string]any) {
		return fmt.Sprintf("// Resp%d has an array header.\n//\n// swagger:response resp%d\ntype Resp%d struct {\n\t// the tags\n\t//\n\t// min items: 1\n\t// items.minLength: 2\n\t// collection format: csv\n\tTags []string `json:\"X-Tags\"`\n}\n", k, k, k),
			map[string]any{"headers.X-Tags.type": "array", "headers.X-Tags.items.type": "string", "headers.X-Tags.minItems": 1, "headers.X-Tags.items.minLength": 2, "headers.X-Tags.collectionFormat": "csv"}
	})
	resp("response.headers.time", func(k int, m string) (string, map[string]any) {
		return fmt.Sprintf("// Resp%d has a time header.\n//\n// swagger:response resp%d\ntype Resp%d struct {\n\tExpires time.Time `json:\"Expires\"`\n}\n", k, k, k),
			map[string]any{"headers.Expires.type": "string", "headers.Expires.format": "date-time"}
	})
	resp("response.headers-and-body", func(k int, m string) (string, map[string]any) {
		return fmt.Sprintf("// Resp%d has both.\n//\n// swagger:response resp%d\ntype Resp%d struct {\n\tETag string `json:\"ETag\"`\n\t// in: body\n\tPayload *%s\n}\n", k, k, k, m),
			map[string]any{"headers.ETag.type": "string", "schema.$ref": "#/definitions/" + m}
	})
	resp("response.headers.model", func(k int, m string) (string, map[string]any) {
		return fmt.Sprintf("// Resp%d has a struct-typed header field.\n//\n// swagger:response resp%d\ntype Resp%d struct {\n\tObj %s `json:\"X-Obj\"`\n}\n", k, k, k, m), map[string]any{}
	})
	resp("response.file", func(k int, m string) (string, map[string]any) {
		return fmt.Sprintf("// Resp%d is a file.\n//\n// swagger:response resp%d\ntype Resp%d struct {\n\t// swagger:file\n\t// in: body\n\tFile []byte\n}\n", k, k, k),
			map[string]any{"schema.type": "file"}
	})
	add("response.noname", func(p *Prog) {
		k := p.next()
		path, opid := fmt.Sprintf("/s%d", k), fmt.Sprintf("sop%d", k)
		p.decl(fmt.Sprintf("// NoName%d takes its Go name.\n//\n// swagger:response\ntype NoName%d struct{}\n", k, k))
		p.route("GET", path, "", opid, false, "Responses:", fmt.Sprintf("  200: NoName%d", k))
		p.e("response.noname", Exists{}, "responses", fmt.Sprintf("NoName%d", k))
	})
}

func addModels(add func(id string, apply func(p *Prog), req ...string)) {
	mdl := func(id string, body func(k int) (decl string, name string, wants map[string]any)) {
		add(id, func(p *Prog) {
			k := p.next()
			decl, name, wants := body(k)
			if strings.Contains(decl, "time.") {
				p.needTime = true
			}
			p.decl(decl)
			p.e(id, Exists{}, "definitions", name)
			for _, key := range sortedKeys(wants) {
				w := wants[key]
				if strings.HasPrefix(key, "/") { // absolute path
					p.e(id, w, at2(nil, key[1:])...)
					continue
				}
				p.e(id, w, at2([]any{"definitions", name}, key)...)
			}
		})
	}
	mdl("model.basic", func(k int) (string, string, map[string]any) { // the example of model.md
		n := fmt.Sprintf("User%d", k)
		return fmt.Sprintf("// %s represents the user for this application\n//\n// A user is the security principal for this application.\n// It's also used as one of main axes for reporting.\n//\n// swagger:model\ntype %s struct {\n\t// the id for this user\n\t//\n\t// required: true\n\t// min: 1\n\tID int64 `json:\"id\"`\n\n\t// the name for this user\n\t// required: true\n\t// min length: 3\n\tName string `json:\"name\"`\n\n\t// the email address for this user\n\t//\n\t// required: true\n\t// example: user@provider.net\n\tEmail string `json:\"login\"`\n\n\t// the friends for this user\n\tFriends []%s `json:\"friends\"`\n}\n", n, n, n), n,
			map[string]any{"type": "object", "title": n + " represents the user for this application", "description": "A user is the security principal for this application.\nIt's also used as one of main axes for reporting.",
				"properties.id.type": "integer", "properties.id.format": "int64", "properties.id.minimum": 1, "properties.id.description": "the id for this user",
				"properties.name.type": "string", "properties.name.minLength": 3, "properties.login.example": "user@provider.net", "properties.login.type": "string",
				"properties.friends.type": "array", "properties.friends.items.$ref": "#/definitions/" + n, "required": []any{"id", "name", "login"}}
	})
	mdl("model.rename", func(k int) (string, string, map[string]any) {
		return fmt.Sprintf("// Ren%d gets another name.\n//\n// swagger:model renamed%d\ntype Ren%d struct {\n\tA string `json:\"a\"`\n}\n", k, k, k), fmt.Sprintf("renamed%d", k),
			map[string]any{"properties.a.type": "string", "x-go-name": fmt.Sprintf("Ren%d", k)}
	})
	mdl("model.types", func(k int) (string, string, map[string]any) {
		n := fmt.Sprintf("Types%d", k)
		return fmt.Sprintf("// %s has one property per basic kind.\n//\n// swagger:model\ntype %s struct {\n\tB bool `json:\"b\"`\n\tI32 int32 `json:\"i32\"`\n\tU16 uint16 `json:\"u16\"`\n\tF32 float32 `json:\"f32\"`\n\tF64 float64 `json:\"f64\"`\n\tS string `json:\"s\"`\n\tP *string `json:\"p,omitempty\"`\n\tL []int64 `json:\"l\"`\n\tM map[string]bool `json:\"m\"`\n\tAny interface{} `json:\"any\"`\n\tNested struct {\n\t\tZ string `json:\"z\"`\n\t} `json:\"nested\"`\n\thidden int\n\tSkipped string `json:\"-\"`\n}\n", n, n), n,
			map[string]any{"properties.b.type": "boolean", "properties.i32.format": "int32", "properties.u16.format": "uint16", "properties.f32.format": "float", "properties.f64.format": "double", "properties.s.type": "string",
				"properties.p.type": "string", "properties.l.items.format": "int64", "properties.m.additionalProperties.type": "boolean", "properties.nested.properties.z.type": "string",
				"properties.hidden": Absent{}, "properties.Skipped": Absent{}, "properties.any": Exists{}}
	})
	mdl("model.time", func(k int) (string, string, map[string]any) {
		n := fmt.Sprintf("Stamp%d", k)
		return fmt.Sprintf("// %s has a time.\n//\n// swagger:model\ntype %s struct {\n\tAt time.Time `json:\"at\"`\n}\n", n, n), n,
			map[string]any{"properties.at.type": "string", "properties.at.format": "date-time"}
	})
	mdl("model.validations", func(k int) (string, string, map[string]any) {
		n := fmt.Sprintf("Valid%d", k)
		return fmt.Sprintf("// %s carries validations.\n//\n// swagger:model\ntype %s struct {\n\t// maximum: < 100\n\t// minimum: > 0\n\tN int32 `json:\"n\"`\n\t// min length: 2\n\t// max length: 8\n\t// pattern: ^[a-z]+$\n\tS string `json:\"s\"`\n\t// min items: 1\n\t// max items: 4\n\t// unique: true\n\t// items.min length: 2\n\t// items.pattern: \\w+\n\tL []string `json:\"l\"`\n\t// enum: [\"a\",\"b\"]\n\t// default: a\n\tE string `json:\"e\"`\n\t// read only: true\n\tR string `json:\"r\"`\n\t// items.items.maximum: 7\n\tG [][]int32 `json:\"g\"`\n}\n", n, n), n,
			map[string]any{"properties.n.maximum": 100, "properties.n.exclusiveMaximum": true, "properties.n.minimum": 0, "properties.n.exclusiveMinimum": true,
				"properties.s.minLength": 2, "properties.s.maxLength": 8, "properties.s.pattern": "^[a-z]+$", "properties.l.minItems": 1, "properties.l.maxItems": 4, "properties.l.uniqueItems": true,
				"properties.l.items.minLength": 2, "properties.l.items.pattern": `\w+`, "properties.e.enum": []any{"a", "b"}, "properties.e.default": "a", "properties.r.readOnly": true, "properties.g.items.items.maximum": 7}
	})
	mdl("model.valid.multipleOf", func(k int) (string, string, map[string]any) {
		n := fmt.Sprintf("Mult%d", k)
		return fmt.Sprintf("// %s carries a multiple-of validation.\n//\n// swagger:model\ntype %s struct {\n\t// multiple of: 5\n\tN int32 `json:\"n\"`\n}\n", n, n), n,
			map[string]any{"properties.n.multipleOf": 5, "properties.n.format": "int32"}
	})
	mdl("model.extensions", func(k int) (string, string, map[string]any) { // the Extensions block of model.md
		n := fmt.Sprintf("Ext%d", k)
		return fmt.Sprintf("// %s has extensions on a property.\n//\n// swagger:model\ntype %s struct {\n\t// the friends for this user\n\t//\n\t// Extensions:\n\t// ---\n\t// x-property-value: value\n\t// x-property-array:\n\t//   - value1\n\t//   - value2\n\t// x-property-array-obj:\n\t//   - name: obj\n\t//     value: field\n\t// ---\n\tFriends []string `json:\"friends\"`\n}\n", n, n), n,
			map[string]any{"properties.friends.x-property-value": "value", "properties.friends.x-property-array": []any{"value1", "value2"}, "properties.friends.x-property-array-obj": []any{map[string]any{"name": "obj", "value": "field"}}, "properties.friends.type": "array"}
	})
	mdl("model.ref", func(k int) (string, string, map[string]any) {
		n := fmt.Sprintf("Outer%d", k)
		return fmt.Sprintf("// Inner%d is referenced.\ntype Inner%d struct {\n\tV int32 `json:\"v\"`\n}\n\n// %s refers to another struct.\n//\n// swagger:model\ntype %s struct {\n\tOne Inner%d `json:\"one\"`\n\tMany []*Inner%d `json:\"many\"`\n}\n", k, k, n, n, k, k), n,
			map[string]any{"properties.one.$ref": fmt.Sprintf("#/definitions/Inner%d", k), "properties.many.items.$ref": fmt.Sprintf("#/definitions/Inner%d", k), fmt.Sprintf("/definitions.Inner%d.properties.v.format", k): "int32"}
	})
	mdl("model.embedded", func(k int) (string, string, map[string]any) {
		n := fmt.Sprintf("Emb%d", k)
		return fmt.Sprintf("// Something%d is used by other structs.\ntype Something%d struct {\n\tDID int64 `json:\"did\"`\n\tCat string `json:\"cat\"`\n}\n\n// %s embeds without annotation.\n//\n// swagger:model\ntype %s struct {\n\tSomething%d\n\tOwn string `json:\"own\"`\n}\n", k, k, n, n, k), n,
			map[string]any{"properties.did.format": "int64", "properties.cat.type": "string", "properties.own.type": "string"}
	})
	mdl("model.allOf", func(k int) (string, string, map[string]any) { // allOf.md
		n := fmt.Sprintf("AllOf%d", k)
		return fmt.Sprintf("// SimpleOne%d is a model with a few simple fields.\ntype SimpleOne%d struct {\n\tID int64 `json:\"id\"`\n\tAge int32 `json:\"age\"`\n}\n\n// Notable%d is annotated.\n//\n// swagger:model withNotes%d\ntype Notable%d struct {\n\tNotes string `json:\"notes\"`\n}\n\n// Plain%d is included as is.\ntype Plain%d struct {\n\tCat string `json:\"cat\"`\n}\n\n// %s is composed out of embedded structs but it should build an allOf property.\n//\n// swagger:model\ntype %s struct {\n\t// swagger:allOf\n\tSimpleOne%d\n\t// swagger:allOf\n\tNotable%d\n\n\tPlain%d // not annotated with anything, so should be included\n\n\tCreatedAt string `json:\"createdAt\"`\n}\n", k, k, k, k, k, k, k, n, n, k, k, k), n,
			map[string]any{"allOf": Exists{}, "allOf.0.properties.id.format": "int64", "allOf.0.properties.age.format": "int32", "allOf.1.$ref": fmt.Sprintf("#/definitions/withNotes%d", k),
				"allOf.2.properties.createdAt.type": "string", "allOf.2.properties.cat.type": "string", fmt.Sprintf("/definitions.withNotes%d.properties.notes.type", k): "string"}
	})
	mdl("model.allOf.class", func(k int) (string, string, map[string]any) {
		n := fmt.Sprintf("Cls%d", k)
		return fmt.Sprintf("// Base%d is a base.\n//\n// swagger:model\ntype Base%d struct {\n\tKind string `json:\"kind\"`\n}\n\n// %s names its class.\n//\n// swagger:model\ntype %s struct {\n\t// swagger:allOf com.example.models.%s\n\tBase%d\n\tDoors int32 `json:\"doors\"`\n}\n", k, k, n, n, n, k), n,
			map[string]any{"x-class": "com.example.models." + n, "allOf.0.$ref": fmt.Sprintf("#/definitions/Base%d", k), "allOf.1.properties.doors.format": "int32"}
	})
	mdl("model.discriminated", func(k int) (string, string, map[string]any) { // discriminated.md
		n := fmt.Sprintf("TeslaCar%d", k)
		return fmt.Sprintf("// %s is a tesla car\n//\n// swagger:model\ntype %s interface {\n\t// The model of tesla car\n\t//\n\t// discriminator: true\n\t// swagger:name model\n\tModel() string\n\n\t// AutoPilot returns true when it supports autopilot\n\t// swagger:name autoPilot\n\tAutoPilot() bool\n}\n\n// ModelS%d is the ModelS version of the tesla car\n//\n// swagger:model modelS%d\ntype ModelS%d struct {\n\t// swagger:allOf com.tesla.models.ModelS\n\t%s\n\t// The edition of this Model S\n\tEdition string `json:\"edition\"`\n}\n", n, n, k, k, k, n), n,
			map[string]any{"discriminator": "model", "properties.model.type": "string", "properties.autoPilot.type": "boolean", "type": "object",
				fmt.Sprintf("/definitions.modelS%d.allOf.0.$ref", k): "#/definitions/" + n, fmt.Sprintf("/definitions.modelS%d.x-class", k): "com.tesla.models.ModelS",
				fmt.Sprintf("/definitions.modelS%d.allOf.1.properties.edition.type", k): "string"}
	})
	mdl("model.strfmt.type", func(k int) (string, string, map[string]any) {
		n := fmt.Sprintf("Fmt%d", k)
		return fmt.Sprintf("// Email%d represents the email string format.\n//\n// swagger:strfmt email\ntype Email%d string\n\n// MarshalText turns this instance into text.\nfunc (e Email%d) MarshalText() ([]byte, error) { return []byte(string(e)), nil }\n\n// UnmarshalText hydrates this instance from text.\nfunc (e *Email%d) UnmarshalText(data []byte) error { *e = Email%d(string(data)); return nil }\n\n// %s uses a string format.\n//\n// swagger:model\ntype %s struct {\n\tContact Email%d `json:\"contact\"`\n\tOthers []Email%d `json:\"others\"`\n}\n", k, k, k, k, k, n, n, k, k), n,
			map[string]any{"properties.contact.type": "string", "properties.contact.format": "email", "properties.others.items.format": "email"}
	})
	mdl("model.strfmt.field", func(k int) (string, string, map[string]any) {
		n := fmt.Sprintf("FmtF%d", k)
		return fmt.Sprintf("// %s uses a field-level string format.\n//\n// swagger:model\ntype %s struct {\n\t// swagger:strfmt date\n\tBirth string `json:\"birth\"`\n}\n", n, n), n,
			map[string]any{"properties.birth.type": "string", "properties.birth.format": "date"}
	})
	mdl("model.enum", func(k int) (string, string, map[string]any) {
		n := fmt.Sprintf("WithEnum%d", k)
		return fmt.Sprintf("// Color%d is an enumeration.\n//\n// swagger:enum Color%d\ntype Color%d string\n\nconst (\n\t// Red%d is red\n\tRed%d Color%d = \"red\"\n\t// Blue%d is blue\n\tBlue%d Color%d = \"blue\"\n)\n\n// %s uses the enumeration.\n//\n// swagger:model\ntype %s struct {\n\tShade Color%d `json:\"shade\"`\n}\n", k, k, k, k, k, k, k, k, k, n, n, k), n,
			map[string]any{"properties.shade.type": "string", "properties.shade.enum": []any{"red", "blue"}}
	})
	mdl("model.ignore.field", func(k int) (string, string, map[string]any) {
		n := fmt.Sprintf("Person%d", k)
		return fmt.Sprintf("// %s hides a field.\n//\n// swagger:model\ntype %s struct {\n\t// example: John Doe\n\tName string `json:\"name\"`\n\t// example: 1A2B3C\n\t// swagger:ignore\n\tUniqueID string `json:\"unique_id\"`\n}\n", n, n), n,
			map[string]any{"properties.name.example": "John Doe", "properties.unique_id": Absent{}}
	})
	mdl("model.required.pointer", func(k int) (string, string, map[string]any) {
		n := fmt.Sprintf("Req%d", k)
		return fmt.Sprintf("// %s has required and optional members.\n//\n// swagger:model\ntype %s struct {\n\t// required: true\n\tA *int64 `json:\"a\"`\n\t// required: false\n\tB *int64 `json:\"b,omitempty\"`\n\t// discriminator: false\n\tC string `json:\"c\"`\n}\n", n, n), n,
			map[string]any{"required": []any{"a"}, "properties.b.format": "int64", "discriminator": Absent{}}
	})
	add("model.ignore.type", func(p *Prog) {
		k := p.next()
		p.decl(fmt.Sprintf("// Patient%d is explicitly ignored.\n//\n// swagger:ignore\ntype Patient%d struct {\n\tName string `json:\"name\"`\n}\n", k, k))
		p.e("model.ignore.type", Absent{}, "definitions", fmt.Sprintf("Patient%d", k))
	})
	add("model.notype.alias", func(p *Prog) {
		k := p.next()
		p.decl(fmt.Sprintf("// Count%d is a named integer.\n//\n// swagger:model\ntype Count%d int32\n\n// Names%d is a named slice.\n//\n// swagger:model\ntype Names%d []string\n", k, k, k, k))
		p.e("model.notype.alias", "integer", "definitions", fmt.Sprintf("Count%d", k), "type")
		p.e("model.notype.alias", "int32", "definitions", fmt.Sprintf("Count%d", k), "format")
		p.e("model.notype.alias", "array", "definitions", fmt.Sprintf("Names%d", k), "type")
		p.e("model.notype.alias", "string", "definitions", fmt.Sprintf("Names%d", k), "items", "type")
	})
}

func addMerge(add func(id string, apply func(p *Prog), req ...string)) {
	baseInput := func() map[string]any {
		return map[string]any{"swagger": "2.0", "info": map[string]any{"title": "from input", "version": "0.0.9"},
			"paths": map[string]any{"/in": map[string]any{"get": map[string]any{"operationId": "inputOp", "tags": []any{"fromInput"}, "responses": map[string]any{"200": map[string]any{"description": "ok"}}}},
				"/inm": func() map[string]any {
					pi := map[string]any{}
					for _, m := range []string{"put", "post", "delete", "patch", "head", "options"} {
						pi[m] = map[string]any{"operationId": "inputOp" + strings.ToUpper(m[:1]) + m[1:], "responses": map[string]any{"200": map[string]any{"description": "ok"}}}
					}
					return pi
				}()},
			"definitions": map[string]any{"InputModel": map[string]any{"type": "object", "properties": map[string]any{"x": map[string]any{"type": "string"}}}}}
	}
	add("merge.keeps-input", func(p *Prog) {
		p.Input = baseInput()
		p.e("merge.keeps-input", "inputOp", "paths", "/in", "get", "operationId")
		p.e("merge.keeps-input", []any{"fromInput"}, "paths", "/in", "get", "tags")
		p.e("merge.keeps-input", "string", "definitions", "InputModel", "properties", "x", "type")
		p.e("merge.keeps-input", "baseOp", "paths", "/base", "get", "operationId")
	})
	add("merge.params-into-input-op", func(p *Prog) {
		p.Input = baseInput()
		k := p.next()
		p.decl(fmt.Sprintf("// PIn%d adds a parameter to an operation of the input spec.\n//\n// swagger:parameters inputOp\ntype PIn%d struct {\n\t// in: query\n\t// maximum: 9\n\tExtra int32 `json:\"extra\"`\n}\n", k, k))
		b := []any{"paths", "/in", "get", "parameters", Sel{"name": "extra", "in": "query"}}
		p.e("merge.params-into-input-op", "integer", at(b, "type")...)
		p.e("merge.params-into-input-op", 9, at(b, "maximum")...)
		p.e("merge.params-into-input-op", "ok", "paths", "/in", "get", "responses", "200", "description")
	})
	for _, m := range []string{"put", "post", "delete", "patch", "head", "options"} {
		m := m
		form := "merge.params-into-input-op." + m
		add(form, func(p *Prog) {
			p.Input = baseInput()
			k := p.next()
			id := "inputOp" + strings.ToUpper(m[:1]) + m[1:]
			p.decl(fmt.Sprintf("// PInM%d adds a parameter to the %s operation of the input spec.\n//\n// swagger:parameters %s\ntype PInM%d struct {\n\t// in: query\n\t// minimum: 2\n\tMore%s int64 `json:\"more%s\"`\n}\n", k, m, id, k, m, m))
			b := []any{"paths", "/inm", m, "parameters", Sel{"name": "more" + m, "in": "query"}}
			p.e(form, "integer", at(b, "type")...)
			p.e(form, 2, at(b, "minimum")...)
			p.e(form, id, "paths", "/inm", m, "operationId")
		})
	}
	add("merge.model-over-input", func(p *Prog) {
		p.Input = baseInput()
		k := p.next()
		p.decl(fmt.Sprintf("// Scanned%d sits next to the input definitions.\n//\n// swagger:model\ntype Scanned%d struct {\n\tY int32 `json:\"y\"`\n}\n", k, k))
		p.e("merge.model-over-input", "int32", "definitions", fmt.Sprintf("Scanned%d", k), "properties", "y", "format")
		p.e("merge.model-over-input", "string", "definitions", "InputModel", "properties", "x", "type")
	})
}
