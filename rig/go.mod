module verif/rig

go 1.21

require (
	github.com/go-openapi/loads v0.22.0
	github.com/go-openapi/spec v0.21.0
	github.com/go-openapi/strfmt v0.23.0
	github.com/go-openapi/swag v0.23.0
	github.com/go-openapi/validate v0.24.0
	github.com/go-swagger/go-swagger v0.0.0
	gopkg.in/yaml.v3 v3.0.1
)

require (
	github.com/Masterminds/goutils v1.1.1 // indirect
	github.com/Masterminds/semver/v3 v3.2.1 // indirect
	github.com/Masterminds/sprig/v3 v3.2.3 // indirect
	github.com/asaskevich/govalidator v0.0.0-20230301143203-a9d515a09cc2 // indirect
	github.com/fsnotify/fsnotify v1.7.0 // indirect
	github.com/go-openapi/analysis v0.23.0 // indirect
	github.com/go-openapi/errors v0.22.0 // indirect
	github.com/go-openapi/inflect v0.21.0 // indirect
	github.com/go-openapi/jsonpointer v0.21.0 // indirect
	github.com/go-openapi/jsonreference v0.21.0 // indirect
	github.com/go-openapi/runtime v0.28.0 // indirect
	github.com/go-viper/mapstructure/v2 v2.2.1 // indirect
	github.com/google/uuid v1.6.0 // indirect
	github.com/hashicorp/hcl v1.0.0 // indirect
	github.com/huandu/xstrings v1.4.0 // indirect
	github.com/imdario/mergo v0.3.16 // indirect
	github.com/josharian/intern v1.0.0 // indirect
	github.com/kr/pretty v0.3.1 // indirect
	github.com/kr/text v0.2.0 // indirect
	github.com/magiconair/properties v1.8.7 // indirect
	github.com/mailru/easyjson v0.7.7 // indirect
	github.com/mitchellh/copystructure v1.2.0 // indirect
	github.com/mitchellh/mapstructure v1.5.0 // indirect
	github.com/mitchellh/reflectwalk v1.0.2 // indirect
	github.com/oklog/ulid v1.3.1 // indirect
	github.com/pelletier/go-toml/v2 v2.1.1 // indirect
	github.com/rogpeppe/go-internal v1.12.0 // indirect
	github.com/sagikazarmark/slog-shim v0.1.0 // indirect
	github.com/shopspring/decimal v1.3.1 // indirect
	github.com/spf13/afero v1.11.0 // indirect
	github.com/spf13/cast v1.6.0 // indirect
	github.com/spf13/pflag v1.0.5 // indirect
	github.com/spf13/viper v1.18.2 // indirect
	github.com/subosito/gotenv v1.6.0 // indirect
	go.mongodb.org/mongo-driver v1.14.0 // indirect
	golang.org/x/crypto v0.23.0 // indirect
	golang.org/x/mod v0.17.0 // indirect
	golang.org/x/sync v0.7.0 // indirect
	golang.org/x/sys v0.20.0 // indirect
	golang.org/x/text v0.15.0 // indirect
	golang.org/x/tools v0.21.0 // indirect
	gopkg.in/ini.v1 v1.67.0 // indirect
	gopkg.in/yaml.v2 v2.4.0 // indirect
)

replace github.com/go-swagger/go-swagger => /repo
