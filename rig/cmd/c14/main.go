// C14 — diff reports the direction of every change correctly.
package main

import (
	"encoding/json"
	"fmt"
	"math/rand"
	"os"
	"path/filepath"
	"sort"
	"strings"
	"sync"
	"time"

	"github.com/go-openapi/swag"

	"verif/rig/core"
	"verif/rig/difflib"
	"verif/rig/jx"
)

type pair struct {
	id, class string
	a, b      string
	kind      string // catalogue edit kind (single-cause pairs), "" otherwise
}

func main() {
	if len(os.Args) > 1 && os.Args[1] == "worker" {
		core.ServeWorker(difflib.Handle)
		return
	}
	c := core.New("C14")
	self, _ := os.Executable()
	rng := rand.New(rand.NewSource(c.Seed))
	var pairs []pair
	if c.Replay != "" {
		pairs = append(pairs, pair{id: "replay", class: "replay", a: filepath.Join(c.Replay, "a.json"), b: filepath.Join(c.Replay, "b.json")})
	} else {
		edits := difflib.Catalogue()
		for i, e := range edits {
			a, b := difflib.WritePair(filepath.Join(c.Scratch, "edits", fmt.Sprint(i)), e.Old, e.New)
			pairs = append(pairs, pair{id: e.ID, class: "edit", a: a, b: b, kind: e.Kind})
		}
		// one named element respelled (by case only, or renamed): the "deleted" of one side is
		// the "added" of the other at the same place
		for i, e := range difflib.RenameEdits() {
			a, b := difflib.WritePair(filepath.Join(c.Scratch, "renames", fmt.Sprint(i)), e.Old, e.New)
			pairs = append(pairs, pair{id: e.ID, class: "rename", a: a, b: b})
		}
		for k := 0; k < c.Pick(200, 2000); k++ {
			e, names := difflib.WithNoise(edits[rng.Intn(len(edits))], rng, "base-recursive-prop", "base-extra-definition")
			a, b := difflib.WritePair(filepath.Join(c.Scratch, "noise", fmt.Sprint(k)), e.Old, e.New)
			pairs = append(pairs, pair{id: e.ID + "+" + strings.Join(names, ","), class: "noise", a: a, b: b})
		}
		// fixture pairs of the repository (v1/v2) and random pairs of valid fixtures
		if ms, _ := filepath.Glob(filepath.Join(c.Repo, "fixtures/diff/*.v1.json")); len(ms) > 0 {
			for _, v1 := range ms {
				v2 := strings.TrimSuffix(v1, ".v1.json") + ".v2.json"
				if _, err := os.Stat(v2); err == nil {
					pairs = append(pairs, pair{id: "fixturepair/" + filepath.Base(v1), class: "fixturepair", a: v1, b: v2})
				}
			}
		}
		var fixtures []string
		circular := 0
		for _, f := range difflib.ValidFixtures(c, self, 400<<10) {
			// documents with circular $refs are left out: on those the report itself varies
			// from run to run (memoisation keyed on map-iteration order; C07's subject), so
			// a mirror verdict would not be a function of the input
			raw, err := swag.YAMLDoc(f)
			if err != nil {
				continue
			}
			t, err := jx.Parse(raw)
			if err != nil {
				continue
			}
			if tj, ok := t.(jx.J); ok && !difflib.HasCircularRef(tj) {
				fixtures = append(fixtures, f)
			} else {
				circular++
			}
		}
		c.Extra["fixtures_excluded_circular"] = circular
		for k := 0; k < c.Pick(150, 2500) && len(fixtures) > 1; k++ {
			x, y := fixtures[rng.Intn(len(fixtures))], fixtures[rng.Intn(len(fixtures))]
			if x == y {
				continue
			}
			rx, _ := filepath.Rel(c.Repo, x)
			ry, _ := filepath.Rel(c.Repo, y)
			pairs = append(pairs, pair{id: "pair/" + rx + " vs " + ry, class: "random", a: x, b: y})
		}
	}
	var reqs []map[string]any
	for i, p := range pairs {
		reqs = append(reqs, map[string]any{"id": fmt.Sprintf("%d.f", i), "mode": "compare", "a": p.a, "b": p.b},
			map[string]any{"id": fmt.Sprintf("%d.b", i), "mode": "compare", "a": p.b, "b": p.a})
	}
	nchunks := 32
	chunks := make([][]map[string]any, nchunks)
	for i, r := range reqs {
		chunks[(i/2)%nchunks] = append(chunks[(i/2)%nchunks], r)
	}
	answers := map[string]json.RawMessage{}
	var mu sync.Mutex
	core.Parallel(nchunks, 16, func(k int) {
		if len(chunks[k]) == 0 {
			return
		}
		ans, _ := core.RunWorker("", nil, 90*time.Second, self, []string{"worker"}, chunks[k])
		mu.Lock()
		for id, a := range ans {
			answers[id] = a
		}
		mu.Unlock()
	})
	codesSeen := map[string]bool{}
	skipped := 0
	for i, p := range pairs {
		var f, b difflib.Ans
		rf, ok1 := answers[fmt.Sprintf("%d.f", i)]
		rb, ok2 := answers[fmt.Sprintf("%d.b", i)]
		if !ok1 || !ok2 || json.Unmarshal(rf, &f) != nil || json.Unmarshal(rb, &b) != nil || f.Panic != "" || b.Panic != "" || f.Err != "" || b.Err != "" {
			skipped++ // crashes are C12's subject
			continue
		}
		asym, seen := difflib.Mirror(f.Diffs, b.Diffs)
		for s := range seen {
			codesSeen[s] = true
			c.Sig(s)
		}
		c.Eval("")
		// absolute direction on single-cause catalogue edits: a consistent swap of two
		// codes is invisible to the mirror relation but not to the known cause
		if base, dir, ok := difflib.ExpectedDirection(p.kind); ok {
			check := func(ds []difflib.D, want int, which string) {
				for _, d := range ds {
					b, got := difflib.DirectionOf(d.Code)
					if b == base && got != want {
						c.Violation("C14/direction/"+p.kind+"/"+which, fmt.Sprintf("edit %s is reported as %s (%s) in the %s direction", p.id, difflib.CodeName(d.Code), d.Text, which),
							map[string]string{"a.json": string(mustRead(p.a)), "b.json": string(mustRead(p.b)), "pair.txt": p.id + "\n"})
					} else if b == base {
						c.Sig("direction:" + p.kind + "/" + which)
					}
				}
			}
			check(f.Diffs, dir, "forward")
			check(b.Diffs, -dir, "backward")
		}
		if len(asym) == 0 {
			if len(f.Diffs) > 0 {
				c.Sample(map[string]any{"pair": p.id, "forward": len(f.Diffs), "backward": len(b.Diffs), "verdict": "mirror images"})
			}
			continue
		}
		for _, as := range asym {
			var ft, bt []string
			for _, d := range f.Diffs {
				ft = append(ft, d.Text)
			}
			for _, d := range b.Diffs {
				bt = append(bt, d.Text)
			}
			sort.Strings(ft)
			sort.Strings(bt)
			files := map[string]string{"a.json": string(asJSON(mustRead(p.a))), "b.json": string(asJSON(mustRead(p.b))), "pair.txt": p.id + "\n" + as.Sig + "\n",
				"forward.txt": strings.Join(ft, "\n"), "backward.txt": strings.Join(bt, "\n")}
			what := fmt.Sprintf("diff(A,B) and diff(B,A) are not mirror images at %q: unmatched forward %v, unmatched backward %v (first seen on %s; %d vs %d differences)", as.Location, as.Fwd, as.Bwd, p.id, len(f.Diffs), len(b.Diffs))
			if p.class == "random" {
				// unrelated documents: the combination of codes at one location is open-ended,
				// so these are keyed per unmirrored change code
				for _, name := range append(append([]string{}, as.Fwd...), as.Bwd...) {
					c.Violation("C14/unmirrored/"+name, what, files)
				}
				continue
			}
			c.Violation("C14/asym/"+as.Sig, what, files)
		}
	}
	c.Extra["pairs_skipped_crash_or_load_error"] = skipped
	if c.Replay != "" {
		c.Finish("replay", 1, 0, nil)
	}
	c.Finish("diff.Compare(A,B) and diff.Compare(B,A) in child processes on catalogue edits, noisy composites, repository v1/v2 fixture pairs and seeded random pairs of valid fixtures; the multiset of (location on field paths, change code) of one direction must be the mirror image of the other (mirror map in rig/difflib/mirror.go); distinct = (change code, location class) seen in either direction",
		300, 25, []string{
			"locations compared on URL, method, response code and node field path (type labels excluded: they come from the old or the new side depending on the call site)",
			"required-ness / deprecation of an element existing on one side only is not expressible by the other direction: Added(Required)Property, Added/Deleted(Optional|Required)Param, Deleted(Deprecated)Endpoint are compared at the common granularity",
			"pairs on which diff crashes or fails to load are left to C12",
		})
}

func mustRead(p string) []byte { b, _ := os.ReadFile(p); return b }

func asJSON(b []byte) []byte {
	if t, err := jx.Parse(b); err == nil {
		return jx.Marshal(t)
	}
	return b
}
