// C04 — generated client and server interoperate losslessly.
package main

import (
	"encoding/json"
	"fmt"
	"math/rand"
	"sort"
	"strings"
	"sync"

	"github.com/go-openapi/strfmt"

	"verif/rig/core"
	"verif/rig/instgen"
	"verif/rig/jx"
	"verif/rig/oracle"
	"verif/rig/reqgen"
	"verif/rig/servrig"
	"verif/rig/specgen"
)

type J = jx.J

const basePath = "/api"

var (
	mu       sync.Mutex
	failures []string
)

func n(s string) json.Number { return json.Number(s) }

// ---------------------------------------------------------------------------
// response atoms

type respAtom struct {
	id        string
	responses J // the responses object of the operation
	defs      map[string]J
	produces  []any
}

func respAtoms() []respAtom {
	item := J{"type": "object", "required": []any{"id"}, "properties": J{"id": J{"type": "integer"}, "label": J{"type": "string"}, "when": J{"type": "string", "format": "date-time"}}}
	prob := J{"type": "object", "properties": J{"message": J{"type": "string"}, "code": J{"type": "integer"}}}
	hdrs := J{
		"X-Int":  J{"type": "integer", "format": "int64"},
		"X-I32":  J{"type": "integer", "format": "int32"},
		"X-Str":  J{"type": "string"},
		"X-Date": J{"type": "string", "format": "date"},
		"X-When": J{"type": "string", "format": "date-time"},
		"X-Bool": J{"type": "boolean"},
		"X-Num":  J{"type": "number"},
		"X-Arr":  J{"type": "array", "items": J{"type": "integer"}},
		"X-ArrP": J{"type": "array", "collectionFormat": "pipes", "items": J{"type": "string"}},
	}
	ref := func(nm string) J { return J{"$ref": "#/definitions/" + nm} }
	return []respAtom{
		{id: "codes.200+404+default.ref-bodies", defs: map[string]J{"RItem": item, "RProblem": prob},
			responses: J{"200": J{"description": "ok", "schema": ref("RItem")}, "404": J{"description": "nf", "schema": ref("RProblem")}, "default": J{"description": "err", "schema": ref("RProblem")}}},
		{id: "codes.200+201+204", defs: map[string]J{"RItem": item},
			responses: J{"200": J{"description": "ok", "schema": ref("RItem")}, "201": J{"description": "created", "schema": J{"type": "object", "properties": J{"location": J{"type": "string"}}}}, "204": J{"description": "none"}}},
		{id: "codes.only-default", defs: map[string]J{"RProblem": prob}, responses: J{"default": J{"description": "anything", "schema": ref("RProblem")}}},
		{id: "codes.only-2xx.no-default", responses: J{"200": J{"description": "ok", "schema": J{"type": "string"}}}},
		{id: "codes.errors-without-body", responses: J{"200": J{"description": "ok"}, "409": J{"description": "conflict"}, "422": J{"description": "bad", "headers": J{"X-Str": J{"type": "string"}}}, "default": J{"description": "err"}}},
		{id: "headers.all-types", defs: map[string]J{"RItem": item}, responses: J{"200": J{"description": "ok", "schema": ref("RItem"), "headers": hdrs}, "default": J{"description": "err", "headers": J{"X-Int": J{"type": "integer", "format": "int64"}, "X-Str": J{"type": "string"}}}}},
		{id: "headers.on-error", responses: J{"200": J{"description": "ok"}, "429": J{"description": "slow down", "headers": J{"X-Int": J{"type": "integer", "format": "int64"}, "X-Str": J{"type": "string"}}}}},
		{id: "body.primitive-string", responses: J{"200": J{"description": "ok", "schema": J{"type": "string"}}, "default": J{"description": "err", "schema": J{"type": "string"}}}},
		{id: "body.primitive-integer", responses: J{"200": J{"description": "ok", "schema": J{"type": "integer", "format": "int64"}}}},
		{id: "body.date-time", responses: J{"200": J{"description": "ok", "schema": J{"type": "string", "format": "date-time"}}}},
		{id: "body.array-of-ref", defs: map[string]J{"RItem": item}, responses: J{"200": J{"description": "ok", "schema": J{"type": "array", "items": ref("RItem")}}}},
		{id: "body.array-of-string", responses: J{"200": J{"description": "ok", "schema": J{"type": "array", "items": J{"type": "string"}}}}},
		{id: "body.map-of-integer", responses: J{"200": J{"description": "ok", "schema": J{"type": "object", "additionalProperties": J{"type": "integer"}}}}},
		{id: "body.map-of-ref", defs: map[string]J{"RItem": item}, responses: J{"200": J{"description": "ok", "schema": J{"type": "object", "additionalProperties": ref("RItem")}}}},
		{id: "body.inline-object", responses: J{"200": J{"description": "ok", "schema": J{"type": "object", "required": []any{"a"}, "properties": J{"a": J{"type": "string"}, "b": J{"type": "array", "items": J{"type": "integer"}}, "c": J{"type": "object", "properties": J{"d": J{"type": "boolean"}}}}}}}},
		{id: "body.allOf", defs: map[string]J{"RBase": J{"type": "object", "properties": J{"id": J{"type": "integer"}}}},
			responses: J{"200": J{"description": "ok", "schema": J{"allOf": []any{ref("RBase"), J{"type": "object", "properties": J{"extra": J{"type": "string"}}}}}}}},
		{id: "body.polymorphic", defs: map[string]J{
			"RAnimal": J{"type": "object", "discriminator": "kind", "required": []any{"kind", "name"}, "properties": J{"kind": J{"type": "string"}, "name": J{"type": "string"}}},
			"RCat":    J{"allOf": []any{ref("RAnimal"), J{"type": "object", "properties": J{"lives": J{"type": "integer"}}}}}},
			responses: J{"200": J{"description": "ok", "schema": ref("RAnimal")}, "201": J{"description": "many", "schema": J{"type": "array", "items": ref("RAnimal")}}}},
	}
}

// sample values for response headers and bodies
func headerValue(h J, k int) any {
	switch h["type"] {
	case "integer":
		return n(fmt.Sprint(41 + k))
	case "number":
		return n(fmt.Sprintf("%d.5", 2+k))
	case "boolean":
		return true
	case "array":
		it := h["items"].(J)
		if it["type"] == "integer" {
			return []any{n("1"), n(fmt.Sprint(2 + k)), n("3")}
		}
		return []any{"aa", fmt.Sprintf("b%d", k), "cc"}
	}
	switch h["format"] {
	case "date":
		return "2021-03-04"
	case "date-time":
		return "2021-03-04T05:06:07.000Z"
	}
	return fmt.Sprintf("hdr %d ü", k)
}

// ---------------------------------------------------------------------------

type built struct {
	srv    *servrig.Server
	ops    []opEntry
	hinted J
	doc    *oracle.Doc
	mo     *oracle.ModelOracle
}

type opEntry struct {
	op    specgen.ParamOp
	resp  *respAtom
	media bool // document whose spec-level produces differs from its consumes
}

func specFor(ops []opEntry) J {
	var pops []specgen.ParamOp
	for _, o := range ops {
		pops = append(pops, o.op)
	}
	d := specgen.ParamSpec("vf interop", pops, basePath)
	defs, _ := d["definitions"].(J)
	if defs == nil {
		defs = J{}
	}
	for _, o := range ops {
		if o.resp == nil {
			continue
		}
		opj := jx.GetJ(d, "paths", o.op.Path, strings.ToLower(o.op.Method))
		opj["responses"] = jx.Clone(o.resp.responses)
		for k, v := range o.resp.defs {
			defs[k] = jx.Clone(v)
		}
	}
	if len(defs) > 0 {
		d["definitions"] = defs
	}
	if len(ops) > 0 && ops[0].media {
		// consumes and produces differ, and the first produced type is not consumed
		d["consumes"] = []any{"application/json"}
		d["produces"] = []any{"application/vnd.vf.out+json", "application/json"}
		// JSON bodies rely on the spec-level consumes (no operation-level list)
		for _, o := range ops {
			opj := jx.GetJ(d, "paths", o.op.Path, strings.ToLower(o.op.Method))
			if cs, ok := opj["consumes"].([]any); ok && len(cs) == 1 && cs[0] == "application/json" {
				delete(opj, "consumes")
			}
		}
	}
	return d
}

func buildServers(c *core.Ctx, swagger string, ops []opEntry) []*built {
	hinted := specFor(ops)
	clean := jx.CloneJ(hinted)
	oracle.StripHints(clean)
	s := servrig.Build(c, swagger, clean, servrig.Options{WithClient: true})
	if s.Stage != "" {
		s.Cleanup()
		if strings.HasSuffix(s.Stage, "timeout") {
			c.Inconclusive("watchdog while building %d operations", len(ops))
			return nil
		}
		if len(ops) == 1 {
			id := ""
			for _, a := range ops[0].op.Atoms {
				id += a.ID + " "
			}
			if ops[0].resp != nil {
				id += ops[0].resp.id
			}
			mu.Lock()
			failures = append(failures, fmt.Sprintf("%s: %s failed: %s", id, s.Stage, core.OneLine(s.Output)))
			mu.Unlock()
			return nil
		}
		mid := len(ops) / 2
		return append(buildServers(c, swagger, ops[:mid]), buildServers(c, swagger, ops[mid:])...)
	}
	ospec := jx.CloneJ(clean)
	defs, _ := ospec["definitions"].(J)
	if defs == nil {
		defs = J{}
		ospec["definitions"] = defs
	}
	for _, o := range ops {
		for _, a := range o.op.Atoms {
			if a.Body {
				sc := jx.Clone(a.Param["schema"]).(J)
				oracle.StripHints(sc)
				defs["VfBodyOf"+o.op.OpID] = sc
			}
		}
		if o.resp != nil {
			for code, r := range o.resp.responses {
				if sc, ok := r.(J)["schema"].(J); ok {
					defs["VfResp"+o.op.OpID+"x"+code] = jx.Clone(sc)
				}
			}
		}
	}
	doc, err := oracle.LoadDoc(jx.Marshal(clean))
	core.Must(err)
	mo, err := oracle.NewModelOracle(ospec, false)
	core.Must(err)
	return []*built{{srv: s, ops: ops, hinted: hinted, doc: doc, mo: mo}}
}

func norm(s string) string {
	return strings.ToLower(strings.NewReplacer("-", "", "_", "", ".", "", " ", "").Replace(s))
}

var specials = []any{"a b&c=d/e?f#g%h+i", "ünï çödé 日本", "semi;colon:at@", "quote\"back\\slash", " lead and trail "}

func main() {
	c := core.New("C04")
	c.ReplayFallback()
	swagger := c.BuildSwagger()
	rng := rand.New(rand.NewSource(c.Seed))
	atoms := specgen.ParamAtoms()
	var ops []opEntry
	k := 0
	for _, a := range atoms {
		if a.Param["type"] == "file" {
			continue // files are exercised by C03; the client side needs a reader, not a value
		}
		if !c.Thorough() && k%2 == 1 && (strings.Contains(a.ID, ".ssv.") || strings.Contains(a.ID, ".tsv.") || strings.Contains(a.ID, "header.string.") || strings.Contains(a.ID, "formData.number")) {
			k++
			continue
		}
		ops = append(ops, opEntry{op: specgen.OpFor(k, a)})
		k++
	}
	ras := respAtoms()
	for i := range ras {
		op := specgen.ParamOp{OpID: fmt.Sprintf("rop%d", i), Method: "GET", Path: fmt.Sprintf("/rop%d", i)}
		ops = append(ops, opEntry{op: op, resp: &ras[i]})
	}
	bad := run(c, swagger, ops, 40, "", rng)
	// the same body / formData atoms in a document whose produces list differs from consumes
	{
		var mops []opEntry
		for _, o := range ops {
			if o.resp != nil || len(o.op.Atoms) == 0 {
				continue
			}
			a := o.op.Atoms[0]
			if a.Body || (a.In() == "formData" && strings.Contains(a.ID, ".required") && !strings.Contains(a.ID, "array")) {
				m := o
				m.media = true
				m.op.OpID = "m" + o.op.OpID
				m.op.Path = "/m" + strings.TrimPrefix(o.op.Path, "/")
				mops = append(mops, m)
			}
		}
		// JSON bodies first (they rely on the spec-level consumes), then the formData atoms
		sort.SliceStable(mops, func(i, j int) bool { return mops[i].op.Atoms[0].Body && !mops[j].op.Atoms[0].Body })
		if !c.Thorough() && len(mops) > 30 {
			mops = mops[:30]
		}
		for id := range run(c, swagger, mops, 40, "", rng) {
			bad[id] = true
		}
	}
	// pass B: operations with several parameters and a response atom
	var pool []specgen.ParamAtom
	for _, a := range atoms {
		if !bad[a.ID] && !a.Body && a.Param["type"] != "file" && a.In() != "formData" {
			pool = append(pool, a)
		}
	}
	var opsB []opEntry
	for k := 0; k < c.Pick(40, 400) && len(pool) > 3; k++ {
		op := specgen.ParamOp{OpID: fmt.Sprintf("cop%d", k), Method: "GET", Path: fmt.Sprintf("/cop%d", k)}
		used := map[string]bool{}
		for i := 0; i < 3+rng.Intn(4); i++ {
			a := pool[rng.Intn(len(pool))]
			a2 := a
			a2.Param = jx.CloneJ(a.Param)
			nm := fmt.Sprintf("p%d", i)
			if a.In() == "header" {
				nm = fmt.Sprintf("X-P%d", i)
			}
			if used[nm] {
				continue
			}
			used[nm] = true
			a2.Param["name"] = nm
			if a.In() == "path" {
				op.Path += "/{" + nm + "}"
			}
			op.Atoms = append(op.Atoms, a2)
		}
		ra := ras[rng.Intn(len(ras))]
		if bad["resp:"+ra.id] {
			opsB = append(opsB, opEntry{op: op})
		} else {
			opsB = append(opsB, opEntry{op: op, resp: &ra})
		}
	}
	run(c, swagger, opsB, 30, "B:", rng)
	sort.Strings(failures)
	for _, f := range failures {
		c.Note("not exercised (C01's subject): %s", f)
	}
	c.Finish("generated client wired to the generated server for the same document through an in-process RoundTripper (one child process per server); request side: every parameter atom with every reference-valid value (instgen, boundaries, URL-reserved and non-ASCII strings) set on the client's params struct, the server handler's params struct must hold equal values; response side: for every declared code, default (two statuses) and undeclared codes of each class the handler returns the generated typed responder (or a raw one) with header values and payloads, the client must return the typed result / typed error / APIError with that code and equal values; pass B: seeded multi-parameter operations; distinct = (atom, value class | status class, outcome)",
		1200, 300, []string{
			"only values the reference binder accepts and that are representable in the declared collectionFormat are sent",
			"date-time compared as instants; bodies compared with the schema-directed tolerant comparison of C05 (zero-valued / empty optional members)",
			"formData file parameters are left to C03",
		})
}

type pend struct {
	loose  map[string]bool
	o      opEntry
	atom   *specgen.ParamAtom
	label  string
	values map[string]any // parameter name -> typed value sent
	resp   *servrig.Respond
	expect *respExpect
}

type respExpect struct {
	code     int
	declared string // "200", "default", "" (undeclared)
	headers  map[string]any
	hdrDefs  J
	payload  any
	defName  string
}

func run(c *core.Ctx, swagger string, ops []opEntry, perServer int, pass string, rng *rand.Rand) map[string]bool {
	bad := map[string]bool{}
	var batches [][]opEntry
	for i := 0; i < len(ops); i += perServer {
		j := i + perServer
		if j > len(ops) {
			j = len(ops)
		}
		batches = append(batches, ops[i:j])
	}
	core.Parallel(len(batches), 8, func(bi int) {
		for _, b := range buildServers(c, swagger, batches[bi]) {
			defs, _ := b.hinted["definitions"].(J)
			gen := instgen.New(defs)
			var reqs []servrig.Req
			cases := map[string]pend{}
			add := func(p pend) {
				id := fmt.Sprintf("%s/%d", p.o.op.OpID, len(cases))
				params := map[string]any{}
				for k, v := range p.values {
					params[norm(k)] = v
				}
				reqs = append(reqs, servrig.Req{ID: id, Op: "client", Client: map[string]any{"opid": p.o.op.OpID, "params": params}, Respond: p.resp})
				cases[id] = p
			}
			for _, o := range b.ops {
				// base assignment: a valid value for every parameter
				baseVals := map[string]any{}
				for _, a := range o.op.Atoms {
					if a.Body {
						baseVals[a.Name()] = gen.Valid(a.Param["schema"].(J))
					} else {
						baseVals[a.Name()] = gen.Valid(lift(a.Param))
					}
				}
				if o.resp == nil || len(o.op.Atoms) > 0 {
					for ai := range o.op.Atoms {
						a := o.op.Atoms[ai]
						var variants []instgen.Variant
						if a.Body {
							variants = gen.Variants(a.Param["schema"].(J))
						} else {
							variants = gen.Variants(lift(a.Param))
							if a.Param["type"] == "string" && a.Param["format"] == nil && a.Param["enum"] == nil && a.Param["pattern"] == nil && a.Param["maxLength"] == nil {
								for i, s := range specials {
									variants = append(variants, instgen.Variant{Doc: s, Label: fmt.Sprintf("special%d", i)})
								}
							}
							if a.Param["type"] == "array" {
								if it, _ := a.Param["items"].(J); it != nil && it["type"] == "string" && it["enum"] == nil && it["pattern"] == nil && a.Param["enum"] == nil && a.Param["maxItems"] == nil {
									variants = append(variants, instgen.Variant{Doc: []any{"x y", "ü+1", "p%q"}, Label: "special-items"})
								}
							}
						}
						for _, v := range variants {
							vals := map[string]any{}
							for k, x := range baseVals {
								vals[k] = x
							}
							vals[a.Name()] = v.Doc
							// only values the reference accepts, and that survive the reference encoder
							r := toRef(o.op, vals)
							if r == nil {
								continue
							}
							bd, unspec := judgeRef(b, o.op, r)
							if unspec != "" || bd.Verdict != oracle.Accept {
								continue
							}
							if bv, ok := bd.Values[a.Name()]; ok && !a.Body {
								vals[a.Name()] = bv // the typed value (e.g. 12 for the text "12")
							}
							add(pend{o: o, atom: &o.op.Atoms[ai], label: v.Label, values: vals, loose: bd.Loose})
						}
					}
					// optional parameters left out
					vals := map[string]any{}
					anyOpt := false
					for _, a := range o.op.Atoms {
						if req, _ := a.Param["required"].(bool); req {
							vals[a.Name()] = baseVals[a.Name()]
						} else {
							anyOpt = true
						}
					}
					if anyOpt && len(o.op.Atoms) > 0 {
						add(pend{o: o, atom: &o.op.Atoms[0], label: "optional-omitted", values: vals})
					}
				}
				if o.resp != nil {
					for _, rc := range respCases(o, gen, b) {
						p := pend{o: o, label: rc.label, values: baseVals, resp: rc.respond, expect: rc.expect}
						add(p)
					}
				}
			}
			answers, crashes := b.srv.Run(reqs)
			mu.Lock()
			for _, cr := range crashes {
				if p, ok := cases[cr.ID]; ok && !cr.Killed {
					who := who(p)
					bad[who] = true
					c.Violation(fmt.Sprintf("C04/%s%s/%s/crash", pass, who, p.label), "client/server process died: "+core.OneLine(cr.Output), files(b, p, servrig.Ans{}, cr.Output))
				} else {
					c.Inconclusive("driver died: %s", core.OneLine(cr.Output))
				}
			}
			ids := make([]string, 0, len(cases))
			for id := range cases {
				ids = append(ids, id)
			}
			sort.Strings(ids)
			for _, id := range ids {
				p := cases[id]
				a, ok := answers[id]
				if !ok {
					continue
				}
				w := who(p)
				key := fmt.Sprintf("C04/%s%s/%s", pass, w, p.label)
				if a.Panic != "" {
					bad[w] = true
					c.Violation(key+"/panic", "generated client or server panicked: "+core.OneLine(a.Panic), files(b, p, a, a.Panic))
					continue
				}
				if a.Error != "" {
					if strings.HasPrefix(a.Error, "cannot set client param") {
						c.Note("%s: value not representable in the client params struct: %s", key, a.Error)
						continue
					}
					c.Inconclusive("%s: driver error %s", key, a.Error)
					continue
				}
				var cres struct {
					Result *cliVal `json:"result"`
					Error  *cliVal `json:"error"`
				}
				_ = json.Unmarshal(a.Extra["client_result"], &cres)
				if p.expect == nil {
					// request side
					c.Eval(pass + w + "/" + strings.SplitN(p.label, "@", 2)[0] + "/request")
					if a.Reached == "" {
						bad[w] = true
						msg := "client call with spec-conforming values did not reach the server handler"
						if cres.Error != nil {
							msg += ": " + cres.Error.Message
						}
						c.Violation(key+"/not-delivered", msg, files(b, p, a, ""))
						continue
					}
					if why := compareParams(b, p, a); why != "" {
						bad[w] = true
						c.Violation(key+"/value-changed", "the server handler sees different values than the client was given: "+why, files(b, p, a, why))
						continue
					}
					c.Sample(map[string]any{"atom": w, "sent": p.values, "seen_by_handler": a.Params, "verdict": "equal"})
					continue
				}
				// response side
				c.Eval(pass + w + "/" + p.label + "/response")
				if why := compareResponse(b, p, cres.Result, cres.Error); why != "" {
					bad[w] = true
					c.Violation(key+"/response-mismatch", why, files(b, p, a, why))
				}
			}
			mu.Unlock()
			b.srv.Cleanup()
		}
	})
	return bad
}

type cliVal struct {
	Type    string                     `json:"type"`
	Code    *int                       `json:"code"`
	APICode *int                       `json:"api_error_code"`
	Message string                     `json:"message"`
	Fields  map[string]json.RawMessage `json:"fields"`
}

func who(p pend) string {
	if p.expect != nil && p.o.resp != nil {
		return "resp:" + p.o.resp.id
	}
	if p.atom != nil {
		return p.atom.ID
	}
	return "op"
}

func lift(p J) J {
	s := J{}
	for _, k := range []string{"type", "format", "minimum", "maximum", "exclusiveMinimum", "exclusiveMaximum", "minLength", "maxLength", "pattern", "minItems", "maxItems", "uniqueItems", "multipleOf", "enum", "x-vf-samples", "x-vf-docs"} {
		if v, ok := p[k]; ok {
			s[k] = v
		}
	}
	if it, ok := p["items"].(J); ok {
		s["items"] = lift(it)
	}
	return s
}

// toRef renders the typed values through the reference encoder.
func toRef(op specgen.ParamOp, vals map[string]any) *oracle.Request {
	// reuse reqgen's machinery: build one case per parameter is overkill; encode directly
	r := &oracle.Request{Method: op.Method, Path: op.Path, PathParams: map[string]string{}, Query: map[string][]string{}, Header: map[string][]string{}, Form: map[string][]string{}, Files: map[string]string{}}
	for _, a := range op.Atoms {
		v, ok := vals[a.Name()]
		if !ok {
			continue
		}
		if a.Body {
			b := jx.Compact(v)
			r.Body, r.ContentType = &b, "application/json"
			continue
		}
		raws, ok := reqgen.Encode(a.Param, v)
		if !ok {
			return nil
		}
		switch a.In() {
		case "query":
			r.Query[a.Name()] = raws
		case "header":
			r.Header[a.Name()] = raws
		case "formData":
			r.Form[a.Name()] = raws
			r.ContentType = "application/x-www-form-urlencoded"
		case "path":
			if len(raws) != 1 || raws[0] == "" {
				return nil
			}
			r.PathParams[a.Name()] = raws[0]
		}
	}
	return r
}

func judgeRef(b *built, op specgen.ParamOp, r *oracle.Request) (oracle.Bound, string) {
	bound := b.doc.Bind(r)
	for _, a := range op.Atoms {
		if !a.Body || r.Body == nil {
			continue
		}
		doc, err := jx.Parse([]byte(*r.Body))
		if err != nil {
			continue
		}
		j := b.mo.Judge("VfBodyOf"+op.OpID, doc)
		if j.Unspecified != "" || !j.RefValid {
			return bound, "body not plainly valid"
		}
	}
	return bound, ""
}

func compareParams(b *built, p pend, a servrig.Ans) string {
	fields := map[string]json.RawMessage{}
	for k, v := range a.Params {
		fields[norm(k)] = v
	}
	for _, at := range p.o.op.Atoms {
		raw, ok := fields[norm(at.Name())]
		if !ok {
			return fmt.Sprintf("no field for parameter %q among %v", at.Name(), a.Params)
		}
		got, err := jx.Parse(raw)
		if err != nil {
			return "recorded value is not JSON"
		}
		exp, sent := p.values[at.Name()]
		if !sent {
			if d, has := at.Param["default"]; has {
				if why := sameValue(jx.Normalize(d), got, at.Param); why != "" {
					return fmt.Sprintf("parameter %q not sent: handler should see the default: %s", at.Name(), why)
				}
			} else if !emptyish(got) {
				return fmt.Sprintf("parameter %q was not sent but the handler sees %s", at.Name(), jx.Compact(got))
			}
			continue
		}
		if at.Body {
			if ea, ok := exp.([]any); ok && len(ea) == 0 && got == nil {
				continue
			}
			for _, is := range b.mo.RoundTrip("VfBodyOf"+p.o.op.OpID, exp, got) {
				if is.Kind == "added-key" && emptyish(is.Out) {
					continue
				}
				if is.Kind == "type-changed" && strings.HasSuffix(is.Detail, "became null") {
					continue
				}
				return fmt.Sprintf("body: %s %s: %s", is.Kind, is.Path, is.Detail)
			}
			continue
		}
		if ea, ok := exp.([]any); ok && len(ea) == 0 && (got == nil) {
			continue
		}
		if p.loose[at.Name()] {
			// an allowed empty value may arrive as empty, as nothing, or (being absent) as the default
			if emptyish(got) {
				continue
			}
			if d, has := at.Param["default"]; has && sameValue(jx.Normalize(d), got, at.Param) == "" {
				continue
			}
		}
		if why := sameValue(exp, got, at.Param); why != "" {
			return fmt.Sprintf("parameter %q: %s", at.Name(), why)
		}
	}
	return ""
}

func emptyish(v any) bool {
	switch t := v.(type) {
	case nil:
		return true
	case string:
		return t == "" || t == "0001-01-01" || strings.HasPrefix(t, "0001-01-01T00:00:00") || t == "0s"
	case bool:
		return !t
	case []any:
		return len(t) == 0
	case map[string]any:
		for _, x := range t {
			if !emptyish(x) {
				return false
			}
		}
		return true
	}
	if f, ok := jx.Float64(v); ok {
		return f == 0
	}
	return false
}

func sameValue(exp, got any, schema J) string {
	if ea, ok := exp.([]any); ok {
		ga, ok := got.([]any)
		if !ok || len(ea) != len(ga) {
			return fmt.Sprintf("sent %s, seen %s", jx.Compact(exp), jx.Compact(got))
		}
		items, _ := schema["items"].(J)
		if items == nil {
			items = J{}
		}
		for i := range ea {
			if why := sameValue(ea[i], ga[i], items); why != "" {
				return why
			}
		}
		return ""
	}
	if es, ok := exp.(string); ok {
		gs, ok := got.(string)
		if !ok {
			return fmt.Sprintf("sent %q, seen %s", es, jx.Compact(got))
		}
		if es == gs {
			return ""
		}
		switch schema["format"] {
		case "date-time":
			x, e1 := strfmt.ParseDateTime(es)
			y, e2 := strfmt.ParseDateTime(gs)
			if e1 == nil && e2 == nil && x.Equal(y) {
				return ""
			}
		case "duration":
			x, e1 := strfmt.ParseDuration(es)
			y, e2 := strfmt.ParseDuration(gs)
			if e1 == nil && e2 == nil && x == y {
				return ""
			}
		}
		return fmt.Sprintf("sent %q, seen %q", es, gs)
	}
	if !jx.Equal(exp, got) {
		return fmt.Sprintf("sent %s, seen %s", jx.Compact(exp), jx.Compact(got))
	}
	return ""
}

// ---------------------------------------------------------------------------
// response cases

type respCase struct {
	label   string
	respond *servrig.Respond
	expect  *respExpect
}

func respCases(o opEntry, gen *instgen.Gen, b *built) []respCase {
	var out []respCase
	declared := map[int]bool{}
	_, hasDefault := o.resp.responses["default"]
	mk := func(label, code string, status int, r J) {
		exp := &respExpect{code: status, declared: code, headers: map[string]any{}}
		rs := &servrig.Respond{Code: code, Status: status, Headers: map[string]any{}}
		if r != nil {
			if hs, ok := r["headers"].(J); ok {
				exp.hdrDefs = hs
				for i, hn := range jx.Keys(hs) {
					v := headerValue(hs[hn].(J), i)
					rs.Headers[hn] = v
					exp.headers[hn] = v
				}
			}
			if sc, ok := r["schema"].(J); ok {
				exp.defName = "VfResp" + o.op.OpID + "x" + code
				var doc any
				if o.resp.id == "body.polymorphic" {
					cat := J{"kind": "RCat", "name": "tom", "lives": n("7")}
					if sc["type"] == "array" {
						doc = []any{cat, J{"kind": "RCat", "name": "kit", "lives": n("9")}}
					} else {
						doc = cat
					}
				} else {
					doc = gen.Valid(sc)
				}
				rs.Payload, exp.payload = doc, doc
			}
		}
		out = append(out, respCase{label: label, respond: rs, expect: exp})
	}
	for _, code := range jx.Keys(o.resp.responses) {
		r := o.resp.responses[code].(J)
		if code == "default" {
			mk("default-as-418", "default", 418, r)
			mk("default-as-503", "default", 503, r)
			mk("default-as-202", "default", 202, r)
			continue
		}
		var st int
		fmt.Sscan(code, &st)
		declared[st] = true
		mk("declared-"+code, code, st, r)
	}
	// undeclared codes, one per class, through a raw responder
	for _, st := range []int{206, 409, 503} {
		if declared[st] {
			continue
		}
		exp := &respExpect{code: st, declared: "", headers: map[string]any{}}
		if hasDefault {
			exp.declared = "default-raw"
		}
		var payload any = J{"message": "raw", "code": n("1")}
		if hasDefault {
			// an undeclared code falls under the default response: its body follows that schema
			payload = nil
			if sc, ok := o.resp.responses["default"].(J)["schema"].(J); ok {
				payload = gen.Valid(sc)
			}
		}
		out = append(out, respCase{label: fmt.Sprintf("undeclared-%d", st), respond: &servrig.Respond{Code: "raw", Status: st, Payload: payload}, expect: exp})
	}
	return out
}

func compareResponse(b *built, p pend, res, errv *cliVal) string {
	e := p.expect
	got := res
	if got == nil {
		got = errv
	}
	if got == nil {
		return fmt.Sprintf("the client returned neither a result nor an error for status %d", e.code)
	}
	success := e.code/100 == 2
	gotCode := -1
	if got.Code != nil {
		gotCode = *got.Code
	} else if got.APICode != nil {
		gotCode = *got.APICode
	}
	if e.declared == "" {
		// undeclared and no default: a generic API error carrying the code
		if errv == nil {
			return fmt.Sprintf("undeclared status %d was returned as a successful result %s", e.code, res.Type)
		}
		if errv.APICode == nil || *errv.APICode != e.code {
			return fmt.Sprintf("undeclared status %d: expected a generic API error carrying that code, got %s (%s)", e.code, errv.Type, errv.Message)
		}
		return ""
	}
	if gotCode != e.code {
		return fmt.Sprintf("handler responded %d (%s) but the client reports code %d via %s: %s", e.code, e.declared, gotCode, got.Type, got.Message)
	}
	if success && res == nil {
		if strings.HasPrefix(e.declared, "default") {
			// a 2xx status answered through the default response: the statement calls the default a
			// typed error and 2xx a typed result; either wrapper is accepted as long as the code is carried
			return ""
		}
		return fmt.Sprintf("status %d (%s) was returned as an error %s instead of a result", e.code, e.declared, errv.Type)
	}
	if !success && errv == nil {
		return fmt.Sprintf("status %d (%s) was returned as a successful result %s instead of an error", e.code, e.declared, res.Type)
	}
	if e.declared == "default-raw" {
		return ""
	}
	// typed wrapper for that code
	wantName := strings.ToLower(codeName(e.declared))
	if wantName != "" && !strings.Contains(strings.ToLower(got.Type), wantName) {
		return fmt.Sprintf("status %d declared as %q came back as %s", e.code, e.declared, got.Type)
	}
	fields := map[string]json.RawMessage{}
	for k, v := range got.Fields {
		fields[norm(k)] = v
	}
	for hn, want := range e.headers {
		raw, ok := fields[norm(hn)]
		if !ok {
			return fmt.Sprintf("response header %s is not a field of %s", hn, got.Type)
		}
		gv, err := jx.Parse(raw)
		if err != nil {
			return "header field is not JSON"
		}
		if why := sameValue(want, gv, e.hdrDefs[hn].(J)); why != "" {
			return fmt.Sprintf("response header %s: %s", hn, why)
		}
	}
	if e.payload != nil {
		raw, ok := fields["payload"]
		if !ok {
			return fmt.Sprintf("%s has no Payload field although the response declares a body", got.Type)
		}
		gv, err := jx.Parse(raw)
		if err != nil {
			return "payload is not JSON"
		}
		for _, is := range b.mo.RoundTrip(e.defName, e.payload, gv) {
			if is.Kind == "added-key" && emptyish(is.Out) {
				continue
			}
			return fmt.Sprintf("payload of status %d: %s %s: %s", e.code, is.Kind, is.Path, is.Detail)
		}
	}
	return ""
}

func codeName(code string) string {
	switch code {
	case "default":
		return "default"
	case "200":
		return "ok"
	case "201":
		return "created"
	case "202":
		return "accepted"
	case "204":
		return "nocontent"
	case "404":
		return "notfound"
	case "409":
		return "conflict"
	case "422":
		return "unprocessableentity"
	case "429":
		return "toomanyrequests"
	}
	return ""
}

func files(b *built, p pend, a servrig.Ans, extra string) map[string]string {
	one := specFor([]opEntry{p.o})
	oracle.StripHints(one)
	ab, _ := json.MarshalIndent(a, "", " ")
	vb, _ := json.MarshalIndent(map[string]any{"operation": p.o.op.OpID, "client_params": p.values, "handler_responds": p.resp}, "", " ")
	return map[string]string{"spec.json": string(jx.Marshal(one)), "call.json": string(vb), "observed.json": string(ab), "why.txt": extra}
}
