package main

import (
	"encoding/json"

	"github.com/go-openapi/swag"
)

// yamlToJSON reads YAML the way go-openapi/loads does (swag.BytesToYAMLDoc + YAMLToJSON).
func yamlToJSON(y []byte) (json.RawMessage, error) {
	doc, err := swag.BytesToYAMLDoc(y)
	if err != nil {
		return nil, err
	}
	return swag.YAMLToJSON(doc)
}
