// C10 — the spec embedded in a generated server is the input spec.
package main

import (
	"encoding/json"
	"fmt"
	"math/rand"
	"sort"
	"strings"
	"sync"

	"github.com/go-openapi/spec"

	"verif/rig/core"
	"verif/rig/difflib"
	"verif/rig/jx"
	"verif/rig/modelrig"
	"verif/rig/oracle"
	"verif/rig/servrig"
	"verif/rig/specgen"
)

type J = jx.J

type docCase struct {
	id    string // stable atom id
	class string
	spec  J
}

var hostile = map[string]string{
	"backtick":        "a ` b",
	"backtick-run":    "``` code ```",
	"backtick-escape": "x `+\"`\"+` y",
	"quotes":          `say "hi" and 'bye'`,
	"backslash":       `C:\path\n\t \\ end\`,
	"control":         "tab\there\nnewline\rreturn \u0001 \u001f",
	"non-ascii":       "héllo wörld 日本語 👍 \u2028 \u2029",
	"html":            "</script><b>&amp; <>&",
	"template":        "{{ .Name }} %s %d ${x}",
	"comment":         "*/ /* // end",
}

// withStrings puts a hostile string into every string position of the base document that
// can hold arbitrary text.
func withStrings(class, text string) J {
	d := difflib.BaseSpec()
	d["info"].(J)["description"] = text
	d["info"].(J)["title"] = "t " + text
	d["info"].(J)["termsOfService"] = text
	d["info"].(J)["contact"] = J{"name": text, "email": "a@example.com"}
	d["info"].(J)["license"] = J{"name": text}
	d["tags"] = []any{J{"name": "things", "description": text}}
	d["externalDocs"] = J{"url": "https://example.com", "description": text}
	op := jx.GetJ(d, "paths", "/things/{pid}", "post")
	op["summary"], op["description"] = text, text
	for _, p := range op["parameters"].([]any) {
		pj := p.(J)
		pj["description"] = text
		if pj["name"] == "qe" {
			pj["enum"] = []any{"red", "green", "blue", text}
		}
		if pj["name"] == "qs" {
			delete(pj, "pattern")
			delete(pj, "minLength")
			delete(pj, "maxLength")
			pj["default"] = text
		}
	}
	jx.GetJ(d, "paths", "/things/{pid}", "post", "responses", "200")["description"] = text
	jx.GetJ(d, "paths", "/things/{pid}", "post", "responses", "200")["examples"] = J{"application/json": J{"note": text}}
	th := jx.GetJ(d, "definitions", "Thing")
	th["description"], th["title"] = text, text
	props := th["properties"].(J)
	props["color"].(J)["enum"] = []any{"red", "green", text}
	name := props["name"].(J)
	delete(name, "pattern")
	delete(name, "minLength")
	delete(name, "maxLength")
	name["default"], name["example"], name["description"] = text, text, text
	d["x-vf-ext"] = J{"text": text}
	return d
}

func main() {
	c := core.New("C10")
	c.ReplayFallback()
	swagger := c.BuildSwagger()
	rng := rand.New(rand.NewSource(c.Seed))
	var cases []docCase
	cases = append(cases, docCase{"base", "base", difflib.BaseSpec()})
	for _, k := range sortedKeys(hostile) {
		cases = append(cases, docCase{"strings." + k, "strings", withStrings(k, hostile[k])})
	}
	hs := difflib.HostileSpecs()
	for _, k := range jx.Keys(hs) {
		cases = append(cases, docCase{"shape." + k, "shape", hs[k]})
	}
	// model atoms (these exercise the generator's in-place rewrites: makeNewStruct, buildAllOf ...)
	atoms := specgen.SchemaAtoms()
	groups := modelrig.MakeGroups(atoms, []string{"def", "reqprop", "items"})
	bucket := map[string]map[string]J{}
	for _, g := range groups {
		fam := strings.SplitN(g.Placed.Atom.ID, ".", 2)[0]
		if bucket[fam] == nil {
			bucket[fam] = map[string]J{}
		}
		for k, v := range g.Defs {
			bucket[fam][k] = v
		}
	}
	for _, fam := range sortedKeys2(bucket) {
		d := specgen.ModelSpec("vf c10 "+fam, bucket[fam])
		oracle.StripHints(d)
		// one operation per definition so that every schema is reachable from a path
		paths := J{}
		for i, dn := range jx.Keys(bucket[fam]) {
			if i%3 == 0 {
				paths[fmt.Sprintf("/m%d", i)] = J{"post": J{"operationId": fmt.Sprintf("postM%d", i), "parameters": []any{J{"name": "body", "in": "body", "schema": J{"$ref": "#/definitions/" + dn}}},
					"responses": J{"200": J{"description": "ok", "schema": J{"$ref": "#/definitions/" + dn}}}}}
			}
		}
		d["paths"] = paths
		cases = append(cases, docCase{"models." + fam, "models", d})
	}
	// parameter atoms
	patoms := specgen.ParamAtoms()
	for i := 0; i < len(patoms); i += 60 {
		j := i + 60
		if j > len(patoms) {
			j = len(patoms)
		}
		var ops []specgen.ParamOp
		for k, a := range patoms[i:j] {
			ops = append(ops, specgen.OpFor(i+k, a))
		}
		d := specgen.ParamSpec("vf c10 params", ops, "/api")
		oracle.StripHints(d)
		cases = append(cases, docCase{fmt.Sprintf("params.batch%d", i/60), "params", d})
	}
	// pass B: base with random noise + random hostile strings
	for k := 0; k < c.Pick(4, 40); k++ {
		keys := sortedKeys(hostile)
		text := hostile[keys[rng.Intn(len(keys))]] + " " + hostile[keys[rng.Intn(len(keys))]]
		d := withStrings("mix", text)
		e, names := difflib.WithNoise(difflib.Edit{Old: d, New: d}, rng)
		cases = append(cases, docCase{"B.noise[" + strings.Join(names, ",") + "]", "composite", e.New})
	}
	type cfg struct {
		name string
		args []string
		yaml bool
	}
	cfgs := []cfg{{"minimal.json", nil, false}, {"minimal.yaml", nil, true}, {"full.json", []string{"--with-flatten=full"}, false}}
	if c.Thorough() {
		cfgs = append(cfgs, cfg{"expand.json", []string{"--with-expand"}, false}, cfg{"full.yaml", []string{"--with-flatten=full"}, true}, cfg{"keep-order.json", []string{"--keep-spec-order"}, false})
	}
	type job struct {
		dc docCase
		cf cfg
	}
	var jobs []job
	for i, dc := range cases {
		for k, cf := range cfgs {
			if !c.Thorough() && dc.class != "strings" && dc.class != "base" && k != i%len(cfgs) {
				continue // quick: one configuration per non-string document, all of them for the string atoms
			}
			if cf.name == "expand.json" && (strings.Contains(dc.id, "circular") || strings.Contains(dc.id, "recursive") || strings.Contains(dc.id, "poly") || dc.id == "models.poly" || dc.id == "models.object" || difflib.HasCircularRef(dc.spec)) {
				continue // documented: do not expand specs with polymorphic / recursive types
			}
			jobs = append(jobs, job{dc, cf})
		}
	}
	// selection options: the generated code covers a part of the document, the embedded
	// documents still are the whole input (operations carry several tags, selected and not)
	{
		d := difflib.BaseSpec()
		for _, t := range []struct {
			path, method string
			tags         []any
		}{{"/things/{pid}", "post", []any{"things", "admin"}}, {"/things/{pid}", "get", []any{"things", "settings", "admin"}},
			{"/names/{name}", "get", []any{"settings"}}, {"/forms", "post", []any{"admin", "things"}}, {"/docs", "delete", []any{"zeta", "admin", "alpha"}}} {
			jx.GetJ(d, "paths", t.path, t.method)["tags"] = t.tags
		}
		dc := docCase{"selection", "selection", d}
		sel := []cfg{
			{"tags=admin", []string{"--tags=admin"}, false},
			{"tags=settings+admin.full", []string{"--tags=settings", "--tags=admin", "--with-flatten=full"}, false},
			{"tags=things.yaml", []string{"--tags=things"}, true},
			{"operation=getThing", []string{"--operation=getThing"}, false},
			{"operation=deleteDoc+postForm.full", []string{"--operation=deleteDoc", "--operation=postForm", "--with-flatten=full"}, false},
			{"model=Other", []string{"--model=Other"}, false},
			{"skip-tag-packages", []string{"--skip-tag-packages"}, false},
		}
		if !c.Thorough() {
			sel = sel[:5]
		}
		for _, cf := range sel {
			jobs = append(jobs, job{dc, cf})
		}
	}
	var mu sync.Mutex
	core.Parallel(len(jobs), 8, func(i int) {
		j := jobs[i]
		judge(c, swagger, j.dc, j.cf.name, j.cf.args, j.cf.yaml, &mu)
	})
	c.Finish("generated servers (JSON and YAML input; minimal / full flatten / expand) compiled with the reflective driver, which dumps restapi.SwaggerJSON, restapi.FlatSwaggerJSON and GET /swagger.json; oracle: the first and the third are JSON-equal to the input document, the flattened one equals the input after $ref expansion on paths, parameters, responses, security and every input definition; documents = base + every hostile string class in every free-text position + hand-written shapes + model and parameter atom batches + seeded composites; distinct = (document class/atom, configuration, check)",
		60, 30, []string{
			"YAML renderings produced with yaml.v3 and used only if go-openapi/loads reads them back JSON-equal",
			"documents the generator rejects or that do not compile are C01's subject (noted)",
			"expansion by go-openapi/spec ExpandSpec on private copies; x-go-* keys present only on the flattened side are ignored; circular documents are compared on their non-circular parts only through the original-document checks",
		})
}

func sortedKeys(m map[string]string) []string {
	ks := make([]string, 0, len(m))
	for k := range m {
		ks = append(ks, k)
	}
	sort.Strings(ks)
	return ks
}

func sortedKeys2(m map[string]map[string]J) []string {
	ks := make([]string, 0, len(m))
	for k := range m {
		ks = append(ks, k)
	}
	sort.Strings(ks)
	return ks
}

func judge(c *core.Ctx, swagger string, dc docCase, cfgName string, args []string, yaml bool, mu *sync.Mutex) {
	if yaml {
		// guard: the YAML rendering must read back JSON-equal through the reference loader
		y, err := jx.ToYAML(dc.spec)
		if err != nil {
			return
		}
		var back any
		if raw, err := yamlToJSON(y); err != nil || json.Unmarshal(raw, &back) != nil || !jx.Equal(jx.Normalize(back), dc.spec) {
			c.Note("%s: YAML rendering discarded (does not read back JSON-equal)", dc.id)
			return
		}
	}
	s := servrig.Build(c, swagger, dc.spec, servrig.Options{ServerArgs: args, YAMLInput: yaml})
	defer s.Cleanup()
	if s.Stage != "" {
		if strings.HasSuffix(s.Stage, "timeout") {
			c.Inconclusive("watchdog on %s/%s", dc.id, cfgName)
		} else {
			c.Note("%s/%s: %s failed (C01's subject): %s", dc.id, cfgName, s.Stage, core.OneLine(s.Output))
		}
		return
	}
	answers, crashes := s.Run([]servrig.Req{{ID: "dump", Op: "dump", URL: "/swagger.json"}})
	if len(crashes) > 0 {
		mu.Lock()
		defer mu.Unlock()
		if strings.Contains(crashes[0].Output, "SETUP-FAILED") {
			c.Eval(dc.class + "/" + cfgName + "/embedded-loads")
			c.Violation("C10/"+dc.id+"/"+cfgName+"/embedded-spec-does-not-load", "the generated server cannot load its own embedded spec: "+core.OneLine(crashes[0].Output), map[string]string{"spec.json": string(jx.Marshal(dc.spec)), "output.txt": crashes[0].Output})
		} else {
			c.Inconclusive("driver died on %s/%s: %s", dc.id, cfgName, core.OneLine(crashes[0].Output))
		}
		return
	}
	a := answers["dump"]
	mu.Lock()
	defer mu.Unlock()
	files := map[string]string{"spec.json": string(jx.Marshal(dc.spec)), "SwaggerJSON.json": string(a.Extra["SwaggerJSON"]), "FlatSwaggerJSON.json": string(a.Extra["FlatSwaggerJSON"]), "served.json": string(a.Body())}
	report := func(check string, items []jx.DiffItem) {
		if len(items) > 0 && strings.HasPrefix(cfgName, "expand") {
			// one root cause: with --with-expand the "original" document that is embedded and
			// served is the expanded one. If that is the only difference, report it once.
			var raw []byte
			if check == "SwaggerJSON" {
				raw = a.Extra["SwaggerJSON"]
			} else {
				raw = a.Body()
			}
			if expIn, err := expand(jx.Marshal(dc.spec)); err == nil {
				if emb, err := jx.Parse(raw); err == nil {
					c.Violation("C10/"+check+"/expand-mode-embeds-the-expanded-document", fmt.Sprintf("with --with-expand the document embedded as the original (%s) is the $ref-expanded one, not the input (first difference at %s; document %s)", check, items[0].Path, dc.id), files)
					// what remains is judged against the expanded input
					items = jx.DiffAll(expIn, emb)
				}
			}
		}
		for _, it := range items {
			k := it.Last + ":" + it.Kind
			if it.Kind == "missing-right" && jx.IsZeroValue(it.A) {
				k += "=zero-value"
			}
			c.Violation("C10/"+check+"/"+k, fmt.Sprintf("%s differs from the input document at %s: input %s, embedded %s (first seen on document %s, configuration %s)", check, it.Path, jx.Compact(it.A), jx.Compact(it.B), dc.id, cfgName), files)
		}
	}
	orig, err := jx.Parse(a.Extra["SwaggerJSON"])
	c.Eval(dc.class + ":" + dc.id + "/" + cfgName + "/original")
	if err != nil {
		c.Violation("C10/SwaggerJSON/not-json", "restapi.SwaggerJSON is not JSON: "+err.Error(), files)
	} else {
		report("SwaggerJSON", jx.DiffAll(dc.spec, orig))
	}
	served, err := jx.Parse(a.Body())
	c.Eval(dc.class + ":" + dc.id + "/" + cfgName + "/served")
	if a.Status != 200 || err != nil {
		c.Violation("C10/served/unreadable", fmt.Sprintf("GET /swagger.json answers %d with a body that is not JSON", a.Status), files)
	} else {
		report("served-swagger.json", jx.DiffAll(dc.spec, served))
	}
	// flattened document vs input, after expansion
	c.Eval(dc.class + ":" + dc.id + "/" + cfgName + "/flat")
	if why := compareExpanded(jx.Marshal(dc.spec), a.Extra["FlatSwaggerJSON"]); why != "" {
		if strings.HasPrefix(why, "skip:") {
			c.Note("%s/%s flat comparison skipped: %s", dc.id, cfgName, why)
		} else {
			c.Violation("C10/FlatSwaggerJSON/"+flatKey(why), "the flattened embedded document does not describe the input once $refs are resolved: "+why, files)
		}
	} else {
		c.Sample(map[string]any{"document": dc.id, "configuration": cfgName, "verdict": "original, served and flattened documents equal the input"})
	}
}

// flatKey reduces a difference description to its last path segment and kind.
func flatKey(why string) string {
	head := strings.SplitN(why, ":", 2)[0]
	segs := strings.Split(head, "/")
	last := segs[len(segs)-1]
	kind := "changed"
	if strings.Contains(why, "missing on right") {
		kind = "missing"
	} else if strings.Contains(why, "missing on left") {
		kind = "added"
	}
	return last + ":" + kind
}

func expand(raw []byte) (J, error) {
	sw := new(spec.Swagger)
	if err := json.Unmarshal(raw, sw); err != nil {
		return nil, err
	}
	if err := spec.ExpandSpec(sw, &spec.ExpandOptions{RelativeBase: "", SkipSchemas: false}); err != nil {
		return nil, err
	}
	b, err := json.Marshal(sw)
	if err != nil {
		return nil, err
	}
	t, err := jx.Parse(b)
	if err != nil {
		return nil, err
	}
	return t.(J), nil
}

func hasRef(v any) bool {
	switch t := v.(type) {
	case map[string]any:
		if _, ok := t["$ref"]; ok {
			return true
		}
		for _, x := range t {
			if hasRef(x) {
				return true
			}
		}
	case []any:
		for _, x := range t {
			if hasRef(x) {
				return true
			}
		}
	}
	return false
}

// stripFlatOnly removes x-go-* keys that only the flattened side carries.
func stripFlatOnly(flat, in any) any {
	switch f := flat.(type) {
	case map[string]any:
		im, _ := in.(map[string]any)
		out := J{}
		for k, v := range f {
			if strings.HasPrefix(k, "x-go-") {
				if _, ok := im[k]; !ok {
					continue
				}
			}
			var sub any
			if im != nil {
				sub = im[k]
			}
			out[k] = stripFlatOnly(v, sub)
		}
		return out
	case []any:
		ia, _ := in.([]any)
		out := make([]any, len(f))
		for i, v := range f {
			var sub any
			if i < len(ia) {
				sub = ia[i]
			}
			out[i] = stripFlatOnly(v, sub)
		}
		return out
	}
	return flat
}

func compareExpanded(inRaw, flatRaw []byte) string {
	in, err := expand(inRaw)
	if err != nil {
		return "skip: input does not expand: " + err.Error()
	}
	flat, err := expand(flatRaw)
	if err != nil {
		return "FlatSwaggerJSON does not expand: " + err.Error()
	}
	for _, k := range []string{"paths", "security", "securityDefinitions", "consumes", "produces", "basePath", "host", "schemes", "parameters", "responses"} {
		iv, iok := in[k]
		fv, fok := flat[k]
		if !iok && !fok {
			continue
		}
		if hasRef(iv) {
			continue // circular documents keep $refs after expansion: not comparable this way
		}
		if d := jx.Diff(iv, stripFlatOnly(fv, iv), "/"+k); d != "" {
			return d
		}
	}
	idefs, _ := in["definitions"].(J)
	fdefs, _ := flat["definitions"].(J)
	for _, dn := range jx.Keys(idefs) {
		if hasRef(idefs[dn]) {
			continue
		}
		fd, ok := fdefs[dn]
		if !ok {
			return "definition " + dn + " is missing from the flattened document"
		}
		if d := jx.Diff(idefs[dn], stripFlatOnly(fd, idefs[dn]), "/definitions/"+dn); d != "" {
			return d
		}
	}
	return ""
}
