// C02 — generated model validation agrees with the schema.
package main

import (
	"fmt"
	"math/rand"
	"strings"
	"sync"

	"verif/rig/core"
	"verif/rig/jx"
	"verif/rig/modelrig"
	"verif/rig/oracle"
	"verif/rig/specgen"
)

type J = jx.J

func main() {
	c := core.New("C02")
	c.ReplayFallback()
	swagger := c.BuildSwagger()
	atoms := specgen.SchemaAtoms()
	positions := []string{"def", "reqprop", "optprop", "items", "aliasprop"}
	if c.Thorough() {
		positions = specgen.Positions
	}
	type config struct {
		name   string
		args   []string
		strict bool
	}
	configs := []config{{"default", nil, false}}
	if c.Thorough() {
		configs = append(configs, config{"strict", []string{"--strict-additional-properties"}, true})
	}
	heldAt := map[string]bool{} // atom@pos that showed no violation in pass A (default config)
	for _, cfg := range configs {
		groups := modelrig.MakeGroups(atoms, positions)
		results, failures, units := modelrig.Exercise(c, swagger, groups, cfg.args, 110)
		bad := judgeAll(c, results, cfg.name, cfg.strict, "")
		for _, f := range failures {
			c.Note("[%s] %s@%s not exercised: %s failed (C01's subject): %s", cfg.name, f.Group.Placed.Atom.ID, f.Group.Placed.Pos, f.Stage, core.OneLine(f.Output))
		}
		if cfg.name == "default" {
			failed := map[string]bool{}
			for _, f := range failures {
				failed[f.Group.Placed.Atom.ID+"@"+f.Group.Placed.Pos] = true
			}
			for _, g := range groups {
				k := g.Placed.Atom.ID + "@" + g.Placed.Pos
				if !bad[k] && !failed[k] {
					heldAt[k] = true
				}
			}
		}
		c.Extra["failures_"+cfg.name] = len(failures)
		for _, u := range units {
			u.Cleanup()
		}
	}
	// ---- pass B: composite definitions from atoms that held alone
	rng := rand.New(rand.NewSource(c.Seed))
	var pool []*specgen.SchemaAtom
	for i := range atoms {
		a := &atoms[i]
		ok := !a.RootOnly && !a.NoValidate && heldAt[a.ID+"@reqprop"] && heldAt[a.ID+"@optprop"] && heldAt[a.ID+"@items"]
		if c.Thorough() { // map values are a pass-A position of the thorough tier only
			ok = ok && heldAt[a.ID+"@mapval"]
		}
		if ok {
			pool = append(pool, a)
		}
	}
	c.Extra["pass_b_pool"] = len(pool)
	if c.Thorough() {
		wraps = append(wraps, "map")
	}
	nB := c.Pick(60, 600)
	var groupsB []modelrig.Group
	for k := 0; k < nB && len(pool) > 0; k++ {
		groupsB = append(groupsB, modelrig.Composite(k, pool, rng, wraps))
	}
	if len(groupsB) > 0 {
		results, failures, units := modelrig.Exercise(c, swagger, groupsB, nil, 60)
		judgeAll(c, results, "default", false, "B")
		for _, f := range failures {
			c.Note("[pass B] composite %s not exercised: %s failed: %s", f.Group.Placed.DefName, f.Stage, core.OneLine(f.Output))
		}
		for _, u := range units {
			u.Cleanup()
		}
	}
	c.Finish("pass A: every schema-shape atom at each position (definition, required/optional property, items, map values, allOf member, $ref'd alias, nested object), each fed its instgen documents (canonical valid value + one-fault neighbours: every bound -1/0/+1, lengths, item counts, duplicates, enum misses, malformed formats, zero values, missing/extra properties, JSON type confusion) through the generated UnmarshalJSON+Validate; oracle = go-openapi/validate on the input definition modulo the documented exceptions; pass B: seeded composite objects of atoms that held alone; distinct = (atom, position, fault label, verdict) combinations judged",
		1500, 300, []string{
			"reference = go-openapi/validate v0.24.0 on the input document's definition, $refs resolved against the input",
			"documented exceptions only: additionalProperties:false unenforced unless strict; untyped/property-less objects unvalidated; explicit zero of an optional (or required readOnly/default/x-nullable:false) property may count as absent (all subsets evaluated); tuples one-directional",
			"unspecified (either verdict accepted, counted): required-with-default absent, \"\" for format byte, null outside x-nullable properties, negative literal for uint formats",
			"atoms whose generation or compilation fails are C01's subject and only noted here",
		})
}

var wraps = []string{"req", "opt", "items"}

var oracles sync.Map

func oracleFor(u *modelrig.Unit, strict bool) *oracle.ModelOracle {
	key := fmt.Sprintf("%p/%v", u, strict)
	if v, ok := oracles.Load(key); ok {
		return v.(*oracle.ModelOracle)
	}
	mo, err := oracle.NewModelOracle(u.Spec, strict)
	core.Must(err)
	oracles.Store(key, mo)
	return mo
}

// atomOf attributes a pass-B variant to the atom of the property it touches.
func atomOf(r modelrig.Result) string {
	if r.Group.Placed.Pos != "B" {
		return r.Group.Placed.Atom.ID + "@" + r.Group.Placed.Pos
	}
	seg := strings.SplitN(strings.TrimPrefix(r.Case.Variant.Path, "/"), "/", 2)[0]
	seg = strings.TrimSuffix(seg, "[]")
	if p, ok := r.Group.Placed.Schema["properties"].(J)[seg].(J); ok {
		if id, ok := p["x-vf-atom"].(string); ok {
			return id
		}
	}
	return "B.root"
}

func pathClass(r modelrig.Result) string {
	p := r.Case.Variant.Path
	if r.Group.Placed.Pos == "B" { // drop the property index
		parts := strings.SplitN(strings.TrimPrefix(p, "/"), "/", 2)
		if len(parts) == 2 {
			return "/" + parts[1]
		}
		if strings.HasSuffix(parts[0], "[]") {
			return "[]"
		}
		return ""
	}
	return p
}

// judgeAll applies the oracle; returns the set of atom@pos with violations.
func judgeAll(c *core.Ctx, results []modelrig.Result, cfg string, strict bool, pass string) map[string]bool {
	bad := map[string]bool{}
	seenAccept, seenReject := map[string]bool{}, map[string]bool{}
	unspecified := 0
	for _, r := range results {
		who := atomOf(r)
		label := r.Case.Variant.Label
		if pc := pathClass(r); pc != "" {
			label += "@" + pc
		}
		sfx := ""
		if cfg != "default" {
			sfx = "/" + cfg
		}
		keyBase := fmt.Sprintf("C02/%s/%s", who, label)
		files := func(extra string) map[string]string {
			defs := r.Unit.Spec["definitions"].(J)
			return map[string]string{"definition.json": string(jx.Marshal(J{r.Case.Def: defs[r.Case.Def]})), "spec.json": string(jx.Marshal(r.Unit.Spec)),
				"document.json": jx.Compact(r.Case.Variant.Doc), "observed.txt": extra}
		}
		if r.Crash != "" {
			if strings.HasPrefix(r.Crash, "watchdog") {
				c.Inconclusive("driver watchdog on %s", keyBase)
				continue
			}
			bad[who] = true
			c.Violation(keyBase+"/crash"+sfx, "generated model code killed the process: "+core.OneLine(r.Crash), files(r.Crash))
			continue
		}
		if r.Ans.NoSuchDef {
			c.Note("definition %s has no generated type (C08/C01 subject)", r.Case.Def)
			continue
		}
		if r.Ans.Panic != "" {
			bad[who] = true
			c.Eval(who + "/" + label + "/panic")
			c.Violation(keyBase+"/panic"+sfx, "generated model code panicked: "+core.OneLine(r.Ans.Panic), files(r.Ans.Panic))
			continue
		}
		if strings.Contains(label, "negative-for-unsigned") {
			unspecified++
			continue
		}
		j := oracleFor(r.Unit, strict).Judge(r.Case.Def, r.Case.Variant.Doc)
		genOK := r.Ans.UnmarshalErr == "" && r.Ans.ValidateErr == ""
		if j.Unspecified != "" {
			unspecified++
			continue
		}
		verdict := "reject"
		if genOK {
			verdict = "accept"
			seenAccept[who] = true
		} else {
			seenReject[who] = true
		}
		c.Eval(pass + who + "/" + r.Case.Variant.Label + "/" + verdict)
		if r.Case.OneWay || r.Group.Placed.Atom.NoValidate {
			// tuples ("partial" per the property text) and shapes that are unsatisfiable
			// under strict JSON-schema semantics: exercised for panics only
			unspecified++
			continue
		}
		if j.Allowed[genOK] {
			if genOK && len(r.Case.Variant.Label) > 0 && r.Case.Variant.Label != "valid" {
				c.Sample(map[string]any{"definition": r.Case.Def, "atom": who, "label": label, "document": r.Case.Variant.Doc, "generated": verdict, "reference_valid": j.RefValid})
			}
			continue
		}
		bad[who] = true
		if cfg != "default" {
			dir := "/rejects-valid"
			if genOK {
				dir = "/accepts-invalid"
			}
			if c.HasViolation(keyBase + dir) {
				continue // same defect as under the default configuration
			}
			if !genOK && strings.Contains(r.Ans.UnmarshalErr, "unknown field") {
				// one root cause: with --strict-additional-properties every struct-backed object
				// rejects unknown properties, whether or not the schema says additionalProperties:false
				c.Violation("C02/strict/unknown-property-rejected-where-additionalProperties-is-not-false",
					fmt.Sprintf("with --strict-additional-properties a document valid for the schema is rejected (%s on %s): %s", jx.Compact(r.Case.Variant.Doc), r.Case.Def, r.Ans.UnmarshalErr),
					files(fmt.Sprintf("generated: unmarshal=%q\nreference: valid", r.Ans.UnmarshalErr)))
				continue
			}
		}
		if genOK {
			c.Violation(keyBase+"/accepts-invalid"+sfx, fmt.Sprintf("generated Validate accepts a document the schema rejects (%s): reference says %s", jx.Compact(r.Case.Variant.Doc), core.OneLine(strings.Join(j.RefErrors, "; "))),
				files(fmt.Sprintf("generated: accepted\nreference: %v\nzero-paths considered: %v", j.RefErrors, j.ZeroPaths)))
		} else {
			c.Violation(keyBase+"/rejects-valid"+sfx, fmt.Sprintf("generated code rejects a document valid for the schema (%s): unmarshal=%q validate=%q", jx.Compact(r.Case.Variant.Doc), r.Ans.UnmarshalErr, core.OneLine(r.Ans.ValidateErr)),
				files(fmt.Sprintf("generated: unmarshal=%q validate=%q\nreference: valid\nzero-paths considered: %v", r.Ans.UnmarshalErr, r.Ans.ValidateErr, j.ZeroPaths)))
		}
	}
	both := 0
	for k := range seenAccept {
		if seenReject[k] {
			both++
		}
	}
	c.Extra["groups_with_accept_and_reject_observed_"+cfg+pass] = both
	c.Extra["unspecified_"+cfg+pass] = unspecified
	return bad
}
