// C13 — diff never reports a request-breaking change as compatible.
package main

import (
	"encoding/json"
	"fmt"
	"math/rand"
	"os"
	"path/filepath"
	"sort"
	"strings"
	"sync"
	"time"

	"verif/rig/core"
	"verif/rig/difflib"
	"verif/rig/jx"
	"verif/rig/oracle"
)

func main() {
	if len(os.Args) > 1 && os.Args[1] == "worker" {
		core.ServeWorker(difflib.Handle)
		return
	}
	c := core.New("C13")
	swagger := c.BuildSwagger()
	self, _ := os.Executable()

	edits := difflib.Catalogue()
	if c.Replay != "" {
		replay(c, swagger)
		return
	}
	// pass B: composites (seeded)
	rng := rand.New(rand.NewSource(c.Seed))
	type job struct {
		e     difflib.Edit
		passB bool
		atoms []string
	}
	var jobs []job
	for _, e := range edits {
		jobs = append(jobs, job{e: e})
	}
	results := make([]outcome, len(jobs))
	run := func(js []job, res []outcome) {
		// spec validity of every document, through the worker (reference validator)
		var reqs []map[string]any
		for i, j := range js {
			dir := filepath.Join(c.Scratch, "pairs", fmt.Sprintf("%s-%d", c.Tier, len(reqs)))
			a, b := difflib.WritePair(dir, j.e.Old, j.e.New)
			res[i].a, res[i].b = a, b
			reqs = append(reqs, map[string]any{"id": fmt.Sprintf("%d.old", i), "mode": "validate", "a": a},
				map[string]any{"id": fmt.Sprintf("%d.new", i), "mode": "validate", "a": b})
		}
		valid := map[string]bool{}
		var mu sync.Mutex
		chunks := chunk(reqs, 16)
		core.Parallel(len(chunks), 16, func(k int) {
			ans, _ := core.RunWorker("", nil, 2*time.Minute, self, []string{"worker"}, chunks[k])
			mu.Lock()
			defer mu.Unlock()
			for id, raw := range ans {
				var a difflib.Ans
				_ = json.Unmarshal(raw, &a)
				valid[id] = a.Valid != nil && *a.Valid
			}
		})
		core.Parallel(len(js), 16, func(i int) {
			res[i] = judge(c, swagger, js[i].e, res[i].a, res[i].b, valid[fmt.Sprintf("%d.old", i)], valid[fmt.Sprintf("%d.new", i)])
		})
	}
	run(jobs, results)

	var held []difflib.Edit
	counts := map[string]int{}
	for i, j := range jobs {
		r := results[i]
		counts[r.class]++
		report(c, j.e.ID, j.e, r)
		if r.class == "held" && !j.e.Info {
			held = append(held, j.e)
		}
	}
	// pass B: an edit that held alone, applied together with unrelated non-breaking
	// noise on the new side and with a varied base on both sides
	nB := c.Pick(120, 1500)
	var jobsB []job
	for k := 0; k < nB && len(held) > 0; k++ {
		e := held[rng.Intn(len(held))]
		ne, names := difflib.WithNoise(e, rng)
		ne.ID = e.ID + "+noise"
		jobsB = append(jobsB, job{e: ne, passB: true, atoms: names})
	}
	resB := make([]outcome, len(jobsB))
	run(jobsB, resB)
	for i, j := range jobsB {
		r := resB[i]
		counts["B:"+r.class]++
		if r.class == "violated" {
			key := "C13/" + j.e.ID + "[" + strings.Join(j.atoms, ",") + "]"
			c.Violation(key, r.what, replayFiles(j.e, r))
		}
		if r.class == "held" || r.class == "violated" {
			c.Eval("B:" + j.e.Kind + "@" + j.e.Pos)
		}
	}
	c.Extra["classes"] = counts
	c.Finish("pass A: every (edit kind x position) atom of the catalogue on the base spec, each with a witness request checked by the reference binder (accept under old, reject under new) or one of the documented response-side edits; pass B: seeded composites = an atom that held + base variation + non-breaking noise; distinct = (edit kind, position) pairs actually judged",
		60, 40, []string{
			"reference binder (oracle/refbind.go) and go-openapi/validate v0.24.0 define request validity",
			"both documents of a pair pass validate.Spec, else the atom is dropped (counted under classes)",
			"exit status taken from the text-format run; classification from the -f json run",
		})
}

type outcome struct {
	class string // held violated informational no-witness invalid-spec inconclusive
	what  string
	a, b  string
	txt   core.Result
	js    core.Result
}

func chunk(reqs []map[string]any, n int) [][]map[string]any {
	if n < 1 {
		n = 1
	}
	size := (len(reqs) + n - 1) / n
	if size < 1 {
		size = 1
	}
	var out [][]map[string]any
	for i := 0; i < len(reqs); i += size {
		j := i + size
		if j > len(reqs) {
			j = len(reqs)
		}
		out = append(out, reqs[i:j])
	}
	return out
}

func judge(c *core.Ctx, swagger string, e difflib.Edit, a, b string, validOld, validNew bool) outcome {
	o := outcome{a: a, b: b}
	if !validOld || !validNew {
		o.class = "invalid-spec"
		o.what = fmt.Sprintf("old valid=%v new valid=%v", validOld, validNew)
		return o
	}
	if !e.Response {
		od, err1 := oracle.LoadDoc(jx.Marshal(e.Old))
		nd, err2 := oracle.LoadDoc(jx.Marshal(e.New))
		if err1 != nil || err2 != nil {
			o.class = "invalid-spec"
			return o
		}
		bo, bn := od.Bind(e.Witness), nd.Bind(e.Witness)
		if bo.Verdict != oracle.Accept || bn.Verdict != oracle.Reject {
			o.class = "no-witness"
			o.what = fmt.Sprintf("old=%s %v new=%s %v", bo.Verdict, bo.Reasons, bn.Verdict, bn.Reasons)
			return o
		}
	}
	o.txt = difflib.RunCLI(swagger, nil, a, b)
	o.js = difflib.RunCLI(swagger, []string{"-f", "json"}, a, b)
	if o.txt.TimedOut || o.js.TimedOut {
		o.class = "inconclusive"
		o.what = "watchdog"
		return o
	}
	entries, err := difflib.ParseReport(o.js.Stdout)
	if err != nil {
		// a crash of the tool is C12's subject (the same pairs are fed there); here it
		// only means that no classification could be observed
		o.class = "crash"
		o.what = "diff did not produce a report: " + core.OneLine(o.js.Stderr+o.txt.Stderr)
		return o
	}
	breaking := 0
	for _, en := range entries {
		if en.Compatibility == "Breaking" {
			breaking++
		}
	}
	switch {
	case e.Info:
		o.class = "informational"
		o.what = fmt.Sprintf("breaking=%d exit=%d", breaking, o.txt.Exit)
	case breaking >= 1 && o.txt.Exit != 0:
		o.class = "held"
	default:
		o.class = "violated"
		o.what = fmt.Sprintf("request-breaking edit reported with %d Breaking entries of %d, text-run exit status %d", breaking, len(entries), o.txt.Exit)
	}
	return o
}

func replayFiles(e difflib.Edit, r outcome) map[string]string {
	files := map[string]string{
		"old.json": string(jx.Marshal(e.Old)), "new.json": string(jx.Marshal(e.New)),
		"report.json": r.js.Stdout, "report.txt": r.txt.Stdout + "\n--- exit " + fmt.Sprint(r.txt.Exit),
		"repro.sh": "#!/bin/sh\n# expected: at least one Breaking entry and a non-zero exit status\ncd \"$(dirname \"$0\")\"\n${SWAGGER:-swagger} diff old.json new.json; echo \"exit=$?\"\n",
	}
	if e.Witness != nil {
		files["witness.json"] = string(jx.Marshal(e.Witness))
	}
	return files
}

func report(c *core.Ctx, id string, e difflib.Edit, r outcome) {
	switch r.class {
	case "held":
		c.Eval(e.Kind + "@" + e.Pos)
		c.Sample(map[string]any{"edit": id, "verdict": "held", "witness": e.Witness})
	case "violated":
		c.Eval(e.Kind + "@" + e.Pos)
		c.Violation("C13/"+id, r.what, replayFiles(e, r))
	case "inconclusive":
		c.Inconclusive("%s: %s", id, r.what)
	case "crash":
		c.Note("%s: %s", id, r.what)
	case "no-witness", "invalid-spec":
		c.Note("%s dropped (%s): %s", id, r.class, r.what)
	case "informational":
		c.Note("%s informational: %s", id, r.what)
	}
}

func replay(c *core.Ctx, swagger string) {
	a, b := filepath.Join(c.Replay, "old.json"), filepath.Join(c.Replay, "new.json")
	txt := difflib.RunCLI(swagger, nil, a, b)
	js := difflib.RunCLI(swagger, []string{"-f", "json"}, a, b)
	fmt.Println(txt.Stdout)
	entries, _ := difflib.ParseReport(js.Stdout)
	breaking := 0
	for _, en := range entries {
		if en.Compatibility == "Breaking" {
			breaking++
		}
	}
	fmt.Printf("breaking=%d exit=%d\n", breaking, txt.Exit)
	c.Cleanup()
	if breaking >= 1 && txt.Exit != 0 {
		os.Exit(0)
	}
	fmt.Printf("VIOLATION property=C13 replay=%s\n", c.Replay)
	os.Exit(1)
}

var _ = sort.Strings
