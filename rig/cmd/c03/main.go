// C03 — generated server binds and validates requests per the spec.
package main

import (
	"encoding/json"
	"fmt"
	"math/rand"
	"sort"
	"strings"
	"sync"

	"github.com/go-openapi/strfmt"

	"verif/rig/core"
	"verif/rig/jx"
	"verif/rig/oracle"
	"verif/rig/reqgen"
	"verif/rig/servrig"
	"verif/rig/specgen"
)

type J = jx.J

const basePath = "/api"

type built struct {
	srv    *servrig.Server
	ops    []specgen.ParamOp
	hinted J
	doc    *oracle.Doc
	mo     *oracle.ModelOracle
}

var (
	mu       sync.Mutex
	failures []string
)

// buildServers generates one server per batch, splitting on generation/build failures.
func buildServers(c *core.Ctx, swagger string, ops []specgen.ParamOp) []*built {
	hinted := specgen.ParamSpec("vf params", ops, basePath)
	clean := jx.CloneJ(hinted)
	oracle.StripHints(clean)
	s := servrig.Build(c, swagger, clean, servrig.Options{})
	if s.Stage != "" {
		s.Cleanup()
		if strings.HasSuffix(s.Stage, "timeout") {
			c.Inconclusive("watchdog while building a server of %d operations", len(ops))
			return nil
		}
		if len(ops) == 1 {
			mu.Lock()
			var ids []string
			for _, a := range ops[0].Atoms {
				ids = append(ids, a.ID)
			}
			failures = append(failures, fmt.Sprintf("%s: %s failed: %s", strings.Join(ids, " + "), s.Stage, core.OneLine(s.Output)))
			mu.Unlock()
			return nil
		}
		mid := len(ops) / 2
		return append(buildServers(c, swagger, ops[:mid]), buildServers(c, swagger, ops[mid:])...)
	}
	// oracle documents: body schemas are also registered as definitions for the model oracle
	ospec := jx.CloneJ(clean)
	defs, _ := ospec["definitions"].(J)
	if defs == nil {
		defs = J{}
		ospec["definitions"] = defs
	}
	for _, op := range ops {
		for _, a := range op.Atoms {
			if a.Body {
				sc := jx.Clone(a.Param["schema"]).(J)
				oracle.StripHints(sc)
				defs["VfBodyOf"+op.OpID] = sc
			}
		}
	}
	doc, err := oracle.LoadDoc(jx.Marshal(clean))
	core.Must(err)
	mo, err := oracle.NewModelOracle(ospec, false)
	core.Must(err)
	return []*built{{srv: s, ops: ops, hinted: hinted, doc: doc, mo: mo}}
}

func main() {
	c := core.New("C03")
	c.ReplayFallback()
	swagger := c.BuildSwagger()
	atoms := specgen.ParamAtoms()
	if !c.Thorough() {
		// quick: every location/type/collectionFormat atom, a covering subset of the rarer ones
		var sel []specgen.ParamAtom
		for i, a := range atoms {
			if strings.Contains(a.ID, ".optional") && strings.HasPrefix(a.ID, "formData.") && i%2 == 0 {
				continue
			}
			sel = append(sel, a)
		}
		atoms = sel
	}
	var ops []specgen.ParamOp
	for k, a := range atoms {
		ops = append(ops, specgen.OpFor(k, a))
	}
	held := map[string]bool{}
	bad := runOps(c, swagger, ops, 40, "")
	for _, a := range atoms {
		if !bad[a.ID] {
			held[a.ID] = true
		}
	}
	// ---- pass B: operations with 3–6 parameters across locations, drawn from atoms that held alone
	rng := rand.New(rand.NewSource(c.Seed))
	var pool []specgen.ParamAtom
	for _, a := range atoms {
		if held[a.ID] && !a.Body && a.Param["type"] != "file" {
			pool = append(pool, a)
		}
	}
	var bodies []specgen.ParamAtom
	for _, a := range atoms {
		if held[a.ID] && a.Body {
			bodies = append(bodies, a)
		}
	}
	nB := c.Pick(60, 600)
	var opsB []specgen.ParamOp
	for k := 0; k < nB && len(pool) > 3; k++ {
		op := specgen.ParamOp{OpID: fmt.Sprintf("cop%d", k), Method: "GET", Path: fmt.Sprintf("/cop%d", k)}
		np := 3 + rng.Intn(4)
		used := map[string]bool{}
		hasForm := false
		for i := 0; i < np; i++ {
			a := pool[rng.Intn(len(pool))]
			if a.In() == "formData" {
				hasForm = true
			}
			a2 := a
			a2.Param = jx.CloneJ(a.Param)
			nm := fmt.Sprintf("p%d", i)
			if a.In() == "header" {
				nm = fmt.Sprintf("X-P%d", i)
			}
			a2.Param["name"] = nm
			if used[a.In()+nm] {
				continue
			}
			used[a.In()+nm] = true
			if a.In() == "path" {
				op.Path += "/{" + nm + "}"
			}
			op.Atoms = append(op.Atoms, a2)
		}
		if hasForm {
			op.Method = "POST"
			for i := range op.Atoms {
				op.Atoms[i].Consumes = []any{"application/x-www-form-urlencoded"}
			}
		} else if len(bodies) > 0 && rng.Intn(3) == 0 {
			b := bodies[rng.Intn(len(bodies))]
			op.Method = "POST"
			op.Atoms = append(op.Atoms, b)
		}
		opsB = append(opsB, op)
	}
	runOps(c, swagger, opsB, 30, "B:")
	sort.Strings(failures)
	for _, f := range failures {
		c.Note("not exercised (C01's subject): %s", f)
	}
	c.Extra["atoms_not_generated_or_built"] = len(failures)
	c.Finish("pass A: every parameter atom (location x type/format x collectionFormat x nesting x required/optional/default/allowEmptyValue x validation; body of several schema shapes; formData file) alone in its own operation of a generated server run in a child process; requests = instgen values encoded by the reference encoder + one mutation per rule (absent, empty, repeated key, wrong delimiter, empty item, malformed JSON, wrong content type); oracle = reference binder (accept with values / reject / unspecified); pass B: seeded operations with 3-6 parameters; distinct = (atom, rule label, verdict) combinations judged",
		1500, 400, []string{
			"reference binder rig/oracle/refbind.go (Swagger 2.0 parameter semantics, go-openapi/validate for each level); body schemas judged with C02's documented exceptions",
			"unspecified (counted, not judged): empty value of optional non-string parameters, repeated keys for non-multi parameters, empty items after a split, non-canonical boolean / float spellings",
			"which 4xx code is returned and routing outcomes (404/405) are not asserted",
		})
}

// runOps builds servers for the operations, sends every case and judges; returns the set of atom ids with violations.
func runOps(c *core.Ctx, swagger string, ops []specgen.ParamOp, perServer int, pass string) map[string]bool {
	bad := map[string]bool{}
	var batches [][]specgen.ParamOp
	for i := 0; i < len(ops); i += perServer {
		j := i + perServer
		if j > len(ops) {
			j = len(ops)
		}
		batches = append(batches, ops[i:j])
	}
	unspecified := 0
	core.Parallel(len(batches), 8, func(bi int) {
		for _, b := range buildServers(c, swagger, batches[bi]) {
			type pending struct {
				op     specgen.ParamOp
				atom   specgen.ParamAtom
				cs     reqgen.Case
				bound  oracle.Bound
				unspec string
			}
			var reqs []servrig.Req
			cases := map[string]pending{}
			defs, _ := b.hinted["definitions"].(J)
			for _, op := range b.ops {
				for _, a := range op.Atoms {
					for k, cs := range reqgen.Cases(op, a, defs) {
						id := fmt.Sprintf("%s/%s/%d", op.OpID, a.Name(), k)
						p := pending{op: op, atom: a, cs: cs}
						p.bound, p.unspec = judgeRef(b, op, cs.Req)
						reqs = append(reqs, reqgen.ToHTTP(id, cs.Req, basePath))
						cases[id] = p
					}
				}
			}
			answers, crashes := b.srv.Run(reqs)
			mu.Lock()
			for _, cr := range crashes {
				p, ok := cases[cr.ID]
				if !ok {
					c.Inconclusive("server driver died without attributable request: %s", core.OneLine(cr.Output))
					continue
				}
				if cr.Killed {
					c.Inconclusive("watchdog on %s", p.atom.ID)
					continue
				}
				bad[p.atom.ID] = true
				c.Violation(fmt.Sprintf("C03/%s/%s/crash", p.atom.ID, p.cs.Label), "the generated server process died on a request: "+core.OneLine(cr.Output), replayFiles(b, p.op, p.cs, servrig.Ans{}, p.bound, cr.Output))
			}
			ids := make([]string, 0, len(cases))
			for id := range cases {
				ids = append(ids, id)
			}
			sort.Strings(ids)
			for _, id := range ids {
				p := cases[id]
				a, ok := answers[id]
				if !ok {
					continue
				}
				key := fmt.Sprintf("C03/%s%s/%s", pass, p.atom.ID, p.cs.Label)
				if a.Panic != "" {
					bad[p.atom.ID] = true
					c.Violation(key+"/panic", "generated server code panicked: "+core.OneLine(a.Panic), replayFiles(b, p.op, p.cs, a, p.bound, a.Panic))
					continue
				}
				if p.unspec != "" || p.bound.Verdict == oracle.Unspecified {
					unspecified++
					continue
				}
				reached := a.Reached != ""
				switch p.bound.Verdict {
				case oracle.Accept:
					c.Eval(pass + p.atom.ID + "/" + labelClass(p.cs.Label) + "/accept")
					if !reached || a.Status != 299 {
						bad[p.atom.ID] = true
						c.Violation(key+"/rejects-valid", fmt.Sprintf("a request satisfying the declared parameters is answered %d and the handler is not run: %s", a.Status, core.OneLine(string(a.Body()))),
							replayFiles(b, p.op, p.cs, a, p.bound, ""))
						continue
					}
					if why := compareBound(b, p.op, p.bound, a); why != "" {
						bad[p.atom.ID] = true
						c.Violation(key+"/wrong-value", "the handler received different values than the request carries: "+why, replayFiles(b, p.op, p.cs, a, p.bound, why))
						continue
					}
					c.Sample(map[string]any{"atom": p.atom.ID, "rule": p.cs.Label, "request": reqs0(p.cs.Req), "verdict": "accepted, values equal", "params": a.Params})
				case oracle.Reject:
					c.Eval(pass + p.atom.ID + "/" + labelClass(p.cs.Label) + "/reject")
					if reached {
						bad[p.atom.ID] = true
						c.Violation(key+"/accepts-invalid", fmt.Sprintf("the handler is run for a request that violates the declared parameters (%s); bound %s", strings.Join(p.bound.Reasons, "; "), compactParams(a.Params)),
							replayFiles(b, p.op, p.cs, a, p.bound, ""))
					} else if a.Status < 400 || a.Status >= 500 {
						bad[p.atom.ID] = true
						c.Violation(key+"/not-4xx", fmt.Sprintf("an invalid request (%s) is answered with status %d instead of a 4xx", strings.Join(p.bound.Reasons, "; "), a.Status), replayFiles(b, p.op, p.cs, a, p.bound, ""))
					}
				}
			}
			mu.Unlock()
			b.srv.Cleanup()
		}
	})
	c.Extra["unspecified_"+pass] = unspecified
	return bad
}

func labelClass(l string) string { return strings.SplitN(l, "@", 2)[0] }

func reqs0(r *oracle.Request) any { return r }

func compactParams(p map[string]json.RawMessage) string {
	b, _ := json.Marshal(p)
	return string(b)
}

// judgeRef evaluates the request with the reference binder; bodies go through the
// model oracle so that C02's documented exceptions apply.
func judgeRef(b *built, op specgen.ParamOp, r *oracle.Request) (oracle.Bound, string) {
	// bind everything but the body with the plain reference binder on a copy without body
	bound := b.doc.Bind(r)
	for _, a := range op.Atoms {
		if !a.Body || r.Body == nil || strings.TrimSpace(*r.Body) == "" {
			continue
		}
		doc, err := jx.Parse([]byte(*r.Body))
		if err != nil {
			continue // malformed: the plain binder already rejected
		}
		if !strings.HasPrefix(r.ContentType, "application/json") {
			continue
		}
		j := b.mo.Judge("VfBodyOf"+op.OpID, doc)
		if j.Unspecified != "" {
			return bound, j.Unspecified
		}
		if j.Allowed[true] && j.Allowed[false] {
			return bound, "zero-value exception: either verdict allowed"
		}
		// recompute the verdict of the other parameters alone
		others := oracle.Accept
		for _, reason := range bound.Reasons {
			if !strings.HasPrefix(reason, "body:") && !strings.HasPrefix(reason, "unspecified") {
				others = oracle.Reject
			}
		}
		if others == oracle.Accept && bound.Verdict != oracle.Unspecified {
			if j.Allowed[true] {
				bound.Verdict = oracle.Accept
				bound.Values[a.Name()] = doc
			} else {
				bound.Verdict = oracle.Reject
			}
		}
	}
	return bound, ""
}

var rxNonAlnum = strings.NewReplacer("-", "", "_", "", ".", "", " ", "")

func norm(s string) string { return strings.ToLower(rxNonAlnum.Replace(s)) }

// compareBound checks the recorded params struct against the reference binding.
func compareBound(b *built, op specgen.ParamOp, bound oracle.Bound, a servrig.Ans) string {
	fields := map[string]json.RawMessage{}
	for k, v := range a.Params {
		fields[norm(k)] = v
	}
	for _, at := range op.Atoms {
		raw, ok := fields[norm(at.Name())]
		if !ok {
			return fmt.Sprintf("no field for parameter %q in the params struct %s", at.Name(), compactParams(a.Params))
		}
		got, err := jx.Parse(raw)
		if err != nil {
			return "recorded value is not JSON: " + string(raw)
		}
		exp, has := bound.Values[at.Name()]
		if !has {
			// absent optional without default: nil / zero / empty are all fine
			if !isEmptyish(got) {
				return fmt.Sprintf("parameter %q is absent from the request but the handler sees %s", at.Name(), jx.Compact(got))
			}
			continue
		}
		if at.Body {
			// the struct is observed through its JSON rendering: a nil slice and an empty one,
			// and a zero-valued non-pointer field and an absent one, are the same Go value
			if ea, ok := exp.([]any); ok && len(ea) == 0 && got == nil {
				continue
			}
			for _, is := range b.mo.RoundTrip("VfBodyOf"+op.OpID, exp, got) {
				if is.Kind == "added-key" && isEmptyish(is.Out) {
					continue
				}
				if is.Kind == "type-changed" && strings.HasSuffix(is.Detail, "became null") {
					continue
				}
				return fmt.Sprintf("body: %s %s: %s", is.Kind, is.Path, is.Detail)
			}
			continue
		}
		if at.Param["type"] == "file" {
			m, _ := got.(J)
			fb, _ := m["file_b64"].(string)
			if fb == "" {
				return "file parameter not bound"
			}
			continue
		}
		if bound.Loose[at.Name()] {
			// an allowed empty value may be seen as "" / empty, as nothing, or — being absent — as the default
			if isEmptyish(got) {
				continue
			}
			if d, has := at.Param["default"]; has && sameValue(jx.Normalize(d), got, at.Param) == "" {
				continue
			}
		}
		if why := sameValue(exp, got, at.Param); why != "" {
			return fmt.Sprintf("parameter %q: %s", at.Name(), why)
		}
	}
	return ""
}

func isEmptyish(v any) bool {
	switch t := v.(type) {
	case nil:
		return true
	case string:
		return t == "" || t == "0001-01-01" || strings.HasPrefix(t, "0001-01-01T00:00:00") || t == "0s"
	case bool:
		return !t
	case []any:
		return len(t) == 0
	case map[string]any:
		for _, x := range t {
			if !isEmptyish(x) {
				return false
			}
		}
		return true
	}
	if f, ok := jx.Float64(v); ok {
		return f == 0
	}
	return false
}

func sameValue(exp, got any, schema J) string {
	if ea, ok := exp.([]any); ok {
		ga, ok := got.([]any)
		if !ok {
			return fmt.Sprintf("expected %s, handler sees %s", jx.Compact(exp), jx.Compact(got))
		}
		if len(ea) != len(ga) {
			return fmt.Sprintf("expected %d items %s, handler sees %s", len(ea), jx.Compact(exp), jx.Compact(got))
		}
		items, _ := schema["items"].(J)
		if items == nil {
			items = J{}
		}
		for i := range ea {
			if why := sameValue(ea[i], ga[i], items); why != "" {
				return why
			}
		}
		return ""
	}
	if es, ok := exp.(string); ok {
		gs, ok := got.(string)
		if !ok {
			return fmt.Sprintf("expected %q, handler sees %s", es, jx.Compact(got))
		}
		if es == gs {
			return ""
		}
		switch schema["format"] {
		case "date-time":
			a, e1 := strfmt.ParseDateTime(es)
			b, e2 := strfmt.ParseDateTime(gs)
			if e1 == nil && e2 == nil && a.Equal(b) {
				return ""
			}
		case "duration":
			a, e1 := strfmt.ParseDuration(es)
			b, e2 := strfmt.ParseDuration(gs)
			if e1 == nil && e2 == nil && a == b {
				return ""
			}
		}
		return fmt.Sprintf("expected %q, handler sees %q", es, gs)
	}
	if !jx.Equal(exp, got) {
		return fmt.Sprintf("expected %s, handler sees %s", jx.Compact(exp), jx.Compact(got))
	}
	return ""
}

func replayFiles(b *built, op specgen.ParamOp, cs reqgen.Case, a servrig.Ans, bound oracle.Bound, extra string) map[string]string {
	opSpec := specgen.ParamSpec("vf repro", []specgen.ParamOp{op}, basePath)
	oracle.StripHints(opSpec)
	h := reqgen.ToHTTP("repro", cs.Req, basePath)
	hb, _ := json.MarshalIndent(h, "", " ")
	ab, _ := json.MarshalIndent(a, "", " ")
	return map[string]string{"spec.json": string(jx.Marshal(opSpec)), "request.json": string(hb), "reference-request.json": string(jx.Marshal(cs.Req)),
		"observed.json": string(ab) + "\nbody: " + string(a.Body()), "expected.txt": fmt.Sprintf("reference verdict: %s\nvalues: %s\nreasons: %v\n%s", bound.Verdict, jx.Compact(bound.Values), bound.Reasons, extra)}
}
