// C08 — no operation or definition is silently dropped or merged.
package main

import (
	"encoding/json"
	"fmt"
	"go/ast"
	"go/build"
	"go/parser"
	"go/token"
	"math/rand"
	"net/url"
	"os"
	"path/filepath"
	"regexp"
	"sort"
	"strings"
	"sync"

	"verif/rig/core"
	"verif/rig/jx"
	"verif/rig/servrig"
)

type J = jx.J

type opDef struct {
	method, path, opID string
	tags               []string
	params             []J // extra parameters
	body               J   // inline body schema (optional)
	okSchema           J   // inline 200 schema (optional)
}

type atom struct {
	id     string
	ops    []opDef
	defs   map[string]J
	noBase bool // document without basePath (root path routing)
}

func simpleDef() J { return J{"type": "object", "properties": J{"v": J{"type": "string"}}} }

func atoms() []atom {
	d := func(names ...string) map[string]J {
		m := map[string]J{}
		for i, n := range names {
			m[n] = J{"type": "object", "properties": J{fmt.Sprintf("field%d", i): J{"type": "string"}}}
		}
		return m
	}
	get := func(path, id string, tags ...string) opDef { return opDef{method: "GET", path: path, opID: id, tags: tags} }
	q := func(name string) J { return J{"name": name, "in": "query", "type": "string"} }
	// every word go/build reads as an implicit GOOS / GOARCH constraint when it ends a file name
	goos := strings.Fields("aix android darwin dragonfly freebsd hurd illumos ios js linux nacl netbsd openbsd plan9 solaris wasip1 windows zos")
	goarch := strings.Fields("386 amd64 amd64p32 arm armbe arm64 arm64be loong64 mips mipsle mips64 mips64le mips64p32 mips64p32le ppc ppc64 ppc64le riscv riscv64 s390 s390x sparc sparc64 wasm")
	suffixed := func(prefix string, words []string) []string {
		var out []string
		for _, w := range words {
			out = append(out, prefix+"_"+w)
		}
		return out
	}
	suffixOps := func(prefix string, words []string) []opDef {
		var out []opDef
		for i, n := range suffixed(prefix, words) {
			out = append(out, get(fmt.Sprintf("/s%d", i), n))
		}
		return out
	}
	return []atom{
		{id: "files.def-goos-suffix", ops: []opDef{get("/p1", "one")}, defs: d(suffixed("kernel", goos)...)},
		{id: "files.def-goarch-suffix", ops: []opDef{get("/p1", "one")}, defs: d(suffixed("kernel", goarch)...)},
		{id: "files.def-goos-goarch-suffix", ops: []opDef{get("/p1", "one")}, defs: d("kernel_linux_amd64", "kernel_windows_arm64", "KernelLinuxPpc", "kernelPlan9Sparc", "kernel-js-wasm", "kernel_test")},
		{id: "files.op-goos-suffix", ops: suffixOps("run", goos)},
		{id: "files.op-goarch-suffix", ops: suffixOps("run", goarch)},
		{id: "baseline.distinct", ops: []opDef{get("/alpha", "getAlpha"), get("/beta", "getBeta"), {method: "POST", path: "/alpha", opID: "postAlpha"}}, defs: d("alpha", "beta")},
		{id: "paths.dash-vs-underscore.no-ids", ops: []opDef{get("/a-b", ""), get("/a_b", "")}},
		{id: "paths.dash-vs-underscore.no-ids.3", ops: []opDef{get("/x-y", ""), get("/x_y", ""), get("/x.y", "")}},
		{id: "paths.case.no-ids", ops: []opDef{get("/Thing", ""), get("/thing", "")}},
		{id: "paths.slash-vs-dash.no-ids", ops: []opDef{get("/a/b", ""), get("/a-b", "")}},
		{id: "paths.param-names.no-ids", ops: []opDef{get("/items/{id}", ""), get("/items/{id}/x", ""), get("/items-{id}", "")}},
		{id: "paths.methods.no-ids", ops: []opDef{get("/m-n", ""), {method: "POST", path: "/m_n"}, {method: "PUT", path: "/m-n"}}},
		{id: "paths.dash-vs-underscore.with-ids", ops: []opDef{get("/a-b", "first"), get("/a_b", "second")}},
		{id: "opids.punctuation", ops: []opDef{get("/p1", "get-x"), get("/p2", "get_x"), get("/p3", "Get X")}},
		{id: "opids.case", ops: []opDef{get("/p1", "listID"), get("/p2", "listId"), get("/p3", "ListID")}},
		{id: "opids.initialism", ops: []opDef{get("/p1", "getHttpUrl"), get("/p2", "getHTTPURL")}},
		{id: "opids.vs-default-name", ops: []opDef{get("/things", ""), get("/other", "GetThings")}},
		{id: "opids.vs-default-name.other-order", ops: []opDef{get("/users/{id}", ""), {method: "POST", path: "/lookup", opID: "GetUsersID"}, get("/zz", "")}},
		{id: "paths.root.no-basepath", noBase: true, ops: []opDef{get("/", ""), {method: "POST", path: "/", opID: "postRoot"}, get("/x", "getX")}},
		{id: "paths.root.with-basepath", ops: []opDef{get("/", "getRoot"), {method: "PUT", path: "/"}, get("/x", "getX")}},
		{id: "opids.same-in-different-tags", ops: []opDef{get("/p1", "doIt", "one"), get("/p2", "do-it", "two")}},
		{id: "defs.punctuation", ops: []opDef{get("/p1", "one")}, defs: d("foo-bar", "foo_bar", "FooBar")},
		{id: "defs.case", ops: []opDef{get("/p1", "one")}, defs: d("abc", "ABC", "Abc")},
		{id: "defs.space-vs-dash", ops: []opDef{get("/p1", "one")}, defs: d("my item", "my-item")},
		{id: "defs.initialism", ops: []opDef{get("/p1", "one")}, defs: d("userId", "userID", "UserID")},
		{id: "defs.vs-inline-body", ops: []opDef{{method: "POST", path: "/foo", opID: "foo", body: J{"type": "object", "properties": J{"inl": J{"type": "string"}}}}}, defs: d("FooBody")},
		{id: "defs.vs-inline-response", ops: []opDef{{method: "GET", path: "/foo", opID: "foo", okSchema: J{"type": "object", "properties": J{"inl": J{"type": "string"}}}}}, defs: d("FooOKBody")},
		{id: "defs.vs-inline-items", ops: []opDef{{method: "POST", path: "/foo", opID: "foo", body: J{"type": "array", "items": J{"type": "object", "properties": J{"inl": J{"type": "string"}}}}}}, defs: d("FooParamsBodyItems0")},
		{id: "defs.vs-anon-property", ops: []opDef{get("/p1", "one")}, defs: map[string]J{"holder": J{"type": "object", "properties": J{"inner": J{"type": "object", "properties": J{"a": J{"type": "string"}}}}}, "HolderInner": simpleDef()}},
		{id: "tags.punctuation", ops: []opDef{get("/p1", "one", "my-tag"), get("/p2", "two", "my_tag")}},
		{id: "tags.case", ops: []opDef{get("/p1", "one", "Pets"), get("/p2", "two", "pets")}},
		{id: "tags.reserved-operations", ops: []opDef{get("/p1", "one", "operations"), get("/p2", "two")}},
		{id: "tags.reserved-models", ops: []opDef{get("/p1", "one", "models"), get("/p2", "two", "client")}, defs: d("thing")},
		{id: "tags.keyword", ops: []opDef{get("/p1", "one", "type"), get("/p2", "two", "func"), get("/p3", "three", "v1")}},
		{id: "tags.same-op-two-tags", ops: []opDef{get("/p1", "one", "t1", "t2"), get("/p2", "two", "t2")}},
		{id: "params.punctuation.same-location", ops: []opDef{{method: "GET", path: "/p1", opID: "one", params: []J{q("my-p"), q("my_p")}}}},
		{id: "params.case.same-location", ops: []opDef{{method: "GET", path: "/p1", opID: "one", params: []J{q("limit"), q("Limit")}}}},
		{id: "params.across-locations", ops: []opDef{{method: "GET", path: "/p1/{id}", opID: "one", params: []J{{"name": "id", "in": "path", "type": "string", "required": true}, q("id"), {"name": "id", "in": "header", "type": "string"}}}}},
		{id: "files.op-test-suffix", ops: []opDef{get("/p1", "a_test"), get("/p2", "a")}},
		{id: "files.def-test-suffix", ops: []opDef{get("/p1", "one")}, defs: d("foo_test", "foo")},
		{id: "files.op-vs-parameters-file", ops: []opDef{get("/p1", "get"), get("/p2", "getParameters"), get("/p3", "getResponses"), get("/p4", "get_urlbuilder")}},
		{id: "files.def-vs-def-file", ops: []opDef{get("/p1", "one")}, defs: d("a.b", "a/b", "a b")},
	}
}

func buildSpec(a atom, markerBase int) (J, []opDef) {
	paths := J{}
	defs := J{}
	for k, v := range a.defs {
		defs[k] = v
	}
	var ops []opDef
	for i, op := range a.ops {
		mk := fmt.Sprintf("mk%d", markerBase+i)
		params := []any{J{"name": mk, "in": "query", "type": "integer", "required": true}}
		for _, p := range op.params {
			params = append(params, jx.Clone(p))
		}
		for _, m := range regexp.MustCompile(`\{(\w+)\}`).FindAllStringSubmatch(op.path, -1) {
			have := false
			for _, p := range op.params {
				if p["in"] == "path" && p["name"] == m[1] {
					have = true
				}
			}
			if !have {
				params = append(params, J{"name": m[1], "in": "path", "type": "string", "required": true})
			}
		}
		if op.body != nil {
			params = append(params, J{"name": "body", "in": "body", "schema": op.body})
		}
		ok := J{"description": "ok"}
		if op.okSchema != nil {
			ok["schema"] = op.okSchema
		}
		o := J{"parameters": params, "responses": J{"200": ok}}
		if op.opID != "" {
			o["operationId"] = op.opID
		}
		if len(op.tags) > 0 {
			t := []any{}
			for _, x := range op.tags {
				t = append(t, x)
			}
			o["tags"] = t
		}
		pi, _ := paths[op.path].(J)
		if pi == nil {
			pi = J{}
			paths[op.path] = pi
		}
		pi[strings.ToLower(op.method)] = o
		ops = append(ops, op)
	}
	// reference every definition from a response so that none is "unused"
	if len(defs) > 0 {
		resp := J{}
		code := 200
		for _, k := range jx.Keys(defs) {
			resp[fmt.Sprint(code)] = J{"description": "d", "schema": J{"$ref": "#/definitions/" + k}}
			code++
		}
		paths["/vfdefs"] = J{"get": J{"operationId": "vfListDefs", "parameters": []any{J{"name": "mk999", "in": "query", "type": "integer", "required": true}}, "responses": resp}}
	}
	d := J{"swagger": "2.0", "info": J{"title": "vf collisions " + a.id, "version": "1.0.0"}, "basePath": "/c", "consumes": []any{"application/json"}, "produces": []any{"application/json"}, "paths": paths}
	if len(defs) > 0 {
		d["definitions"] = defs
	}
	if a.noBase {
		delete(d, "basePath")
	}
	return d, ops
}

// excludedFiles lists the generated .go files (relative to dir) that go/build would not compile
// into their package on the host platform.
func excludedFiles(dir string) []string {
	var out []string
	_ = filepath.Walk(dir, func(p string, fi os.FileInfo, err error) error {
		if err != nil || fi.IsDir() || !strings.HasSuffix(p, ".go") {
			return nil
		}
		rel, _ := filepath.Rel(dir, p)
		if strings.HasPrefix(rel, "vfdriver") || !strings.Contains(rel, string(filepath.Separator)) {
			return nil // the rig's own driver sources
		}
		match, merr := build.Default.MatchFile(filepath.Dir(p), filepath.Base(p))
		if strings.HasSuffix(p, "_test.go") || (merr == nil && !match) {
			out = append(out, rel)
		}
		return nil
	})
	sort.Strings(out)
	return out
}

var rxModel = regexp.MustCompile(`swagger:model\s+(.+)`)

// modelNames returns swagger:model name -> Go type for the generated models package.
func modelNames(dir string) (map[string][]string, error) {
	out := map[string][]string{}
	fset := token.NewFileSet()
	pkgs, err := parser.ParseDir(fset, dir, nil, parser.ParseComments)
	if err != nil {
		return nil, err
	}
	for _, pkg := range pkgs {
		for _, f := range pkg.Files {
			for _, decl := range f.Decls {
				gd, ok := decl.(*ast.GenDecl)
				if !ok || gd.Tok != token.TYPE {
					continue
				}
				for _, sp := range gd.Specs {
					ts := sp.(*ast.TypeSpec)
					doc := ts.Doc
					if doc == nil {
						doc = gd.Doc
					}
					if doc == nil {
						continue
					}
					for _, line := range strings.Split(doc.Text(), "\n") {
						if m := rxModel.FindStringSubmatch(line); m != nil {
							n := strings.TrimSpace(m[1])
							out[n] = append(out[n], ts.Name.Name)
						}
					}
				}
			}
		}
	}
	return out, nil
}

func main() {
	c := core.New("C08")
	c.ReplayFallback()
	swagger := c.BuildSwagger()
	as := atoms()
	held := make([]bool, len(as))
	var mu sync.Mutex
	run := func(a atom, key string) bool {
		spec, ops := buildSpec(a, 1)
		ok := judge(c, swagger, a, spec, ops, key, &mu)
		return ok
	}
	core.Parallel(len(as), 8, func(i int) {
		held[i] = run(as[i], "C08/"+as[i].id)
	})
	// pass B: bigger documents sprinkled with near-collisions that held alone
	rng := rand.New(rand.NewSource(c.Seed))
	var pool []atom
	for i, a := range as {
		if held[i] {
			pool = append(pool, a)
		}
	}
	nB := c.Pick(4, 30)
	core.Parallel(nB, 8, func(k int) {
		r := rand.New(rand.NewSource(c.Seed*1000 + int64(k)))
		_ = rng
		comp := atom{id: fmt.Sprintf("B.composite"), defs: map[string]J{}}
		usedPath := map[string]bool{}
		usedID := map[string]bool{}
		var parts []string
		for len(comp.ops) < 24 && len(pool) > 0 {
			a := pool[r.Intn(len(pool))]
			prefix := fmt.Sprintf("/g%d", len(parts))
			clash := false
			for _, op := range a.ops {
				if usedPath[op.method+prefix+op.path] || (op.opID != "" && usedID[strings.ToLower(op.opID)]) {
					clash = true
				}
			}
			if clash {
				continue
			}
			for _, op := range a.ops {
				op2 := op
				op2.path = prefix + op.path
				if op2.opID != "" {
					op2.opID = fmt.Sprintf("%s%d", op.opID, len(parts))
				}
				usedPath[op.method+op2.path] = true
				usedID[strings.ToLower(op2.opID)] = true
				comp.ops = append(comp.ops, op2)
			}
			for dn, dv := range a.defs {
				comp.defs[fmt.Sprintf("%s%d", dn, len(parts))] = dv
			}
			parts = append(parts, a.id)
		}
		sort.Strings(parts)
		spec, ops := buildSpec(comp, 1)
		judge(c, swagger, comp, spec, ops, "C08/B["+strings.Join(uniq(parts), ",")+"]", &mu)
	})
	c.Finish("pass A: every collision atom (paths / operation ids / definitions / tags / parameter names / file names that become equal after Go-name mangling; definitions vs generated inline type names) in its own document: generate server + client, count handler fields, client methods and model types against the operations and definitions, then request every (method, path) with a unique marker and require a bijection operation <-> handler <-> bound marker; an error from the generator is an accepted outcome; pass B: seeded 24-operation documents composed of atoms that held; distinct = (atom, outcome: error | distinct | dropped...)",
		30, 20, []string{
			"documents rejected by the generator's own validation (e.g. duplicate operationId) count as outcome 'error'",
			"a generation that exits 0 but does not compile is C01's subject: recorded, not judged here",
		})
}

func uniq(s []string) []string {
	var o []string
	for i, x := range s {
		if i == 0 || x != s[i-1] {
			o = append(o, x)
		}
	}
	return o
}

// judge returns true when the atom held (error outcome or everything distinct).
func judge(c *core.Ctx, swagger string, a atom, spec J, ops []opDef, key string, mu *sync.Mutex) bool {
	s := servrig.Build(c, swagger, spec, servrig.Options{WithClient: true})
	defer s.Cleanup()
	files := map[string]string{"spec.json": string(jx.Marshal(spec))}
	// a generated file that go/build leaves out on this platform (its name ends in a GOOS /
	// GOARCH word or in _test) is a handler, client method or model that silently is not there,
	// whether or not the rest still compiles
	if s.Stage != "generate" && s.Stage != "generate-client" && s.Mod != nil {
		if ex := excludedFiles(s.Mod.Dir); len(ex) > 0 {
			mu.Lock()
			c.Violation(key+"/file-excluded-from-build", fmt.Sprintf("%s: generated files are ignored by go build because of their names: %s", a.id, strings.Join(ex, ", ")), files)
			mu.Unlock()
			return false
		}
		c.Sig(a.id + "/all-files-in-build")
	}
	switch s.Stage {
	case "generate", "generate-client":
		c.Eval(a.id + "/outcome=error")
		c.Sample(map[string]any{"atom": a.id, "outcome": "generation refused with an error", "error": core.OneLine(s.Output)})
		return true
	case "build":
		c.Eval(a.id + "/outcome=does-not-compile")
		c.Note("%s: generated code does not compile (C01's subject): %s", a.id, core.OneLine(s.Output))
		return false
	case "":
	default:
		c.Inconclusive("%s: %s", a.id, s.Stage)
		return false
	}
	good := true
	nOps := len(ops)
	if _, has := spec["definitions"]; has {
		nOps++ // the /vfdefs helper operation
	}
	// static: model types
	if defs, ok := spec["definitions"].(J); ok {
		names, err := modelNames(filepath.Join(s.Mod.Dir, "models"))
		if err != nil {
			c.Inconclusive("%s: models do not parse: %v", a.id, err)
			return false
		}
		var missing []string
		types := map[string]string{}
		for _, dn := range jx.Keys(defs) {
			ts, ok := names[dn]
			if !ok {
				missing = append(missing, dn)
				continue
			}
			for _, t := range ts {
				if prev, dup := types[t]; dup && prev != dn {
					missing = append(missing, fmt.Sprintf("%s (shares Go type %s with %s)", dn, t, prev))
				}
				types[t] = dn
			}
		}
		c.Eval(a.id + "/models-counted")
		if len(missing) > 0 {
			good = false
			c.Violation(key+"/definitions-merged", fmt.Sprintf("generate exits 0 but %d of %d definitions have no model type of their own: %v (model files: %v)", len(missing), len(defs), missing, names), files)
		}
	}
	if err := s.Describe(); err != nil {
		c.Inconclusive("%s: %v", a.id, err)
		return false
	}
	c.Eval(a.id + "/handlers-counted")
	if len(s.Handlers) != nOps {
		good = false
		c.Violation(key+"/operations-dropped", fmt.Sprintf("the spec has %d operations but the generated API has %d handler fields %v", nOps, len(s.Handlers), s.Handlers), files)
	}
	// dynamic: route every operation
	var reqs []servrig.Req
	for i, op := range ops {
		p := regexp.MustCompile(`\{(\w+)\}`).ReplaceAllString(op.path, "val")
		q := url.Values{}
		q.Set(fmt.Sprintf("mk%d", 1+i), fmt.Sprint(1000+i))
		prefix := "/c"
		if a.noBase {
			prefix = ""
		}
		r := servrig.Req{ID: fmt.Sprint(i), Method: op.method, URL: prefix + p + "?" + q.Encode(), Header: map[string][]string{}}
		if op.body != nil {
			r.Header["Content-Type"] = []string{"application/json"}
			r.BodyB64 = "e30=" // {}
			if op.body["type"] == "array" {
				r.BodyB64 = "W10=" // []
			}
		}
		reqs = append(reqs, r)
	}
	reqs = append(reqs, servrig.Req{ID: "client", Op: "client", Client: map[string]any{"describe": true}})
	answers, crashes := s.Run(reqs)
	if len(crashes) > 0 {
		c.Inconclusive("%s: driver died: %s", a.id, core.OneLine(crashes[0].Output))
		return false
	}
	byHandler := map[string]int{}
	for i, op := range ops {
		ans := answers[fmt.Sprint(i)]
		c.Eval(a.id + "/routed")
		what := fmt.Sprintf("%s %s", op.method, op.path)
		if ans.Reached == "" {
			good = false
			c.Violation(key+"/operation-unreachable", fmt.Sprintf("a valid request to %s (marker mk%d) is answered %d and reaches no handler: %s", what, 1+i, ans.Status, core.OneLine(string(ans.Body()))), files)
			continue
		}
		if prev, dup := byHandler[ans.Reached]; dup {
			good = false
			c.Violation(key+"/operations-merged", fmt.Sprintf("%s and %s %s both reach handler %s", what, ops[prev].method, ops[prev].path, ans.Reached), files)
		}
		byHandler[ans.Reached] = i
		want := fmt.Sprintf("mk%d", 1+i)
		found := false
		for f, raw := range ans.Params {
			if strings.ToLower(f) == want {
				found = true
				if strings.TrimSpace(string(raw)) != fmt.Sprint(1000+i) {
					good = false
					c.Violation(key+"/wrong-handler", fmt.Sprintf("%s: handler %s bound marker %s=%s instead of %d", what, ans.Reached, f, raw, 1000+i), files)
				}
			}
		}
		if !found {
			good = false
			c.Violation(key+"/wrong-handler", fmt.Sprintf("%s reaches handler %s whose parameters %v do not include this operation's marker %s", what, ans.Reached, keysOf(ans.Params), want), files)
		}
	}
	// client methods
	var methods map[string]map[string]string
	_ = json.Unmarshal(answers["client"].Extra["client_methods"], &methods)
	c.Eval(a.id + "/client-methods-counted")
	seen := map[string]bool{}
	for _, m := range methods {
		seen[m["method"]+" "+m["path"]] = true
	}
	var lost []string
	for _, op := range ops {
		if !seen[op.method+" "+op.path] {
			lost = append(lost, op.method+" "+op.path)
		}
	}
	if len(lost) > 0 {
		good = false
		c.Violation(key+"/client-method-missing", fmt.Sprintf("the generated client has no method for %v (it has %d methods for %d operations)", lost, len(methods), nOps), files)
	}
	if good {
		c.Eval(a.id + "/outcome=distinct")
		c.Sample(map[string]any{"atom": a.id, "outcome": "every operation and definition has its own artefact", "handlers": s.Handlers})
	}
	return good
}

func keysOf(m map[string]json.RawMessage) []string {
	var ks []string
	for k := range m {
		ks = append(ks, k)
	}
	sort.Strings(ks)
	return ks
}
