// C09 — free text from the spec never becomes code.
package main

import (
	"bytes"
	"fmt"
	"go/ast"
	"go/parser"
	"go/printer"
	"go/token"
	"os"
	"path/filepath"
	"regexp"
	"sort"
	"strings"
	"sync"
	"time"

	"verif/rig/core"
	"verif/rig/jx"
)

type J = jx.J

// positions: every free-text position of the base document, in a fixed order
var positions = []string{
	"info.title", "info.description", "info.termsOfService", "info.version", "info.contact.name", "info.contact.url", "info.contact.email", "info.license.name", "info.license.url",
	"host", "basePath", "externalDocs.description", "externalDocs.url", "tag.description", "tag.externalDocs.description", "security.description",
	"operation.summary", "operation.description", "operation.externalDocs.description",
	"param.query.description", "param.path.description", "param.header.description", "param.formData.description", "param.body.description",
	"param.query.default", "param.query.pattern", "param.header.default", "param.items.default", "param.query.x-example",
	"response.description", "response.default.description", "response.header.description", "response.header.default", "response.example",
	"schema.title", "schema.description", "schema.externalDocs.description", "schema.example",
	"property.title", "property.description", "property.default", "property.example", "property.pattern", "nested-property.description", "items.description", "additionalProperties.description",
	"alias-schema.description", "inline-body-schema.description", "inline-response-schema.description",
}

// base builds the document; text gives the string for every position.
func base(text func(pos string) string) J {
	t := text
	return J{
		"swagger": "2.0",
		"info": J{"title": t("info.title"), "description": t("info.description"), "termsOfService": t("info.termsOfService"), "version": t("info.version"),
			"contact": J{"name": t("info.contact.name"), "url": "https://example.com/" + t("info.contact.url"), "email": t("info.contact.email") + "@example.com"}, "license": J{"name": t("info.license.name"), "url": "https://example.com/" + t("info.license.url")}},
		"host": t("host"), "basePath": "/" + t("basePath"),
		"externalDocs": J{"description": t("externalDocs.description"), "url": "https://example.com/" + t("externalDocs.url")},
		"consumes":     []any{"application/json"}, "produces": []any{"application/json"},
		"tags": []any{J{"name": "things", "description": t("tag.description"), "externalDocs": J{"description": t("tag.externalDocs.description"), "url": "https://example.com/t"}}},
		"securityDefinitions": J{"key": J{"type": "apiKey", "in": "header", "name": "X-Key", "description": t("security.description")}},
		"security":            []any{J{"key": []any{}}},
		"paths": J{
			"/things/{id}": J{"post": J{"operationId": "postThing", "tags": []any{"things"}, "summary": t("operation.summary"), "description": t("operation.description"),
				"externalDocs": J{"description": t("operation.externalDocs.description"), "url": "https://example.com/o"},
				"parameters": []any{
					J{"name": "id", "in": "path", "type": "string", "required": true, "description": t("param.path.description")},
					J{"name": "q", "in": "query", "type": "string", "description": t("param.query.description"), "default": t("param.query.default")},
					J{"name": "qp", "in": "query", "type": "string", "pattern": t("param.query.pattern")},
					J{"name": "qe", "in": "query", "type": "string", "enum": []any{"plain", "other"}},
					J{"name": "qx", "in": "query", "type": "string", "x-example": t("param.query.x-example")},
					J{"name": "qa", "in": "query", "type": "array", "items": J{"type": "string", "default": t("param.items.default")}},
					J{"name": "X-H", "in": "header", "type": "string", "description": t("param.header.description"), "default": t("param.header.default")},
					J{"name": "body", "in": "body", "description": t("param.body.description"), "schema": J{"$ref": "#/definitions/Thing"}},
				},
				"responses": J{
					"200": J{"description": t("response.description"), "schema": J{"$ref": "#/definitions/Thing"},
						"headers":  J{"X-R": J{"type": "string", "description": t("response.header.description"), "default": t("response.header.default")}},
						"examples": J{"application/json": J{"name": t("response.example")}}},
					"default": J{"description": t("response.default.description"), "schema": J{"type": "object", "description": t("inline-response-schema.description"), "properties": J{"message": J{"type": "string"}}}},
				}},
				"put": J{"operationId": "putInline", "tags": []any{"things"}, "parameters": []any{
					J{"name": "id", "in": "path", "type": "string", "required": true},
					J{"name": "doc", "in": "body", "schema": J{"type": "object", "description": t("inline-body-schema.description"), "properties": J{"a": J{"type": "string"}}}}},
					"responses": J{"204": J{"description": "stored"}}}},
			"/forms": J{"post": J{"operationId": "postForm", "consumes": []any{"application/x-www-form-urlencoded"}, "parameters": []any{
				J{"name": "f", "in": "formData", "type": "string", "description": t("param.formData.description")}}, "responses": J{"201": J{"description": "created"}}}},
		},
		"definitions": J{
			"Thing": J{"type": "object", "title": t("schema.title"), "description": t("schema.description"), "externalDocs": J{"description": t("schema.externalDocs.description"), "url": "https://example.com/s"},
				"example": J{"name": t("schema.example")},
				"properties": J{
					"name":   J{"type": "string", "title": t("property.title"), "description": t("property.description"), "default": t("property.default"), "example": t("property.example")},
					"code":   J{"type": "string", "pattern": t("property.pattern")},
					"color":  J{"type": "string", "enum": []any{"plain", "other"}},
					"inner":  J{"type": "object", "properties": J{"deep": J{"type": "integer", "description": t("nested-property.description")}}},
					"list":   J{"type": "array", "items": J{"type": "string", "description": t("items.description")}},
					"extras": J{"type": "object", "additionalProperties": J{"type": "string", "description": t("additionalProperties.description")}},
					"alias":  J{"$ref": "#/definitions/Alias"},
				}},
			"Alias": J{"type": "string", "description": t("alias-schema.description")},
		},
	}
}

func neutral(pos string) string {
	for i, p := range positions {
		if p == pos {
			return fmt.Sprintf("txt%02d", i)
		}
	}
	return "txtXX"
}

type payload struct {
	family, variant, text string
}

// breakers: applied to all positions at once (bisected on a difference)
var breakers = []payload{
	{"breaker", "comment-close", "a */ b"}, {"breaker", "newline", "line1\nline2"}, {"breaker", "cr", "a\rb"}, {"breaker", "backtick", "a ` b"}, {"breaker", "dquote", `a " b`},
	{"breaker", "backslash", `a \ b`}, {"breaker", "u2028", "a b"}, {"breaker", "template", "{{ .Name }}"}, {"breaker", "percent", "100%s %d %v"},
}

// injectors: text that is still valid Go when it escapes its comment / literal context
var injectors = []payload{
	{"block-comment", "top-level", "x*/ var VfInj = 1 /*y"},
	{"block-comment", "struct", "x*/ VfInj int /*y"},
	{"block-comment", "func-body", "x*/ _ = 1 /*y"},
	{"line-comment", "top-level", "x\nvar VfInj = 1 //y"},
	{"line-comment", "struct", "x\nVfInj int //y"},
	{"line-comment", "func-body", "x\n_ = 1 //y"},
	{"raw-string", "concat", "x`+\"VfInj\"+`y"},
	{"raw-string", "call", "x`+string(rune(86))+`y"},
	{"interpreted-string", "concat", `x"+"VfInj"+"y`},
	{"interpreted-string", "call", `x"+string(rune(86))+"y`},
}

type tgt struct {
	name string
	args []string
}

var tgts = []tgt{
	{"server", []string{"generate", "server", "-A", "Vf"}},
	{"client", []string{"generate", "client", "-A", "Vf"}},
	{"cli", []string{"generate", "cli", "-A", "Vf", "--cli-app-name", "vfcli"}},
	{"model-tags", []string{"generate", "model", "--struct-tags", "json", "--struct-tags", "description", "--struct-tags", "example"}},
}

var swagger string

// gen generates target t for the spec into dir (same absolute path every time: moved aside by the caller).
func gen(spec J, dir string, t tgt, extra []string) (core.Result, bool) {
	return genLayout(spec, dir, t, extra, false)
}

// splitDoc moves the definitions into a second document, defs.json, that the root document
// reaches only through $ref: the root keeps no text of the definitions.
func splitDoc(spec J) (root, ext J) {
	root = jx.CloneJ(spec)
	ext = J{"definitions": root["definitions"]}
	delete(root, "definitions")
	var walk func(v any)
	walk = func(v any) {
		switch x := v.(type) {
		case J:
			if r, ok := x["$ref"].(string); ok && strings.HasPrefix(r, "#/definitions/") {
				x["$ref"] = "defs.json" + r
			}
			for _, c := range x {
				walk(c)
			}
		case []any:
			for _, c := range x {
				walk(c)
			}
		}
	}
	walk(root["paths"])
	return root, ext
}

func genLayout(spec J, dir string, t tgt, extra []string, split bool) (core.Result, bool) {
	_ = os.RemoveAll(dir)
	core.Must(os.MkdirAll(dir, 0o755))
	core.Must(os.WriteFile(filepath.Join(dir, "go.mod"), []byte("module vfmod/c09\n\ngo 1.21\n"), 0o644))
	sp := filepath.Join(dir, "spec.json")
	if split {
		root, ext := splitDoc(spec)
		core.Must(os.WriteFile(sp, jx.Marshal(root), 0o644))
		core.Must(os.WriteFile(filepath.Join(dir, "defs.json"), jx.Marshal(ext), 0o644))
	} else {
		core.Must(os.WriteFile(sp, jx.Marshal(spec), 0o644))
	}
	args := append(append([]string{}, t.args...), "-q", "-f", sp, "-t", dir)
	args = append(args, extra...)
	r := core.Run(dir, nil, 5*time.Minute, "", swagger, args...)
	return r, r.Exit == 0 && !r.TimedOut
}

// erased returns, per generated file, the printed AST with comments dropped and literal values replaced by their kind.
func erased(dir string) (map[string]string, map[string]string) {
	out := map[string]string{}
	perr := map[string]string{}
	_ = filepath.Walk(dir, func(p string, info os.FileInfo, err error) error {
		if err != nil || info.IsDir() || !strings.HasSuffix(p, ".go") {
			return nil
		}
		rel, _ := filepath.Rel(dir, p)
		fset := token.NewFileSet()
		f, err := parser.ParseFile(fset, p, nil, parser.SkipObjectResolution)
		if err != nil {
			perr[rel] = err.Error()
			return nil
		}
		f.Comments = nil
		foldStrings(f)
		ast.Inspect(f, func(n ast.Node) bool {
			switch x := n.(type) {
			case *ast.BasicLit:
				x.Value = x.Kind.String()
			case *ast.Field:
				x.Doc, x.Comment = nil, nil
				if x.Tag != nil {
					x.Tag.Value = tagKeys(x.Tag.Value)
				}
			case *ast.GenDecl:
				x.Doc = nil
			case *ast.FuncDecl:
				x.Doc = nil
			case *ast.TypeSpec:
				x.Doc, x.Comment = nil, nil
			case *ast.ValueSpec:
				x.Doc, x.Comment = nil, nil
			case *ast.ImportSpec:
				x.Doc, x.Comment = nil, nil
				return false // keep import paths
			}
			return true
		})
		var buf bytes.Buffer
		_ = printer.Fprint(&buf, token.NewFileSet(), f)
		out[rel] = rxSpace.ReplaceAllString(buf.String(), " ")
		return nil
	})
	return out, perr
}

var rxSpace = regexp.MustCompile(`[ \t]+`)

func isStringConst(e ast.Expr) bool {
	switch x := e.(type) {
	case *ast.BasicLit:
		return x.Kind == token.STRING
	case *ast.ParenExpr:
		return isStringConst(x.X)
	case *ast.BinaryExpr:
		return x.Op == token.ADD && isStringConst(x.X) && isStringConst(x.Y)
	}
	return false
}

// foldStrings replaces a concatenation made only of string literals by one literal: that is
// how generated code escapes a backtick inside a raw string, and it is still a constant.
func foldStrings(f *ast.File) {
	fold := func(e ast.Expr) ast.Expr {
		if b, ok := e.(*ast.BinaryExpr); ok && isStringConst(b) {
			return &ast.BasicLit{Kind: token.STRING, Value: "\"folded\""}
		}
		return e
	}
	ast.Inspect(f, func(n ast.Node) bool {
		switch x := n.(type) {
		case *ast.CallExpr:
			for i := range x.Args {
				x.Args[i] = fold(x.Args[i])
			}
		case *ast.ValueSpec:
			for i := range x.Values {
				x.Values[i] = fold(x.Values[i])
			}
		case *ast.AssignStmt:
			for i := range x.Rhs {
				x.Rhs[i] = fold(x.Rhs[i])
			}
		case *ast.ReturnStmt:
			for i := range x.Results {
				x.Results[i] = fold(x.Results[i])
			}
		case *ast.KeyValueExpr:
			x.Value = fold(x.Value)
		case *ast.CompositeLit:
			for i := range x.Elts {
				x.Elts[i] = fold(x.Elts[i])
			}
		case *ast.BinaryExpr:
			x.X, x.Y = fold(x.X), fold(x.Y)
		case *ast.ParenExpr:
			x.X = fold(x.X)
		}
		return true
	})
}

// tagKeys keeps only the keys of a struct tag (the values are literals).
func tagKeys(lit string) string {
	s := strings.Trim(lit, "`\"")
	var ks []string
	for s != "" {
		i := strings.Index(s, ":\"")
		if i < 0 {
			break
		}
		k := strings.TrimSpace(s[:i])
		if j := strings.LastIndexAny(k, " \t"); j >= 0 {
			k = k[j+1:]
		}
		ks = append(ks, k)
		rest := s[i+2:]
		// skip the quoted value
		j := 0
		for j < len(rest) {
			if rest[j] == '\\' {
				j += 2
				continue
			}
			if rest[j] == '"' {
				break
			}
			j++
		}
		if j >= len(rest) {
			break
		}
		s = rest[j+1:]
	}
	return "TAG[" + strings.Join(ks, ",") + "]"
}

type baseline struct {
	trees map[string]map[string]string // target -> file -> erased
}

func diffTrees(a, b map[string]string) string {
	var ks []string
	for k := range a {
		ks = append(ks, k)
	}
	for k := range b {
		if _, ok := a[k]; !ok {
			ks = append(ks, k)
		}
	}
	sort.Strings(ks)
	for _, k := range ks {
		x, okx := a[k]
		y, oky := b[k]
		if !okx {
			return "extra file " + k
		}
		if !oky {
			return "missing file " + k
		}
		if x != y {
			xl, yl := strings.Split(x, "\n"), strings.Split(y, "\n")
			for i := 0; i < len(xl) && i < len(yl); i++ {
				if xl[i] != yl[i] {
					return fmt.Sprintf("%s: line %d: %q vs %q", k, i+1, strings.TrimSpace(xl[i]), strings.TrimSpace(yl[i]))
				}
			}
			return fmt.Sprintf("%s: %d vs %d lines", k, len(xl), len(yl))
		}
	}
	return ""
}

func main() {
	c := core.New("C09")
	c.ReplayFallback()
	swagger = c.BuildSwagger()
	// several workers, each with its own fixed directory (generated files embed relative paths)
	nw := 8
	dirs := make([]string, nw)
	for i := range dirs {
		dirs[i] = filepath.Join(c.Scratch, fmt.Sprintf("w%d", i), "gen")
	}
	flatten := [][]string{nil}
	if c.Thorough() {
		flatten = append(flatten, []string{"--with-flatten=full"})
	}
	usedTargets := tgts
	if !c.Thorough() {
		usedTargets = []tgt{tgts[0], tgts[1], tgts[3]}
	}
	// baselines per (worker dir, target, flatten): the neutral rendering at that very path
	type bkey struct {
		w     int
		t, f  string
		split bool
	}
	baselines := map[bkey]map[string]string{}
	var bmu sync.Mutex
	getBase := func(w int, t tgt, fl []string, split bool) map[string]string {
		k := bkey{w, t.name, strings.Join(fl, " "), split}
		bmu.Lock()
		b, ok := baselines[k]
		bmu.Unlock()
		if ok {
			return b
		}
		r, ok := genLayout(base(neutral), dirs[w], t, fl, split)
		if !ok {
			c.Inconclusive("the neutral document does not generate for %s: %s", t.name, core.OneLine(r.Stderr))
			return nil
		}
		tr, perr := erased(dirs[w])
		if len(perr) > 0 {
			c.Inconclusive("neutral output does not parse: %v", perr)
			return nil
		}
		bmu.Lock()
		baselines[k] = tr
		bmu.Unlock()
		return tr
	}
	// the neutral rendering must compile (once)
	{
		mod := c.NewModule("neutral")
		sp := filepath.Join(mod.Dir, "spec.json")
		core.Must(os.WriteFile(sp, jx.Marshal(base(neutral)), 0o644))
		for _, t := range usedTargets {
			args := append(append([]string{}, t.args...), "-q", "-f", sp, "-t", mod.Dir)
			if r := core.Run(mod.Dir, nil, 5*time.Minute, "", swagger, args...); r.Exit != 0 {
				c.Inconclusive("neutral document does not generate (%s): %s", t.name, core.OneLine(r.Stderr))
			}
		}
		if ok, _, raw, _ := mod.GoBuild(15*time.Minute, "./..."); !ok {
			c.Note("the neutral rendering does not compile (C01's subject): %s", core.OneLine(raw))
		}
	}
	type job struct {
		pos []string // positions receiving the payload
		pl  payload
		t   tgt
		fl  []string
		// split: the definitions (and the payload) live in a second document reached by $ref
		split bool
	}
	var jobs []job
	quickPositions := map[string]bool{"info.description": true, "info.title": true, "operation.summary": true, "operation.description": true, "param.query.description": true, "param.body.description": true,
		"response.description": true, "schema.description": true, "property.description": true, "property.default": true, "param.query.default": true, "security.description": true, "tag.description": true,
		"property.example": true, "schema.title": true, "property.pattern": true, "info.version": true, "host": true}
	for _, t := range usedTargets {
		for _, fl := range flatten {
			for _, b := range breakers {
				jobs = append(jobs, job{pos: positions, pl: b, t: t, fl: fl})
			}
			for _, inj := range injectors {
				for _, p := range positions {
					if !c.Thorough() {
						// quick: top-level / func-body / call variants on the main positions, the
						// struct variant where text lands in struct doc comments (defaults, patterns)
						structPos := strings.Contains(p, "default") || strings.Contains(p, "pattern")
						switch {
						case inj.variant == "concat":
							continue
						case inj.variant == "struct" && !structPos:
							continue
						case inj.variant != "struct" && !quickPositions[p] && !strings.Contains(p, "inline-"):
							continue
						}
					}
					jobs = append(jobs, job{pos: []string{p}, pl: inj, t: t, fl: fl})
				}
			}
		}
	}
	// the same text in a document reached only through $ref (the root document stays neutral)
	var defPositions []string
	for _, p := range positions {
		if strings.HasPrefix(p, "schema.") || strings.HasPrefix(p, "property.") || strings.HasPrefix(p, "nested-property.") || strings.HasPrefix(p, "items.") || strings.HasPrefix(p, "additionalProperties.") || strings.HasPrefix(p, "alias-schema.") {
			defPositions = append(defPositions, p)
		}
	}
	for ti, t := range usedTargets {
		if t.name == "model-tags" || (!c.Thorough() && ti > 0) {
			continue
		}
		for _, fl := range flatten {
			for _, b := range breakers {
				jobs = append(jobs, job{pos: defPositions, pl: b, t: t, fl: fl, split: true})
			}
			for _, inj := range injectors {
				for _, p := range defPositions {
					if !c.Thorough() && (inj.variant != "call" && inj.variant != "top-level" || !quickPositions[p]) {
						continue
					}
					jobs = append(jobs, job{pos: []string{p}, pl: inj, t: t, fl: fl, split: true})
				}
			}
		}
	}
	var mu sync.Mutex
	ch := make(chan job, len(jobs))
	for _, j := range jobs {
		ch <- j
	}
	close(ch)
	var wg sync.WaitGroup
	for w := 0; w < nw; w++ {
		wg.Add(1)
		go func(w int) {
			defer wg.Done()
			var rec func(j job)
			rec = func(j job) {
				b := getBase(w, j.t, j.fl, j.split)
				if b == nil {
					return
				}
				set := map[string]bool{}
				for _, p := range j.pos {
					set[p] = true
				}
				spec := base(func(pos string) string {
					if set[pos] {
						return j.pl.text
					}
					return neutral(pos)
				})
				r, ok := genLayout(spec, dirs[w], j.t, j.fl, j.split)
				cfg := j.t.name
				if len(j.fl) > 0 {
					cfg += "+full"
				}
				pfx := ""
				if j.split {
					cfg += "+split"
					pfx = "split:"
				}
				if r.TimedOut {
					c.Inconclusive("watchdog generating %s", cfg)
					return
				}
				if !ok {
					// an error is an accepted outcome for C09 (C01 judges it); find which positions still generate
					if len(j.pos) > 1 {
						mid := len(j.pos) / 2
						rec(job{j.pos[:mid], j.pl, j.t, j.fl, j.split})
						rec(job{j.pos[mid:], j.pl, j.t, j.fl, j.split})
						return
					}
					mu.Lock()
					c.Eval(pfx + j.pos[0] + "/" + j.pl.family + "." + j.pl.variant + "/" + cfg + "/generation-error")
					mu.Unlock()
					return
				}
				tr, perr := erased(dirs[w])
				d := ""
				if len(perr) > 0 {
					for f, e := range perr {
						d = "generated file does not parse: " + f + ": " + e
					}
				} else {
					d = diffTrees(b, tr)
				}
				if d == "" {
					mu.Lock()
					for _, p := range j.pos {
						c.Eval(pfx + p + "/" + j.pl.family + "." + j.pl.variant + "/" + cfg + "/same-code")
					}
					if len(j.pos) == 1 {
						c.Sample(map[string]any{"position": j.pos[0], "payload": j.pl.text, "target": cfg, "verdict": "same declarations and statements as with neutral text"})
					}
					mu.Unlock()
					return
				}
				if len(j.pos) > 1 {
					mid := len(j.pos) / 2
					rec(job{j.pos[:mid], j.pl, j.t, j.fl, j.split})
					rec(job{j.pos[mid:], j.pl, j.t, j.fl, j.split})
					return
				}
				// a single position changes the code: keep the evidence
				files := map[string]string{"spec.json": string(jx.Marshal(spec)), "difference.txt": d, "payload.txt": j.pl.text}
				if j.split {
					root, ext := splitDoc(spec)
					files["spec.json"], files["defs.json"] = string(jx.Marshal(root)), string(jx.Marshal(ext))
				}
				if i := strings.Index(d, ":"); i > 0 {
					if src, err := os.ReadFile(filepath.Join(dirs[w], d[:i])); err == nil {
						files["generated_"+filepath.Base(d[:i])+".txt"] = string(src)
					}
				}
				mu.Lock()
				c.Eval(pfx + j.pos[0] + "/" + j.pl.family + "." + j.pl.variant + "/" + cfg + "/code-changed")
				c.Violation(fmt.Sprintf("C09/%s%s/%s.%s/%s", pfx, j.pos[0], j.pl.family, j.pl.variant, j.t.name),
					fmt.Sprintf("text at %s changes the generated %s code (generation exits 0): %s", j.pos[0], cfg, d), files)
				mu.Unlock()
			}
			for j := range ch {
				rec(j)
			}
		}(w)
	}
	wg.Wait()
	c.Finish("one base document exercising every free-text position, generated (server, client, cli, models with description/example struct tags; minimal and full flatten) once with neutral text and again with hostile text into the same absolute path; go/parser ASTs with comments dropped and literal values erased must be identical file by file; breakers are applied to all positions at once and bisected, injectors (text that stays valid Go when it escapes a block comment, a line comment, a raw string or an interpreted string, in top-level / struct / function-body variants) one position at a time; a generation error is an accepted outcome; distinct = (position, payload, target, outcome)",
		150, 60, []string{
			"positions whose text legitimately selects code (operationId, names, formats, x-go-*) are not text positions",
			"if the erased ASTs are equal and the neutral rendering compiles, the hostile rendering compiles too (literal contents do not take part in type checking); the neutral rendering is compiled once",
			"generation failures on hostile text are C01's subject",
		})
}
