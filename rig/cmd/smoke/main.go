package main

import (
	"encoding/json"
	"fmt"
	"os"

	"verif/rig/core"
	"verif/rig/jx"
	"verif/rig/servrig"
)

func main() {
	c := core.New("C99")
	sw := c.BuildSwagger()
	b, _ := os.ReadFile("/tmp/probe3/spec.json")
	t, _ := jx.Parse(b)
	s := servrig.Build(c, sw, t.(jx.J), servrig.Options{WithClient: true})
	fmt.Println("stage:", s.Stage, s.Output)
	if s.Stage != "" {
		return
	}
	fmt.Println(s.Describe(), s.Handlers, s.Auth)
	reqs := []servrig.Req{
		{ID: "1", Method: "GET", URL: "/v1/names/abcde", Header: map[string][]string{"X-Key": {"ok1"}}},
		{ID: "2", Method: "GET", URL: "/v1/names/abcde"},
		{ID: "3", Method: "GET", URL: "/v1/names/a", Header: map[string][]string{"X-Key": {"ok1"}}},
		{ID: "4", Op: "client", Client: map[string]any{"describe": true}},
		{ID: "5", Op: "client", Client: map[string]any{"opid": "getThing", "params": map[string]any{"pid": 7, "xshared": 5}, "auth": []any{map[string]any{"type": "apikey", "name": "X-Key", "in": "header", "value": "ok9"}}},
			Respond: &servrig.Respond{Code: "200", Payload: map[string]any{"id": 3, "state": "on"}}},
		{ID: "6", Op: "client", Client: map[string]any{"opid": "getThing", "params": map[string]any{"pid": 7}, "auth": []any{map[string]any{"type": "apikey", "name": "X-Key", "in": "header", "value": "ok9"}}},
			Respond: &servrig.Respond{Code: "410"}},
		{ID: "7", Op: "dump", URL: "/swagger.json"},
	}
	ans, crashes := s.Run(reqs)
	for _, r := range reqs {
		a := ans[r.ID]
		a.Header = nil
		if r.ID == "7" {
			fmt.Println("dump", a.Status, len(a.Extra["SwaggerJSON"]), len(a.Extra["FlatSwaggerJSON"]), len(a.Body()))
			continue
		}
		x, _ := json.Marshal(a)
		fmt.Println(string(x))
	}
	fmt.Println(crashes)
	c.Cleanup()
}
