package main

import (
	"fmt"
	"github.com/go-swagger/go-swagger/cmd/swagger/commands/diff"
)

func main() { fmt.Println(diff.Breaking) }
