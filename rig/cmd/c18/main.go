// C18 — spec → generated models → scanned spec preserves every schema.
package main

import (
	"fmt"
	"os"
	"path/filepath"
	"sort"
	"strings"
	"sync"
	"time"

	"verif/rig/core"
	"verif/rig/jx"
	"verif/rig/modelrig"
	"verif/rig/specgen"
)

type J = jx.J

// keywords the statement enumerates (judged) and others (informational)
var judged = []string{"type", "format", "$ref", "readOnly", "minimum", "maximum", "exclusiveMinimum", "exclusiveMaximum", "minLength", "maxLength", "pattern", "enum", "uniqueItems", "minItems", "maxItems"}
var informational = []string{"multipleOf", "minProperties", "maxProperties", "discriminator"}

func main() {
	c := core.New("C18")
	c.ReplayFallback()
	swagger := c.BuildSwagger()
	modelrig.SkipDriver = true
	atoms := specgen.SchemaAtoms()
	positions := []string{"def", "reqprop", "optprop", "items", "mapval"}
	if c.Thorough() {
		positions = specgen.Positions
	}
	var groups []modelrig.Group
	for _, g := range modelrig.MakeGroups(atoms, positions) {
		if g.Placed.Atom.Tuple || g.Placed.Atom.NoValidate {
			continue
		}
		groups = append(groups, g)
	}
	var batches [][]modelrig.Group
	// polymorphic families go into units of their own, so that a scanner failure on
	// them is attributed and does not hide the other atoms
	{
		var plain []modelrig.Group
		for _, g := range groups {
			if g.Placed.Atom.Poly {
				batches = append(batches, []modelrig.Group{g})
			} else {
				plain = append(plain, g)
			}
		}
		groups = plain
	}
	for i := 0; i < len(groups); i += 90 {
		j := i + 90
		if j > len(groups) {
			j = len(groups)
		}
		batches = append(batches, groups[i:j])
	}
	var mu sync.Mutex
	info := map[string]int{}
	compared := 0
	core.Parallel(len(batches), 8, func(bi int) {
		units, failures := modelrig.BuildUnits(c, swagger, batches[bi], nil)
		for _, f := range failures {
			c.Note("%s@%s not exercised: %s failed (C01's subject)", f.Group.Placed.Atom.ID, f.Group.Placed.Pos, f.Stage)
		}
		for _, u := range units {
			_ = os.RemoveAll(filepath.Join(u.Mod.Dir, "cmd"))
			out := filepath.Join(u.Mod.Dir, "scanned.json")
			r := core.Run(u.Mod.Dir, core.GoEnv(), 10*time.Minute, "", swagger, "generate", "spec", "-m", "-w", u.Mod.Dir, "-o", out, "./models")
			if r.TimedOut {
				c.Inconclusive("generate spec watchdog on unit %s", u.Name)
				continue
			}
			if r.Exit != 0 {
				who := "unit"
				if len(u.Groups) == 1 {
					who = u.Groups[0].Placed.Atom.ID
				}
				c.Eval("scan-failed")
				c.Violation("C18/scan-failed/"+who, "generate spec -m fails on the models generated from a valid spec: "+core.OneLine(r.Stderr),
					map[string]string{"spec.json": string(jx.Marshal(u.Spec)), "stderr.txt": r.Stderr})
				continue
			}
			b, err := os.ReadFile(out)
			core.Must(err)
			t, err := jx.Parse(b)
			core.Must(err)
			scanned, _ := t.(J)["definitions"].(J)
			orig := u.Spec["definitions"].(J)
			for _, g := range u.Groups {
				if _, bad := u.Excluded[g.Placed.DefName]; bad {
					continue
				}
				for _, dn := range jx.Keys(g.Defs) {
					in, _ := orig[dn].(J)
					sc, ok := scanned[dn].(J)
					mu.Lock()
					compared++
					mu.Unlock()
					files := map[string]string{"original.json": string(jx.Marshal(J{dn: in})), "scanned.json": string(jx.Marshal(J{dn: scanned[dn]})), "spec.json": string(jx.Marshal(u.Spec))}
					if !ok {
						c.Eval("definition-missing")
						c.Violation("C18/definition-missing["+shapeOf(in, orig)+"]", fmt.Sprintf("definition %s (%s) is absent from the scanned spec", dn, jx.Compact(in)), files)
						continue
					}
					cmp := &comparer{orig: orig, scanned: scanned}
					cmp.compare(in, sc, "", 0)
					for _, d := range cmp.diffs {
						sig := d.kw + ":" + d.kind + "@" + d.ctx
						if d.info {
							mu.Lock()
							info[sig]++
							mu.Unlock()
							continue
						}
						c.Eval(sig)
						c.Violation("C18/"+sig, fmt.Sprintf("%s of definition %s: %s (original %s, scanned %s)", d.kw, dn, d.detail, jx.Compact(in), jx.Compact(sc)), files)
					}
					for _, s := range cmp.held {
						c.Eval(s)
					}
					if len(cmp.diffs) == 0 {
						c.Sample(map[string]any{"definition": dn, "original": in, "scanned": sc, "verdict": "preserved"})
					}
				}
			}
			u.Cleanup()
		}
	})
	c.Extra["definitions_compared"] = compared
	c.Extra["informational_differences"] = info
	c.Finish("every schema-shape atom at each position goes through `swagger generate model` and `swagger generate spec -m`; each original definition is compared with the scanned one keyword by keyword (type, format with the documented default-format equivalence, $ref, required set, readOnly, bounds, lengths, pattern, enum, uniqueItems, item counts, property names) at every nesting context; distinct = (keyword, preserved|lost|changed|added, context[type]) cells observed",
		400, 40, []string{
			"descriptions, titles, defaults, examples and x-* extensions are not compared",
			"a missing format equals the documented default of its type (integer = int64, number = double)",
			"multipleOf, min/maxProperties and discriminator are outside the statement's enumeration: differences are recorded as informational only",
			"only definitions present in the input are compared; generator-added definitions are ignored",
		})
}

type diffItem struct {
	kw, kind, ctx, detail string
	info                  bool
}

type comparer struct {
	orig, scanned J
	diffs         []diffItem
	held          []string
}

func shapeOf(s J, defs J) string {
	if _, ok := s["$ref"]; ok {
		return "ref"
	}
	if _, ok := s["allOf"]; ok {
		return "allOf"
	}
	t, _ := s["type"].(string)
	if t == "object" {
		if _, ok := s["additionalProperties"].(J); ok {
			if _, ok := s["properties"]; ok {
				return "object+map"
			}
			return "map"
		}
	}
	if t == "" {
		return "untyped"
	}
	return t
}

func normFormat(s J) string {
	f, _ := s["format"].(string)
	t, _ := s["type"].(string)
	if f == "" {
		switch t {
		case "integer":
			return "int64"
		case "number":
			return "double"
		}
	}
	return f
}

func (c *comparer) add(kw, kind, ctx, shape, detail string) {
	isInfo := false
	for _, k := range informational {
		if k == kw {
			isInfo = true
		}
	}
	c.diffs = append(c.diffs, diffItem{kw: kw, kind: kind, ctx: ctx + "[" + shape + "]", detail: detail, info: isInfo})
}

func (c *comparer) compare(in, sc J, ctx string, depth int) {
	if depth > 8 || in == nil {
		return
	}
	// an anonymous schema of the input may come back as a $ref to a definition the
	// generator added for it (lifted inline type): compare through that reference
	if _, inRef := in["$ref"]; !inRef && sc != nil {
		for i := 0; i < 5; i++ {
			r, ok := sc["$ref"].(string)
			if !ok {
				break
			}
			name := strings.TrimPrefix(r, "#/definitions/")
			if _, isInput := c.orig[name]; isInput {
				break // a reference to an input definition where the input had none: a real difference
			}
			t, _ := c.scanned[name].(J)
			if t == nil {
				break
			}
			sc = t
		}
	}
	if sc == nil {
		c.add("schema", "lost", ctx, shapeOf(in, c.orig), "no schema at this position in the scanned spec")
		return
	}
	// documented idiom: allOf [ $ref X, { only x-* extensions } ] is "X, nullable": same as $ref X
	if all, ok := in["allOf"].([]any); ok && len(all) == 2 {
		a0, _ := all[0].(J)
		a1, _ := all[1].(J)
		onlyExt := a1 != nil && len(a1) > 0
		for k := range a1 {
			if !strings.HasPrefix(k, "x-") {
				onlyExt = false
			}
		}
		if _, isRef := a0["$ref"]; isRef && onlyExt {
			in = a0
		}
	}
	// allOf that comes back flattened: one difference for the lost composition, then the
	// merged view is compared so that losses inside the members stay visible
	if all, ok := in["allOf"].([]any); ok {
		if _, still := sc["allOf"]; !still {
			c.add("allOf", "flattened", ctx, "allOf", fmt.Sprintf("allOf with %d members became a flat schema", len(all)))
			in = c.merged(in, 0)
			if _, isRef := sc["$ref"].(string); isRef {
				if t, _ := c.scanned[strings.TrimPrefix(sc["$ref"].(string), "#/definitions/")].(J); t != nil {
					sc = t
				}
			}
		}
	}
	shape := shapeOf(in, c.orig)
	for _, kw := range append(append([]string{}, judged...), informational...) {
		vi, hasI := in[kw]
		vs, hasS := sc[kw]
		if kw == "format" {
			fi, fs := normFormat(in), normFormat(sc)
			hasI, hasS = fi != "", fs != ""
			vi, vs = any(fi), any(fs)
		}
		if b, ok := vi.(bool); ok && !b {
			hasI = false
		}
		if b, ok := vs.(bool); ok && !b {
			hasS = false
		}
		if kw == "enum" && hasI && hasS {
			vi, vs = sortedEnum(vi), sortedEnum(vs)
		}
		switch {
		case hasI && !hasS:
			c.add(kw, "lost", ctx, shape, fmt.Sprintf("%s=%s is not in the scanned schema", kw, jx.Compact(vi)))
		case !hasI && hasS:
			c.add(kw, "added", ctx, shape, fmt.Sprintf("scanned schema has %s=%s", kw, jx.Compact(vs)))
		case hasI && hasS && !jx.Equal(vi, vs):
			c.add(kw, "changed", ctx, shape, fmt.Sprintf("%s %s became %s", kw, jx.Compact(vi), jx.Compact(vs)))
		case hasI && hasS:
			c.held = append(c.held, kw+":preserved@"+ctx+"["+shape+"]")
		}
	}
	// required set
	ri, rs := strSet(in["required"]), strSet(sc["required"])
	if strings.Join(ri, ",") != strings.Join(rs, ",") {
		c.add("required", "changed", ctx, shape, fmt.Sprintf("required %v became %v", ri, rs))
	} else if len(ri) > 0 {
		c.held = append(c.held, "required:preserved@"+ctx+"["+shape+"]")
	}
	// properties
	pi, _ := in["properties"].(J)
	ps, _ := sc["properties"].(J)
	for _, k := range jx.Keys(pi) {
		sub, ok := ps[k].(J)
		if !ok {
			c.add("property", "lost", ctx, shape, fmt.Sprintf("property %q is not in the scanned schema", k))
			continue
		}
		c.compare(pi[k].(J), sub, ctx+"/prop", depth+1)
	}
	for _, k := range jx.Keys(ps) {
		if _, ok := pi[k]; !ok {
			c.add("property", "added", ctx, shape, fmt.Sprintf("scanned schema has an extra property %q", k))
		}
	}
	if len(pi) > 0 && len(c.diffs) == 0 {
		c.held = append(c.held, "property-names:preserved@"+ctx+"["+shape+"]")
	}
	// items
	if ii, ok := in["items"].(J); ok {
		is, _ := sc["items"].(J)
		c.compare(ii, is, ctx+"/items", depth+1)
	}
	// additionalProperties
	switch ai := in["additionalProperties"].(type) {
	case J:
		as, _ := sc["additionalProperties"].(J)
		c.compare(ai, as, ctx+"/additionalProperties", depth+1)
	case bool:
		as, has := sc["additionalProperties"].(bool)
		if ai && (!has || !as) {
			if _, isSchema := sc["additionalProperties"].(J); !isSchema {
				c.add("additionalProperties", "lost", ctx, shape, "additionalProperties:true is not in the scanned schema")
			}
		}
	}
	// allOf: same number of members, member by member
	if ai, ok := in["allOf"].([]any); ok {
		as, _ := sc["allOf"].([]any)
		if len(as) != len(ai) {
			c.add("allOf", "changed", ctx, shape, fmt.Sprintf("allOf with %d members became %s", len(ai), jx.Compact(sc)))
		} else {
			for i := range ai {
				mi, _ := ai[i].(J)
				ms, _ := as[i].(J)
				c.compare(mi, ms, ctx+"/allOf", depth+1)
			}
		}
	} else if _, has := sc["allOf"]; has {
		c.add("allOf", "added", ctx, shape, "scanned schema is an allOf: "+jx.Compact(sc))
	}
}

// merged flattens an allOf of the input into one object schema (properties and required merged).
func (c *comparer) merged(s J, depth int) J {
	out := J{"type": "object"}
	props := J{}
	var req []any
	var walk func(x J, d int)
	walk = func(x J, d int) {
		if d > 8 || x == nil {
			return
		}
		if r, ok := x["$ref"].(string); ok {
			t, _ := c.orig[strings.TrimPrefix(r, "#/definitions/")].(J)
			walk(t, d+1)
			return
		}
		if all, ok := x["allOf"].([]any); ok {
			for _, m := range all {
				mj, _ := m.(J)
				walk(mj, d+1)
			}
		}
		if p, ok := x["properties"].(J); ok {
			for k, v := range p {
				props[k] = v
			}
		}
		if r, ok := x["required"].([]any); ok {
			req = append(req, r...)
		}
		if ap, ok := x["additionalProperties"]; ok {
			out["additionalProperties"] = ap
		}
	}
	walk(s, depth)
	if len(props) > 0 {
		out["properties"] = props
	}
	if len(req) > 0 {
		out["required"] = req
	}
	return out
}

func sortedEnum(v any) any {
	a, ok := v.([]any)
	if !ok {
		return v
	}
	s := make([]string, len(a))
	for i, x := range a {
		s[i] = jx.Compact(x)
	}
	sort.Strings(s)
	out := make([]any, len(s))
	for i, x := range s {
		out[i] = x
	}
	return out
}

func strSet(v any) []string {
	a, _ := v.([]any)
	var out []string
	for _, x := range a {
		if s, ok := x.(string); ok {
			out = append(out, s)
		}
	}
	sort.Strings(out)
	return out
}
