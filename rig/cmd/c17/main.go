// C17 — generate spec yields a valid, faithful document or an error; never crashes.
package main

import (
	"encoding/json"
	"fmt"
	"math/rand"
	"os"
	"path/filepath"
	"regexp"
	"runtime/debug"
	"sort"
	"strings"
	"sync"
	"time"

	"github.com/go-openapi/loads"
	"github.com/go-openapi/strfmt"
	"github.com/go-openapi/validate"
	"github.com/go-swagger/go-swagger/codescan"

	"verif/rig/core"
	"verif/rig/gogen"
	"verif/rig/jx"
)

// ---------------------------------------------------------------- scan worker (child)

type scanAns struct {
	ID      string   `json:"id"`
	Spec    string   `json:"spec,omitempty"`
	Err     string   `json:"err,omitempty"`
	Panic   string   `json:"panic,omitempty"`
	Stack   string   `json:"stack,omitempty"`
	Valid   bool     `json:"valid"`
	VErrors []string `json:"verrors,omitempty"`
}

func scanHandle(raw json.RawMessage) (out any) {
	var rq struct{ ID, Dir, Input string }
	_ = json.Unmarshal(raw, &rq)
	ans := &scanAns{ID: rq.ID}
	stage := "scan"
	defer func() {
		if r := recover(); r != nil {
			if stage != "scan" { // a panic of the reference validator is not the scanner's
				ans.Err = ""
				ans.VErrors = []string{fmt.Sprintf("oracle-panic (%s): %v", stage, r)}
				out = ans
				return
			}
			ans.Panic = fmt.Sprint(r)
			ans.Stack = string(debug.Stack())
			out = ans
		}
	}()
	opts := codescan.Options{WorkDir: rq.Dir, Packages: []string{"./..."}, ScanModels: true}
	if rq.Input != "" { // as cmd/swagger/commands/generate/spec.go loadSpec does
		in, err := loads.Spec(rq.Input)
		if err != nil {
			ans.Err = "input spec: " + err.Error()
			return ans
		}
		opts.InputSpec = in.Spec()
	}
	sw, err := codescan.Run(&opts)
	if err != nil {
		ans.Err = err.Error()
		return ans
	}
	if sw == nil {
		ans.Err = "nil document without error"
		return ans
	}
	b, err := json.Marshal(sw)
	if err != nil { // the command fails the same way when it writes the document
		ans.Err = "writing the document: " + err.Error()
		return ans
	}
	ans.Spec = string(b)
	stage = "validate"
	doc, err := loads.Analyzed(b, "")
	if err != nil {
		ans.VErrors = []string{"not loadable: " + err.Error()}
		return ans
	}
	res, _ := validate.NewSpecValidator(doc.Schema(), strfmt.Default).Validate(doc)
	if res == nil || res.IsValid() {
		ans.Valid = true
		return ans
	}
	for _, e := range res.Errors {
		ans.VErrors = append(ans.VErrors, e.Error())
	}
	return ans
}

// ---------------------------------------------------------------- supervisor

type job struct {
	id      string
	class   string // A, K, B, FA, FB
	label   string
	forms   []string // annotation forms present
	ops     []string // fuzz operators applied
	files   map[string]string
	input   map[string]any
	expect  []gogen.Expect
	preserv bool // fuzz: all operators keep the program inside the grammar
	ans     scanAns
	crash   *core.Crash
	origOK  bool // fuzz: the unfuzzed program gave a valid document
}

type runner struct {
	c      *core.Ctx
	self   string
	root   string
	counts map[string]int
	mu     sync.Mutex
	seq    int
	phases map[string]float64
	last   time.Time
}

func (r *runner) phase(name string) {
	now := time.Now()
	r.phases[name] += now.Sub(r.last).Seconds()
	r.last = now
}

func (r *runner) count(k string) {
	r.mu.Lock()
	r.counts[k]++
	r.mu.Unlock()
}

const goMod = "module vfprog\n\ngo 1.21\n"

// scan writes every job's program into its own module, runs codescan in child
// workers and removes the module again.
func (r *runner) scan(jobs []*job, compileCheck bool) {
	c := r.c
	if len(jobs) == 0 {
		return
	}
	r.mu.Lock()
	r.seq++
	batch := fmt.Sprintf("b%d", r.seq)
	r.mu.Unlock()
	dirOf := func(j *job) string { return filepath.Join(r.root, batch, j.id, "prog") }
	inputOf := func(j *job) string {
		if j.input == nil {
			return ""
		}
		return filepath.Join(r.root, batch, j.id, "input.json") // outside the scanned module
	}
	// one module per batch: every program is a package directory of its own, scanned with
	// WorkDir = that directory and the pattern ./... (only what is below it is loaded)
	batchRoot := filepath.Join(r.root, batch)
	core.Must(os.MkdirAll(batchRoot, 0o755))
	core.Must(os.WriteFile(filepath.Join(batchRoot, "go.mod"), []byte(goMod), 0o644))
	core.Parallel(len(jobs), 16, func(i int) {
		j := jobs[i]
		d := dirOf(j)
		core.Must(os.MkdirAll(d, 0o755))
		for n, s := range j.files {
			core.Must(os.WriteFile(filepath.Join(d, n), []byte(s), 0o644))
		}
		if j.input != nil {
			core.Must(os.WriteFile(inputOf(j), jx.Marshal(j.input), 0o644))
		}
	})
	if compileCheck {
		br := core.Run(batchRoot, core.GoEnv(), 15*time.Minute, "", "go", "build", "-gcflags=-e", "./...")
		if br.TimedOut {
			c.Inconclusive("compile check of batch %s timed out", batch)
		} else if br.Exit != 0 {
			bad := map[string]string{}
			for _, l := range strings.Split(br.Stderr+br.Stdout, "\n") {
				if m := rxDiag.FindStringSubmatch(strings.TrimSpace(l)); m != nil {
					if _, ok := bad[m[1]]; !ok {
						bad[m[1]] = l
					}
				}
			}
			if len(bad) == 0 {
				c.Inconclusive("compile check of batch %s failed: %s", batch, core.OneLine(br.Stderr+br.Stdout))
			}
			for _, j := range jobs {
				if l, ok := bad[j.id]; ok {
					c.Inconclusive("generated program %s (%s) does not compile: %s", j.id, j.label, core.OneLine(l))
					j.ans.Err = "generator: does not compile"
					j.class = "broken"
				}
			}
		}
	}
	var reqs []map[string]any
	byID := map[string]*job{}
	for _, j := range jobs {
		if j.class == "broken" {
			continue
		}
		byID[j.id] = j
		reqs = append(reqs, map[string]any{"id": j.id, "dir": dirOf(j), "input": inputOf(j)})
	}
	nchunks := 14
	if len(reqs) > 600 {
		nchunks = 56
	}
	chunks := make([][]map[string]any, nchunks)
	for i, rq := range reqs {
		chunks[i%nchunks] = append(chunks[i%nchunks], rq)
	}
	var mu sync.Mutex
	core.Parallel(nchunks, 14, func(k int) {
		if len(chunks[k]) == 0 {
			return
		}
		ans, crashes := core.RunWorker("", nil, 2*time.Minute, r.self, []string{"worker"}, chunks[k])
		mu.Lock()
		defer mu.Unlock()
		for id, raw := range ans {
			var a scanAns
			if err := json.Unmarshal(raw, &a); err != nil {
				c.Inconclusive("bad worker answer for %s", id)
				continue
			}
			byID[id].ans = a
		}
		for i := range crashes {
			cr := crashes[i]
			j := byID[cr.ID]
			if j == nil {
				c.Inconclusive("scan worker crash without attributable request: %s", core.OneLine(cr.Output))
				continue
			}
			j.crash = &cr
		}
	})
	// a watchdog expiry is re-run alone with a longer limit before anything is said
	for _, j := range jobs {
		if j.crash != nil && j.crash.Killed {
			ans, cr2 := core.RunWorker("", nil, 6*time.Minute, r.self, []string{"worker"}, []map[string]any{{"id": j.id, "dir": dirOf(j), "input": inputOf(j)}})
			if len(cr2) == 0 {
				j.crash = nil
				_ = json.Unmarshal(ans[j.id], &j.ans)
				continue
			}
			if cr2[0].Killed {
				c.Inconclusive("watchdog on %s (%s)", j.id, j.label)
				j.class = "broken"
				continue
			}
			j.crash = &cr2[0]
		}
	}
	_ = os.RemoveAll(filepath.Join(r.root, batch))
}

var rxDiag = regexp.MustCompile(`^\.?/?([^/\s]+)/prog/[^\s:]+\.go:\d+`)

var rxFrame = regexp.MustCompile(`go-swagger/codescan\.([A-Za-z0-9_.()*]+)\(`)

// site is the innermost codescan frame of a stack trace.
func site(stack string) string {
	if m := rxFrame.FindStringSubmatch(stack); m != nil {
		return "codescan." + strings.NewReplacer("(*", "", ")", "", "*", "").Replace(m[1])
	}
	return "unknown"
}

func (j *job) replayFiles(extra map[string]string) map[string]string {
	f := map[string]string{}
	for n, s := range j.files {
		f["prog/"+n] = s
	}
	f["prog/go.mod"] = goMod
	if j.input != nil {
		f["input.json"] = string(jx.Marshal(j.input))
	}
	f["expect.json"] = string(encodeExpect(j.expect))
	meta, _ := json.MarshalIndent(map[string]any{"class": j.class, "label": j.label, "forms": j.forms, "fuzz_operators": j.ops, "grammar_preserving": j.preserv}, "", " ")
	f["meta.json"] = string(meta) + "\n"
	in := ""
	if j.input != nil {
		in = " -i \"$d/input.json\""
	}
	f["repro.sh"] = "#!/bin/sh\n# expected: an error, or a document that passes `swagger validate` and contains what expect.json lists; never a panic\nd=\"$(cd \"$(dirname \"$0\")\" && pwd)\"\ncd \"$d/prog\" && ${SWAGGER:-swagger} generate spec -m" + in + " -o /tmp/c17-repro.json && ${SWAGGER:-swagger} validate /tmp/c17-repro.json; rm -f /tmp/c17-repro.json\n"
	if j.ans.Spec != "" {
		if t, err := jx.Parse([]byte(j.ans.Spec)); err == nil {
			f["observed.json"] = string(jx.Marshal(t))
		}
	}
	for k, v := range extra {
		f[k] = v
	}
	return f
}

// crashed reports a panic / fatal error of the scanner.
func (r *runner) crashed(j *job) bool {
	c := r.c
	switch {
	case j.ans.Panic != "":
		c.Violation("C17/panic@"+site(j.ans.Stack), fmt.Sprintf("codescan.Run panicked (%s) on %s", core.OneLine(j.ans.Panic), j.label), j.replayFiles(map[string]string{"panic.txt": j.ans.Panic + "\n" + j.ans.Stack}))
		return true
	case j.crash != nil:
		c.Violation("C17/fatal@"+site(j.crash.Output), fmt.Sprintf("codescan.Run killed the process on %s: %s", j.label, core.OneLine(firstLines(j.crash.Output, 3))), j.replayFiles(map[string]string{"crash.txt": j.crash.Output}))
		return true
	}
	return false
}

func firstLines(s string, n int) string {
	ls := strings.Split(s, "\n")
	var out []string
	for _, l := range ls {
		if strings.HasPrefix(l, "BEGIN ") || strings.TrimSpace(l) == "" {
			continue
		}
		out = append(out, l)
		if len(out) == n {
			break
		}
	}
	return strings.Join(out, " | ")
}

type finding struct{ form, kind, what string }

// judge compares the scanned document with the intent model.
func judge(j *job) (fs []finding) {
	if j.ans.Spec == "" {
		return nil
	}
	doc, err := jx.Parse([]byte(j.ans.Spec))
	if err != nil {
		return []finding{{"document", "invalid", "result is not JSON: " + err.Error()}}
	}
	seen := map[string]bool{}
	for _, e := range j.expect {
		got, ok := lookup(doc, e.Path)
		var f *finding
		switch e.Want.(type) {
		case gogen.Exists:
			if !ok {
				f = &finding{e.Form, "missing", pathString(e.Path) + " is missing"}
			}
		case gogen.Absent:
			if ok {
				f = &finding{e.Form, "differs", pathString(e.Path) + " should not be there, got " + clip(jx.Compact(got), 120)}
			}
		default:
			want := jx.Normalize(e.Want)
			if !ok {
				f = &finding{e.Form, "missing", pathString(e.Path) + " is missing (declared " + clip(jx.Compact(want), 80) + ")"}
			} else if !jx.Equal(got, want) {
				f = &finding{e.Form, "differs", pathString(e.Path) + " is " + clip(jx.Compact(got), 120) + ", declared " + clip(jx.Compact(want), 120)}
			}
		}
		if f != nil && !seen[f.form+"/"+f.kind] {
			seen[f.form+"/"+f.kind] = true
			fs = append(fs, *f)
		}
	}
	return fs
}

func clip(s string, n int) string {
	if len(s) > n {
		return s[:n] + "…"
	}
	return s
}

func lookup(doc any, path []any) (any, bool) {
	cur := doc
	for _, p := range path {
		switch k := p.(type) {
		case string:
			switch t := cur.(type) {
			case map[string]any:
				v, ok := t[k]
				if !ok {
					return nil, false
				}
				cur = v
			case []any:
				var i int
				if _, err := fmt.Sscanf(k, "%d", &i); err != nil || i < 0 || i >= len(t) {
					return nil, false
				}
				cur = t[i]
			default:
				return nil, false
			}
		case int:
			a, ok := cur.([]any)
			if !ok || k < 0 || k >= len(a) {
				return nil, false
			}
			cur = a[k]
		case gogen.Sel:
			a, ok := cur.([]any)
			if !ok {
				return nil, false
			}
			found := false
			for _, el := range a {
				m, ok := el.(map[string]any)
				if !ok {
					continue
				}
				match := true
				for sk, sv := range k {
					if !jx.Equal(m[sk], jx.Normalize(sv)) {
						match = false
					}
				}
				if match {
					cur, found = el, true
					break
				}
			}
			if !found {
				return nil, false
			}
		}
	}
	return cur, true
}

func pathString(path []any) string {
	var b strings.Builder
	for _, p := range path {
		switch k := p.(type) {
		case string:
			b.WriteString("/" + k)
		case int:
			fmt.Fprintf(&b, "/%d", k)
		case gogen.Sel:
			var ks []string
			for sk, sv := range k {
				ks = append(ks, fmt.Sprintf("%s=%v", sk, sv))
			}
			sort.Strings(ks)
			b.WriteString("[" + strings.Join(ks, ",") + "]")
		}
	}
	return b.String()
}

func encodeExpect(es []gogen.Expect) []byte {
	var out []any
	for _, e := range es {
		var path []any
		for _, p := range e.Path {
			if s, ok := p.(gogen.Sel); ok {
				path = append(path, map[string]any{"$sel": map[string]any(s)})
			} else {
				path = append(path, p)
			}
		}
		var want any = e.Want
		switch e.Want.(type) {
		case gogen.Exists:
			want = map[string]any{"$exists": true}
		case gogen.Absent:
			want = map[string]any{"$absent": true}
		}
		out = append(out, map[string]any{"form": e.Form, "path": path, "want": want})
	}
	return jx.Marshal(out)
}

func decodeExpect(b []byte) []gogen.Expect {
	var raw []struct {
		Form string
		Path []any
		Want any
	}
	if json.Unmarshal(b, &raw) != nil {
		return nil
	}
	var out []gogen.Expect
	for _, r := range raw {
		e := gogen.Expect{Form: r.Form, Want: r.Want}
		for _, p := range r.Path {
			if m, ok := p.(map[string]any); ok {
				if s, ok := m["$sel"].(map[string]any); ok {
					e.Path = append(e.Path, gogen.Sel(s))
					continue
				}
			}
			if f, ok := p.(float64); ok {
				e.Path = append(e.Path, int(f))
				continue
			}
			e.Path = append(e.Path, p)
		}
		if m, ok := r.Want.(map[string]any); ok {
			if m["$exists"] == true {
				e.Want = gogen.Exists{}
			} else if m["$absent"] == true {
				e.Want = gogen.Absent{}
			}
		}
		out = append(out, e)
	}
	return out
}

// build makes the program of a set of forms (requirements first).
func build(byID map[string]*gogen.Form, ids []string) (*gogen.Prog, []string) {
	p := gogen.NewProg()
	done := map[string]bool{}
	var order []string
	var apply func(id string)
	apply = func(id string) {
		if done[id] {
			return
		}
		done[id] = true
		f := byID[id]
		for _, rq := range f.Requires {
			apply(rq)
		}
		f.Apply(p)
		order = append(order, id)
	}
	for _, id := range ids {
		apply(id)
	}
	return p, order
}

func progJob(id, class, label string, p *gogen.Prog, forms []string) *job {
	return &job{id: id, class: class, label: label, forms: forms, files: p.Files(), input: p.Input, expect: p.Expect}
}

// exclusive forms change the skeleton and are not mixed with others in pass B
var exclusive = map[string]bool{"meta.absent": true, "meta.noversion": true, "route.noresponses": true}

func main() {
	if len(os.Args) > 1 && os.Args[1] == "worker" {
		core.ServeWorker(scanHandle)
		return
	}
	c := core.New("C17")
	self, _ := os.Executable()
	r := &runner{c: c, self: self, root: filepath.Join(c.Scratch, "progs"), counts: map[string]int{}, phases: map[string]float64{}, last: time.Now()}
	if c.Replay != "" {
		replay(c, r)
		return
	}
	forms := gogen.Forms()
	byID := map[string]*gogen.Form{}
	for _, f := range forms {
		byID[f.ID] = f
	}
	ops := gogen.FuzzOps()

	// ---- pass A: the skeleton, every form alone on the skeleton, every model field kind
	var jobsA []*job
	jobsA = append(jobsA, progJob("base", "A", "skeleton", gogen.NewProg(), []string{"base"}))
	for i, f := range forms {
		p, order := build(byID, []string{f.ID})
		jobsA = append(jobsA, progJob(fmt.Sprintf("a%03d", i), "A", "form "+f.ID, p, order))
	}
	atoms := gogen.Catalogue()
	fixedChild := atoms[1]
	for i, a := range atoms {
		p := gogen.NewProg()
		j := progJob(fmt.Sprintf("k%03d", i), "K", "model field kind "+a.ID, p, []string{"model.kind." + a.ID})
		src, _ := gogen.Single(a, fixedChild).Source("api")
		j.files["kinds.go"] = src
		jobsA = append(jobsA, j)
	}
	r.scan(jobsA, true)
	r.phase("passA_scan")
	held := map[string]bool{}
	baseOK := false
	for _, j := range jobsA {
		if j.class == "broken" {
			continue
		}
		form := j.forms[len(j.forms)-1]
		c.Eval(j.class + ":" + form)
		c.Sig("form:" + form)
		if r.crashed(j) {
			continue
		}
		if j.ans.Err != "" {
			r.count("pass_A_error_returns")
			c.Note("%s: error return (acceptable): %s", j.label, core.OneLine(j.ans.Err))
			continue
		}
		bad := false
		if !j.ans.Valid {
			bad = true
			c.Violation("C17/form="+form+"/invalid", fmt.Sprintf("generate spec succeeded on %s but the document fails Swagger 2.0 validation: %s", j.label, core.OneLine(strings.Join(j.ans.VErrors, " ; "))),
				j.replayFiles(map[string]string{"validation.txt": strings.Join(j.ans.VErrors, "\n") + "\n"}))
		}
		for _, f := range judge(j) {
			bad = true
			c.Violation("C17/form="+f.form+"/"+f.kind, fmt.Sprintf("%s: %s", j.label, f.what), j.replayFiles(nil))
		}
		if j.id == "base" {
			baseOK = !bad
		}
		if !bad && j.class == "A" && j.id != "base" {
			held[form] = true
			if len(held)%9 == 1 {
				c.Sample(map[string]any{"program": j.label, "forms": j.forms, "verdict": "valid and faithful", "expectations": len(j.expect)})
			}
		}
	}
	if !baseOK {
		c.Note("the skeleton program alone does not hold; compositions are still attempted")
	}
	var heldIDs []string
	for _, f := range forms {
		ok := held[f.ID]
		for _, rq := range f.Requires {
			ok = ok && held[rq]
		}
		if ok && !exclusive[f.ID] {
			heldIDs = append(heldIDs, f.ID)
		}
	}
	c.Extra["forms"] = len(forms)
	c.Extra["forms_held_in_pass_A"] = len(heldIDs)

	// ---- pass B: seeded compositions of forms that held
	rng := rand.New(rand.NewSource(c.Seed))
	nB := c.Pick(30, 300)
	var jobsB []*job
	compose := func(n int) []string {
		var ids []string
		merge := false
		for _, k := range rng.Perm(len(heldIDs)) {
			id := heldIDs[k]
			if strings.HasPrefix(id, "merge.") {
				if merge {
					continue
				}
				merge = true
			}
			ids = append(ids, id)
			if len(ids) == n {
				break
			}
		}
		sort.Strings(ids)
		return ids
	}
	for k := 0; k < nB && len(heldIDs) > 0; k++ {
		ids := compose(4 + rng.Intn(12))
		p, order := build(byID, ids)
		jobsB = append(jobsB, progJob(fmt.Sprintf("c%04d", k), "B", fmt.Sprintf("composite#%d of %d forms", k, len(order)), p, order))
	}
	r.phase("passA_judge")
	r.scan(jobsB, true)
	r.phase("passB_scan")
	for _, j := range jobsB {
		if j.class == "broken" {
			continue
		}
		c.Eval("B")
		for _, f := range j.forms {
			c.Sig("form:" + f)
		}
		if r.crashed(j) {
			continue
		}
		if j.ans.Err != "" {
			r.count("pass_B_error_returns")
			c.Note("%s: error return (acceptable): %s", j.label, core.OneLine(j.ans.Err))
			continue
		}
		var fs []finding
		if !j.ans.Valid {
			fs = append(fs, finding{"", "invalid", "fails Swagger 2.0 validation: " + core.OneLine(strings.Join(j.ans.VErrors, " ; "))})
		}
		fs = append(fs, judge(j)...)
		for _, f := range fs {
			min, mj := r.shrink(byID, j, f)
			key := "C17/form=" + strings.Join(min, "+") + "/" + f.kind
			c.Violation(key, fmt.Sprintf("composition of forms that held alone (%s): %s", strings.Join(min, ", "), f.what), mj.replayFiles(nil))
		}
	}

	// ---- robustness: comment text fuzzed
	var fullIDs []string
	for _, id := range heldIDs {
		if !strings.HasPrefix(id, "merge.") {
			fullIDs = append(fullIDs, id)
		}
	}
	full, fullOrder := build(byID, fullIDs)
	fullJob := progJob("full", "B", "all held forms together", full, fullOrder)
	r.scan([]*job{fullJob}, true)
	fullValid := fullJob.crash == nil && fullJob.ans.Panic == "" && fullJob.ans.Err == "" && fullJob.ans.Valid
	if !fullValid {
		c.Note("the program with all held forms is not valid/err-free itself (%s %s): grammar-preserving fuzz is judged for crashes only", core.OneLine(fullJob.ans.Err), core.OneLine(strings.Join(fullJob.ans.VErrors, ";")))
		r.crashed(fullJob)
	}
	var jobsF []*job
	fuzz := func(id, class string, src *job, opl []*gogen.FuzzOp, rnd *rand.Rand, origOK bool) *job {
		j := &job{id: id, class: class, forms: src.forms, files: map[string]string{}, input: src.input, preserv: true, origOK: origOK}
		names := []string{}
		for n, s := range src.files {
			j.files[n] = s
		}
		for _, o := range opl {
			names = append(names, o.ID)
			j.preserv = j.preserv && o.Preserving
			for _, n := range []string{"doc.go", "api.go"} {
				if o.WholeFile || rnd.Intn(3) > 0 || n == "api.go" {
					j.files[n] = o.Apply(rnd, j.files[n])
				}
			}
		}
		j.ops = names
		j.label = "fuzz " + strings.Join(names, "+") + " on " + src.label
		for n := range j.files {
			if !gogen.SameCode(src.files[n], j.files[n]) {
				return nil
			}
		}
		return j
	}
	perOp := c.Pick(16, 150)
	discarded := 0
	// pass A of the fuzz: each operator alone, fixed seeds, over the single-form programs
	// that held (small programs: a mutation hits the annotation under test), plus the
	// program of all held forms
	var small []*job
	for _, j := range jobsA {
		if j.class == "A" && j.id != "base" && held[j.forms[len(j.forms)-1]] {
			small = append(small, j)
		}
	}
	small = append(small, fullJob)
	for oi, o := range ops {
		n := perOp
		if o.Preserving { // deterministic operators: every program once
			n = len(small)
		}
		for k := 0; k < n; k++ {
			src := small[(oi*7+k*11)%len(small)]
			if o.Preserving {
				src = small[k]
			}
			rnd := rand.New(rand.NewSource(int64(oi*100003 + k)))
			srcOK := src.crash == nil && src.ans.Panic == "" && src.ans.Err == "" && src.ans.Valid
			if j := fuzz(fmt.Sprintf("f%02d_%03d", oi, k), "FA", src, []*gogen.FuzzOp{o}, rnd, srcOK); j != nil {
				jobsF = append(jobsF, j)
			} else {
				discarded++
			}
		}
	}
	nFB := c.Pick(900, 5000) - len(jobsF)
	var okB []*job
	for _, j := range jobsB {
		if j.class != "broken" && j.crash == nil && j.ans.Panic == "" {
			okB = append(okB, j)
		}
	}
	okB = append(okB, fullJob)
	for k := 0; k < nFB; k++ { // pass B of the fuzz: seeded stacks of operators on seeded programs
		src := okB[rng.Intn(len(okB))]
		var opl []*gogen.FuzzOp
		for n := 1 + rng.Intn(3); n > 0; n-- {
			opl = append(opl, ops[rng.Intn(len(ops))])
		}
		srcOK := src.ans.Err == "" && src.ans.Valid
		if j := fuzz(fmt.Sprintf("g%05d", k), "FB", src, opl, rng, srcOK); j != nil {
			jobsF = append(jobsF, j)
		} else {
			discarded++
		}
	}
	c.Extra["fuzz_variants_discarded_code_changed"] = discarded
	r.phase("passB_judge_shrink")
	r.scan(jobsF, false)
	r.phase("fuzz_scan")
	invalidUnspec := map[string]int{}
	for _, j := range jobsF {
		if j.class == "broken" {
			continue
		}
		c.Eval(j.class)
		for _, o := range j.ops {
			c.Sig("fuzz:" + o)
		}
		if r.crashed(j) {
			continue
		}
		switch {
		case j.ans.Err != "":
			r.count("fuzz_error_returns")
		case j.ans.Valid:
			r.count("fuzz_valid_documents")
		case j.preserv && j.origOK:
			c.Violation("C17/form=fuzz."+strings.Join(uniq(j.ops), "+")+"/invalid", fmt.Sprintf("%s: the unfuzzed program gives a valid document, this grammar-preserving variant gives one that fails validation: %s", j.label, core.OneLine(strings.Join(j.ans.VErrors, " ; "))),
				j.replayFiles(map[string]string{"validation.txt": strings.Join(j.ans.VErrors, "\n") + "\n"}))
		default:
			r.count("fuzz_invalid_documents_unspecified")
			for _, o := range uniq(j.ops) {
				invalidUnspec[o]++
			}
			if len(invalidUnspec) < 30 && r.counts["fuzz_invalid_documents_unspecified"] <= 12 {
				c.Note("unspecified: %s returned a document failing validation (fuzzed text is outside the documented grammar): %s", j.label, clip(core.OneLine(strings.Join(j.ans.VErrors, " ; ")), 200))
			}
		}
	}
	c.Extra["fuzz_invalid_unspecified_by_operator"] = invalidUnspec
	c.Extra["counts"] = r.counts
	c.Extra["phase_seconds"] = r.phases
	c.Finish("pass A: the skeleton (meta + route + response), every documented annotation form alone on the skeleton, and a swagger:model struct of every field kind of the C16 catalogue; pass B: seeded compositions of forms that held; each program is compiled, then scanned by codescan.Run in a child worker (ScanModels, optional input spec loaded as the command does); an error return is acceptable, a document must pass go-openapi/validate and contain every item of the program's intent model. Robustness: the program of all held forms and the seeded programs with their comment text fuzzed by every operator alone (fixed seeds) and by seeded stacks of operators; fuzzed programs are judged for crashes, and for validity when every operator keeps the text inside the documented grammar. distinct = annotation forms present in scanned programs + fuzz operators applied",
		c.Pick(500, 5000), 150, []string{
			"go-openapi/validate v0.24.0 (in the child) decides document validity",
			"the intent model lists only what docs/reference/annotations and the goparsing fixtures say an annotation produces",
			"fuzzed variants keep the non-comment token stream of the compiled original (checked with go/scanner)",
			"invalid documents from fuzzed text outside the grammar are counted as unspecified, not judged",
			"a crash is keyed by the innermost codescan frame of its stack",
		})
}

func uniq(s []string) []string {
	m := map[string]bool{}
	var out []string
	for _, x := range s {
		if !m[x] {
			m[x] = true
			out = append(out, x)
		}
	}
	sort.Strings(out)
	return out
}

// shrink greedily removes forms from a failing composition while the same finding remains.
func (r *runner) shrink(byID map[string]*gogen.Form, j *job, f finding) ([]string, *job) {
	same := func(cj *job) bool {
		if cj.class == "broken" || cj.crash != nil || cj.ans.Panic != "" || cj.ans.Err != "" {
			return false
		}
		if f.kind == "invalid" && f.form == "" {
			return !cj.ans.Valid
		}
		for _, g := range judge(cj) {
			if g.form == f.form && g.kind == f.kind {
				return true
			}
		}
		return false
	}
	cur := append([]string{}, j.forms...)
	best := j
	for round := 0; round < 20 && len(cur) > 1; round++ {
		var cands []*job
		var sets [][]string
		for i := range cur {
			rest := append(append([]string{}, cur[:i]...), cur[i+1:]...)
			p, order := build(byID, rest)
			if len(order) >= len(cur) { // a requirement pulled it back in
				continue
			}
			cands = append(cands, progJob(fmt.Sprintf("s%d_%d", round, i), "S", j.label, p, order))
			sets = append(sets, order)
		}
		r.scan(cands, false)
		progress := false
		for i, cj := range cands {
			if same(cj) {
				cur, best, progress = sets[i], cj, true
				break
			}
		}
		if !progress {
			break
		}
	}
	out := append([]string{}, cur...)
	if f.form != "" {
		has := false
		for _, x := range out {
			has = has || x == f.form
		}
		if !has {
			out = append(out, f.form)
		}
	}
	sort.Strings(out)
	return out, best
}

func replay(c *core.Ctx, r *runner) {
	j := &job{id: "rp", class: "R", label: "replay", files: map[string]string{}}
	ms, _ := filepath.Glob(filepath.Join(c.Replay, "prog", "*.go"))
	for _, m := range ms {
		b, _ := os.ReadFile(m)
		j.files[filepath.Base(m)] = string(b)
	}
	if b, err := os.ReadFile(filepath.Join(c.Replay, "input.json")); err == nil {
		var in map[string]any
		_ = json.Unmarshal(b, &in)
		j.input = in
	}
	if b, err := os.ReadFile(filepath.Join(c.Replay, "expect.json")); err == nil {
		j.expect = decodeExpect(b)
	}
	var vio struct{ Key string }
	vb, _ := os.ReadFile(filepath.Join(c.Replay, "violation.json"))
	_ = json.Unmarshal(vb, &vio)
	r.scan([]*job{j}, false)
	c.Cleanup()
	hit := false
	switch {
	case j.ans.Panic != "":
		fmt.Println("panic:", j.ans.Panic, "at", site(j.ans.Stack))
		hit = true
	case j.crash != nil:
		fmt.Println("fatal:", firstLines(j.crash.Output, 5))
		hit = true
	case j.ans.Err != "":
		fmt.Println("error return (acceptable):", j.ans.Err)
	default:
		if !j.ans.Valid {
			fmt.Println("invalid document:", strings.Join(j.ans.VErrors, " ; "))
			hit = hit || strings.HasSuffix(vio.Key, "/invalid") || vio.Key == ""
		}
		for _, f := range judge(j) {
			fmt.Printf("%s %s: %s\n", f.form, f.kind, f.what)
			hit = hit || strings.HasSuffix(vio.Key, "/"+f.kind) || vio.Key == ""
		}
	}
	if hit {
		fmt.Printf("VIOLATION property=C17 replay=%s\n", c.Replay)
		os.Exit(1)
	}
	fmt.Println("not reproduced")
	os.Exit(0)
}
