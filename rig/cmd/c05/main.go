// C05 — model JSON serialization round-trips without loss.
package main

import (
	"fmt"
	"math/rand"
	"strings"
	"sync"

	"verif/rig/core"
	"verif/rig/jx"
	"verif/rig/modelrig"
	"verif/rig/oracle"
	"verif/rig/specgen"
)

type J = jx.J

func main() {
	c := core.New("C05")
	c.ReplayFallback()
	swagger := c.BuildSwagger()
	atoms := specgen.SchemaAtoms()
	positions := []string{"def", "reqprop", "optprop", "items", "aliasprop"}
	if c.Thorough() {
		positions = specgen.Positions
	}
	groups := modelrig.MakeGroups(atoms, positions)
	bad := judgeAll(c, swagger, groups, "")
	// pass B: composite objects of atoms that held alone at the property / items positions
	rng := rand.New(rand.NewSource(c.Seed))
	var pool []*specgen.SchemaAtom
	for i := range atoms {
		a := &atoms[i]
		if !a.RootOnly && !a.NoValidate && !bad[a.ID+"@reqprop"] && !bad[a.ID+"@optprop"] && !bad[a.ID+"@items"] && !bad[a.ID+"@def"] {
			pool = append(pool, a)
		}
	}
	c.Extra["pass_b_pool"] = len(pool)
	var groupsB []modelrig.Group
	for k := 0; k < c.Pick(40, 400) && len(pool) > 0; k++ {
		groupsB = append(groupsB, modelrig.Composite(k, pool, rng, []string{"req", "opt", "items"}))
	}
	if len(groupsB) > 0 {
		judgeAll(c, swagger, groupsB, "B:")
	}
	finish(c)
}

// judgeAll exercises the groups and returns the atom@pos that showed a violation.
func judgeAll(c *core.Ctx, swagger string, groups []modelrig.Group, pass string) map[string]bool {
	bad := map[string]bool{}
	results, failures, units := modelrig.Exercise(c, swagger, groups, nil, 110)
	for _, f := range failures {
		c.Note("%s@%s not exercised: %s failed (C01's subject)", f.Group.Placed.Atom.ID, f.Group.Placed.Pos, f.Stage)
		bad[f.Group.Placed.Atom.ID+"@"+f.Group.Placed.Pos] = true
	}
	judged, skippedInvalid, tolerated := 0, 0, map[string]int{}
	for _, r := range results {
		who := r.Group.Placed.Atom.ID + "@" + r.Group.Placed.Pos
		if pass != "" {
			who = attribute(r)
		}
		if r.Crash != "" || r.Ans.NoSuchDef {
			continue // C02 reports crashes
		}
		mo := oracleFor(r.Unit)
		j := mo.Judge(r.Case.Def, r.Case.Variant.Doc)
		// a valid polymorphic document must decode through the base type and its containers
		if r.Group.Placed.Atom.Poly && j.RefValid && j.Unspecified == "" && r.Ans.UnmarshalErr != "" && r.Ans.Panic == "" {
			bad[who] = true
			c.Eval(who + "/poly-decode")
			c.Violation(fmt.Sprintf("C05/"+pass+"%s/subtype-not-restored", who), fmt.Sprintf("a valid polymorphic document does not decode (%s): %s (document %s)", r.Case.Variant.Path, r.Ans.UnmarshalErr, jx.Compact(r.Case.Variant.Doc)),
				map[string]string{"spec.json": string(jx.Marshal(r.Unit.Spec)), "document.json": jx.Compact(r.Case.Variant.Doc), "observed.txt": r.Ans.UnmarshalErr})
			continue
		}
		// a document the schema accepts outright (no documented exception involved, canonical
		// valid value) that the generated model cannot decode is lost before the round trip starts
		if j.RefValid && j.Unspecified == "" && len(j.Allowed) == 1 && r.Ans.UnmarshalErr != "" && r.Ans.Panic == "" && !r.Group.Placed.Atom.NoValidate && !r.Group.Placed.Atom.Tuple && strings.HasPrefix(r.Case.Variant.Label, "valid") {
			bad[who] = true
			c.Eval(who + "/valid-not-decoded")
			c.Violation(fmt.Sprintf("C05/"+pass+"%s/valid-document-not-decoded", who), fmt.Sprintf("a valid %s document is refused by UnmarshalJSON: %s (document %s)", r.Case.Def, r.Ans.UnmarshalErr, jx.Compact(r.Case.Variant.Doc)),
				map[string]string{"spec.json": string(jx.Marshal(r.Unit.Spec)), "document.json": jx.Compact(r.Case.Variant.Doc), "observed.txt": r.Ans.UnmarshalErr})
			continue
		}
		// only documents valid for the schema, and decoded by the generated model
		if !(j.RefValid || r.Group.Placed.Atom.NoValidate || r.Group.Placed.Atom.Tuple) || j.Unspecified != "" || r.Ans.UnmarshalErr != "" || r.Ans.Panic != "" {
			skippedInvalid++
			continue
		}
		files := func(extra string) map[string]string {
			defs := r.Unit.Spec["definitions"].(J)
			return map[string]string{"definition.json": string(jx.Marshal(J{r.Case.Def: defs[r.Case.Def]})), "spec.json": string(jx.Marshal(r.Unit.Spec)),
				"document.json": jx.Compact(r.Case.Variant.Doc), "output.json": r.Ans.Enc, "output2.json": r.Ans.Enc2, "observed.txt": extra}
		}
		judged++
		label := r.Case.Variant.Label
		if r.Ans.EncErr != "" {
			c.Eval(who + "/encode-error")
			bad[who] = true
			c.Violation(fmt.Sprintf("C05/"+pass+"%s/encode-error", who), fmt.Sprintf("a decoded valid document cannot be encoded again: %s (%s)", r.Ans.EncErr, jx.Compact(r.Case.Variant.Doc)), files(r.Ans.EncErr))
			continue
		}
		out, err := jx.Parse([]byte(r.Ans.Enc))
		if err != nil {
			bad[who] = true
			c.Violation(fmt.Sprintf("C05/"+pass+"%s/output-not-json", who), "encoder output is not JSON: "+r.Ans.Enc, files(err.Error()))
			continue
		}
		issues := mo.RoundTrip(r.Case.Def, r.Case.Variant.Doc, out)
		sig := "exact"
		if len(issues) == 0 && !jx.Equal(r.Case.Variant.Doc, out) {
			sig = "tolerated-difference"
			tolerated[who]++
		}
		c.Eval(who + "/" + strings.SplitN(label, "@", 2)[0] + "/" + sig)
		for _, is := range issues {
			w, ipath := who, is.Path
			if pass != "" {
				// attribute to the atom of the property in which the issue sits, drop the property index
				w, ipath = atomAtPath(r, is.Path)
			}
			bad[w] = true
			c.Violation(fmt.Sprintf("C05/"+pass+"%s/%s@%s", w, is.Kind, ipath),
				fmt.Sprintf("decode→encode of a valid %s document: %s (input %s, output %s)", r.Case.Def, is.Detail, jx.Compact(r.Case.Variant.Doc), r.Ans.Enc), files(is.Kind+" "+is.Path+": "+is.Detail))
		}
		if len(issues) == 0 && sig != "exact" {
			c.Sample(map[string]any{"definition": r.Case.Def, "input": r.Case.Variant.Doc, "output": out, "verdict": "held (tolerated difference)"})
		}
		// idempotence: encoding the re-decoded output reproduces it exactly
		if r.Ans.Dec2Err != "" {
			bad[who] = true
			c.Violation(fmt.Sprintf("C05/"+pass+"%s/output-not-decodable", who), fmt.Sprintf("the model's own output does not decode again: %s (output %s)", r.Ans.Dec2Err, r.Ans.Enc), files(r.Ans.Dec2Err))
		} else if r.Ans.Enc2 != r.Ans.Enc {
			bad[who] = true
			c.Violation(fmt.Sprintf("C05/"+pass+"%s/not-idempotent", who), fmt.Sprintf("encode(decode(output)) differs from output: %s vs %s", r.Ans.Enc2, r.Ans.Enc), files("not idempotent"))
		}
		// polymorphism: concrete subtype restored
		if r.Group.Placed.Atom.Poly && r.Case.Variant.Path == "via-base" {
			kind, _ := r.Case.Variant.Doc.(J)["kind"].(string)
			want := kind
			for dn, dv := range r.Unit.Spec["definitions"].(J) { // subtype named through x-class
				if dj, _ := dv.(J); dj != nil && dj["x-class"] == kind {
					want = dn
				}
			}
			c.Eval(who + "/poly-restored/" + kind)
			if !strings.HasSuffix(strings.ToLower(r.Ans.GoType), strings.ToLower(want)) {
				bad[who] = true
				c.Violation(fmt.Sprintf("C05/"+pass+"%s/subtype-not-restored", who), fmt.Sprintf("document with discriminator %q decoded through the base type gives Go type %s", kind, r.Ans.GoType), files(r.Ans.GoType))
			}
		}
	}
	c.Extra["documents_judged"+pass] = judged
	c.Extra["documents_skipped_not_valid_or_not_decoded"+pass] = skippedInvalid
	c.Extra["groups_with_tolerated_differences"+pass] = len(tolerated)
	for _, u := range units {
		u.Cleanup()
	}
	return bad
}

// attribute maps a pass-B issue to the atom of the property it touches.
func attribute(r modelrig.Result) string {
	seg := strings.SplitN(strings.TrimPrefix(r.Case.Variant.Path, "/"), "/", 2)[0]
	seg = strings.TrimSuffix(seg, "[]")
	if p, ok := r.Group.Placed.Schema["properties"].(J)[seg].(J); ok {
		if id, ok := p["x-vf-atom"].(string); ok {
			return id
		}
	}
	return "composite"
}

func atomAtPath(r modelrig.Result, path string) (string, string) {
	parts := strings.SplitN(strings.TrimPrefix(path, "/"), "/", 2)
	seg := strings.TrimSuffix(parts[0], "[]")
	rest := ""
	if len(parts) == 2 {
		rest = "/" + parts[1]
	}
	if strings.HasSuffix(parts[0], "[]") {
		rest = "[]" + rest
	}
	if p, ok := r.Group.Placed.Schema["properties"].(J)[seg].(J); ok {
		if id, ok := p["x-vf-atom"].(string); ok {
			return id, rest
		}
	}
	return "composite", path
}

func finish(c *core.Ctx) {
	c.Finish("every schema-shape atom at each position; every instgen document that the reference validator accepts is decoded by the generated model, encoded, decoded and encoded again; schema-directed comparison of input and output trees with exactly the three documented tolerances, byte idempotence of the second encoding, concrete subtype restored through base types; distinct = (atom, position, document class, exact|tolerated) combinations",
		800, 200, []string{
			"document validity decided by go-openapi/validate v0.24.0 (C02's oracle); only valid, decodable documents are judged",
			"date-time compared as instants, duration as durations, numbers numerically, everything else exactly",
			"tolerances: optional property with an empty value (0, \"\", false, [], {}, null) may be omitted or rendered null; absent array property may appear as null; undeclared properties may be dropped where additionalProperties is absent or false",
		})
}

var oracles sync.Map

func oracleFor(u *modelrig.Unit) *oracle.ModelOracle {
	if v, ok := oracles.Load(u); ok {
		return v.(*oracle.ModelOracle)
	}
	mo, err := oracle.NewModelOracle(u.Spec, false)
	core.Must(err)
	oracles.Store(u, mo)
	return mo
}
