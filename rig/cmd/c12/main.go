// C12 — diff: a spec never differs from itself, and diff never crashes.
package main

import (
	"encoding/json"
	"fmt"
	"math/rand"
	"os"
	"path/filepath"
	"regexp"
	"sort"
	"strings"
	"sync"
	"time"

	"github.com/go-openapi/loads"
	"github.com/go-openapi/swag"

	"verif/rig/core"
	"verif/rig/difflib"
	"verif/rig/jx"
)

type pair struct {
	id, class string
	a, b      string
	identity  bool
}

func main() {
	if len(os.Args) > 1 && os.Args[1] == "worker" {
		core.ServeWorker(difflib.Handle)
		return
	}
	c := core.New("C12")
	self, _ := os.Executable()
	if len(os.Args) > 1 && os.Args[1] == "--warm" {
		difflib.ValidFixtures(c, self, 400<<10)
		c.Cleanup()
		return
	}
	if c.Replay != "" {
		replay(c, self)
		return
	}
	swagger := c.BuildSwagger()
	rng := rand.New(rand.NewSource(c.Seed))

	// ---- corpus
	type doc struct {
		name, path string
		tree       jx.J
	}
	var corpus []doc
	specDir := filepath.Join(c.Scratch, "corpus")
	_ = os.MkdirAll(specDir, 0o755)
	addTree := func(name string, tree jx.J) {
		p := filepath.Join(specDir, sanitize(name)+".json")
		core.Must(os.WriteFile(p, jx.Marshal(tree), 0o644))
		corpus = append(corpus, doc{name, p, tree})
	}
	addTree("base", difflib.BaseSpec())
	hs := difflib.HostileSpecs()
	for _, k := range jx.Keys(hs) {
		addTree("hostile-"+k, hs[k])
	}
	fixtures := difflib.ValidFixtures(c, self, 400<<10)
	c.Extra["valid_fixtures"] = len(fixtures)
	for _, f := range fixtures {
		raw, err := swag.YAMLDoc(f) // json or yaml -> json bytes
		if err != nil {
			continue
		}
		t, err := jx.Parse(raw)
		if err != nil {
			continue
		}
		tj, ok := t.(jx.J)
		if !ok {
			continue
		}
		rel, _ := filepath.Rel(c.Repo, f)
		corpus = append(corpus, doc{rel, f, tj})
	}
	// hand-written specs must be valid per the reference validator too
	{
		var reqs []map[string]any
		for i, d := range corpus {
			if !strings.HasPrefix(d.path, specDir) {
				continue
			}
			reqs = append(reqs, map[string]any{"id": fmt.Sprint(i), "mode": "validate", "a": d.path})
		}
		ans, _ := core.RunWorker("", nil, 2*time.Minute, self, []string{"worker"}, reqs)
		drop := map[int]bool{}
		for _, r := range reqs {
			var a difflib.Ans
			_ = json.Unmarshal(ans[r["id"].(string)], &a)
			if a.Valid == nil || !*a.Valid {
				var i int
				fmt.Sscan(r["id"].(string), &i)
				drop[i] = true
				c.Note("hand-written spec %s rejected by validate.Spec: %v %s", corpus[i].name, a.Errors, a.Err)
			}
		}
		var keep []doc
		for i, d := range corpus {
			if !drop[i] {
				keep = append(keep, d)
			}
		}
		corpus = keep
	}

	// ---- pairs
	var pairs []pair
	varDir := filepath.Join(c.Scratch, "variants")
	_ = os.MkdirAll(varDir, 0o755)
	discarded := 0
	for i, d := range corpus {
		pairs = append(pairs, pair{id: "same/" + d.name, class: "identity.same", a: d.path, b: d.path, identity: true})
		base := filepath.Join(varDir, fmt.Sprintf("%04d", i))
		// JSON re-serialisation (sorted keys)
		pj := base + ".json"
		core.Must(os.WriteFile(pj, jx.Marshal(d.tree), 0o644))
		if !sameAsLoaded(pj, d.path) {
			discarded++
			continue
		}
		pairs = append(pairs, pair{id: "rejson/" + d.name, class: "identity.json", a: d.path, b: pj, identity: true})
		// YAML re-serialisation, kept only when the reference loader reads it back JSON-equal
		if y, err := jx.ToYAML(d.tree); err == nil {
			py := base + ".yaml"
			core.Must(os.WriteFile(py, y, 0o644))
			if sameAsLoaded(py, d.path) {
				pairs = append(pairs, pair{id: "yaml/" + d.name, class: "identity.yaml", a: d.path, b: py, identity: true})
			} else {
				discarded++
			}
		}
		// reordered parameter / enum / required lists
		sh := jx.CloneJ(d.tree)
		if shuffleLists(sh, rand.New(rand.NewSource(c.Seed+int64(i))), "") > 0 {
			ps := base + ".shuffled.json"
			core.Must(os.WriteFile(ps, jx.Marshal(sh), 0o644))
			// (the shuffled copy differs from the original only by list order, by construction)
			pairs = append(pairs, pair{id: "shuffled/" + d.name, class: "identity.shuffled", a: d.path, b: ps, identity: true})
		}
	}
	c.Extra["variants_discarded_not_json_equal"] = discarded
	// totality: catalogue edits (+noise), random corpus pairs in both orders
	edits := difflib.Catalogue()
	for i, e := range edits {
		a, b := difflib.WritePair(filepath.Join(c.Scratch, "edits", fmt.Sprint(i)), e.Old, e.New)
		pairs = append(pairs, pair{id: "edit/" + e.ID, class: "total.edit", a: a, b: b})
		pairs = append(pairs, pair{id: "edit-rev/" + e.ID, class: "total.edit-rev", a: b, b: a})
	}
	for k := 0; k < c.Pick(150, 1500); k++ {
		e, names := difflib.WithNoise(edits[rng.Intn(len(edits))], rng)
		a, b := difflib.WritePair(filepath.Join(c.Scratch, "noise", fmt.Sprint(k)), e.Old, e.New)
		id := e.ID + "+" + strings.Join(names, ",")
		pairs = append(pairs, pair{id: "noise/" + id, class: "total.noise", a: a, b: b})
		pairs = append(pairs, pair{id: "noise-rev/" + id, class: "total.noise-rev", a: b, b: a})
	}
	for k := 0; k < c.Pick(300, 5000); k++ {
		x, y := corpus[rng.Intn(len(corpus))], corpus[rng.Intn(len(corpus))]
		pairs = append(pairs, pair{id: "pair/" + x.name + " vs " + y.name, class: "total.random", a: x.path, b: y.path})
		pairs = append(pairs, pair{id: "pair/" + y.name + " vs " + x.name, class: "total.random", a: y.path, b: x.path})
	}
	// fixture v1/v2 pairs of the diff fixtures
	if ms, _ := filepath.Glob(filepath.Join(c.Repo, "fixtures/diff/*.v1.json")); len(ms) > 0 {
		for _, v1 := range ms {
			v2 := strings.TrimSuffix(v1, ".v1.json") + ".v2.json"
			if _, err := os.Stat(v2); err == nil {
				n := filepath.Base(v1)
				pairs = append(pairs, pair{id: "fixturepair/" + n, class: "total.fixturepair", a: v1, b: v2},
					pair{id: "fixturepair-rev/" + n, class: "total.fixturepair", a: v2, b: v1})
			}
		}
	}

	// ---- run through workers
	byID := map[string]pair{}
	var reqs []map[string]any
	for i, p := range pairs {
		id := fmt.Sprint(i)
		byID[id] = p
		reqs = append(reqs, map[string]any{"id": id, "mode": "compare", "a": p.a, "b": p.b})
	}
	var mu sync.Mutex
	answers := map[string]json.RawMessage{}
	var crashes []core.Crash
	nchunks := 48
	chunks := make([][]map[string]any, nchunks)
	for i, r := range reqs { // interleave so slow fixtures spread out
		chunks[i%nchunks] = append(chunks[i%nchunks], r)
	}
	core.Parallel(nchunks, 16, func(k int) {
		if len(chunks[k]) == 0 {
			return
		}
		ans, cr := core.RunWorker("", nil, 45*time.Second, self, []string{"worker"}, chunks[k])
		mu.Lock()
		for id, a := range ans {
			answers[id] = a
		}
		crashes = append(crashes, cr...)
		mu.Unlock()
	})
	files := func(p pair) map[string]string {
		fa, _ := os.ReadFile(p.a)
		fb, _ := os.ReadFile(p.b)
		return map[string]string{"a" + filepath.Ext(p.a): string(fa), "b" + filepath.Ext(p.b): string(fb), "pair.txt": p.id + "\n"}
	}
	loopConfirmed, loopAlso := false, 0
	for _, cr := range crashes {
		p, ok := byID[cr.ID]
		if !ok {
			c.Inconclusive("worker crash without attributable request: %s", core.OneLine(cr.Output))
			continue
		}
		if cr.Killed {
			// watchdog: the first incident is re-run alone with a longer limit before it is called a
			// loop; once a loop is confirmed, further expiries are counted, not re-run
			if loopConfirmed {
				loopAlso++
				continue
			}
			ans, cr2 := core.RunWorker("", nil, 3*time.Minute, self, []string{"worker"}, []map[string]any{{"id": cr.ID, "mode": "compare", "a": p.a, "b": p.b}})
			if len(cr2) == 0 {
				answers[cr.ID] = ans[cr.ID]
				continue
			}
			if cr2[0].Killed && (strings.Contains(cr2[0].Output, "compareSchema") || strings.Contains(cr2[0].Output, "commands/diff.")) {
				f := files(p)
				f["goroutines.txt"] = cr2[0].Output
				c.Eval(p.class)
				loopConfirmed = true
				c.Violation("C12/loop@"+site(cr2[0].Output), "diff.Compare did not terminate within 3 minutes on "+p.id+" (a call that normally takes milliseconds; the goroutine dump shows it inside the diff package)", f)
				continue
			}
			if cr2[0].Killed {
				c.Inconclusive("watchdog on %s", p.id)
				continue
			}
			cr = cr2[0]
		}
		f := files(p)
		f["crash.txt"] = cr.Output
		c.Eval(p.class)
		c.Violation("C12/fatal@"+site(cr.Output), "diff.Compare killed the process on "+p.id, f)
	}
	sigs := map[string]bool{}
	ids := make([]string, 0, len(answers))
	for id := range answers {
		ids = append(ids, id)
	}
	sort.Slice(ids, func(i, j int) bool {
		var a, b int
		fmt.Sscan(ids[i], &a)
		fmt.Sscan(ids[j], &b)
		return a < b
	})
	for _, id := range ids {
		raw := answers[id]
		p := byID[id]
		var a difflib.Ans
		if err := json.Unmarshal(raw, &a); err != nil {
			c.Inconclusive("bad worker answer for %s", p.id)
			continue
		}
		if a.Err != "" && a.Panic == "" {
			c.Note("load error on %s: %s", p.id, a.Err)
			continue
		}
		c.Eval(p.class + "/" + featureSig(p.a))
		sigs[p.class] = true
		if a.Panic != "" {
			f := files(p)
			f["panic.txt"] = a.Panic + "\n" + a.Stack
			c.Violation("C12/panic@"+site(a.Stack), fmt.Sprintf("diff.Compare panicked (%s) on %s", a.Panic, p.id), f)
			continue
		}
		if p.identity && len(a.Diffs) > 0 {
			var lines []string
			for _, d := range a.Diffs {
				lines = append(lines, d.Text)
			}
			sort.Strings(lines)
			f := files(p)
			f["diffs.txt"] = strings.Join(lines, "\n")
			c.Violation("C12/identity/"+p.id, fmt.Sprintf("%d differences reported between a spec and its %s copy: %s", len(a.Diffs), p.class, core.OneLine(strings.Join(lines, " ; "))), f)
		} else if p.identity && len(sigs) < 12 {
			c.Sample(map[string]any{"pair": p.id, "class": p.class, "differences": 0})
		}
	}
	// ---- CLI sample: exit status and output on identity pairs
	var idPairs []pair
	for _, p := range pairs {
		if p.identity {
			idPairs = append(idPairs, p)
		}
	}
	rng.Shuffle(len(idPairs), func(i, j int) { idPairs[i], idPairs[j] = idPairs[j], idPairs[i] })
	ncli := c.Pick(60, 400)
	if ncli > len(idPairs) {
		ncli = len(idPairs)
	}
	core.Parallel(ncli, 16, func(i int) {
		p := idPairs[i]
		if c.HasViolation("C12/identity/" + p.id) {
			return
		}
		r := difflib.RunCLI(swagger, nil, p.a, p.b)
		if r.TimedOut {
			c.Inconclusive("CLI watchdog on %s", p.id)
			return
		}
		if strings.Contains(r.Stderr, "panic:") || strings.Contains(r.Stderr, "goroutine 1 [") {
			return // already reported through the library run
		}
		c.Eval("cli/" + p.class)
		if r.Exit != 0 || !strings.Contains(r.Stdout, "No changes identified") {
			f := files(p)
			f["stdout.txt"], f["stderr.txt"] = r.Stdout, r.Stderr
			c.Violation("C12/identity-cli/"+p.id, fmt.Sprintf("swagger diff of a spec with its own copy: exit %d, output %s", r.Exit, core.OneLine(r.Stdout)), f)
		}
	})
	c.Finish("identity: every reference-valid fixture and hand-written hostile spec against itself, its JSON and YAML re-serialisation and a copy with shuffled parameter/enum/required lists; totality: catalogue edits (both directions), noisy composites, seeded random corpus pairs, in child processes with panic recovery and crash attribution; distinct = (pair class, schema-feature signature of the left document)",
		300, 20, []string{
			"validity of corpus documents decided by go-openapi/validate v0.24.0 (cached per content hash)",
			"a re-serialisation is used only if go-openapi/loads reads it back JSON-equal",
			"watchdog expiry is inconclusive unless a second, longer run shows a live compareSchema recursion",
		})
}

func sanitize(s string) string { return regexp.MustCompile(`[^A-Za-z0-9._-]+`).ReplaceAllString(s, "_") }

var rxFrame = regexp.MustCompile(`commands/diff\.([A-Za-z0-9_.()*]+)\(`)

// site returns the innermost frame of the diff package in a stack trace.
func site(stack string) string {
	if m := rxFrame.FindStringSubmatch(stack); m != nil {
		return strings.NewReplacer("(*SpecAnalyser).", "", "(", "", ")", "", "*", "").Replace(m[1])
	}
	return "unknown"
}

// sameAsLoaded: the variant, read by the reference loader, must be the same
// typed document as the original read by the reference loader (this discards
// e.g. YAML fixtures with duplicate keys, which the typed loader merges).
func sameAsLoaded(variant, orig string) bool {
	d1, err := loads.Spec(variant)
	if err != nil {
		return false
	}
	d2, err := loads.Spec(orig)
	if err != nil {
		return false
	}
	b1, err1 := json.Marshal(d1.Spec())
	b2, err2 := json.Marshal(d2.Spec())
	if err1 != nil || err2 != nil {
		return false
	}
	t1, _ := jx.Parse(b1)
	t2, _ := jx.Parse(b2)
	return jx.Equal(t1, t2)
}

// shuffleLists permutes parameter lists, enum lists and required lists in place.
func shuffleLists(v any, rng *rand.Rand, key string) int {
	n := 0
	switch t := v.(type) {
	case map[string]any:
		for _, k := range jx.Keys(t) {
			n += shuffleLists(t[k], rng, k)
		}
	case []any:
		if (key == "parameters" || key == "enum" || key == "required") && len(t) > 1 {
			rng.Shuffle(len(t), func(i, j int) { t[i], t[j] = t[j], t[i] })
			n++
		}
		for _, x := range t {
			n += shuffleLists(x, rng, "")
		}
	}
	return n
}

var sigCache sync.Map

// featureSig summarises which schema features a document contains.
func featureSig(path string) string {
	if v, ok := sigCache.Load(path); ok {
		return v.(string)
	}
	b, _ := os.ReadFile(path)
	s := string(b)
	var fs []string
	for _, f := range []string{"allOf", "additionalProperties", "$ref", "enum", "default", "collectionFormat", "discriminator", "additionalItems", "formData", "security", "x-"} {
		if strings.Contains(s, f) {
			fs = append(fs, f)
		}
	}
	sig := strings.Join(fs, "+")
	sigCache.Store(path, sig)
	return sig
}

func replay(c *core.Ctx, self string) {
	var a, b string
	ms, _ := filepath.Glob(filepath.Join(c.Replay, "a.*"))
	if len(ms) > 0 {
		a = ms[0]
	}
	ms, _ = filepath.Glob(filepath.Join(c.Replay, "b.*"))
	if len(ms) > 0 {
		b = ms[0]
	}
	ans, cr := core.RunWorker("", nil, 4*time.Minute, self, []string{"worker"}, []map[string]any{{"id": "r", "mode": "compare", "a": a, "b": b}})
	c.Cleanup()
	if len(cr) > 0 {
		fmt.Println(cr[0].Output)
		fmt.Printf("VIOLATION property=C12 replay=%s\n", c.Replay)
		os.Exit(1)
	}
	fmt.Println(string(ans["r"]))
	var an difflib.Ans
	_ = json.Unmarshal(ans["r"], &an)
	pt, _ := os.ReadFile(filepath.Join(c.Replay, "pair.txt"))
	identity := !strings.HasPrefix(string(pt), "edit") && !strings.HasPrefix(string(pt), "noise") && !strings.HasPrefix(string(pt), "pair/") && !strings.HasPrefix(string(pt), "fixturepair")
	if an.Panic != "" || (identity && len(an.Diffs) > 0) {
		fmt.Printf("VIOLATION property=C12 replay=%s\n", c.Replay)
		os.Exit(1)
	}
	os.Exit(0)
}
