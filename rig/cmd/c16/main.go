// C16 — scanned model schemas describe the type's actual JSON encoding.
package main

import (
	"encoding/json"
	"fmt"
	"math/rand"
	"os"
	"path/filepath"
	"regexp"
	"runtime/debug"
	"sort"
	"strings"
	"sync"
	"time"

	"github.com/go-swagger/go-swagger/codescan"

	"verif/rig/core"
	"verif/rig/gogen"
	"verif/rig/jx"
	"verif/rig/oracle"
)

// ---------------------------------------------------------------- scan worker (child)

type scanAns struct {
	ID    string `json:"id"`
	Spec  string `json:"spec,omitempty"`
	Err   string `json:"err,omitempty"`
	Panic string `json:"panic,omitempty"`
	Stack string `json:"stack,omitempty"`
}

func scanHandle(raw json.RawMessage) (out any) {
	var rq struct {
		ID, Dir, Pkg string
		Nullable     bool
	}
	_ = json.Unmarshal(raw, &rq)
	ans := &scanAns{ID: rq.ID}
	defer func() {
		if r := recover(); r != nil {
			ans.Panic = fmt.Sprint(r)
			ans.Stack = string(debug.Stack())
			out = ans
		}
	}()
	sw, err := codescan.Run(&codescan.Options{WorkDir: rq.Dir, Packages: []string{rq.Pkg}, ScanModels: true, SetXNullableForPointers: rq.Nullable})
	if err != nil {
		ans.Err = err.Error()
		return ans
	}
	b, err := json.Marshal(sw)
	if err != nil {
		ans.Err = "marshal of result: " + err.Error()
		return ans
	}
	ans.Spec = string(b)
	return ans
}

// ---------------------------------------------------------------- supervisor

var configs = []string{"default", "nullable"}

type drvValue struct {
	Mode  string   `json:"mode"`
	JSON  string   `json:"json"`
	Err   string   `json:"err"`
	Nulls []string `json:"nulls"`
}

type failure struct {
	sub, config string
	what        string
	files       map[string]string
}

type job struct {
	key   string // package name and driver key
	label string // atom id (pass A) or composite label
	comp  *gogen.Composite
	src   string
	enums [][]string
	scan  [2]scanAns
	vals  []drvValue
	fails []failure
	// per-job outcome
	scanFailed bool
	judged     int
}

type runner struct {
	c      *core.Ctx
	self   string
	mod    *core.Module
	nvals  int
	seed   int64
	counts map[string]int
	mu     sync.Mutex
	unspec map[string]int
	passA  bool
	phases map[string]float64
	last   time.Time
}

func (r *runner) phase(name string) {
	r.mu.Lock()
	now := time.Now()
	if !r.last.IsZero() {
		r.phases[name] += now.Sub(r.last).Seconds()
	}
	r.last = now
	r.mu.Unlock()
}

func (r *runner) count(k string, n int) {
	r.mu.Lock()
	r.counts[k] += n
	r.mu.Unlock()
}

func chunk(reqs []map[string]any, n int) [][]map[string]any {
	out := make([][]map[string]any, n)
	for i, rq := range reqs {
		out[i%n] = append(out[i%n], rq)
	}
	return out
}

// run executes one batch: write packages, build the driver, scan, marshal, judge both directions.
func (r *runner) run(batch string, jobs []*job) {
	c := r.c
	if len(jobs) == 0 {
		return
	}
	var entries []gogen.RegEntry
	for _, j := range jobs {
		dir := filepath.Join(r.mod.Dir, batch, j.key)
		core.Must(os.MkdirAll(dir, 0o755))
		j.src, j.enums = j.source()
		core.Must(os.WriteFile(filepath.Join(dir, "model.go"), []byte(j.src), 0o644))
		entries = append(entries, gogen.RegEntry{Key: j.key, Import: r.mod.Path + "/" + batch + "/" + j.key, Enums: j.enums})
	}
	// driver lives outside the scanned packages (scans name one package each)
	drvDir := filepath.Join(r.mod.Dir, "drv_"+batch)
	core.Must(os.MkdirAll(drvDir, 0o755))
	core.Must(os.WriteFile(filepath.Join(drvDir, "main.go"), []byte(gogen.TypeDrvMain), 0o644))
	core.Must(os.WriteFile(filepath.Join(drvDir, "reg.go"), []byte(gogen.Registry(entries)), 0o644))
	drvBin := filepath.Join(c.Scratch, "bin", "typedrv_"+batch)
	_ = os.MkdirAll(filepath.Dir(drvBin), 0o755)
	r.phase("write")
	br := core.Run(r.mod.Dir, core.GoEnv(), 15*time.Minute, "", "go", "build", "-o", drvBin, "./drv_"+batch)
	r.phase("build_driver")
	if br.TimedOut || br.Exit != 0 {
		c.Inconclusive("typedrv for batch %s does not build: %s", batch, core.OneLine(br.Stderr+br.Stdout))
		return
	}
	// scans
	var reqs []map[string]any
	byKey := map[string]*job{}
	for _, j := range jobs {
		byKey[j.key] = j
		for ci := range configs {
			reqs = append(reqs, map[string]any{"id": fmt.Sprintf("%s/%d", j.key, ci), "dir": r.mod.Dir, "pkg": "./" + batch + "/" + j.key, "nullable": ci == 1})
		}
	}
	chunks := chunk(reqs, 32)
	var mu sync.Mutex
	core.Parallel(len(chunks), 16, func(k int) {
		if len(chunks[k]) == 0 {
			return
		}
		ans, crashes := core.RunWorker("", nil, 3*time.Minute, r.self, []string{"worker"}, chunks[k])
		mu.Lock()
		defer mu.Unlock()
		for id, raw := range ans {
			var a scanAns
			_ = json.Unmarshal(raw, &a)
			var key string
			var ci int
			parts := strings.Split(id, "/")
			key = parts[0]
			fmt.Sscan(parts[1], &ci)
			byKey[key].scan[ci] = a
		}
		for _, cr := range crashes {
			parts := strings.Split(cr.ID, "/")
			j := byKey[parts[0]]
			if j == nil {
				c.Inconclusive("scan worker crash without attributable request: %s", core.OneLine(cr.Output))
				continue
			}
			var ci int
			if len(parts) > 1 {
				fmt.Sscan(parts[1], &ci)
			}
			if cr.Killed {
				j.scan[ci] = scanAns{Err: "watchdog"}
				c.Inconclusive("scan watchdog on %s", j.label)
			} else {
				j.scan[ci] = scanAns{Panic: "fatal", Stack: cr.Output}
			}
		}
	})
	r.phase("scan")
	// marshal
	var mreqs []map[string]any
	for _, j := range jobs {
		mreqs = append(mreqs, map[string]any{"id": j.key, "op": "marshal", "type": j.key, "seed": r.seed, "n": r.nvals})
	}
	r.driver(drvBin, mreqs, func(id string, raw json.RawMessage) {
		var a struct {
			Err    string
			Values []drvValue
		}
		_ = json.Unmarshal(raw, &a)
		if a.Err != "" {
			c.Inconclusive("typedrv: %s: %s", id, a.Err)
		}
		byKey[id].vals = a.Values
	})
	r.phase("marshal")
	// judge the marshal direction, collect instances for the unmarshal direction
	type instReq struct {
		j      *job
		ci     int
		docs   []string
		shapes []string
	}
	var ireqs []*instReq
	var imu sync.Mutex
	core.Parallel(len(jobs), 16, func(i int) {
		j := jobs[i]
		if j.unencodable() {
			for ci, cfg := range configs {
				if sa := j.scan[ci]; sa.Panic != "" {
					r.count("scan_panics", 1)
					c.Note("scanner crashed on %s (%s): %s at %s — not judged here, C17 owns crashes", j.label, cfg, core.OneLine(sa.Panic), site(sa.Stack))
				}
			}
			return
		}
		for ci, cfg := range configs {
			sa := j.scan[ci]
			switch {
			case sa.Panic != "":
				j.scanFailed = true
				r.count("scan_panics", 1)
				c.Note("scanner crashed on %s (%s): %s at %s — not judged here, C17 owns crashes", j.label, cfg, core.OneLine(sa.Panic), site(sa.Stack))
				continue
			case sa.Err != "":
				j.scanFailed = true
				r.count("scan_errors", 1)
				if ci == 0 {
					c.Note("scan error on %s: %s", j.label, core.OneLine(sa.Err))
				}
				continue
			}
			doc, err := oracle.LoadDoc([]byte(sa.Spec))
			tree, err2 := jx.Parse([]byte(sa.Spec))
			if err != nil || err2 != nil {
				c.Inconclusive("scanned document of %s unreadable", j.label)
				continue
			}
			defs := jx.GetJ(tree, "definitions")
			defM, ok := doc.Sw.Definitions["M"]
			mj, _ := defs["M"].(map[string]any)
			if !ok || mj == nil {
				j.scanFailed = true
				r.count("no_definition", 1)
				c.Note("no definition M scanned for %s (%s)", j.label, cfg)
				continue
			}
			g := &schemaCtx{defs: defs, unspecified: map[string]int{}}
			files := func() map[string]string {
				return map[string]string{"model.go": j.src, "spec." + cfg + ".json": string(jx.Marshal(tree)),
					"meta.json": metaJSON(j, r), "repro.sh": reproSh(cfg)}
			}
			seenMarshal := false
			for _, v := range j.vals {
				if v.Err != "" {
					r.count("values_not_encodable", 1)
					continue
				}
				if ci == 0 && hasNull(v.Nulls, "field.ptr") {
					r.count("values_skipped_nil_pointer_field_default_config", 1)
					continue
				}
				data, err := jx.Parse([]byte(v.JSON))
				if err != nil {
					c.Inconclusive("driver produced unparsable JSON for %s", j.label)
					continue
				}
				data = g.stripNullable(mj, data, 0)
				big := false
				errs := doc.ValidateSchema(&defM, plainNumbers(data, &big))
				if gap := oracleGap(errs, big); gap != "" {
					r.count("values_unspecified_"+gap, 1)
					errs = nil // only the format ranges are judged on this value
				}
				g.formatRange(mj, data, "M", 0, &errs)
				if len(errs) > 0 && strings.HasPrefix(errs[0], "oracle-panic") {
					r.count("oracle_panics", 1)
					c.Note("reference validator panicked on %s: %s", j.label, errs[0])
					continue
				}
				j.judged++
				c.Eval(r.sig(j, cfg, v.Mode+nullClass(v.Nulls)))
				if len(errs) > 0 && !seenMarshal {
					seenMarshal = true
					f := files()
					f["value.json"] = v.JSON + "\n"
					f["errors.txt"] = strings.Join(errs, "\n") + "\n"
					j.fails = append(j.fails, failure{sub: "marshal-invalid", config: cfg,
						what: fmt.Sprintf("json.Marshal of a %s value of the model (%s) is rejected by the scanned definition (%s scan): %s ; value %s", v.Mode+nullClass(v.Nulls), j.label, cfg, core.OneLine(strings.Join(errs, " ; ")), clip(v.JSON, 160)), files: f})
				}
				if ci == 0 && v.Mode == "full" {
					var absent []string
					g.declaredAbsent(mj, data, "M", 0, &absent)
					if len(absent) > 0 {
						f := files()
						f["value.json"] = v.JSON + "\n"
						j.fails = append(j.fails, failure{sub: "name-absent", config: "",
							what: fmt.Sprintf("the definition of %s declares properties that never occur in Go's encoding of a fully populated value: %s ; value %s", j.label, rxRefMark.ReplaceAllString(strings.Join(absent, ", "), ""), clip(v.JSON, 160)), files: f})
					}
				}
			}
			// instances for the reverse direction
			cands := g.candidates(mj, 0)
			ir := &instReq{j: j, ci: ci}
			for _, inst := range cands {
				b := []byte(jx.Compact(inst))
				chk, _ := jx.Parse(b)
				chk = g.stripNullable(mj, chk, 0)
				big := false
				if errs := doc.ValidateSchema(&defM, plainNumbers(chk, &big)); len(errs) > 0 {
					r.count("instances_dropped_not_valid_per_reference", 1)
					continue
				}
				ir.docs = append(ir.docs, string(b))
			}
			r.mu.Lock()
			for k, n := range g.unspecified {
				r.unspec[k] += n
			}
			r.mu.Unlock()
			if len(ir.docs) > 0 {
				imu.Lock()
				ireqs = append(ireqs, ir)
				imu.Unlock()
			}
		}
	})
	r.phase("judge")
	// unmarshal direction
	var ureqs []map[string]any
	irByID := map[string]*instReq{}
	for _, ir := range ireqs {
		id := fmt.Sprintf("%s/%d", ir.j.key, ir.ci)
		irByID[id] = ir
		ureqs = append(ureqs, map[string]any{"id": id, "op": "unmarshal", "type": ir.j.key, "docs": ir.docs})
	}
	r.driver(drvBin, ureqs, func(id string, raw json.RawMessage) {
		var a struct{ Errors []string }
		_ = json.Unmarshal(raw, &a)
		ir := irByID[id]
		cfg := configs[ir.ci]
		reported := false
		for k, e := range a.Errors {
			if k >= len(ir.docs) {
				break
			}
			ir.j.judged++
			c.Eval(r.sig(ir.j, cfg, "unmarshal"))
			if e != "" && !reported {
				reported = true
				tree, _ := jx.Parse([]byte(ir.j.scan[ir.ci].Spec))
				ir.j.fails = append(ir.j.fails, failure{sub: "unmarshal-rejects", config: cfg,
					what: fmt.Sprintf("a document valid for the scanned definition of %s (%s scan) does not decode into the type: %s ; document %s", ir.j.label, cfg, core.OneLine(e), clip(ir.docs[k], 160)),
					files: map[string]string{"model.go": ir.j.src, "spec." + cfg + ".json": string(jx.Marshal(tree)), "instance.json": ir.docs[k] + "\n",
						"errors.txt": e + "\n", "meta.json": metaJSON(ir.j, r), "repro.sh": reproSh(cfg)}})
			}
		}
	})
}

func (r *runner) driver(bin string, reqs []map[string]any, on func(id string, raw json.RawMessage)) {
	if len(reqs) == 0 {
		return
	}
	chunks := chunk(reqs, 8)
	var mu sync.Mutex
	core.Parallel(len(chunks), 8, func(k int) {
		if len(chunks[k]) == 0 {
			return
		}
		ans, crashes := core.RunWorker("", nil, 2*time.Minute, bin, nil, chunks[k])
		mu.Lock()
		defer mu.Unlock()
		for id, raw := range ans {
			on(id, raw)
		}
		for _, cr := range crashes {
			r.c.Inconclusive("typedrv died on %s: %s", cr.ID, core.OneLine(cr.Output))
		}
	})
}

func (r *runner) sig(j *job, cfg, class string) string {
	if r.passA {
		return j.label + "|" + cfg + "|" + class
	}
	return "B|" + cfg + "|" + class
}

// plainNumbers turns json.Number into int64 / float64, the representations the
// reference validator handles (a json.Number is of Kind String and trips its string
// validator at untyped positions). big reports an integer literal beyond int64, which
// the validator cannot tell from a float.
func plainNumbers(v any, big *bool) any {
	switch t := v.(type) {
	case json.Number:
		if i, err := t.Int64(); err == nil {
			return i
		}
		f, err := t.Float64()
		if err != nil {
			return v
		}
		if !strings.ContainsAny(string(t), ".eE") {
			*big = true
		}
		return f
	case map[string]any:
		o := make(map[string]any, len(t))
		for k, x := range t {
			o[k] = plainNumbers(x, big)
		}
		return o
	case []any:
		o := make([]any, len(t))
		for i, x := range t {
			o[i] = plainNumbers(x, big)
		}
		return o
	}
	return v
}

var rxBigInt = regexp.MustCompile(`must be of type u?int(64)?: "float64"`)

// oracleGap names known gaps of the reference validator that must not be read as
// defects of the scanner.
func oracleGap(errs []string, big bool) string {
	for _, e := range errs {
		switch {
		case strings.Contains(e, "must be of type byte: \"\""):
			return "empty_string_for_format_byte"
		case strings.Contains(e, "invalid type conversion"), big && rxBigInt.MatchString(e):
			return "integer_beyond_validator_range"
		}
	}
	return ""
}

func hasNull(ns []string, k string) bool {
	for _, n := range ns {
		if n == k {
			return true
		}
	}
	return false
}

func nullClass(ns []string) string {
	if len(ns) == 0 {
		return ""
	}
	return "+null@" + strings.Join(ns, ",")
}

func clip(s string, n int) string {
	if len(s) > n {
		return s[:n] + "…"
	}
	return s
}

var rxRefMark = regexp.MustCompile(`<[^>]*>`)

var rxFrame = regexp.MustCompile(`go-swagger/codescan\.([A-Za-z0-9_.()*]+)\(`)

func site(stack string) string {
	for _, m := range rxFrame.FindAllStringSubmatch(stack, -1) {
		return "codescan." + strings.NewReplacer("(*", "", ")", "", "*", "").Replace(m[1])
	}
	return "unknown"
}

func metaJSON(j *job, r *runner) string {
	b, _ := json.MarshalIndent(map[string]any{"label": j.label, "enums": j.enums, "seed": r.seed, "n": r.nvals, "atoms": j.comp.AtomIDs()}, "", " ")
	return string(b) + "\n"
}

func reproSh(cfg string) string {
	flag := ""
	if cfg == "nullable" {
		flag = " -n"
	}
	return "#!/bin/sh\n# Prints the scanned definitions of model.go; compare definitions.M with value.json / instance.json,\n# or run: /verif/check C16 --replay <this directory>\nset -e\nd=$(mktemp -d); trap 'rm -rf \"$d\"' EXIT\nmkdir -p \"$d/m\"; cp \"$(dirname \"$0\")/model.go\" \"$d/m/\"\nsed -i 's/^package .*/package m/' \"$d/m/model.go\"\nprintf 'module vfrepro\\n\\ngo 1.21\\n' > \"$d/go.mod\"\ncd \"$d\" && ${SWAGGER:-swagger} generate spec -m" + flag + " -w . ./m\n"
}

func (j *job) source() (string, [][]string) {
	if replaySource != nil {
		return replaySource.src, replaySource.enums
	}
	return j.comp.Source(j.key)
}

func (j *job) unencodable() bool {
	for _, l := range j.comp.Leaves() {
		if l.Atom.Unencodable {
			return true
		}
	}
	return false
}

func newJob(key, label string, comp *gogen.Composite) *job {
	return &job{key: key, label: label, comp: comp}
}

func main() {
	if len(os.Args) > 1 && os.Args[1] == "worker" {
		core.ServeWorker(scanHandle)
		return
	}
	c := core.New("C16")
	self, _ := os.Executable()
	r := &runner{c: c, self: self, nvals: c.Pick(30, 100), seed: 1, counts: map[string]int{}, unspec: map[string]int{}, phases: map[string]float64{}, last: time.Now()}
	r.mod = c.NewModule("c16")
	if c.Replay != "" {
		replay(c, r)
		return
	}
	atoms := gogen.Catalogue()
	var fixedChild *gogen.Atom
	byID := map[string]*gogen.Atom{}
	for _, a := range atoms {
		byID[a.ID] = a
	}
	fixedChild = byID["basic.int"]

	// ---- pass A: every atom alone
	r.passA = true
	var jobsA []*job
	for i, a := range atoms {
		jobsA = append(jobsA, newJob(fmt.Sprintf("a%03d", i), a.ID, gogen.Single(a, fixedChild)))
	}
	r.run("pa", jobsA)
	var leaves, wraps []*gogen.Atom
	heldN := 0
	for i, j := range jobsA {
		a := atoms[i]
		for _, f := range j.fails {
			key := "C16/kind=" + a.ID + "/" + f.sub
			if f.config != "" {
				key += "/" + f.config
			}
			c.Violation(key, f.what, f.files)
		}
		if len(j.fails) == 0 && j.judged > 0 && len(c16Samples) < 8 && i%23 == 0 {
			c16Samples = append(c16Samples, a.ID)
			c.Sample(map[string]any{"atom": a.ID, "verdict": "held", "judged": j.judged, "definition": defExcerpt(j)})
		}
		if a.Unencodable {
			r.count("atoms_not_encodable_not_judged", 1)
			continue
		}
		if len(j.fails) > 0 || j.scanFailed || j.judged == 0 {
			continue
		}
		heldN++
		if a.NoCompose && os.Getenv("VF_C16_B_ALL") == "" {
			continue
		}
		if a.Wrap != "" {
			wraps = append(wraps, a)
		} else {
			leaves = append(leaves, a)
		}
	}
	if os.Getenv("VF_C16_B_ALL") != "" { // development aid: exercise the shrinker
		leaves = leaves[:0]
		for _, a := range atoms {
			if a.Wrap == "" && !a.Unencodable && !a.NoCompose {
				leaves = append(leaves, a)
			}
		}
	}
	c.Extra["atoms"] = len(atoms)
	c.Extra["atoms_held_in_pass_A"] = heldN

	// ---- pass B: seeded composites of atoms that held
	r.passA = false
	r.seed = c.Seed
	rng := rand.New(rand.NewSource(c.Seed))
	nB := c.Pick(60, 600)
	var jobsB []*job
	if len(leaves) > 0 {
		for k := 0; k < nB; k++ {
			comp := gogen.Compose(rng, leaves, wraps, 5+rng.Intn(11), 3)
			jobsB = append(jobsB, newJob(fmt.Sprintf("b%04d", k), fmt.Sprintf("composite#%d", k), comp))
		}
	}
	r.run("pb", jobsB)
	shrinkAndReport(c, r, jobsB)

	r.phase("unmarshal")
	c.Extra["phase_seconds"] = r.phases
	c.Extra["counts"] = r.counts
	c.Extra["unspecified"] = r.unspec
	c.Finish("pass A: every field-kind atom alone in a swagger:model struct, scanned by codescan.Run (child worker) with default options and with SetXNullableForPointers; a reflect-based driver compiled with the same package marshals seeded values (zero, empty, full, min, max, random; nil containers only for the nil.* atoms) and each encoding is validated against the scanned definition by go-openapi/validate ($refs resolved in the scanned document, x-nullable nulls treated as absent); instances built from the scanned definition and accepted by the reference validator are json.Unmarshal-ed into the type; declared property names must occur in the encoding of a fully populated value. pass B: seeded structs of 5-15 fields, depth <= 3, of atoms that held. distinct = (atom | pass, scan configuration, value class)",
		c.Pick(4000, 20000), 300, []string{
			"go-openapi/validate v0.24.0 decides validity; x-nullable implemented by the wrapper as 'null is absent'",
			"default-options scan: values with a nil pointer field without omitempty are not judged",
			"enum-typed positions only take the declared constants; strfmt atoms use formats every string satisfies",
			"types encoding/json cannot marshal and scans that return an error or crash are counted, not judged (crashes belong to C17)",
			"instances: integers within the range of the Go type named by the format, strings shaped by the format",
		})
}

var c16Samples []string

func defExcerpt(j *job) any {
	t, err := jx.Parse([]byte(j.scan[0].Spec))
	if err != nil {
		return nil
	}
	return jx.GetJ(t, "definitions", "M", "properties")
}

// shrinkAndReport minimises failing composites over their leaves (bounded greedy
// delta debugging, batched) and reports them keyed by the remaining atom set.
func shrinkAndReport(c *core.Ctx, r *runner, jobs []*job) {
	type target struct {
		orig *job
		cur  *gogen.Composite
		f    failure
		done bool
	}
	var ts []*target
	for _, j := range jobs {
		seen := map[string]bool{}
		for _, f := range j.fails {
			k := f.sub + "/" + f.config
			if seen[k] {
				continue
			}
			seen[k] = true
			ts = append(ts, &target{orig: j, cur: j.comp, f: f})
		}
	}
	if len(ts) > 12 {
		c.Note("%d failing composites; shrinking the first 12 only", len(ts))
		for _, t := range ts[12:] {
			t.done = true
		}
	}
	has := func(j *job, f failure) *failure {
		for i := range j.fails {
			if j.fails[i].sub == f.sub && j.fails[i].config == f.config {
				return &j.fails[i]
			}
		}
		return nil
	}
	for round := 0; round < 8; round++ {
		var batch []*job
		type cand struct {
			t    *target
			drop int // leaf idx removed, -1 = all removable
			j    *job
		}
		var cands []*cand
		for ti, t := range ts {
			if t.done || len(t.cur.Leaves()) <= 1 {
				t.done = true
				continue
			}
			for _, l := range t.cur.Leaves() {
				keep := map[int]bool{}
				for _, o := range t.cur.Leaves() {
					if o.Idx != l.Idx {
						keep[o.Idx] = true
					}
				}
				j := newJob(fmt.Sprintf("s%d_%d_%d", round, ti, l.Idx), t.orig.label, t.cur.Restrict(keep))
				cands = append(cands, &cand{t: t, drop: l.Idx, j: j})
				batch = append(batch, j)
			}
		}
		if len(batch) == 0 {
			break
		}
		r.run(fmt.Sprintf("sh%d", round), batch)
		removable := map[*target][]int{}
		first := map[*target]*cand{}
		for _, cd := range cands {
			if f := has(cd.j, cd.t.f); f != nil {
				removable[cd.t] = append(removable[cd.t], cd.drop)
				if first[cd.t] == nil {
					first[cd.t] = cd
				}
			}
		}
		// try removing all individually removable leaves at once
		var batch2 []*job
		joint := map[*target]*job{}
		for ti, t := range ts {
			if t.done {
				continue
			}
			rm := removable[t]
			if len(rm) == 0 {
				t.done = true
				continue
			}
			if len(rm) == 1 {
				continue
			}
			keep := map[int]bool{}
			for _, o := range t.cur.Leaves() {
				keep[o.Idx] = true
			}
			for _, i := range rm {
				delete(keep, i)
			}
			if len(keep) == 0 {
				continue
			}
			j := newJob(fmt.Sprintf("j%d_%d", round, ti), t.orig.label, t.cur.Restrict(keep))
			joint[t] = j
			batch2 = append(batch2, j)
		}
		r.run(fmt.Sprintf("sj%d", round), batch2)
		for _, t := range ts {
			if t.done {
				continue
			}
			if j := joint[t]; j != nil {
				if f := has(j, t.f); f != nil {
					t.cur, t.f = j.comp, *f
					continue
				}
			}
			if cd := first[t]; cd != nil {
				t.cur, t.f = cd.j.comp, *has(cd.j, t.f)
			}
		}
	}
	sort.Slice(ts, func(i, j int) bool { return ts[i].orig.key < ts[j].orig.key })
	for _, t := range ts {
		ids := t.cur.AtomIDs()
		key := "C16/kind=" + strings.Join(ids, "+") + "/" + t.f.sub
		if t.f.config != "" {
			key += "/" + t.f.config
		}
		c.Violation(key, "composite of atoms that held alone: "+t.f.what, t.f.files)
	}
}

func replay(c *core.Ctx, r *runner) {
	src, err := os.ReadFile(filepath.Join(c.Replay, "model.go"))
	core.Must(err)
	var meta struct {
		Enums [][]string
		Seed  int64
		N     int
	}
	mb, _ := os.ReadFile(filepath.Join(c.Replay, "meta.json"))
	_ = json.Unmarshal(mb, &meta)
	var vio struct{ Key string }
	vb, _ := os.ReadFile(filepath.Join(c.Replay, "violation.json"))
	_ = json.Unmarshal(vb, &vio)
	r.seed, r.nvals = meta.Seed, meta.N
	if r.nvals == 0 {
		r.nvals = 30
	}
	j := newJob("rp", "replay", &gogen.Composite{})
	rj := &replayJob{src: rxPkg.ReplaceAllString(string(src), "package rp"), enums: meta.Enums}
	replaySource = rj
	r.run("rp", []*job{j})
	c.Cleanup()
	hit := false
	for _, f := range j.fails {
		fmt.Printf("%s %s: %s\n", f.sub, f.config, f.what)
		suffix := "/" + f.sub
		if f.config != "" {
			suffix += "/" + f.config
		}
		if vio.Key == "" || strings.HasSuffix(vio.Key, suffix) {
			hit = true
		}
	}
	if hit {
		fmt.Printf("VIOLATION property=C16 replay=%s\n", c.Replay)
		os.Exit(1)
	}
	fmt.Println("not reproduced")
	os.Exit(0)
}

var rxPkg = regexp.MustCompile(`(?m)^package \w+`)

type replayJob struct {
	src   string
	enums [][]string
}

var replaySource *replayJob
