package main

import (
	"encoding/json"
	"fmt"
	"math"
	"math/big"
	"strings"

	"verif/rig/jx"
)

// schemaCtx resolves $refs of a scanned document and builds simple instances that
// are valid for a scanned definition by construction (re-checked by the reference
// validator before use).
type schemaCtx struct {
	defs        jx.J
	unspecified map[string]int
}

func (g *schemaCtx) resolve(s jx.J) jx.J {
	for i := 0; i < 8 && s != nil; i++ {
		ref, ok := s["$ref"].(string)
		if !ok {
			return s
		}
		name := strings.TrimPrefix(ref, "#/definitions/")
		t, _ := g.defs[name].(map[string]any)
		if t == nil {
			return nil
		}
		s = t
	}
	return s
}

func nullable(s jx.J) bool {
	b, _ := s["x-nullable"].(bool)
	return b
}

func num(s string) json.Number { return json.Number(s) }

var intRange = map[string][3]string{ // min, max, mid
	"int8": {"-128", "127", "-5"}, "int16": {"-32768", "32767", "300"}, "int32": {"-2147483648", "2147483647", "70000"},
	"int64": {"-9223372036854775808", "9223372036854775807", "5000000000"}, "": {"-9007199254740991", "9007199254740991", "5000000000"},
	"uint8": {"0", "255", "200"}, "uint16": {"0", "65535", "40000"}, "uint32": {"0", "4294967295", "3000000000"},
	"uint64": {"0", "18446744073709551615", "10000000000000000000"},
}

var stringByFormat = map[string][]string{
	"date-time": {"2024-02-29T23:59:59.123Z", "1999-12-31T12:00:00+05:30"},
	"date":      {"2024-02-29"},
	"byte":      {"aGVsbG8=", ""},
	"uuid":      {"6ba7b810-9dad-11d1-80b4-00c04fd430c8"},
	"email":     {"user@example.com"},
	"uri":       {"http://example.com/x"},
	"hostname":  {"example.com"},
	"ipv4":      {"192.0.2.1"},
	"duration":  {"3h"},
	"float":     {"1.5", "0"},
	"double":    {"1.5", "-2e10"},
}

// candidates returns a few instances valid for s (nil slice: nothing can be built).
func (g *schemaCtx) candidates(s jx.J, depth int) []any {
	if s == nil {
		return []any{jx.J{}}
	}
	raw := s
	s = g.resolve(s)
	if s == nil {
		g.unspecified["unresolved-ref"]++
		return nil
	}
	_ = raw
	if depth > 5 {
		return nil
	}
	if en, ok := s["enum"].([]any); ok && len(en) > 0 {
		return en
	}
	typ, _ := s["type"].(string)
	format, _ := s["format"].(string)
	_, hasProps := s["properties"]
	_, hasAllOf := s["allOf"]
	if typ == "" && (hasProps || hasAllOf) {
		typ = "object"
	}
	switch typ {
	case "integer":
		r, ok := intRange[format]
		if !ok {
			g.unspecified["integer-format:"+format]++
			return []any{num("0"), num("1")}
		}
		out := []any{num("0"), num("1"), num(r[1]), num(r[0]), num(r[2])}
		return out
	case "number":
		if format == "float" {
			return []any{num("0"), num("1.5"), num("-3.25e10"), num("3.4e38"), num("7")}
		}
		return []any{num("0"), num("1.5"), num("-1e300"), num("1e-300"), num("7")}
	case "boolean":
		return []any{true, false}
	case "string":
		if r, ok := intRange[format]; ok && format != "" {
			return []any{"0", r[1], r[0]}
		}
		if c, ok := stringByFormat[format]; ok {
			out := make([]any, len(c))
			for i, x := range c {
				out[i] = x
			}
			return out
		}
		return []any{"abc", "", "ünï ✓\n\"q\""}
	case "array":
		items, _ := s["items"].(map[string]any)
		var ic []any
		if items != nil {
			ic = g.candidates(items, depth+1)
			if ic == nil {
				return []any{jx.A{}}
			}
		} else {
			ic = []any{"x", num("1")}
		}
		out := []any{jx.A{ic[0]}, jx.A{}}
		if len(ic) > 1 {
			all := jx.A{}
			for _, x := range ic {
				all = append(all, x)
			}
			out = append(out, all)
		}
		if items != nil && nullable(items) {
			out = append(out, jx.A{nil})
		}
		return out
	case "object":
		return g.objects(s, depth)
	case "":
		// an untyped position accepts every JSON value: one candidate of each kind (a Go type that
		// decodes only some of them is not described by an empty schema)
		if len(s) == 0 || onlyAnnotations(s) {
			g.unspecified["untyped-position-probed"]++
			return []any{num("7"), "abc", true, jx.A{num("1.5")}, jx.J{"red": "two"}}
		}
		g.unspecified["untyped-position"]++
		return nil
	default:
		g.unspecified["type:"+typ]++
		return nil
	}
}

// objects builds object instances: k-th candidate of every property for k = 0..2,
// the empty (required-only) object, additionalProperties members, x-nullable nulls.
func (g *schemaCtx) objects(s jx.J, depth int) []any {
	props := jx.J{}
	required := map[string]bool{}
	var addl jx.J
	hasAddl := false
	var collect func(s jx.J, d int)
	collect = func(s jx.J, d int) {
		s = g.resolve(s)
		if s == nil || d > 6 {
			return
		}
		if ps, ok := s["properties"].(map[string]any); ok {
			for k, v := range ps {
				if m, ok := v.(map[string]any); ok {
					props[k] = m
				}
			}
		}
		if rq, ok := s["required"].([]any); ok {
			for _, r := range rq {
				if rs, ok := r.(string); ok {
					required[rs] = true
				}
			}
		}
		if ap, ok := s["additionalProperties"].(map[string]any); ok {
			addl, hasAddl = ap, true
		}
		if ao, ok := s["allOf"].([]any); ok {
			for _, m := range ao {
				if mm, ok := m.(map[string]any); ok {
					collect(mm, d+1)
				}
			}
		}
	}
	collect(s, 0)
	cands := map[string][]any{}
	names := jx.Keys(props)
	for _, n := range names {
		cands[n] = g.candidates(props[n].(map[string]any), depth+1)
	}
	var out []any
	maxK := 1
	for _, c := range cands {
		if len(c) > maxK {
			maxK = len(c)
		}
	}
	if maxK > 5 {
		maxK = 5
	}
	for k := 0; k < maxK; k++ {
		o := jx.J{}
		for _, n := range names {
			c := cands[n]
			if len(c) == 0 {
				continue // nothing constructible: leave the property out unless required
			}
			o[n] = jx.Clone(c[k%len(c)])
		}
		out = append(out, o)
	}
	// required-only
	o := jx.J{}
	ok := true
	for n := range required {
		c := cands[n]
		if len(c) == 0 {
			if _, declared := props[n]; declared {
				ok = false
			} else {
				o[n] = "x"
			}
			continue
		}
		o[n] = jx.Clone(c[0])
	}
	if ok {
		out = append(out, o)
	}
	// nulls at x-nullable properties
	nn := jx.J{}
	anyNull := false
	for _, n := range names {
		if nullable(props[n].(map[string]any)) {
			nn[n] = nil
			anyNull = true
		} else if required[n] && len(cands[n]) > 0 {
			nn[n] = jx.Clone(cands[n][0])
		}
	}
	if anyNull {
		out = append(out, nn)
	}
	if hasAddl {
		ac := g.candidates(addl, depth+1)
		if len(ac) > 0 {
			base := jx.J{}
			if len(out) > 0 {
				base = jx.CloneJ(out[0].(jx.J))
			}
			for i, x := range ac {
				if i >= 3 {
					break
				}
				base[fmt.Sprintf("extra%d", i)] = jx.Clone(x)
			}
			out = append(out, base)
		}
	} else if len(names) == 0 {
		out = append(out, jx.J{"k": "v", "n": num("1")})
	}
	return out
}

// stripNullable implements go-swagger's documented meaning of x-nullable for the
// reference validator, which does not know the extension: a null at a position
// whose schema carries x-nullable: true is treated as absent.
func (g *schemaCtx) stripNullable(s jx.J, data any, depth int) any {
	if s == nil || depth > 12 {
		return data
	}
	outer := s
	s = g.resolve(s)
	if s == nil {
		return data
	}
	_ = outer
	switch d := data.(type) {
	case map[string]any:
		var walk func(s jx.J, n int)
		walk = func(s jx.J, n int) {
			s = g.resolve(s)
			if s == nil || n > 6 {
				return
			}
			if ps, ok := s["properties"].(map[string]any); ok {
				for k, pv := range ps {
					p, _ := pv.(map[string]any)
					v, present := d[k]
					if !present || p == nil {
						continue
					}
					if v == nil && (nullable(p) || nullable(orEmpty(g.resolve(p)))) {
						delete(d, k)
						continue
					}
					d[k] = g.stripNullable(p, v, depth+1)
				}
			}
			if ap, ok := s["additionalProperties"].(map[string]any); ok {
				declared, _ := s["properties"].(map[string]any)
				for k, v := range d {
					if _, isProp := declared[k]; isProp {
						continue
					}
					if v == nil && nullable(ap) {
						delete(d, k)
						continue
					}
					d[k] = g.stripNullable(ap, v, depth+1)
				}
			}
			if ao, ok := s["allOf"].([]any); ok {
				for _, m := range ao {
					if mm, ok := m.(map[string]any); ok {
						walk(mm, n+1)
					}
				}
			}
		}
		walk(s, 0)
		return d
	case []any:
		items, _ := s["items"].(map[string]any)
		if items == nil {
			return d
		}
		out := d[:0:0]
		for _, v := range d {
			if v == nil && nullable(items) {
				continue
			}
			out = append(out, g.stripNullable(items, v, depth+1))
		}
		return out
	}
	return data
}

func orEmpty(m jx.J) jx.J {
	if m == nil {
		return jx.J{}
	}
	return m
}

// declaredAbsent lists declared property paths that do not occur in the encoding of
// a fully populated value.
func (g *schemaCtx) declaredAbsent(s jx.J, data any, path string, depth int, out *[]string) {
	if ref, ok := s["$ref"].(string); ok {
		// a definition already on the path is a recursive type: the driver's filler
		// stops there, so absence below proves nothing
		if strings.Contains(path, "<"+ref+">") {
			return
		}
		path += "<" + ref + ">"
	}
	s = g.resolve(s)
	if s == nil || depth > 8 {
		return
	}
	switch d := data.(type) {
	case map[string]any:
		var walk func(s jx.J, n int)
		walk = func(s jx.J, n int) {
			s = g.resolve(s)
			if s == nil || n > 6 {
				return
			}
			if ps, ok := s["properties"].(map[string]any); ok {
				for _, k := range jx.Keys(ps) {
					p, _ := ps[k].(map[string]any)
					v, present := d[k]
					if !present {
						*out = append(*out, path+"."+k)
						continue
					}
					g.declaredAbsent(p, v, path+"."+k, depth+1, out)
				}
			}
			if ap, ok := s["additionalProperties"].(map[string]any); ok {
				declared, _ := s["properties"].(map[string]any)
				for _, k := range jx.Keys(d) {
					if _, isProp := declared[k]; !isProp {
						g.declaredAbsent(ap, d[k], path+"{}", depth+1, out)
						break
					}
				}
			}
			if ao, ok := s["allOf"].([]any); ok {
				for _, m := range ao {
					if mm, ok := m.(map[string]any); ok {
						walk(mm, n+1)
					}
				}
			}
		}
		walk(s, 0)
	case []any:
		if items, _ := s["items"].(map[string]any); items != nil && len(d) > 0 {
			g.declaredAbsent(items, d[0], path+"[]", depth+1, out)
		}
	}
}

// formatRange adds what the reference validator does not enforce: an integer at a
// position whose schema names an integer format (Swagger 2.0 int32/int64, go-swagger's
// Go-named int8 … uint64) must lie in that format's range, a number at a "float"
// position in the float32 range.
func (g *schemaCtx) formatRange(s jx.J, data any, path string, depth int, out *[]string) {
	s = g.resolve(s)
	if s == nil || depth > 12 {
		return
	}
	typ, _ := s["type"].(string)
	format, _ := s["format"].(string)
	switch d := data.(type) {
	case json.Number:
		switch typ {
		case "integer":
			r, ok := intRange[format]
			if !ok || format == "" {
				return
			}
			v, okv := new(big.Int).SetString(string(d), 10)
			if !okv {
				return
			}
			lo, _ := new(big.Int).SetString(r[0], 10)
			hi, _ := new(big.Int).SetString(r[1], 10)
			if v.Cmp(lo) < 0 || v.Cmp(hi) > 0 {
				*out = append(*out, fmt.Sprintf("%s: integer %s is outside the range of format %s", path, d, format))
			}
		case "number":
			if format != "float" {
				return
			}
			f, err := d.Float64()
			if err == nil && math.IsInf(float64(float32(f)), 0) {
				*out = append(*out, fmt.Sprintf("%s: number %s is outside the range of format float", path, d))
			}
		}
	case map[string]any:
		var walk func(s jx.J, n int)
		walk = func(s jx.J, n int) {
			s = g.resolve(s)
			if s == nil || n > 6 {
				return
			}
			declared, _ := s["properties"].(map[string]any)
			for _, k := range jx.Keys(declared) {
				if p, _ := declared[k].(map[string]any); p != nil {
					if v, ok := d[k]; ok {
						g.formatRange(p, v, path+"."+k, depth+1, out)
					}
				}
			}
			if ap, ok := s["additionalProperties"].(map[string]any); ok {
				for _, k := range jx.Keys(d) {
					if _, isProp := declared[k]; !isProp {
						g.formatRange(ap, d[k], path+"."+k, depth+1, out)
					}
				}
			}
			if ao, ok := s["allOf"].([]any); ok {
				for _, m := range ao {
					if mm, ok := m.(map[string]any); ok {
						walk(mm, n+1)
					}
				}
			}
		}
		walk(s, 0)
	case []any:
		if items, _ := s["items"].(map[string]any); items != nil {
			for i, v := range d {
				g.formatRange(items, v, fmt.Sprintf("%s.%d", path, i), depth+1, out)
			}
		}
	}
}

// onlyAnnotations: the schema has no validation keyword at all (description, title, x-* only).
func onlyAnnotations(s jx.J) bool {
	for k := range s {
		switch {
		case k == "description" || k == "title" || k == "example" || k == "readOnly" || k == "default" || strings.HasPrefix(k, "x-"):
		default:
			return false
		}
	}
	return true
}
