package main

import (
	"bytes"
	"crypto/sha256"
	"encoding/hex"
	"encoding/json"
	"fmt"
	"math/rand"
	"os"
	"path/filepath"
	"regexp"
	"sort"
	"strings"
	"sync"
	"sync/atomic"
	"time"

	"github.com/go-openapi/loads"
	"github.com/go-openapi/swag"

	"verif/rig/core"
	"verif/rig/jx"
	"verif/rig/yamlgen"
)

// loadRaw reads a document with the reference loader and returns its untyped
// JSON form (what every go-swagger command starts from).
func loadRaw(path string) (tree any, err error) {
	_, tree, err = loadRawBytes(path)
	return tree, err
}

func loadRawBytes(path string) (raw []byte, tree any, err error) {
	defer func() {
		if r := recover(); r != nil {
			err = fmt.Errorf("loader panic: %v", r)
		}
	}()
	d, err := loads.Spec(path)
	if err != nil {
		return nil, nil, err
	}
	raw = d.Raw()
	tree, err = jx.Parse(raw)
	return raw, tree, err
}

// sameJSONText: the same JSON text up to insignificant white space (same key
// order, number literals and string escapes).
func sameJSONText(a, b []byte) bool {
	var ca, cb bytes.Buffer
	if json.Compact(&ca, a) != nil || json.Compact(&cb, b) != nil {
		return false
	}
	return bytes.Equal(ca.Bytes(), cb.Bytes())
}

// yamlDoc is the document reader go-openapi/loads uses for .yml/.yaml files.
func yamlDoc(path string) (raw json.RawMessage, err error) {
	defer func() {
		if r := recover(); r != nil {
			err = fmt.Errorf("reader panic: %v", r)
		}
	}()
	return swag.YAMLDoc(path)
}

var yamlStyles = []string{"v3", "dq", "plain"}

func styleExt(st string) string {
	switch st {
	case "json":
		return ".json"
	case "dq":
		return ".dq.yaml"
	}
	return "." + st + ".yml"
}

// renderDoc writes base.json and the YAML renderings of tree that the reference
// loader reads back JSON-equal; it returns style → path. For every kept YAML
// style st, "json~st" is the JSON rendering to compare it with on the input
// half: the same JSON text as the reference loader makes of the YAML file (key
// order, number literals, string escapes - generate server copies the loader's
// raw text into embedded_spec.go), which is base.json itself whenever that
// already holds.
func renderDoc(base string, tree jx.J, styles []string) map[string]string {
	out := map[string]string{}
	pj := base + ".json"
	mustWrite(pj, jx.Marshal(tree))
	out["json"] = pj
	refRaw, ref, err := loadRawBytes(pj)
	if err != nil {
		return out
	}
	for _, st := range styles {
		var b []byte
		var err error
		switch st {
		case "v3":
			b, err = jx.ToYAML(tree)
		case "dq":
			b = yamlgen.DoubleQuoted(tree)
		case "plain":
			b, err = yamlgen.Plain(tree)
		}
		if err != nil {
			stat("yaml_rendering_discarded_"+st, 1)
			continue
		}
		p := base + styleExt(st)
		mustWrite(p, b)
		raw, got, err := loadRawBytes(p)
		if err != nil || !jx.Equal(ref, got) {
			stat("yaml_rendering_discarded_"+st, 1)
			_ = os.Remove(p)
			continue
		}
		stat("yaml_rendering_kept_"+st, 1)
		out[st] = p
		out["json~"+st] = pj
		if !sameJSONText(raw, refRaw) {
			// key order, number literals or string escapes differ (yaml.v3 sorts keys naturally,
			// YAML numbers come back as float64, the loader escapes < > &): the JSON side of the
			// comparison is re-rendered
			var buf bytes.Buffer
			if json.Indent(&buf, raw, "", " ") == nil {
				pc := base + "." + st + ".json"
				mustWrite(pc, append(buf.Bytes(), '\n'))
				out["json~"+st] = pc
				stat("json_rendering_reordered_for_"+st, 1)
			}
		}
	}
	return out
}

// fixed documents: mixin primary, second mixin, old side of the diff
var fixed = map[string]map[string]string{}

func setupFixed() {
	dir := filepath.Join(C.Scratch, "fixed")
	pri := skeleton("Pri")
	pri["info"].(map[string]any)["title"] = "primary"
	mx := skeleton("Mx")
	delete(mx, "info")
	mx["info"] = jx.J{"title": "mixin two", "version": "2"}
	old := skeleton("")
	docs := map[string]jx.J{"pri": pri, "mx": mx, "old": old}
	var paths []string
	var names []string
	for _, n := range jx.Keys(docs) {
		fixed[n] = renderDoc(filepath.Join(dir, n), docs[n], yamlStyles)
		if len(fixed[n]) != 1+2*len(yamlStyles) {
			C.Inconclusive("fixed document %s lost a rendering", n)
		}
		paths = append(paths, fixed[n]["json"])
		names = append(names, n)
	}
	for i, why := range validateFiles(paths) {
		if why != "" {
			C.Inconclusive("fixed document %s rejected: %s", names[i], why)
		}
	}
}

func buildDoc(pfx string, places []placement) jx.J {
	doc := skeleton(pfx)
	for _, p := range places {
		place(doc, pfx, p.scalars(), p.Pos)
	}
	return doc
}

// ---------------------------------------------------------------------------

var rxAddr = regexp.MustCompile(`\+?0x[0-9a-f]+\??`)
var rxGoroutine = regexp.MustCompile(`goroutine \d+`)
var rxStamp = regexp.MustCompile(`(?m)^\d{4}/\d\d/\d\d \d\d:\d\d:\d\d `)

type runRes struct {
	Exit     int
	Stdout   string
	Stderr   string // normalised
	Out      []byte // output file, nil when absent
	TimedOut bool
	Cmdline  string
}

// normaliser for log text: timestamps and scratch paths
func normLog(s string, maskDirs ...string) string {
	s = rxStamp.ReplaceAllString(s, "")
	s = rxAddr.ReplaceAllString(s, "0x?")
	s = rxGoroutine.ReplaceAllString(s, "goroutine N")
	for _, d := range maskDirs {
		if d == "" {
			continue
		}
		rx := regexp.MustCompile(regexp.QuoteMeta(d) + `[^\s"':,)\]]*`)
		s = rx.ReplaceAllString(s, "<W>")
	}
	return s
}

var cliRuns int64

// children get fewer scheduler threads than cores: 16 of them run side by side
// (set in main after core.New, which points TMPDIR into the scratch directory)
var childEnv []string

func runSwagger(dir string, out string, args ...string) runRes {
	atomic.AddInt64(&cliRuns, 1)
	t0 := time.Now()
	r := core.Run(dir, childEnv, 3*time.Minute, "", swagger, args...)
	name := args[0]
	if name == "generate" || name == "init" {
		name += "_" + args[1]
	}
	stat("cli_runs_"+name, 1)
	stat("cli_ms_"+name, int(time.Since(t0).Milliseconds()))
	res := runRes{Exit: r.Exit, Stdout: r.Stdout, Stderr: r.Stderr, TimedOut: r.TimedOut, Cmdline: "swagger " + strings.Join(args, " ")}
	if out != "" {
		if b, err := os.ReadFile(out); err == nil {
			res.Out = b
		}
	}
	return res
}

// specRunner memoises the command runs of one case.
type specRunner struct {
	cs    caseT
	dir   string
	docs  []map[string]string // per doc: style → path
	trees []jx.J
	memo  map[string]runRes
	mod   *core.Module
}

func (sr *specRunner) inputs(cmd, st string) []string {
	switch cmd {
	case "mixin":
		in := []string{fixed["pri"][st], sr.docs[0][st]}
		for _, d := range sr.docs[1:] {
			in = append(in, d[st])
		}
		return append(in, fixed["mx"][st])
	case "mixin-as-primary":
		return []string{sr.docs[0][st], fixed["pri"][st], fixed["mx"][st]}
	case "diff":
		return []string{fixed["old"][st], sr.docs[0][st]}
	case "diff-rev":
		return []string{sr.docs[0][st], fixed["old"][st]}
	}
	return []string{sr.docs[0][st]}
}

// run executes cmd on the st rendering; variant is "json", "json-compact",
// "yaml", "yaml-compact" for emitting commands, "txt"/"json" for diff, "" else.
func (sr *specRunner) run(cmd, st, variant string) runRes {
	in := sr.inputs(cmd, st)
	k := cmd + "|" + variant + "|" + strings.Join(in, "|")
	if r, ok := sr.memo[k]; ok {
		return r
	}
	var args []string
	out := ""
	base := strings.TrimSuffix(cmd, "-as-primary")
	base = strings.TrimSuffix(base, "-rev")
	switch base {
	case "flatten", "expand", "mixin":
		ext := ".json"
		if strings.HasPrefix(variant, "yaml") {
			ext = ".yml"
		}
		out = filepath.Join(sr.dir, "out", fmt.Sprintf("%s.%s.%s%s", cmd, st, variant, ext))
		_ = os.MkdirAll(filepath.Dir(out), 0o755)
		args = append([]string{base}, in...)
		if strings.HasPrefix(variant, "yaml") {
			args = append(args, "--format", "yaml")
		}
		if strings.HasSuffix(variant, "-compact") {
			args = append(args, "--compact")
		}
		if base == "flatten" {
			args = append(args, sr.cs.Opts...)
		}
		args = append(args, "-o", out)
	case "validate":
		args = []string{"validate", in[0]}
	case "diff":
		args = append([]string{"diff"}, in...)
		if variant == "json" {
			args = append(args, "-f", "json")
		}
	}
	r := runSwagger("", out, args...)
	r.Stderr = normLog(r.Stderr, C.Scratch)
	r.Stdout = normLog(r.Stdout, C.Scratch)
	sr.memo[k] = r
	return r
}

// reproScript lists the commands run so far on the case, with the file names
// used in the replay directory.
func (sr *specRunner) reproScript() string {
	var b strings.Builder
	b.WriteString("#!/bin/sh\n# usage: SWAGGER=/path/to/swagger ./repro.sh ; then compare the files under out/\n# (a YAML output is reloaded with e.g. `$S expand out/x.yml -o out/x.reloaded.json`)\ncd \"$(dirname \"$0\")\" && mkdir -p out\nS=${SWAGGER:-swagger}\n")
	var lines []string
	for _, r := range sr.memo {
		l := strings.TrimPrefix(r.Cmdline, "swagger ")
		l = strings.ReplaceAll(l, sr.dir+"/", "")
		l = strings.ReplaceAll(l, filepath.Join(C.Scratch, "fixed")+"/", "fixed/")
		lines = append(lines, "$S -q "+l)
	}
	sort.Strings(lines)
	b.WriteString(strings.Join(lines, "\n") + "\n")
	return b.String()
}

func hashTree(root string, mask func([]byte) []byte) (map[string]string, error) {
	out := map[string]string{}
	err := filepath.Walk(root, func(p string, info os.FileInfo, err error) error {
		if err != nil {
			return err
		}
		if info.IsDir() {
			return nil
		}
		b, err := os.ReadFile(p)
		if err != nil {
			return err
		}
		rel, _ := filepath.Rel(root, p)
		h := sha256.Sum256(mask(b))
		out[rel] = hex.EncodeToString(h[:8])
		return nil
	})
	return out, err
}

// generate runs `generate model|server` for the st rendering into the case's
// single target path and returns exit status and the hashed tree; the produced
// tree is moved aside afterwards so that the next run uses the same path.
func (sr *specRunner) generate(kind, st string) (runRes, map[string]string, string) {
	root := filepath.Join(sr.mod.Dir, sanitize(sr.cs.Name))
	target := filepath.Join(root, "target")
	_ = os.RemoveAll(target)
	core.Must(os.MkdirAll(target, 0o755))
	// the spec is copied next to the target under a format-specific name that is masked in the outputs
	ext := ".json"
	if !strings.HasPrefix(st, "json") {
		ext = ".yml"
	}
	specPath := filepath.Join(root, "vfspecinput"+ext)
	b, _ := os.ReadFile(sr.docs[0][st])
	mustWrite(specPath, b)
	args := []string{"generate", kind, "-f", specPath, "-t", target}
	if kind == "server" {
		args = append(args, "-A", "vfapp")
	}
	r := runSwagger(root, "", args...)
	mask := func(b []byte) []byte {
		return bytes.ReplaceAll(b, []byte("vfspecinput.yml"), []byte("vfspecinput.json"))
	}
	tree, err := hashTree(target, mask)
	if err != nil {
		C.Inconclusive("cannot hash %s: %v", target, err)
	}
	aside := filepath.Join(root, "aside-"+kind+"-"+strings.ReplaceAll(st, "~", "-"))
	_ = os.RemoveAll(aside)
	_ = os.Rename(target, aside)
	_ = os.Remove(specPath)
	r.Stderr = strings.ReplaceAll(normLog(r.Stderr, C.Scratch), "vfspecinput.yml", "vfspecinput.json")
	return r, tree, aside
}

var rxSan = regexp.MustCompile(`[^A-Za-z0-9_]+`)

// sanitize turns a case name into a directory / Go package name; "+" and "@"
// stay distinguishable so that different cases never share a directory.
func sanitize(s string) string {
	s = strings.NewReplacer("+", "p", "@", "_", "^", "e").Replace(s)
	return "c" + strings.ToLower(rxSan.ReplaceAllString(s, ""))
}

func lastLines(s string, n int) string {
	ls := strings.Split(strings.TrimSpace(s), "\n")
	if len(ls) > n {
		ls = ls[len(ls)-n:]
	}
	return strings.Join(ls, "\n")
}

func diffTrees(a, b map[string]string) string {
	var d []string
	for k, v := range a {
		if w, ok := b[k]; !ok {
			d = append(d, k+" only with JSON input")
		} else if v != w {
			d = append(d, k+" differs")
		}
	}
	for k := range b {
		if _, ok := a[k]; !ok {
			d = append(d, k+" only with YAML input")
		}
	}
	sort.Strings(d)
	if len(d) > 6 {
		d = append(d[:6], "…")
	}
	return strings.Join(d, "; ")
}

type genObs struct {
	r    runRes
	tree map[string]string
}

// disjointOutcomes compares repeated observations of the two sides: "" when
// every aspect (exit status, error message, each generated file) has an outcome
// seen on both sides; else the aspect that never met.
func disjointOutcomes(as, bs []genObs) string {
	meet := func(f func(genObs) string) bool {
		seen := map[string]bool{}
		for _, o := range as {
			seen[f(o)] = true
		}
		for _, o := range bs {
			if seen[f(o)] {
				return true
			}
		}
		return false
	}
	if !meet(func(o genObs) string { return fmt.Sprint(o.r.Exit) }) {
		return "exit"
	}
	files := map[string]bool{}
	for _, o := range append(append([]genObs(nil), as...), bs...) {
		for f := range o.tree {
			files[f] = true
		}
	}
	var bad []string
	for f := range files {
		f := f
		if !meet(func(o genObs) string { return o.tree[f] }) {
			bad = append(bad, f)
		}
	}
	sort.Strings(bad)
	if len(bad) > 0 {
		if len(bad) > 6 {
			bad = append(bad[:6], "…")
		}
		return strings.Join(bad, "; ")
	}
	if as[0].r.Exit != 0 && !meet(func(o genObs) string { return lastLines(o.r.Stderr, 1) }) {
		return "report"
	}
	return ""
}

// classOf gives the signature label of a case.
func classOf(cs caseT) string {
	pl := cs.places()
	if len(pl) == 1 && !strings.HasPrefix(cs.Name, "B") {
		return byID[pl[0].Scalar].Class
	}
	return "composite"
}

var specMod *core.Module
var specModOnce sync.Once

var allSpecCmds = []string{"flatten", "expand", "mixin", "validate", "diff", "model", "server"}

// judgeSpec builds the documents of a case, runs the planned commands and
// returns the findings, and whether the documents are reference-valid.
// only != "" restricts to one command.
func judgeSpec(cs caseT, only string) ([]finding, string) {
	specModOnce.Do(func() { specMod = C.NewModule("gen") })
	dir := filepath.Join(C.Scratch, "spec", sanitize(cs.Name))
	_ = os.RemoveAll(dir)
	styles := cs.Styles
	if styles == nil {
		styles = yamlStyles
	}
	sr := &specRunner{cs: cs, dir: dir, memo: map[string]runRes{}, mod: specMod}
	for i, pl := range cs.Docs {
		pfx := ""
		if i > 0 {
			pfx = fmt.Sprintf("D%d", i)
		}
		tree := buildDoc(pfx, pl)
		sr.trees = append(sr.trees, tree)
		sr.docs = append(sr.docs, renderDoc(filepath.Join(dir, fmt.Sprintf("spec%d", i)), tree, styles))
	}
	// styles available for every document of the case
	var sts []string
	for _, st := range styles {
		ok := true
		for _, d := range sr.docs {
			if d[st] == "" {
				ok = false
			}
		}
		if ok {
			sts = append(sts, st)
		}
	}
	cmds := cs.Cmds
	if cmds == nil {
		cmds = allSpecCmds
	}
	var fs []finding
	class := classOf(cs)
	inputsOf := func(st string) map[string]string {
		m := map[string]string{}
		for i, d := range sr.docs {
			for _, s := range []string{"json", st} {
				if b, err := os.ReadFile(d[s]); err == nil {
					m[fmt.Sprintf("spec%d%s", i, styleExt(s))] = string(b)
				}
			}
			if d["json~"+st] != "" && d["json~"+st] != d["json"] {
				b, _ := os.ReadFile(d["json~"+st])
				m[fmt.Sprintf("spec%d.%s.json", i, st)] = string(b)
			}
		}
		for _, n := range []string{"pri", "mx", "old"} {
			for _, s := range []string{"json", st} {
				if b, err := os.ReadFile(fixed[n][s]); err == nil {
					m["fixed/"+n+styleExt(s)] = string(b)
				}
			}
		}
		return m
	}
	add := func(f finding, st string, extra map[string]string) {
		f.Files = inputsOf(st)
		for k, v := range extra {
			f.Files[k] = v
		}
		f.Files["repro.sh"] = sr.reproScript()
		fs = append(fs, f)
	}
	cleanup := func() {
		if os.Getenv("VF_KEEP") == "" {
			_ = os.RemoveAll(dir)
			_ = os.RemoveAll(filepath.Join(specMod.Dir, sanitize(cs.Name)))
		}
	}
	// --- validity guard: the documents of the case must be accepted by go-openapi/validate
	// (the `validate` command is that library; its JSON-input run is reused by the input half)
	for i := range sr.docs {
		var r runRes
		if i == 0 {
			r = sr.run("validate", "json", "")
		} else {
			r = runSwagger("", "", "validate", sr.docs[i]["json"])
		}
		if r.TimedOut {
			C.Inconclusive("watchdog: %s", r.Cmdline)
		}
		if r.Exit != 0 {
			cleanup()
			return nil, "invalid"
		}
	}
	full := cs.Depth != "rot"
	rot := cs.Rot
	unobservable := false
	pick := func(k int) []string { // one available style, rotating
		if len(sts) == 0 {
			return nil
		}
		return []string{sts[k%len(sts)]}
	}
	for ci, cmd := range cmds {
		if only != "" && cmd != only {
			continue
		}
		switch cmd {
		case "flatten", "expand", "mixin", "mixin-as-primary":
			deep := full || ci == rot%3
			variants := []string{"yaml"}
			if deep {
				variants = []string{"json-compact", "yaml"}
			}
			if full && C.Thorough() {
				variants = append(variants, "yaml-compact")
			}
			inStyles := []string{"json"}
			if deep {
				inStyles = append(inStyles, sts...)
			}
			// --- output half, for the JSON input and for the YAML inputs
			for si, st := range inStyles {
				if !full && si >= 2 {
					break
				}
				ref := sr.run(cmd, st, "json")
				if ref.TimedOut {
					C.Inconclusive("watchdog: %s", ref.Cmdline)
					continue
				}
				for _, v := range variants {
					if st != "json" && v != "yaml" {
						continue
					}
					got := sr.run(cmd, st, v)
					if got.TimedOut {
						C.Inconclusive("watchdog: %s", got.Cmdline)
						continue
					}
					C.Eval(fmt.Sprintf("%s/out:%s>%s/%s", cmd, st, v, class))
					if f := judgeOutput(cmd, ref, got, strings.HasPrefix(v, "yaml")); f != nil {
						if f.Mode == "unobservable" {
							unobservable = true
							continue
						}
						f.What = fmt.Sprintf("%s (input rendering %s; `%s` vs `%s`)", f.What, st, short(ref.Cmdline), short(got.Cmdline))
						add(*f, st, map[string]string{"out.json": string(ref.Out), "out." + v + outExt(v): string(got.Out), "stderr.txt": got.Stderr})
					}
				}
			}
			// --- input half
			for si, st := range inStyles[1:] {
				for _, v := range []string{"json", "yaml"} {
					if !full && si >= 1 && v == "yaml" {
						continue
					}
					a, b := sr.run(cmd, "json~"+st, v), sr.run(cmd, st, v)
					if a.TimedOut || b.TimedOut {
						continue
					}
					C.Eval(fmt.Sprintf("%s/in:%s>%s/%s", cmd, st, v, class))
					if f := sr.judgeInput(cmd, st, v, a, b); f != nil {
						add(*f, st, map[string]string{"out-from-json" + outExt(v): string(a.Out), "out-from-" + st + outExt(v): string(b.Out), "stderr-json.txt": a.Stderr, "stderr-" + st + ".txt": b.Stderr})
					}
				}
			}
		case "validate":
			vs := sts
			if !full {
				vs = nil
				if rot%3 == 0 {
					vs = pick(rot / 3)
				}
			}
			for _, st := range vs {
				a, b := sr.run(cmd, "json~"+st, ""), sr.run(cmd, st, "")
				if a.TimedOut || b.TimedOut {
					C.Inconclusive("watchdog: %s", a.Cmdline)
					continue
				}
				C.Eval(fmt.Sprintf("validate/in:%s/%s", st, class))
				if f := sr.judgeInput(cmd, st, "", a, b); f != nil {
					add(*f, st, map[string]string{"stderr-json.txt": a.Stderr, "stderr-" + st + ".txt": b.Stderr})
				}
			}
		case "diff", "diff-rev":
			ds, dv := sts, []string{"txt", "json"}
			if !full {
				ds, dv = pick(rot), dv[rot%2:rot%2+1]
			}
			for _, st := range ds {
				for _, v := range dv {
					a, b := sr.run(cmd, "json~"+st, v), sr.run(cmd, st, v)
					if a.TimedOut || b.TimedOut {
						C.Inconclusive("watchdog: %s", a.Cmdline)
						continue
					}
					C.Eval(fmt.Sprintf("%s/in:%s>%s/%s", cmd, st, v, class))
					if f := sr.judgeInput(cmd, st, v, a, b); f != nil {
						add(*f, st, map[string]string{"report-json-input.txt": a.Stdout, "report-" + st + "-input.txt": b.Stdout})
					}
				}
			}
		case "model", "server":
			if len(sts) == 0 {
				continue
			}
			for _, st := range pick(rot) {
				a, ta, _ := sr.generate(cmd, "json~"+st)
				b, tb, _ := sr.generate(cmd, st)
				if a.TimedOut || b.TimedOut {
					C.Inconclusive("watchdog: %s", a.Cmdline)
					continue
				}
				C.Eval(fmt.Sprintf("%s/in:%s/%s", cmd, st, class))
				stat(fmt.Sprintf("generate_%s_exit_%d", cmd, a.Exit), 1)
				if a.Exit == b.Exit && diffTrees(ta, tb) == "" && (a.Exit == 0 || lastLines(a.Stderr, 1) == lastLines(b.Stderr, 1)) {
					continue
				}
				// code generation is not always a function of its input (colliding Go names are
				// resolved in map order - C07's subject): a disagreement counts only if, over
				// repeated runs, the outcomes of the two sides never meet
				obsA, obsB := []genObs{{a, ta}}, []genObs{{b, tb}}
				for round := 0; round < 4; round++ {
					ra, tta, _ := sr.generate(cmd, "json~"+st)
					rb, ttb, _ := sr.generate(cmd, st)
					obsA, obsB = append(obsA, genObs{ra, tta}), append(obsB, genObs{rb, ttb})
				}
				switch what := disjointOutcomes(obsA, obsB); what {
				case "":
					stat("generate_outcome_unstable_between_identical_runs", 1)
				case "exit":
					add(finding{Cmd: cmd, Half: "in", Mode: st + ".exit", What: fmt.Sprintf("generate %s exits %d on the JSON rendering and %d on the %s YAML rendering (5 runs each): %s | %s", cmd, a.Exit, b.Exit, st, core.OneLine(lastLines(a.Stderr, 2)), core.OneLine(lastLines(b.Stderr, 2)))}, st, nil)
				case "report":
					add(finding{Cmd: cmd, Half: "in", Mode: st + ".report", What: fmt.Sprintf("generate %s fails with different messages (5 runs each): %s | %s", cmd, core.OneLine(lastLines(a.Stderr, 1)), core.OneLine(lastLines(b.Stderr, 1)))}, st, nil)
				default:
					add(finding{Cmd: cmd, Half: "in", Mode: st + ".tree", What: fmt.Sprintf("generate %s writes different trees for the JSON and the %s YAML rendering (5 runs each, no common outcome): %s", cmd, st, what)}, st, nil)
				}
			}
		}
	}
	cleanup()
	if unobservable {
		return fs, "unobservable"
	}
	return fs, "ok"
}

// judgeSpecCase is judgeSpec for re-judging (shrinking, replay).
func judgeSpecCase(cs caseT, only string) []finding {
	fs, _ := judgeSpec(cs, only)
	return fs
}

func short(cmdline string) string {
	return strings.ReplaceAll(cmdline, C.Scratch+"/", "")
}

func outExt(v string) string {
	if strings.HasPrefix(v, "yaml") {
		return ".yml"
	}
	if v == "txt" || v == "" {
		return ".txt"
	}
	return ".json"
}

// judgeOutput compares the output of a JSON request (ref) with another request
// of the same command on the same input.
func judgeOutput(cmd string, ref, got runRes, wantYAML bool) *finding {
	if (ref.Exit == 0) != (got.Exit == 0) {
		return &finding{Cmd: cmd, Half: "out", Mode: "exit", What: fmt.Sprintf("exit %d for the JSON request, %d for the other: %s", ref.Exit, got.Exit, core.OneLine(lastLines(got.Stderr+ref.Stderr, 2)))}
	}
	if ref.Exit != 0 || ref.Out == nil {
		stat("emitting_command_failed_both_ways", 1)
		return &finding{Mode: "unobservable"}
	}
	want, err := jx.Parse(ref.Out)
	if err != nil {
		return &finding{Cmd: cmd, Half: "out", Mode: "format", What: "the JSON output is not JSON: " + err.Error()}
	}
	if got.Out == nil {
		return &finding{Cmd: cmd, Half: "out", Mode: "exit", What: "no output file written although the command exits 0"}
	}
	isJSON := json.Valid(got.Out)
	if wantYAML && isJSON && strings.TrimSpace(string(got.Out)) != "{}" {
		return &finding{Cmd: cmd, Half: "out", Mode: "format", What: "YAML was requested but the file written is a JSON text"}
	}
	if !wantYAML && !isJSON {
		return &finding{Cmd: cmd, Half: "out", Mode: "format", What: "JSON was requested but the file written is not a JSON text"}
	}
	var tree any
	if wantYAML {
		tmp, err := os.CreateTemp(C.Scratch, "reload-*.yml")
		core.Must(err)
		_, _ = tmp.Write(got.Out)
		tmp.Close()
		defer os.Remove(tmp.Name())
		tree, err = loadRaw(tmp.Name())
		if err != nil {
			// is the failure specific to the YAML rendering? the JSON output must load then
			tj, errT := os.CreateTemp(C.Scratch, "reload-*.json")
			core.Must(errT)
			_, _ = tj.Write(ref.Out)
			tj.Close()
			_, errJ := loadRaw(tj.Name())
			_ = os.Remove(tj.Name())
			if errJ == nil {
				return &finding{Cmd: cmd, Half: "out", Mode: "unreadable", What: "go-openapi/loads cannot read the YAML output back: " + core.OneLine(err.Error())}
			}
			// loads.Spec rejects this document in either format (its analysis step, not the
			// reading): compare through the loader's bare YAML reader
			stat("loader_rejects_document_in_both_formats", 1)
			raw, errY := yamlDoc(tmp.Name())
			if errY != nil {
				return &finding{Cmd: cmd, Half: "out", Mode: "unreadable", What: "swag.YAMLDoc (the reader behind go-openapi/loads) cannot read the YAML output back: " + core.OneLine(errY.Error())}
			}
			tree, err = jx.Parse(raw)
			if err != nil {
				return &finding{Cmd: cmd, Half: "out", Mode: "unreadable", What: "YAML output converts to invalid JSON: " + err.Error()}
			}
		}
	} else {
		tree, _ = jx.Parse(got.Out)
	}
	if d := jx.Diff(want, tree, ""); d != "" {
		return &finding{Cmd: cmd, Half: "out", Mode: "differs", What: "reloaded output is not JSON-equal to the JSON output (json vs other) at " + clip(d, 300)}
	}
	return nil
}

// judgeInput compares the results of one command on the JSON rendering (a) and
// on a YAML rendering (b).
func (sr *specRunner) judgeInput(cmd, st, v string, a, b runRes) *finding {
	switch {
	case a.Exit != b.Exit:
		return &finding{Cmd: cmd, Half: "in", Mode: st + ".exit", What: fmt.Sprintf("`%s` exits %d, `%s` exits %d: %s", short(a.Cmdline), a.Exit, short(b.Cmdline), b.Exit, core.OneLine(lastLines(b.Stderr, 2)))}
	case !bytes.Equal(a.Out, b.Out):
		return &finding{Cmd: cmd, Half: "in", Mode: st + ".output", What: fmt.Sprintf("`%s` and `%s` write different files", short(a.Cmdline), short(b.Cmdline))}
	case strings.Contains(a.Stderr, "panic:") && strings.Contains(b.Stderr, "panic:"):
		// the command crashes on this document whatever the format (not this property's
		// subject); which of several panics comes first varies from run to run
		stat("command_panics_in_both_formats", 1)
		return nil
	case reportBag(a.Stdout, v) != reportBag(b.Stdout, v) || reportBag(a.Stderr, "") != reportBag(b.Stderr, ""):
		// the order of report entries varies from run to run on one and the same input
		// (C07's subject): reports are compared as multisets of entries / lines
		which, x, y := "stdout", reportBag(a.Stdout, v), reportBag(b.Stdout, v)
		if x == y {
			which, x, y = "log", reportBag(a.Stderr, ""), reportBag(b.Stderr, "")
		}
		return &finding{Cmd: cmd, Half: "in", Mode: st + ".report", What: fmt.Sprintf("`%s` and `%s` print different %s: %s", short(a.Cmdline), short(b.Cmdline), which, firstDiffLine(x, y))}
	}
	return nil
}

// reportBag canonicalises a report: the entries of a JSON array report, else the
// lines, sorted.
func reportBag(s, variant string) string {
	if variant == "json" {
		if t, err := jx.Parse([]byte(s)); err == nil {
			if arr, ok := t.([]any); ok {
				var es []string
				for _, e := range arr {
					es = append(es, jx.Compact(e))
				}
				sort.Strings(es)
				return strings.Join(es, "\n")
			}
		}
	}
	ls := strings.Split(s, "\n")
	sort.Strings(ls)
	return strings.Join(ls, "\n")
}

func firstDiffLine(a, b string) string {
	la, lb := strings.Split(a, "\n"), strings.Split(b, "\n")
	for i := 0; i < len(la) || i < len(lb); i++ {
		var x, y string
		if i < len(la) {
			x = la[i]
		}
		if i < len(lb) {
			y = lb[i]
		}
		if x != y {
			return fmt.Sprintf("line %d: %q vs %q", i+1, clip(x, 120), clip(y, 120))
		}
	}
	return ""
}

// ---------------------------------------------------------------------------
// pass A / pass B of the spec family

// codegenPositions: position classes whose content reaches generated Go code.
var codegenPositions = map[string]bool{"description": true, "enum": true, "default": true, "example": true, "prop-key": true, "name-key": true,
	"num-constraint": true, "num-default": true, "num-enum": true, "status-key": true, "info": true}

func passASpec() []placement {
	type atom struct {
		cs     caseT
		p      placement
		single bool
	}
	var atoms []atom
	names := map[string]bool{}
	mk := func(vals []scalar, pos string, single bool) atom {
		p := mkPlacement(vals, pos)
		name := vals[0].ID + "@" + pos
		if len(vals) > 1 {
			name = fmt.Sprintf("%s+%d@%s", vals[0].ID, len(vals)-1, pos)
		}
		return atom{cs: caseT{Family: "spec", Name: name, Docs: [][]placement{{p}}}, p: p, single: single}
	}
	for _, class := range byClass() {
		for _, pos := range positionsFor(class[0]) {
			for _, vals := range bundles(class, pos, spots[pos]) {
				atoms = append(atoms, mk(vals, pos, false))
				names[atoms[len(atoms)-1].cs.Name] = true
			}
			if C.Thorough() && len(class) > 1 && spots[pos] > 1 {
				// thorough tier: every scalar also on its own
				for _, vals := range bundles(class, pos, 1) {
					if a := mk(vals, pos, true); !names[a.cs.Name] {
						atoms = append(atoms, a)
					}
				}
			}
		}
	}
	stat("spec_atoms", len(atoms))
	var mu sync.Mutex
	var held []placement
	var judgeAtom func(i int, a atom)
	judgeAtom = func(i int, a atom) {
		cs := a.cs
		cs.Rot = i
		cs.Cmds = []string{"flatten", "expand", "mixin", "validate", "diff"}
		if C.Thorough() && a.single {
			// the scalar alone: output half on all three emitters (JSON input), input half on one
			cs.Depth = "rot"
			cs.Cmds = []string{"flatten", "expand", "mixin"}
		} else if C.Thorough() {
			cs.Cmds = append(cs.Cmds, "mixin-as-primary", "diff-rev")
			// code generation is the expensive part: every class bundle of a code-relevant
			// position gets models and a server
			if codegenPositions[a.p.Pos] {
				cs.Cmds = append(cs.Cmds, "model", "server")
			}
		} else {
			cs.Depth = "rot"
			if codegenPositions[a.p.Pos] && i%3 == 0 {
				cs.Cmds = append(cs.Cmds, "model")
			}
			if codegenPositions[a.p.Pos] && i%12 == 1 {
				cs.Cmds = append(cs.Cmds, "server")
			}
		}
		fs, status := judgeSpec(cs, "")
		if status == "invalid" {
			stat("spec_atoms_dropped_invalid", 1)
			if len(a.p.More) > 0 && !C.Thorough() {
				// one scalar spoils the document: judge the scalars of the bundle one by one
				for k, sc := range a.p.scalars() {
					judgeAtom(i+k, mk([]scalar{sc}, a.p.Pos, true))
				}
			}
			return
		}
		stat("spec_atoms_valid", 1)
		if status == "unobservable" {
			stat("spec_atoms_with_an_emitting_command_failing_both_ways", 1)
		}
		if len(fs) == 0 && status == "unobservable" {
			return // not a building block for pass B
		}
		if len(fs) == 0 {
			mu.Lock()
			held = append(held, a.p)
			mu.Unlock()
			C.Sample(map[string]any{"family": "spec", "atom": cs.Name, "scalars": a.p.show(), "commands": cs.Cmds, "findings": 0})
			return
		}
		report(cs, fs, judgeSpecCase)
	}
	core.Parallel(len(atoms), 16, func(i int) { judgeAtom(i, atoms[i]) })
	sortPlacements(held)
	stat("spec_atoms_held", len(held))
	return held
}

var flattenOpts = [][]string{nil, nil, {"--with-flatten=full"}, {"--with-expand"}, {"--with-flatten=remove-unused"}, {"--with-flatten=minimal"}}

func passBSpec(rng *rand.Rand, held []placement) {
	if len(held) == 0 {
		C.Inconclusive("no spec atom held in pass A: pass B has nothing to compose")
		return
	}
	n := C.Pick(100, 600)
	cases := make([]caseT, n)
	for k := range cases {
		cs := caseT{Family: "spec", Name: fmt.Sprintf("B%04d", k)}
		ndocs := 1
		cmdRoll := rng.Intn(10)
		switch {
		case cmdRoll < 3:
			cs.Cmds = []string{"flatten"}
			cs.Opts = flattenOpts[rng.Intn(len(flattenOpts))]
		case cmdRoll < 5:
			cs.Cmds = []string{"expand", "validate"}
		case cmdRoll < 8:
			cs.Cmds = []string{"mixin"}
			ndocs = 1 + rng.Intn(3)
		case cmdRoll < 9:
			cs.Cmds = []string{"diff", "diff-rev", "model"}
		default:
			cs.Cmds = []string{"server", "validate"}
		}
		usedKeys := map[string]bool{}
		for d := 0; d < ndocs; d++ {
			var pl []placement
			usedPos := map[string]bool{}
			for j, want := 0, 2+rng.Intn(6); j < want; j++ {
				p := held[rng.Intn(len(held))]
				// one scalar per position class and document (a second one would overwrite the
				// first); key positions carry a given scalar in one document only (mixin collisions)
				if usedPos[p.Pos] || (isKeyPosition(p.Pos) && usedKeys[p.Scalar+"@"+p.Pos]) || (isKeyPosition(p.Pos) && d > 0 && len(p.More) > 0) {
					continue
				}
				if conflicts(p.Pos, usedPos) {
					continue
				}
				usedPos[p.Pos] = true
				usedKeys[p.Scalar+"@"+p.Pos] = true
				pl = append(pl, p)
			}
			cs.Docs = append(cs.Docs, pl)
		}
		cases[k] = cs
	}
	core.Parallel(len(cases), 16, func(k int) {
		cases[k].Rot = k
		fs, status := judgeSpec(cases[k], "")
		if status == "invalid" {
			stat("spec_composites_dropped_invalid", 1)
			return
		}
		stat("spec_composites_judged", 1)
		if len(fs) > 0 {
			report(cases[k], fs, judgeSpecCase)
		} else if k < 3 {
			C.Sample(map[string]any{"family": "spec", "composite": cases[k].Name, "docs": cases[k].Docs, "commands": cases[k].Cmds, "opts": cases[k].Opts, "findings": 0})
		}
	})
}

// conflicts: position classes that write the same spots of the skeleton.
func conflicts(pos string, used map[string]bool) bool {
	groups := [][]string{
		{"ext-value", "num-ext", "ext-key"},
		{"example", "num-example"},
		{"default", "num-default"},
		{"enum", "num-enum"},
	}
	for _, g := range groups {
		in := false
		for _, x := range g {
			if x == pos {
				in = true
			}
		}
		if !in {
			continue
		}
		for _, x := range g {
			if x != pos && used[x] {
				return true
			}
		}
	}
	return false
}
