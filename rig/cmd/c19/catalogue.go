package main

import (
	"encoding/json"
	"fmt"
	"net/url"
	"sort"
	"strings"

	"verif/rig/jx"
)

// A scalar of the corpus. Class is the part of the violation key; ID names the
// concrete value (class.n) in descriptions and reproducers.
type scalar struct {
	Class string
	ID    string
	Str   string      // string scalars
	Num   json.Number // number scalars (Kind == "num")
	Kind  string      // "str" | "num" | "lit" (JSON literal null/true/false) | "code" (status code key)
	Lit   any
}

func (s scalar) value() any {
	switch s.Kind {
	case "num":
		return s.Num
	case "lit":
		return s.Lit
	}
	return s.Str
}

func (s scalar) show() string { return jx.Compact(s.value()) }

var long200 = strings.TrimSpace(strings.Repeat("lorem ipsum dolor sit amet ", 9))
var long5k = strings.Repeat("0123456789abcdefghijklmnopqrstuvwxyzABCDEFGHIJKLMNOPQRSTUVWXYZ-_", 80)
var long5kSpaces = strings.TrimSpace(strings.Repeat("word: and #word - then ", 220))

// The string corpus: classes are kept narrow so that one class behaves
// uniformly (a class is the unit of a known finding).
var strClasses = []struct {
	class string
	vals  []string
}{
	{"bool-12", []string{"true", "false", "True", "FALSE"}},
	{"bool-11", []string{"yes", "no", "on", "off", "y", "n", "Yes", "NO", "On", "OFF", "Y", "N"}},
	{"null-like", []string{"null", "~", "Null", "NULL"}},
	{"empty", []string{""}},
	{"int-like", []string{"1", "0", "-1", "+1", "007", "404"}},
	{"int-like-huge", []string{"9223372036854775808", "-9223372036854775809", "18446744073709551616"}},
	{"radix-int", []string{"0x1F", "0o17", "0b11", "017", "-0x1f", "0X1F"}},
	{"underscore-num", []string{"1_000", "1_0.5", "0x_1F", "1__0"}},
	{"float-like", []string{"1.0", "1e3", "1E3", ".5", "5.", "-1.5e-3", "1e+21", "1.5", "+.5", "0.0"}},
	{"inf-nan", []string{".inf", "-.inf", "+.inf", ".Inf", ".INF", ".nan", ".NaN", ".NAN"}},
	{"date", []string{"2001-01-01", "2001-1-1", "2001-12-31"}},
	{"timestamp", []string{"2001-12-14t21:59:43.10-05:00", "2001-12-14 21:59:43.10 -5", "2001-12-15T02:59:43.1Z", "2001-12-14 21:59:43"}},
	{"sexagesimal", []string{"190:20:30", "1:30", "20:30.15"}},
	{"merge-key", []string{"<<", "="}},
	{"lead-space", []string{" x", "  x y", " 1", " yes"}},
	{"trail-space", []string{"x ", "x y  ", "1 ", "yes "}},
	{"only-space", []string{" ", "   "}},
	{"hash", []string{"#x", "a #b", "a#b", "#", "a # b # c"}},
	{"colon", []string{"a: b", "a:", ":a", "a : b", "key: value: x", ":", "a:b", ": "}},
	{"dash", []string{"- a", "-", "- - a", "-a", "- "}},
	{"doc-marker", []string{"---", "--- a", "...", "--- "}},
	{"question", []string{"? a", "?", "?a"}},
	{"at", []string{"@a", "@"}},
	{"backtick", []string{"`a`", "`"}},
	{"percent", []string{"%a", "%YAML 1.2", "100%", "%"}},
	{"tag", []string{"!tag", "!!str a", "!", "!!binary x", "!<tag:yaml.org,2002:str> a"}},
	{"anchor", []string{"&a", "&a b", "&"}},
	{"alias", []string{"*a", "*", "*a b"}},
	{"pipe", []string{"|", "| a", "|-", "|+", "|2"}},
	{"gt", []string{">", "> a", ">-", ">+"}},
	{"flow", []string{"{a}", "{a: b}", "[a]", "[a, b]", "{", "}", "[", "]", ",", "a, b", "{}", "[]"}},
	{"dquote", []string{`"a"`, `a"b`, `"`, `""`, `"a`, `a "b" c`}},
	{"squote", []string{`'a'`, `a'b`, `'`, `''`, `'a`, `it's`}},
	{"backslash", []string{`a\nb`, `\`, `a\`, `\\`, `\t`, `\u0041`, `C:\dir\file`}},
	{"tab", []string{"a\tb", "\ta", "a\t", "\t", "a:\tb", "a\t#b"}},
	{"multiline", []string{"a\nb", "a\n\nb", "a\nb\nc", "line one\nline two: x\n# three"}},
	{"multiline-indented", []string{"a\n b", "a\n  b\nc", "a\n\tb"}},
	{"multiline-lead-space", []string{" a\nb", "  a\n b", " a\n"}},
	{"multiline-lead-newline", []string{"\na", "\n\na", "\na\n"}},
	{"multiline-trail-newline", []string{"a\n", "a\nb\n"}},
	{"multiline-trail-newlines", []string{"a\n\n", "a\nb\n\n\n"}},
	{"multiline-trail-space", []string{"a \nb", "a\nb ", "a\n "}},
	{"only-newline", []string{"\n", "\n\n"}},
	{"cr", []string{"a\rb", "a\r\nb", "a\r\nb\r\n", "\r"}},
	{"non-ascii", []string{"héllo wörld", "日本語", "emoji 🎉 ok", "مرحبا", "e\u0301", "\u00a0nbsp", "a\u00a0"}},
	{"bom", []string{"\ufeffa", "a\ufeffb"}},
	{"nel", []string{"a\u0085b", "\u0085", "a\u0085", "a\u0085\nb"}},
	{"line-sep", []string{"a\u2028b", "a\u2029b", "a\u2028", "\u2028a", "a\u2028\nb"}},
	{"control", []string{"a\x01b", "\x7f", "\x1b[0m", "a\x08b", "a\x0cb"}},
	{"nul", []string{"a\x00b", "\x00"}},
	{"long-line", []string{long200, long5k, long5kSpaces, long200 + "\n" + long200}},
	{"plain", []string{"plain", "Plain text here."}},
}

var numClasses = []struct {
	class string
	vals  []string
}{
	{"small-int", []string{"0", "1", "-1", "42"}},
	{"int-near-2^53", []string{"9007199254740993", "9007199254740991", "9007199254740992", "-9007199254740993", "9007199254740995"}},
	// (classes follow the float64 value every encoding/json path of the tool keeps)
	{"int-below-2^63", []string{"9223372036854774784", "-9223372036854775808", "4611686018427387904", "-9223372036854775809"}},
	{"int-2^63-to-2^64", []string{"9223372036854775808", "9223372036854775807", "9223372036854777856", "18446744073709549568"}},
	{"int-from-2^64", []string{"18446744073709551616", "18446744073709551615", "-18446744073709551616", "123456789012345678901234567890"}},
	{"float-many-digits", []string{"0.1", "3.141592653589793238462643383279", "0.30000000000000004", "123456789.123456789", "-2.718281828459045", "0.000001", "0.0000001"}},
	{"float-exponent", []string{"1e21", "1e20", "1e-7", "1E+2", "1.5e300", "-1e-300", "1e22", "6.02214076e23"}},
	{"float-extreme", []string{"1.7976931348623157e308", "5e-324", "2.2250738585072014e-308", "-1.7976931348623157e308"}},
	{"float-intlike", []string{"1.0", "100.00", "-0.0", "1e3", "-0", "2.50"}},
}

var litScalars = []scalar{
	{Class: "json-null", ID: "json-null.0", Kind: "lit", Lit: nil},
	{Class: "json-bool", ID: "json-bool.0", Kind: "lit", Lit: true},
	{Class: "json-bool", ID: "json-bool.1", Kind: "lit", Lit: false},
}

var codeScalars = []string{"200", "404", "100", "599", "default", "x-1.5", "x-yes"}

func allScalars() []scalar {
	var out []scalar
	for _, c := range strClasses {
		for i, v := range c.vals {
			out = append(out, scalar{Class: c.class, ID: fmt.Sprintf("%s.%d", c.class, i), Str: v, Kind: "str"})
		}
	}
	for _, c := range numClasses {
		for i, v := range c.vals {
			out = append(out, scalar{Class: c.class, ID: fmt.Sprintf("%s.%d", c.class, i), Num: json.Number(v), Kind: "num"})
		}
	}
	out = append(out, litScalars...)
	for i, v := range codeScalars {
		out = append(out, scalar{Class: "status-code", ID: fmt.Sprintf("status-code.%d", i), Str: v, Kind: "code"})
	}
	return out
}

// ---------------------------------------------------------------------------
// Swagger document skeleton and the position classes.

// skeleton returns a small valid document with local $refs (so that expand and
// flatten have work to do). pfx keeps names apart when documents are mixed in.
func skeleton(pfx string) jx.J {
	doc := jx.MustParse(`{
 "swagger":"2.0",
 "info":{"title":"vf","version":"1.0"},
 "consumes":["application/json"],"produces":["application/json"],
 "tags":[{"name":"PFXthings"}],
 "parameters":{"PFXlimitParam":{"name":"limit","in":"query","type":"integer","format":"int32"}},
 "responses":{"PFXerrResp":{"description":"error","schema":{"$ref":"#/definitions/PFXErr"}}},
 "paths":{
  "/PFXthings":{
    "get":{"operationId":"PFXlistThings","tags":["PFXthings"],
      "parameters":[{"$ref":"#/parameters/PFXlimitParam"},{"name":"kind","in":"query","type":"string"},{"name":"ids","in":"query","type":"array","items":{"type":"string"}},{"name":"ratio","in":"query","type":"number"}],
      "responses":{"200":{"description":"ok","headers":{"X-Rate":{"type":"string"}},"schema":{"type":"array","items":{"$ref":"#/definitions/PFXThing"}}},"default":{"$ref":"#/responses/PFXerrResp"}}},
    "post":{"operationId":"PFXaddThing","parameters":[{"name":"body","in":"body","schema":{"$ref":"#/definitions/PFXThing"}}],
      "responses":{"201":{"description":"created","schema":{"$ref":"#/definitions/PFXThing"}},"default":{"$ref":"#/responses/PFXerrResp"}}}
  }
 },
 "definitions":{
  "PFXThing":{"type":"object","required":["name"],"properties":{
     "name":{"type":"string"},"size":{"type":"number"},"count":{"type":"integer","format":"int64"},
     "kind":{"$ref":"#/definitions/PFXKind"},"labels":{"type":"array","items":{"type":"string"}},
     "nested":{"type":"object","properties":{"inner":{"type":"string"}}}}},
  "PFXKind":{"type":"string"},
  "PFXErr":{"allOf":[{"$ref":"#/definitions/PFXBase"},{"type":"object","properties":{"message":{"type":"string"}}}]},
  "PFXBase":{"type":"object","properties":{"code":{"type":"integer","format":"int32"}}}
 }
}`).(jx.J)
	return renameAll(doc, pfx).(jx.J)
}

func renameAll(v any, pfx string) any {
	switch t := v.(type) {
	case map[string]any:
		o := jx.J{}
		for k, x := range t {
			o[strings.ReplaceAll(k, "PFX", pfx)] = renameAll(x, pfx)
		}
		return o
	case []any:
		o := make([]any, len(t))
		for i, x := range t {
			o[i] = renameAll(x, pfx)
		}
		return o
	case string:
		return strings.ReplaceAll(t, "PFX", pfx)
	}
	return v
}

// position classes, in catalogue order
var strPositions = []string{"info", "description", "enum", "default", "example", "ext-value", "prop-key", "name-key", "ext-key", "path-key"}
var numPositions = []string{"num-constraint", "num-default", "num-enum", "num-example", "num-ext"}
var litPositions = []string{"ext-value", "example"}

func positionsFor(s scalar) []string {
	switch s.Kind {
	case "num":
		return numPositions
	case "lit":
		return litPositions
	case "code":
		return []string{"status-key"}
	}
	return strPositions
}

func isKeyPosition(pos string) bool {
	switch pos {
	case "prop-key", "name-key", "ext-key", "path-key", "status-key":
		return true
	}
	return false
}

func refEscape(name string) string {
	p := strings.ReplaceAll(strings.ReplaceAll(name, "~", "~0"), "/", "~1")
	return url.PathEscape(p)
}

// spots is the number of value spots a position class offers to distinct
// scalars in one document (key and list positions take every scalar at once).
var spots = map[string]int{"info": 8, "description": 10, "default": 5, "example": 4, "ext-value": 12,
	"num-constraint": 3, "num-default": 2, "num-example": 3, "num-ext": 5,
	"enum": 8, "num-enum": 8, "prop-key": 8, "name-key": 6, "ext-key": 8, "path-key": 8, "status-key": 8}

// place puts the scalars into the concrete spots of position class pos of a
// document built by skeleton(pfx): value spots receive them round-robin, key
// and list positions receive all of them.
func place(doc jx.J, pfx string, vals []scalar, pos string) {
	k := 0
	next := func() any {
		v := vals[k%len(vals)].value()
		k++
		return v
	}
	all := func() jx.A {
		var a jx.A
		for _, s := range vals {
			a = append(a, s.value())
		}
		return a
	}
	set := func(val any, path ...string) {
		cur := doc
		for _, k := range path[:len(path)-1] {
			nx, ok := cur[k].(map[string]any)
			if !ok {
				nx = jx.J{}
				cur[k] = nx
			}
			cur = nx
		}
		cur[path[len(path)-1]] = val
	}
	thing := "definitions/" + pfx + "Thing"
	P := func(p string) []string { return strings.Split(p, "/") }
	op := jx.GetJ(doc, "paths", "/"+pfx+"things", "get")
	params := op["parameters"].([]any)
	kindParam := params[1].(map[string]any)
	idsParam := params[2].(map[string]any)
	ratioParam := params[3].(map[string]any)
	resp200 := jx.GetJ(op, "responses", "200")
	hdr := jx.GetJ(resp200, "headers", "X-Rate")
	thingJ := jx.GetJ(doc, "definitions", pfx+"Thing")
	switch pos {
	case "info":
		set(next(), "info", "title")
		set(next(), "info", "description")
		set(next(), "info", "termsOfService")
		set(next(), "info", "version")
		set(jx.J{"name": next()}, "info", "contact")
		set(jx.J{"name": next()}, "info", "license")
		doc["tags"].([]any)[0].(map[string]any)["description"] = next()
		set(jx.J{"description": next(), "url": "http://localhost/docs"}, "externalDocs")
	case "description":
		op["summary"], op["description"] = next(), next()
		kindParam["description"] = next()
		resp200["description"] = next()
		hdr["description"] = next()
		set(next(), P(thing+"/description")...)
		set(next(), P(thing+"/title")...)
		set(next(), P(thing+"/properties/name/description")...)
		set(next(), "parameters", pfx+"limitParam", "description")
		set(next(), "responses", pfx+"errResp", "description")
	case "enum":
		set(append(all(), "other"), "definitions", pfx+"Kind", "enum")
		set(append(jx.A{"first"}, all()...), P(thing+"/properties/name/enum")...)
		kindParam["enum"] = all()
		idsParam["items"].(map[string]any)["enum"] = append(all(), "z")
		hdr["enum"] = append(append(jx.A{"a"}, all()...), "z")
	case "default":
		set(next(), P(thing+"/properties/name/default")...)
		set(next(), "definitions", pfx+"Kind", "default")
		kindParam["default"] = next()
		hdr["default"] = next()
		idsParam["default"] = jx.A{next()}
	case "example":
		set(next(), P(thing+"/properties/name/example")...)
		set(jx.J{"name": next(), "labels": jx.A{next()}}, P(thing+"/example")...)
		resp200["examples"] = jx.J{"application/json": jx.A{jx.J{"name": next()}}}
	case "ext-value":
		set(next(), "x-vf")
		set(jx.A{next(), "second", next()}, "x-vf-list")
		set(jx.J{"k": next(), "deep": jx.J{"list": jx.A{jx.J{"k": next()}, next()}}}, "x-vf-map")
		set(next(), "info", "x-vf")
		set(next(), "paths", "x-vf")
		set(next(), "paths", "/"+pfx+"things", "x-vf")
		op["x-vf"], op["x-vf-list"] = next(), jx.A{next()}
		kindParam["x-vf"] = next()
		resp200["x-vf"] = next()
		hdr["x-vf"] = next()
		set(next(), P(thing+"/x-vf")...)
		set(jx.J{"k": next(), "list": jx.A{next()}}, P(thing+"/properties/name/x-vf-map")...)
		doc["tags"].([]any)[0].(map[string]any)["x-vf"] = next()
	case "prop-key":
		ex := jx.J{}
		for _, s := range vals {
			set(jx.J{"type": "string"}, "definitions", pfx+"Thing", "properties", s.Str)
			thingJ["required"] = append(thingJ["required"].([]any), s.Str)
			set(jx.J{"type": "integer"}, "definitions", pfx+"Thing", "properties", "nested", "properties", s.Str)
			ex[s.Str] = "v"
		}
		set(ex, "definitions", pfx+"Kind", "x-vf-example")
	case "name-key":
		sec := jx.A{}
		for _, s := range vals {
			str := s.Str
			set(jx.J{"type": "object", "properties": jx.J{"a": jx.J{"type": "string"}}}, "definitions", str)
			set(jx.J{"$ref": "#/definitions/" + refEscape(str)}, "definitions", pfx+"Thing", "properties", "viaRef"+fmt.Sprint(len(sec)))
			doc["tags"] = append(doc["tags"].([]any), jx.J{"name": str})
			op["tags"] = append(op["tags"].([]any), str)
			set(jx.J{"type": "apiKey", "in": "header", "name": str}, "securityDefinitions", str)
			sec = append(sec, jx.J{str: jx.A{}})
			op["parameters"] = append(op["parameters"].([]any), jx.J{"name": str, "in": "query", "type": "string"})
			resp200["headers"].(map[string]any)[str] = jx.J{"type": "string"}
			set(jx.J{"name": "p" + fmt.Sprint(len(sec)), "in": "query", "type": "string"}, "parameters", str)
			set(jx.J{"description": "shared"}, "responses", str)
			doc["produces"] = append(doc["produces"].([]any), str)
		}
		op["security"] = sec
		jx.GetJ(doc, "paths", "/"+pfx+"things", "post")["operationId"] = vals[0].Str
	case "ext-key":
		m, ex := jx.J{}, jx.J{}
		for _, s := range vals {
			set(1, "x-"+s.Str)
			set("v", "definitions", pfx+"Thing", "x-"+s.Str)
			m[s.Str] = "v"
			op["x-"+s.Str] = "v"
			ex[s.Str] = jx.J{"k": "v"}
		}
		set(jx.J{"flat": m, "nested": jx.J{"list": jx.A{jx.Clone(m)}}}, "x-vf-map")
		resp200["examples"] = ex
	case "path-key":
		for i, s := range vals {
			set(jx.J{"get": jx.J{"operationId": fmt.Sprintf("%sscalarPath%d", pfx, i), "responses": jx.J{"200": jx.J{"description": "ok"}}}}, "paths", "/"+s.Str)
		}
	case "status-key":
		for _, s := range vals {
			if _, exists := op["responses"].(map[string]any)[s.Str]; exists {
				continue // 200 and default are part of the skeleton
			}
			if strings.HasPrefix(s.Str, "x-") {
				op["responses"].(map[string]any)[s.Str] = "ext"
			} else {
				op["responses"].(map[string]any)[s.Str] = jx.J{"description": "scalar code"}
			}
		}
	case "num-constraint":
		set(next(), P(thing+"/properties/size/maximum")...)
		ratioParam["maximum"] = next()
		set(jx.J{"type": "number", "minimum": next()}, "definitions", pfx+"Thing", "properties", "floor")
		for i, s := range vals {
			if f, ok := jx.Float64(s.Num); ok && f > 0 {
				set(jx.J{"type": "number", "multipleOf": s.Num}, "definitions", pfx+"Thing", "properties", fmt.Sprintf("step%d", i))
			}
		}
		if isIntegral(vals[0].Num) {
			set(vals[0].Num, P(thing+"/properties/count/maximum")...)
		}
	case "num-default":
		set(next(), P(thing+"/properties/size/default")...)
		ratioParam["default"] = next()
		if isIntegral(vals[0].Num) {
			set(vals[0].Num, P(thing+"/properties/count/default")...)
		}
	case "num-enum":
		set(append(all(), json.Number("0.5")), P(thing+"/properties/size/enum")...)
		ratioParam["enum"] = append(jx.A{json.Number("7")}, all()...)
	case "num-example":
		set(next(), P(thing+"/properties/size/example")...)
		set(jx.J{"name": "n", "size": next()}, P(thing+"/example")...)
		resp200["examples"] = jx.J{"application/json": jx.A{jx.J{"name": "n", "size": next()}}}
	case "num-ext":
		set(next(), "x-vf")
		set(jx.A{next(), json.Number("1"), "s"}, "x-vf-list")
		set(jx.J{"k": next(), "deep": jx.A{jx.J{"k": next()}}}, "x-vf-map")
		op["x-vf"] = next()
		set(next(), P(thing+"/x-vf")...)
	default:
		panic("unknown position " + pos)
	}
}

func isIntegral(n json.Number) bool { return !strings.ContainsAny(string(n), ".eE") }

// applicable filters (scalar, position) pairs that cannot be built at all.
func applicable(s scalar, pos string) bool {
	if s.Kind != "str" {
		return true
	}
	switch pos {
	case "path-key":
		return !strings.ContainsAny(s.Str, "{}")
	}
	return true
}

// bundles groups the scalars of one class into placements for position pos:
// as many scalars per document as the position has spots.
func bundles(class []scalar, pos string, perDoc int) [][]scalar {
	var ok []scalar
	for _, s := range class {
		if applicable(s, pos) {
			ok = append(ok, s)
		}
	}
	if perDoc < 1 {
		perDoc = 1
	}
	var out [][]scalar
	for len(ok) > 0 {
		n := perDoc
		if n > len(ok) {
			n = len(ok)
		}
		out = append(out, ok[:n])
		ok = ok[n:]
	}
	return out
}

// byClass returns the catalogue grouped by class, in catalogue order.
func byClass() [][]scalar {
	idx := map[string]int{}
	var out [][]scalar
	for _, s := range allScalars() {
		i, ok := idx[s.Class]
		if !ok {
			i = len(out)
			idx[s.Class] = i
			out = append(out, nil)
		}
		out[i] = append(out[i], s)
	}
	return out
}

func sortPlacements(ps []placement) {
	sort.Slice(ps, func(i, j int) bool {
		if ps[i].Scalar != ps[j].Scalar {
			return ps[i].Scalar < ps[j].Scalar
		}
		if ps[i].Pos != ps[j].Pos {
			return ps[i].Pos < ps[j].Pos
		}
		return len(ps[i].More) < len(ps[j].More)
	})
}
