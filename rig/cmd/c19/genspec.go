package main

import (
	"encoding/json"
	"fmt"
	"math/rand"
	"os"
	"path/filepath"
	"regexp"
	"strconv"
	"strings"
	"sync"
	"unicode/utf16"

	"verif/rig/core"
	"verif/rig/jx"
)

// ---------------------------------------------------------------------------
// `generate spec`: annotated Go packages carrying the scalars

var gsStrPositions = []string{"g-meta", "g-meta-contact", "g-meta-ext", "g-descr", "g-enum-list", "g-enum-json", "g-default", "g-example", "g-key", "g-opyaml"}
var gsNumPositions = []string{"g-num", "g-opyaml-num"}

func gsPositionsFor(s scalar) []string {
	switch s.Kind {
	case "str":
		return gsStrPositions
	case "num":
		return gsNumPositions
	case "code":
		return []string{"g-status"}
	}
	return nil
}

func singleLine(s string) bool {
	return !strings.ContainsAny(s, "\n\r\x00\ufeff")
}

func goSourceSafe(s string) bool { return !strings.ContainsAny(s, "\x00\ufeff\r") }

// jsonASCII renders s as a JSON string literal containing ASCII only.
func jsonASCII(s string) string {
	var sb strings.Builder
	sb.WriteByte('"')
	for _, r := range s {
		switch {
		case r == '"' || r == '\\':
			sb.WriteByte('\\')
			sb.WriteRune(r)
		case r == '\n':
			sb.WriteString(`\n`)
		case r == '\t':
			sb.WriteString(`\t`)
		case r == '\r':
			sb.WriteString(`\r`)
		case r < 0x20 || r == 0x7f || (r > 0x7f && r < 0x10000):
			fmt.Fprintf(&sb, `\u%04x`, r)
		case r >= 0x10000:
			a, b := utf16.EncodeRune(r)
			fmt.Fprintf(&sb, `\u%04x\u%04x`, a, b)
		default:
			sb.WriteRune(r)
		}
	}
	sb.WriteByte('"')
	return sb.String()
}

var rxPlainDecimal = regexp.MustCompile(`^[+-]?(\d+\.)?\d+$`)

// gsSlots fills the annotation slots of the package template from placements.
// ok is false when a placement cannot be written at its position.
func gsSlots(places []placement) (slots map[string]string, ok bool) {
	slots = map[string]string{}
	for _, p := range places {
		vals := p.scalars()
		k := 0
		next := func() scalar {
			v := vals[k%len(vals)]
			k++
			return v
		}
		strOK := func(f func(string) bool) bool {
			for _, v := range vals {
				if !f(v.Str) {
					return false
				}
			}
			return true
		}
		lineOK := func(s string) bool { return singleLine(s) && strings.TrimSpace(s) != "" }
		textOK := func(s string) bool { return goSourceSafe(s) && strings.TrimSpace(s) != "" }
		switch p.Pos {
		case "g-meta":
			if !strOK(textOK) {
				return nil, false
			}
			slots["metaDescr"] = next().Str
			for _, key := range []string{"metaTitle", "version", "tos"} {
				if v := next().Str; singleLine(v) {
					slots[key] = v
				}
			}
		case "g-meta-contact":
			if !strOK(lineOK) {
				return nil, false
			}
			slots["license"], slots["contact"] = next().Str, next().Str
		case "g-meta-ext":
			if !strOK(lineOK) {
				return nil, false
			}
			slots["metaExt"] = next().Str
		case "g-descr":
			if !strOK(textOK) {
				return nil, false
			}
			for _, key := range []string{"modelDescr", "fieldDescr", "routeDescr", "paramDescr", "respDescr", "headerDescr"} {
				slots[key] = next().Str
			}
			for _, key := range []string{"modelTitle", "routeSummary"} {
				if v := next().Str; singleLine(v) {
					slots[key] = v
				}
			}
		case "g-enum-list":
			if !strOK(lineOK) {
				return nil, false
			}
			var l []string
			for _, v := range vals {
				l = append(l, v.Str)
			}
			slots["enum"], slots["penum"] = strings.Join(l, ",")+",other", strings.Join(l, ",")
		case "g-enum-json":
			var l []string
			for _, v := range vals {
				l = append(l, jsonASCII(v.Str))
			}
			slots["enum"], slots["penum"] = "["+strings.Join(l, ",")+`,"other"]`, "["+strings.Join(l, ",")+"]"
		case "g-default":
			if !strOK(lineOK) {
				return nil, false
			}
			slots["default"], slots["pdefault"], slots["hdefault"] = next().Str, next().Str, next().Str
		case "g-example":
			if !strOK(lineOK) {
				return nil, false
			}
			slots["example"], slots["hexample"] = next().Str, next().Str
		case "g-key":
			var tags []string
			for _, v := range vals {
				q := strconv.Quote(v.Str)
				if strings.ContainsAny(v.Str, ",`") || strings.Contains(q, "`") || v.Str == "" || v.Str == "-" {
					return nil, false
				}
				tags = append(tags, q)
			}
			slots["tag"] = strings.Join(tags, "\x00")
		case "g-opyaml":
			for _, key := range []string{"opSummary", "opDescr", "opExt", "opParamDefault", "opParamDescr", "opRespDescr"} {
				slots[key] = strconv.QuoteToASCII(next().Str)
			}
			var l []string
			for _, v := range vals {
				l = append(l, strconv.QuoteToASCII(v.Str))
			}
			// the default of the parameter must be one of its enum values
			slots["opParamEnum"] = "[" + strings.Join(l, ", ") + `, "z"]`
		case "g-num":
			n := string(vals[0].Num)
			if rxPlainDecimal.MatchString(n) {
				slots["max"], slots["min"] = n, n
				if f, _ := jx.Float64(vals[0].Num); f > 0 {
					slots["mult"] = n
				}
			}
			slots["numDefault"], slots["numExample"] = n, n
			if _, err := strconv.Atoi(n); err == nil {
				slots["intDefault"], slots["intMax"] = n, n
			}
			// the integer-typed validations (int64 fields of the spec): lengths and item counts
			if v, err := strconv.ParseInt(n, 10, 64); err == nil && v >= 0 {
				slots["lenMax"], slots["itemsMax"] = n, n
			}
		case "g-opyaml-num":
			n := string(vals[0].Num)
			for _, key := range []string{"opNumMax", "opNumDefault", "opNumExt"} {
				slots[key] = n
			}
		case "g-status":
			var l []string
			for _, v := range vals {
				if !strings.HasPrefix(v.Str, "x-") && v.Str != "200" && v.Str != "default" {
					l = append(l, v.Str)
				}
			}
			if len(l) == 0 {
				return nil, false
			}
			slots["status"] = strings.Join(l, ",")
		default:
			return nil, false
		}
	}
	return slots, true
}

// gsSpots: how many scalars of a class share one generated package.
var gsSpots = map[string]int{"g-meta": 4, "g-meta-contact": 2, "g-meta-ext": 1, "g-descr": 8, "g-enum-list": 6, "g-enum-json": 6,
	"g-default": 3, "g-example": 2, "g-key": 6, "g-opyaml": 6, "g-num": 1, "g-opyaml-num": 1, "g-status": 8}

func commentBlock(indent, text string) string {
	var sb strings.Builder
	for _, l := range strings.Split(text, "\n") {
		sb.WriteString(indent + "// " + l + "\n")
	}
	return sb.String()
}

// gsSource renders the annotated package.
func gsSource(pkg string, slots map[string]string) string {
	get := func(k, def string) string {
		if v, ok := slots[k]; ok {
			return v
		}
		return def
	}
	opt := func(indent, label, k string) string {
		if v, ok := slots[k]; ok {
			return indent + "// " + label + ": " + v + "\n"
		}
		return ""
	}
	var b strings.Builder
	w := func(f string, a ...any) { fmt.Fprintf(&b, f, a...) }
	w("// Package %s %s\n//\n", pkg, get("metaTitle", "Scalar API."))
	b.WriteString(commentBlock("", get("metaDescr", "A plain description.")))
	w("//\n//     Schemes: http\n//     Host: localhost\n//     BasePath: /v1\n//     Version: %s\n", get("version", "0.0.1"))
	w("//     TermsOfService: %s\n", get("tos", "there are no TOS at this moment"))
	w("//     License: %s http://opensource.org/licenses/MIT\n", get("license", "MIT"))
	w("//     Contact: %s<john.doe@example.com> http://john.doe.com\n", get("contact", "John Doe"))
	w("//\n//     Consumes:\n//     - application/json\n//\n//     Produces:\n//     - application/json\n//\n")
	w("//     Extensions:\n//     x-meta-value: %s\n//\n// swagger:meta\npackage %s\n\n", get("metaExt", "value"), pkg)

	w("// Thing %s\n//\n", get("modelTitle", "is the model."))
	b.WriteString(commentBlock("", get("modelDescr", "It has fields.")))
	w("//\n// swagger:model Thing\ntype Thing struct {\n")
	b.WriteString(commentBlock("\t", get("fieldDescr", "the name")))
	w("\t//\n\t// required: true\n")
	b.WriteString(opt("\t", "default", "default") + opt("\t", "example", "example") + opt("\t", "enum", "enum"))
	w("\tName string `json:\"name\"`\n\n")
	w("\t// the size\n\t//\n")
	b.WriteString(opt("\t", "maximum", "max") + opt("\t", "minimum", "min") + opt("\t", "multiple of", "mult") + opt("\t", "default", "numDefault") + opt("\t", "example", "numExample"))
	w("\tSize float64 `json:\"size\"`\n\n")
	w("\t// the count\n\t//\n")
	b.WriteString(opt("\t", "default", "intDefault") + opt("\t", "maximum", "intMax"))
	w("\tCount int64 `json:\"count\"`\n\n")
	if _, ok := slots["lenMax"]; ok {
		w("\t// the label\n\t//\n")
		b.WriteString(opt("\t", "max length", "lenMax"))
		w("\tLabel string `json:\"label\"`\n\n")
		w("\t// the parts\n\t//\n")
		b.WriteString(opt("\t", "max items", "itemsMax"))
		w("\tParts []string `json:\"parts\"`\n\n")
	}
	if t, ok := slots["tag"]; ok {
		for i, q := range strings.Split(t, "\x00") {
			w("\t// keyed by a scalar\n\tKeyed%d string `json:%s`\n", i, q)
		}
	}
	w("}\n\n")

	w("// ListThingsParams are the parameters.\n//\n// swagger:parameters listThings\ntype ListThingsParams struct {\n")
	b.WriteString(commentBlock("\t", get("paramDescr", "the kind")))
	w("\t//\n\t// in: query\n")
	b.WriteString(opt("\t", "default", "pdefault") + opt("\t", "enum", "penum"))
	w("\tKind string `json:\"kind\"`\n}\n\n")

	b.WriteString(commentBlock("", get("respDescr", "ThingsResponse is the list.")))
	w("//\n// swagger:response thingsResponse\ntype ThingsResponse struct {\n\t// in: body\n\tBody []Thing\n\n")
	b.WriteString(commentBlock("\t", get("headerDescr", "the rate")))
	w("\t//\n")
	b.WriteString(opt("\t", "default", "hdefault") + opt("\t", "example", "hexample"))
	w("\tXRate string `json:\"X-Rate\"`\n}\n\n")
	w("// ErrResponse is the error.\n//\n// swagger:response errResponse\ntype ErrResponse struct {\n\t// in: body\n\tBody struct {\n\t\tMessage string `json:\"message\"`\n\t}\n}\n\n")

	w("// swagger:route GET /things things listThings\n//\n// %s\n//\n", get("routeSummary", "Lists the things."))
	b.WriteString(commentBlock("", get("routeDescr", "All of them.")))
	w("//\n//     Responses:\n//       200: thingsResponse\n")
	if st, ok := slots["status"]; ok {
		for _, code := range strings.Split(st, ",") {
			w("//       %s: errResponse\n", code)
		}
	}
	w("//       default: errResponse\nfunc ListThings() {}\n\n")

	w("// swagger:operation POST /things things addThing\n//\n// Adds a thing.\n//\n// ---\n")
	w("// summary: %s\n// description: %s\n// x-vf: %s\n", get("opSummary", `"adds"`), get("opDescr", `"adds a thing"`), get("opExt", `"ext"`))
	if v, ok := slots["opNumExt"]; ok {
		w("// x-num: %s\n// x-nums: [%s, 1]\n", v, v)
	}
	w("// parameters:\n// - name: kind\n//   in: query\n//   type: string\n//   description: %s\n", get("opParamDescr", `"kind"`))
	if v, ok := slots["opParamDefault"]; ok {
		w("//   default: %s\n//   enum: %s\n", v, slots["opParamEnum"])
	}
	w("// - name: ratio\n//   in: query\n//   type: number\n")
	if v, ok := slots["opNumMax"]; ok {
		w("//   maximum: %s\n//   default: %s\n", v, slots["opNumDefault"])
	}
	w("// responses:\n//   '201':\n//     description: %s\n//   default:\n//     description: error\nfunc AddThing() {}\n", get("opRespDescr", `"created"`))
	return b.String()
}

var gsMod *core.Module
var gsModOnce sync.Once

// containsScalar: did the exact scalar reach the produced document?
func containsScalar(tree any, s scalar) bool {
	found := false
	var walk func(v any)
	walk = func(v any) {
		if found {
			return
		}
		switch t := v.(type) {
		case map[string]any:
			for k, x := range t {
				if s.Kind != "num" && k == s.Str {
					found = true
				}
				walk(x)
			}
		case []any:
			for _, x := range t {
				walk(x)
			}
		case string:
			if s.Kind != "num" && t == s.Str {
				found = true
			}
		case json.Number:
			if s.Kind == "num" {
				a, _ := jx.Float64(t)
				b, _ := jx.Float64(s.Num)
				if a == b {
					found = true
				}
			}
		}
	}
	walk(tree)
	return found
}

// judgeGenspec: Docs[0] = placements of the Go package; Docs[1] (optional) =
// placements of a Swagger document passed with -i.
func judgeGenspec(cs caseT, only string) (fs []finding, status string) {
	gsModOnce.Do(func() { gsMod = C.NewModule("gs") })
	slots, ok := gsSlots(cs.Docs[0])
	if !ok {
		return nil, "inexpressible"
	}
	name := sanitize(cs.Name)
	pkgDir := filepath.Join(gsMod.Dir, "pkgs", name)
	outDir := filepath.Join(C.Scratch, "gsout", name)
	_ = os.RemoveAll(pkgDir)
	_ = os.RemoveAll(outDir)
	src := gsSource(name, slots)
	mustWrite(filepath.Join(pkgDir, "doc.go"), []byte(src))
	core.Must(os.MkdirAll(outDir, 0o755))
	defer func() {
		if os.Getenv("VF_KEEP") == "" {
			_ = os.RemoveAll(pkgDir)
			_ = os.RemoveAll(outDir)
		}
	}()
	class := classOf(cs)
	run := func(out string, extra ...string) runRes {
		args := append([]string{"generate", "spec", "-m", "-w", pkgDir, "-o", filepath.Join(outDir, out)}, extra...)
		r := runSwagger(pkgDir, filepath.Join(outDir, out), args...)
		r.Stderr = normLog(r.Stderr, C.Scratch)
		return r
	}
	files := func(extra map[string]string) map[string]string {
		m := map[string]string{"pkg/doc.go": src,
			"repro.sh": "#!/bin/sh\n# usage: SWAGGER=/path/to/swagger ./repro.sh (needs a go.mod above pkg/: `go mod init repro`)\ncd \"$(dirname \"$0\")\"\nS=${SWAGGER:-swagger}\n$S generate spec -m -w pkg -o out.json\n$S generate spec -m -w pkg -o out.yml\n$S expand out.yml -o reloaded.json && echo compare out.json reloaded.json\n"}
		for k, v := range extra {
			m[k] = v
		}
		return m
	}
	ref := run("out.json")
	if ref.TimedOut {
		C.Inconclusive("watchdog: %s", ref.Cmdline)
		return nil, "unobservable"
	}
	status = "ok"
	if ref.Exit == 0 && ref.Out != nil {
		if t, err := jx.Parse(ref.Out); err == nil {
			reached := 0
			total := 0
			for _, p := range cs.Docs[0] {
				for _, sc := range p.scalars() {
					total++
					if containsScalar(t, sc) {
						reached++
					}
				}
			}
			stat("genspec_scalars_placed", total)
			stat("genspec_scalars_found_verbatim_in_document", reached)
			if reached == total {
				stat("genspec_scalar_reached_document", 1)
			} else {
				stat("genspec_scalar_altered_by_scanner", 1)
			}
		}
	} else {
		stat("genspec_scan_failed", 1)
		status = "unobservable"
		C.Note("generate spec failed on %s: %s", cs.Name, core.OneLine(lastLines(ref.Stderr, 1)))
	}
	type variant struct {
		name, out string
		yaml      bool
		extra     []string
	}
	variants := []variant{{"yml", "out.yml", true, nil}, {"json-compact", "out.c.json", false, []string{"--compact"}}, {"yaml", "out.yaml", true, nil}}
	if cs.Depth != "rot" {
		variants = append(variants, variant{"yml-compact", "out.c.yml", true, []string{"--compact"}})
	} else if cs.Rot%2 == 0 {
		variants = variants[:2] // rotation: .yml always, --compact JSON or the .yaml name in turn
	} else {
		variants = []variant{variants[0], variants[2]}
	}
	for _, v := range variants {
		got := run(v.out, v.extra...)
		if got.TimedOut {
			C.Inconclusive("watchdog: %s", got.Cmdline)
			continue
		}
		C.Eval(fmt.Sprintf("genspec/out:go>%s/%s", v.name, class))
		if f := judgeOutput("genspec", ref, got, v.yaml); f != nil {
			if f.Mode == "unobservable" {
				continue
			}
			f.What = fmt.Sprintf("%s (`%s` vs `%s`)", f.What, short(ref.Cmdline), short(got.Cmdline))
			f.Files = files(map[string]string{"out.json": string(ref.Out), v.out: string(got.Out), "stderr.txt": got.Stderr})
			fs = append(fs, *f)
		}
	}
	// --- input half: -i <document> in JSON and in YAML
	withInput := cs.Depth != "rot" || cs.Rot%4 == 0 || len(cs.Docs) > 1
	if withInput && ref.Exit == 0 {
		var in map[string]string
		if len(cs.Docs) > 1 {
			in = renderDoc(filepath.Join(outDir, "input"), buildDoc("", cs.Docs[1]), yamlStyles)
			if v := runSwagger("", "", "validate", in["json"]); v.Exit != 0 {
				stat("genspec_input_document_invalid", 1)
				return fs, status
			}
		} else {
			in = fixed["pri"]
		}
		for k, st := range yamlStyles {
			if in[st] == "" || (cs.Depth == "rot" && k != cs.Rot/4%len(yamlStyles)) {
				continue
			}
			a := run("merged.json", "-i", in["json~"+st])
			b := run("merged."+st+".json", "-i", in[st])
			C.Eval(fmt.Sprintf("genspec/in:%s/%s", st, class))
			var f *finding
			switch {
			case a.Exit != b.Exit:
				f = &finding{Cmd: "genspec", Half: "in", Mode: st + ".exit", What: fmt.Sprintf("generate spec -i exits %d with the JSON rendering and %d with the %s rendering: %s", a.Exit, b.Exit, st, core.OneLine(lastLines(b.Stderr, 2)))}
			case string(a.Out) != string(b.Out):
				f = &finding{Cmd: "genspec", Half: "in", Mode: st + ".output", What: fmt.Sprintf("generate spec -i <doc> writes different documents for the JSON and the %s rendering of <doc>", st)}
			}
			if f != nil {
				ib, _ := os.ReadFile(in["json~"+st])
				iy, _ := os.ReadFile(in[st])
				f.Files = files(map[string]string{"input.json": string(ib), "input" + styleExt(st): string(iy), "merged-from-json.json": string(a.Out), "merged-from-" + st + ".json": string(b.Out)})
				fs = append(fs, *f)
			}
		}
	}
	return fs, status
}

func judgeGenspecCase(cs caseT, only string) []finding {
	fs, _ := judgeGenspec(cs, only)
	return fs
}

func passAGenspec() []placement {
	type atom struct {
		cs caseT
		p  placement
	}
	var atoms []atom
	names := map[string]bool{}
	mk := func(vals []scalar, pos string) atom {
		p := mkPlacement(vals, pos)
		name := "g-" + vals[0].ID + "@" + pos
		if len(vals) > 1 {
			name = fmt.Sprintf("g-%s+%d@%s", vals[0].ID, len(vals)-1, pos)
		}
		return atom{cs: caseT{Family: "genspec", Name: name, Docs: [][]placement{{p}}}, p: p}
	}
	for _, class := range byClass() {
		for _, pos := range gsPositionsFor(class[0]) {
			for _, vals := range bundles(class, pos, gsSpots[pos]) {
				atoms = append(atoms, mk(vals, pos))
				names[atoms[len(atoms)-1].cs.Name] = true
			}
			if C.Thorough() && len(class) > 1 && gsSpots[pos] > 1 {
				for _, vals := range bundles(class, pos, 1) {
					if a := mk(vals, pos); !names[a.cs.Name] {
						atoms = append(atoms, a)
					}
				}
			}
		}
	}
	var mu sync.Mutex
	var held []placement
	var judgeAtom func(i int, a atom)
	judgeAtom = func(i int, a atom) {
		cs := a.cs
		cs.Rot = i
		if !C.Thorough() || (len(a.p.More) == 0 && gsSpots[a.p.Pos] > 1) {
			cs.Depth = "rot" // quick tier, and the scalars on their own in the thorough tier
		}
		fs, status := judgeGenspec(cs, "")
		if status == "inexpressible" || (status == "unobservable" && len(fs) == 0) {
			stat("genspec_atoms_"+status, 1)
			if len(a.p.More) > 0 && !C.Thorough() {
				// one scalar cannot be written at this position or breaks the scan: one by one
				for k, sc := range a.p.scalars() {
					judgeAtom(i+k, mk([]scalar{sc}, a.p.Pos))
				}
			}
			return
		}
		stat("genspec_atoms_judged", 1)
		if len(fs) == 0 {
			mu.Lock()
			held = append(held, a.p)
			mu.Unlock()
			if i%40 == 0 {
				C.Sample(map[string]any{"family": "genspec", "atom": cs.Name, "scalars": a.p.show(), "findings": 0})
			}
			return
		}
		report(cs, fs, judgeGenspecCase)
	}
	core.Parallel(len(atoms), 16, func(i int) { judgeAtom(i, atoms[i]) })
	sortPlacements(held)
	stat("genspec_atoms_held", len(held))
	return held
}

func gsConflicts(pos string, used map[string]bool) bool {
	for _, g := range [][]string{{"g-enum-list", "g-enum-json"}, {"g-default", "g-enum-list", "g-enum-json"}} {
		in := false
		for _, x := range g {
			in = in || x == pos
		}
		if !in {
			continue
		}
		for _, x := range g {
			if x != pos && used[x] {
				return true
			}
		}
	}
	return false
}

var heldSpecForGenspec []placement

func passBGenspec(rng *rand.Rand, held []placement) {
	if len(held) == 0 {
		C.Inconclusive("no generate-spec atom held in pass A")
		return
	}
	n := C.Pick(40, 400)
	cases := make([]caseT, n)
	for k := range cases {
		cs := caseT{Family: "genspec", Name: fmt.Sprintf("Bg%04d", k)}
		used := map[string]bool{}
		var pl []placement
		for j, want := 0, 2+rng.Intn(5); j < want; j++ {
			p := held[rng.Intn(len(held))]
			if used[p.Pos] || gsConflicts(p.Pos, used) {
				continue
			}
			used[p.Pos] = true
			pl = append(pl, p)
		}
		cs.Docs = [][]placement{pl}
		if rng.Intn(2) == 0 && len(heldSpecForGenspec) > 0 {
			var in []placement
			usedIn := map[string]bool{}
			for j := 0; j < 3; j++ {
				p := heldSpecForGenspec[rng.Intn(len(heldSpecForGenspec))]
				if usedIn[p.Pos] || conflicts(p.Pos, usedIn) {
					continue
				}
				usedIn[p.Pos] = true
				in = append(in, p)
			}
			cs.Docs = append(cs.Docs, in)
		}
		cases[k] = cs
	}
	core.Parallel(len(cases), 16, func(k int) {
		cases[k].Rot = k
		fs, status := judgeGenspec(cases[k], "")
		if status == "inexpressible" {
			return
		}
		stat("genspec_composites_judged", 1)
		if len(fs) > 0 {
			report(cases[k], fs, judgeGenspecCase)
		} else if k < 2 {
			C.Sample(map[string]any{"family": "genspec", "composite": cases[k].Name, "docs": cases[k].Docs, "findings": 0})
		}
	})
}

// ---------------------------------------------------------------------------
// `init spec`

var initPositions = []string{"i-info", "i-contact", "i-list"}

func initFlags(places []placement) ([]string, bool) {
	var flags []string
	for _, p := range places {
		vals := p.scalars()
		k := 0
		next := func() string {
			v := vals[k%len(vals)]
			k++
			return v.Str
		}
		for _, s := range vals {
			if s.Kind != "str" || strings.Contains(s.Str, "\x00") {
				return nil, false
			}
		}
		switch p.Pos {
		case "i-info":
			flags = append(flags, "--title="+next(), "--description="+next(), "--version="+next(), "--terms="+next())
		case "i-contact":
			flags = append(flags, "--contact.name="+next(), "--contact.url="+next(), "--contact.email="+next(), "--license.name="+next(), "--license.url="+next())
		case "i-list":
			flags = append(flags, "--consumes="+next(), "--consumes=application/json", "--produces=text/plain", "--produces="+next(), "--scheme="+next())
			for range vals[min(3, len(vals)):] {
				flags = append(flags, "--produces="+next())
			}
		default:
			return nil, false
		}
	}
	return flags, true
}

var initSpots = map[string]int{"i-info": 4, "i-contact": 5, "i-list": 8}

func judgeInit(cs caseT, only string) (fs []finding, ok bool) {
	flags, ok := initFlags(cs.Docs[0])
	if !ok {
		return nil, false
	}
	dir := filepath.Join(C.Scratch, "init", sanitize(cs.Name))
	_ = os.RemoveAll(dir)
	defer func() {
		if os.Getenv("VF_KEEP") == "" {
			_ = os.RemoveAll(dir)
		}
	}()
	class := classOf(cs)
	run := func(format string) runRes {
		target := filepath.Join(dir, format, "api")
		core.Must(os.MkdirAll(target, 0o755))
		args := append([]string{"init", "spec", "--format=" + format}, flags...)
		args = append(args, target)
		out := filepath.Join(target, "swagger.json")
		if format == "yaml" {
			out = filepath.Join(target, "swagger.yml")
		}
		r := runSwagger("", out, args...)
		r.Stderr = normLog(r.Stderr, C.Scratch)
		return r
	}
	ref, got := run("json"), run("yaml")
	if ref.TimedOut || got.TimedOut {
		C.Inconclusive("watchdog: %s", ref.Cmdline)
		return nil, true
	}
	C.Eval(fmt.Sprintf("init/out:flags>yaml/%s", class))
	if f := judgeOutput("init", ref, got, true); f != nil && f.Mode != "unobservable" {
		var q []string
		for _, a := range flags {
			q = append(q, strconv.Quote(a))
		}
		f.What = fmt.Sprintf("%s (init spec --format json|yaml with flags %s)", f.What, clip(strings.Join(q, " "), 300))
		fl, _ := json.MarshalIndent(flags, "", " ")
		f.Files = map[string]string{"swagger.json": string(ref.Out), "swagger.yml": string(got.Out), "flags.json": string(fl), "stderr.txt": got.Stderr}
		fs = append(fs, *f)
	}
	return fs, true
}

func judgeInitCase(cs caseT, only string) []finding {
	fs, _ := judgeInit(cs, only)
	return fs
}

func passAInit() []placement {
	var cases []caseT
	names := map[string]bool{}
	for _, class := range byClass() {
		if class[0].Kind != "str" {
			continue
		}
		for _, pos := range initPositions {
			sets := bundles(class, pos, initSpots[pos])
			if C.Thorough() && len(class) > 1 {
				sets = append(sets, bundles(class, pos, 1)...)
			}
			for _, vals := range sets {
				name := "i-" + vals[0].ID + "@" + pos
				if len(vals) > 1 {
					name = fmt.Sprintf("i-%s+%d@%s", vals[0].ID, len(vals)-1, pos)
				}
				if names[name] {
					continue
				}
				names[name] = true
				cases = append(cases, caseT{Family: "init", Name: name, Docs: [][]placement{{mkPlacement(vals, pos)}}})
			}
		}
	}
	var mu sync.Mutex
	var held []placement
	core.Parallel(len(cases), 16, func(i int) {
		fs, ok := judgeInit(cases[i], "")
		if !ok {
			stat("init_atoms_not_expressible", 1)
			return
		}
		stat("init_atoms_judged", 1)
		if len(fs) == 0 {
			mu.Lock()
			held = append(held, cases[i].Docs[0][0])
			mu.Unlock()
			if i%60 == 0 {
				C.Sample(map[string]any{"family": "init", "atom": cases[i].Name, "scalars": cases[i].Docs[0][0].show(), "findings": 0})
			}
			return
		}
		report(cases[i], fs, judgeInitCase)
	})
	sortPlacements(held)
	return held
}

func passBInit(rng *rand.Rand, held []placement) {
	if len(held) == 0 {
		C.Inconclusive("no init-spec atom held in pass A")
		return
	}
	n := C.Pick(60, 400)
	cases := make([]caseT, n)
	for k := range cases {
		var pl []placement
		used := map[string]bool{}
		for j := 0; j < 3; j++ {
			p := held[rng.Intn(len(held))]
			if used[p.Pos] {
				continue
			}
			used[p.Pos] = true
			pl = append(pl, p)
		}
		cases[k] = caseT{Family: "init", Name: fmt.Sprintf("Bi%04d", k), Docs: [][]placement{pl}}
	}
	core.Parallel(len(cases), 16, func(k int) {
		fs, ok := judgeInit(cases[k], "")
		if ok && len(fs) > 0 {
			report(cases[k], fs, judgeInitCase)
		}
	})
}
