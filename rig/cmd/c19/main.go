// C19 — JSON and YAML renderings of a spec are interchangeable.
//
// Output-format half: every spec-emitting command (flatten, expand, mixin,
// generate spec, init spec) is asked for JSON and for YAML; the YAML output is
// reloaded with go-openapi/loads (the tool's own loader) and must be JSON-equal
// to the JSON output. Input-format half: every command is fed the JSON and
// several YAML renderings of the same document and must give identical files,
// report and exit status.
//
// Pass A: each (command, scalar, position class) atom alone. Pass B: seeded
// composites of atoms that held in pass A.
package main

import (
	"encoding/json"
	"fmt"
	"math/rand"
	"os"
	"path/filepath"
	"sort"
	"strings"
	"sync"
	"sync/atomic"
	"time"

	"verif/rig/core"
	"verif/rig/difflib"
)

var (
	C       *core.Ctx
	swagger string
	self    string
	byID    = map[string]scalar{}

	statMu sync.Mutex
	stats  = map[string]int{}
)

func stat(k string, n int) {
	statMu.Lock()
	stats[k] += n
	statMu.Unlock()
}

// finding is one observed disagreement, before it is mapped to a violation key.
type finding struct {
	Cmd   string // flatten | expand | mixin | validate | diff | model | server | genspec | init
	Half  string // out | in
	Mode  string // exit | format | unreadable | differs | output | report | tree
	What  string
	Files map[string]string
}

func (f finding) sameKind(g finding) bool {
	return f.Cmd == g.Cmd && f.Half == g.Half && f.Mode == g.Mode
}

// placement: scalars of ONE class at one position class. Scalar is the first
// of them, More the others sharing the document (see place).
type placement struct {
	Scalar string   `json:"scalar"`
	More   []string `json:"more,omitempty"`
	Pos    string   `json:"pos"`
}

func (p placement) String() string { return byID[p.Scalar].Class + "@" + p.Pos }

func (p placement) scalars() []scalar {
	out := []scalar{byID[p.Scalar]}
	for _, id := range p.More {
		out = append(out, byID[id])
	}
	return out
}

func (p placement) ids() []string { return append([]string{p.Scalar}, p.More...) }

func mkPlacement(vals []scalar, pos string) placement {
	p := placement{Scalar: vals[0].ID, Pos: pos}
	for _, s := range vals[1:] {
		p.More = append(p.More, s.ID)
	}
	return p
}

func (p placement) show() string {
	var vs []string
	for _, s := range p.scalars() {
		vs = append(vs, clip(s.show(), 60))
	}
	return strings.Join(vs, " ")
}

// caseT is a serialisable description of one judged case (atom or composite).
type caseT struct {
	Family string        `json:"family"` // spec | genspec | init
	Name   string        `json:"name"`
	Docs   [][]placement `json:"docs"`           // spec family: doc 0 is the subject, further docs are extra mixins
	Cmds   []string      `json:"cmds,omitempty"` // commands to run (nil = all of the family)
	Opts   []string      `json:"opts,omitempty"` // extra command options (composites)
	Styles []string      `json:"styles,omitempty"`
	Depth  string        `json:"depth,omitempty"` // "rot": quick-tier rotation of the expensive combinations; else everything
	Rot    int           `json:"rot,omitempty"`
	Key    string        `json:"key,omitempty"` // replay: the key that was reported
}

func (cs caseT) places() []placement {
	var out []placement
	for _, d := range cs.Docs {
		out = append(out, d...)
	}
	return out
}

func main() {
	if len(os.Args) > 1 && os.Args[1] == "worker" {
		core.ServeWorker(difflib.Handle)
		return
	}
	C = core.New("C19")
	childEnv = append(os.Environ(), "GOMAXPROCS=4")
	self, _ = os.Executable()
	for _, s := range allScalars() {
		byID[s.ID] = s
	}
	swagger = C.BuildSwagger()
	loadListedKnown()
	if C.Replay != "" {
		replay()
		return
	}
	setupFixed()
	rng := rand.New(rand.NewSource(C.Seed))

	held := map[string][]placement{} // family → atoms judged without finding in pass A

	fam := func(f string) bool { // development aid: VF_C19_FAMILY=spec,genspec,init restricts the run
		sel := os.Getenv("VF_C19_FAMILY")
		return sel == "" || strings.Contains(","+sel+",", ","+f+",")
	}
	// ---------------- pass A
	if fam("spec") {
		held["spec"] = passASpec()
		heldSpecForGenspec = held["spec"]
	}
	if fam("genspec") {
		held["genspec"] = passAGenspec()
	}
	if fam("init") {
		held["init"] = passAInit()
	}
	// ---------------- pass B
	if fam("spec") {
		passBSpec(rng, held["spec"])
	}
	if fam("genspec") {
		passBGenspec(rng, held["genspec"])
	}
	if fam("init") {
		passBInit(rng, held["init"])
	}

	stat("cli_runs_total", int(cliRuns))
	statMu.Lock()
	for k, v := range stats {
		C.Extra[k] = v
	}
	statMu.Unlock()
	C.Finish("pass A: every (command, scalar class, position class) atom of the catalogue alone - the scalars of one class share a document, one per spot of the position class (thorough: also every scalar on its own); output half: flatten/expand/mixin (--format json|yaml, --compact), generate spec on annotated Go packages (-o .json|.yml|.yaml, --compact) and init spec (--format json|yaml): same exit status, requested format honoured, YAML output reloaded with go-openapi/loads JSON-equal (numbers numerically) to the JSON output; input half: validate/flatten/expand/mixin/diff/generate model/generate server (and generate spec -i) on the JSON rendering and on the yaml.v3 (jx.ToYAML), all-double-quoted and plain-style YAML renderings of the same document: same exit status, same output bytes, same report (multiset), same generated tree (same absolute target, moved aside). Pass B: seeded composites of atoms that held in pass A (several position classes per document, 1-3 extra mixins, flatten options, -i documents). distinct = (command, half:format, scalar class)",
		C.Pick(6000, 20000), C.Pick(1200, 1500), []string{
			"the reference loader is go-openapi/loads (swag + yaml.v3), the one every go-swagger command uses; no YAML 1.1 reader is consulted",
			"numbers are compared as float64 values; key order is ignored on the output half",
			"input documents are kept only if go-openapi/validate accepts them (`swagger validate` on the JSON rendering exits 0); a YAML rendering is kept only if go-openapi/loads reads it back JSON-equal to the JSON rendering (discards are counted in the evidence)",
			"input half: the JSON side of a comparison has the JSON text the reference loader makes of the YAML file (same key order, number literals and string escapes): yaml.v3 sorts keys naturally, YAML numbers come back as float64 and generate server copies the loader's raw text into embedded_spec.go, none of which the property is about",
			"a (scalar, position) whose emitting command fails for the JSON request as well (e.g. property names with quotes) is unobservable and only counted",
			"reports (stdout of diff, log of every command) are compared as multisets of entries/lines after removing timestamps and scratch paths: the order of diff entries and validation warnings varies between two runs on one and the same file (C07's subject)",
			"watchdog expiry is inconclusive",
		})
}

// ---------------------------------------------------------------------------
// helpers

func mustWrite(path string, b []byte) {
	core.Must(os.MkdirAll(filepath.Dir(path), 0o755))
	core.Must(os.WriteFile(path, b, 0o644))
}

// listedKnown: keys of the known-findings files (read only to skip the shrinking
// of reproducers nobody will read; core decides what is known).
var listedKnown = map[string]bool{}

// shrinkBudget bounds the number of findings whose reproducer is minimised.
var shrinkBudget int64 = 60

func loadListedKnown() {
	for _, p := range []string{filepath.Join(C.Verif, "known-findings.json"), os.Getenv("VF_KNOWN_EXTRA")} {
		b, err := os.ReadFile(p)
		if p == "" || err != nil {
			continue
		}
		var doc struct {
			Findings []core.Finding `json:"findings"`
		}
		if json.Unmarshal(b, &doc) == nil {
			for _, f := range doc.Findings {
				if f.Property == "C19" && f.Status == "known" {
					listedKnown[f.Key] = true
				}
			}
		}
	}
}

// baseCmd: the swagger command behind a workload label.
func baseCmd(cmd string) string {
	return strings.TrimSuffix(strings.TrimSuffix(cmd, "-as-primary"), "-rev")
}

func keyOf(f finding, who string) string {
	return fmt.Sprintf("C19/%s/%s/%s/%s", baseCmd(f.Cmd), f.Half, who, f.Mode)
}

// report turns the findings of a case into violations. For an atom the key is
// built from its single placement; composites are shrunk first.
func report(cs caseT, fs []finding, rejudge func(caseT, string) []finding) {
	seen := map[string]bool{}
	for _, f := range fs {
		kind := f.Cmd + "/" + f.Half + "/" + f.Mode
		if seen[kind] {
			continue
		}
		seen[kind] = true
		pl := cs.places()
		who := ""
		switch {
		case len(pl) == 1 && len(pl[0].More) > 0 && !strings.HasPrefix(cs.Name, "B"):
			// a class bundle: same key as its scalars alone; name the culprits in the text
			sc := byID[pl[0].Scalar]
			who = sc.Class + "/" + pl[0].Pos
			// a listed finding needs no minimal reproducer; on a tree where everything fails the
			// first reproducers are enough
			if !listedKnown[keyOf(f, who)] && atomic.AddInt64(&shrinkBudget, -1) >= 0 {
				cs = shrinkBundle(cs, f, rejudge)
			}
		case len(pl) == 1 && len(cs.Opts) == 0 && !strings.HasPrefix(cs.Name, "B"):
			sc := byID[pl[0].Scalar]
			who = sc.Class + "/" + pl[0].Pos
		default:
			min := cs
			if atomic.AddInt64(&shrinkBudget, -1) >= 0 {
				min = shrink(cs, f, rejudge)
			}
			var names []string
			for _, p := range min.places() {
				names = append(names, p.String())
			}
			sort.Strings(names)
			switch len(names) {
			case 0:
				who = "skeleton"
			case 1:
				who = strings.Replace(names[0], "@", "/", 1) + "/composite"
			default:
				who = strings.Join(names, "+")
			}
			if len(min.Opts) > 0 {
				who += "/" + strings.Join(min.Opts, "")
			}
			cs = min
		}
		key := keyOf(f, who)
		cs.Key = key
		files := map[string]string{}
		for k, v := range f.Files {
			files[k] = v
		}
		cj, _ := json.MarshalIndent(cs, "", " ")
		files["case.json"] = string(cj)
		var vals []string
		for _, p := range cs.places() {
			vals = append(vals, fmt.Sprintf("%s at %s", clip(p.show(), 200), p.Pos))
		}
		C.Violation(key, fmt.Sprintf("%s [%s] %s", cs.Name, strings.Join(vals, "; "), f.What), files)
	}
}

func clip(s string, n int) string {
	if len(s) > n {
		return s[:n] + "…"
	}
	return s
}

// shrinkBundle reduces a one-placement case to the scalars that are needed
// for the finding (one scalar whenever a single one suffices).
func shrinkBundle(cs caseT, f finding, rejudge func(caseT, string) []finding) caseT {
	p := cs.Docs[0][0]
	still := func(ids []string) bool {
		c := cs
		c.Name = cs.Name + "-shrink"
		q := placement{Scalar: ids[0], More: ids[1:], Pos: p.Pos}
		c.Docs = [][]placement{{q}}
		for _, g := range rejudge(c, f.Cmd) {
			if g.sameKind(f) {
				return true
			}
		}
		return false
	}
	ids := p.ids()
	for _, id := range ids {
		if still([]string{id}) {
			cs.Docs = [][]placement{{{Scalar: id, Pos: p.Pos}}}
			return cs
		}
	}
	return cs
}

// shrink removes placements and options greedily while a finding of the same
// kind is still observed.
func shrink(cs caseT, f finding, rejudge func(caseT, string) []finding) caseT {
	still := func(c caseT) bool {
		for _, g := range rejudge(c, f.Cmd) {
			if g.sameKind(f) {
				return true
			}
		}
		return false
	}
	cur := cs
	for changed := true; changed; {
		changed = false
		for di := range cur.Docs {
			for pi := range cur.Docs[di] {
				cand := cur
				cand.Docs = make([][]placement, len(cur.Docs))
				for k := range cur.Docs {
					cand.Docs[k] = append([]placement(nil), cur.Docs[k]...)
				}
				cand.Docs[di] = append(cand.Docs[di][:pi:pi], cand.Docs[di][pi+1:]...)
				cand.Name = cs.Name + "-shrink"
				if still(cand) {
					cur, changed = cand, true
					break
				}
			}
			if changed {
				break
			}
		}
		if !changed {
			for oi := range cur.Opts {
				cand := cur
				cand.Opts = append(append([]string(nil), cur.Opts[:oi]...), cur.Opts[oi+1:]...)
				cand.Name = cs.Name + "-shrink"
				if still(cand) {
					cur, changed = cand, true
					break
				}
			}
		}
	}
	cur.Name = cs.Name
	return cur
}

// validateFiles runs go-openapi/validate.Spec over files in child processes.
// It returns, per index, "" for valid or the reason.
func validateFiles(paths []string) []string {
	out := make([]string, len(paths))
	nchunks := 32
	chunks := make([][]map[string]any, nchunks)
	for i, p := range paths {
		chunks[i%nchunks] = append(chunks[i%nchunks], map[string]any{"id": fmt.Sprint(i), "mode": "validate", "a": p})
	}
	var mu sync.Mutex
	core.Parallel(nchunks, 16, func(k int) {
		if len(chunks[k]) == 0 {
			return
		}
		ans, crashes := core.RunWorker("", nil, 2*time.Minute, self, []string{"worker"}, chunks[k])
		mu.Lock()
		defer mu.Unlock()
		for _, r := range chunks[k] {
			var i int
			fmt.Sscan(r["id"].(string), &i)
			var a difflib.Ans
			if raw, ok := ans[r["id"].(string)]; ok {
				_ = json.Unmarshal(raw, &a)
			}
			switch {
			case a.Valid != nil && *a.Valid:
				out[i] = ""
			case a.Valid != nil:
				out[i] = "invalid: " + strings.Join(a.Errors, "; ")
			case a.Panic != "":
				out[i] = "validator panic: " + a.Panic
			case a.Err != "":
				out[i] = "load: " + a.Err
			default:
				out[i] = "validator did not answer"
			}
		}
		for _, cr := range crashes {
			var i int
			if _, err := fmt.Sscan(cr.ID, &i); err == nil && i < len(out) {
				out[i] = "validator crashed or timed out"
			}
		}
	})
	return out
}

func replay() {
	b, err := os.ReadFile(filepath.Join(C.Replay, "case.json"))
	if err != nil {
		fmt.Println("INCONCLUSIVE no case.json in", C.Replay)
		C.Cleanup()
		os.Exit(2)
	}
	var cs caseT
	core.Must(json.Unmarshal(b, &cs))
	want := cs.Key
	var fs []finding
	var rejudge func(caseT, string) []finding
	setupFixed()
	switch cs.Family {
	case "spec":
		rejudge = judgeSpecCase
	case "genspec":
		rejudge = judgeGenspecCase
	case "init":
		rejudge = judgeInitCase
	default:
		fmt.Println("INCONCLUSIVE unknown family", cs.Family)
		C.Cleanup()
		os.Exit(2)
	}
	fs = rejudge(cs, "")
	hit := false
	for _, f := range fs {
		fmt.Printf("finding: %s/%s/%s %s\n", f.Cmd, f.Half, f.Mode, core.OneLine(f.What))
		if keyMatches(want, f) {
			hit = true
		}
	}
	C.Cleanup()
	if hit || (want == "" && len(fs) > 0) {
		fmt.Printf("VIOLATION property=C19 replay=%s key=%s\n", C.Replay, want)
		os.Exit(1)
	}
	os.Exit(0)
}

// keyMatches: C19/<cmd>/<half>/.../<mode>[/composite|/<opts>]
func keyMatches(key string, f finding) bool {
	parts := strings.Split(key, "/")
	if len(parts) < 4 || parts[1] != baseCmd(f.Cmd) || parts[2] != f.Half {
		return false
	}
	for _, p := range parts[3:] {
		if p == f.Mode {
			return true
		}
	}
	return false
}
