// C11 — Regeneration never destroys user code and converges.
//
// Histories (generate runs with option sets, user edits, user files, spec evolution)
// are driven against one target directory inside a scratch module with the real
// swagger binary. The monitor snapshots the module before and after every step and
// reads the generator's file-decision trace (VERIF_TRACE, build tag verif).
package main

import (
	"crypto/sha256"
	"encoding/hex"
	"encoding/json"
	"fmt"
	"io/fs"
	"math/rand"
	"os"
	"path"
	"path/filepath"
	"regexp"
	"sort"
	"strings"
	"sync"
	"sync/atomic"
	"time"

	"github.com/go-openapi/swag"

	"verif/rig/core"
	"verif/rig/histgen"
	"verif/rig/jx"
)

// ---------------------------------------------------------------------------
// snapshots and traces

type finfo struct {
	Hash string
	Mode fs.FileMode
}

type snap map[string]finfo // module-relative slash path -> content hash and permission bits

func hashBytes(b []byte) string {
	s := sha256.Sum256(b)
	return hex.EncodeToString(s[:])
}

func snapshot(root string) snap {
	out := snap{}
	_ = filepath.WalkDir(root, func(p string, d fs.DirEntry, err error) error {
		if err != nil || d.IsDir() {
			return nil
		}
		rel, _ := filepath.Rel(root, p)
		rel = filepath.ToSlash(rel)
		info, err := d.Info()
		if err != nil {
			return nil
		}
		if info.Mode()&fs.ModeSymlink != 0 {
			l, _ := os.Readlink(p)
			out[rel] = finfo{Hash: "symlink:" + l, Mode: info.Mode().Perm()}
			return nil
		}
		b, err := os.ReadFile(p)
		if err != nil {
			out[rel] = finfo{Hash: "unreadable:" + err.Error(), Mode: info.Mode().Perm()}
			return nil
		}
		out[rel] = finfo{Hash: hashBytes(b), Mode: info.Mode().Perm()}
		return nil
	})
	return out
}

type events struct {
	skip, render, written, ffail map[string]bool
	all                          map[string]bool
	order                        []string // "kind path" lines, for reports
}

func parseTrace(file, cwd, mod string) events {
	ev := events{skip: map[string]bool{}, render: map[string]bool{}, written: map[string]bool{}, ffail: map[string]bool{}, all: map[string]bool{}}
	b, err := os.ReadFile(file)
	if err != nil {
		return ev
	}
	for _, line := range strings.Split(string(b), "\n") {
		if strings.TrimSpace(line) == "" {
			continue
		}
		var e struct {
			Kind string `json:"kind"`
			Path string `json:"path"`
		}
		if json.Unmarshal([]byte(line), &e) != nil {
			continue
		}
		p := e.Path
		if !filepath.IsAbs(p) {
			p = filepath.Join(cwd, p)
		}
		rel, err := filepath.Rel(mod, filepath.Clean(p))
		if err != nil {
			rel = p
		}
		rel = filepath.ToSlash(rel)
		switch e.Kind {
		case "skip-exists":
			ev.skip[rel] = true
		case "render":
			ev.render[rel] = true
		case "written":
			ev.written[rel] = true
		case "format-failed":
			ev.ffail[rel] = true
		default:
			continue
		}
		ev.all[rel] = true
		ev.order = append(ev.order, e.Kind+" "+rel)
	}
	return ev
}

var rxConfigure = regexp.MustCompile(`^configure_[^/]*\.go$`)

// isConfigure tells whether a path named in the generator's trace is the
// user-editable configure file (documented as configure_<name>.go).
func isConfigure(p string) bool {
	b := path.Base(p)
	return rxConfigure.MatchString(b) && !strings.HasSuffix(b, "_test.go")
}

// genClass labels a generated file for violation keys (labelling only).
func genClass(p string) string {
	b := path.Base(p)
	switch {
	case isConfigure(p):
		return "configure"
	case strings.HasPrefix(b, "auto_configure_"):
		return "auto-configure"
	case strings.HasSuffix(b, "_parameters.go"):
		return "parameters"
	case strings.HasSuffix(b, "_responses.go"):
		return "responses"
	case strings.HasSuffix(b, "_urlbuilder.go"):
		return "urlbuilder"
	case strings.HasSuffix(b, "_api.go"):
		return "api-builder"
	case b == "server.go":
		return "server"
	case b == "doc.go":
		return "doc"
	case b == "embedded_spec.go":
		return "embedded-spec"
	case b == "main.go":
		return "main"
	case strings.HasSuffix(b, "_client.go"):
		return "client"
	case strings.HasSuffix(b, "_operation.go"):
		return "cli-operation"
	case strings.HasSuffix(b, "_model.go"):
		return "cli-model"
	case b == "cli.go" || b == "autocomplete.go":
		return "cli-app"
	case !strings.HasSuffix(b, ".go"):
		return "non-go"
	}
	d := path.Base(path.Dir(p))
	if d == "models" || d == "dto" {
		return "model"
	}
	return "operation"
}

// ---------------------------------------------------------------------------
// the executor / monitor

type viol struct {
	Rule  string
	Cmd   string
	Opts  []string
	Class string
	Step  int
	What  string
	Files map[string]string
}

func (v viol) key() string {
	return "C11/" + v.Rule + "/" + v.Cmd + "/" + histgen.OptLabel(v.Opts) + "/" + v.Class
}

type ufile struct {
	info  finfo
	class string
}

type result struct {
	viols      []viol
	sigs       []string // one per judged generate step
	counts     map[string]int
	notes      []string
	incon      []string
	stepLog    []string
	script     []string
	scriptStep []int // step index of every script line (-1: set-up)
	noops      int
}

type env struct {
	c      *core.Ctx
	sw     string
	tmp    string
	specOK sync.Map // hash -> "" (valid) or error text
}

type exec struct {
	*env
	h      histgen.History
	root   string // <scratch>/h/<id>
	mod    string // <root>/mod
	tgt    string // "" (target = module root) or "app"
	doc    jx.J
	U      map[string]*ufile
	CF     map[string]string // configure files: path -> frozen hash
	cfEdit bool
	cfUser bool
	G      map[string]bool
	gens   map[string]bool
	since  []string
	res    result
	nUser  int
	cur    int // index of the step being executed
}

func (e *exec) t(rel string) string { // target-relative -> module-relative
	if e.tgt == "" {
		return rel
	}
	return e.tgt + "/" + rel
}

func (e *exec) abs(rel string) string { return filepath.Join(e.mod, filepath.FromSlash(rel)) }

func shq(s string) string {
	if s != "" && !strings.ContainsAny(s, " \t\n'\"$`\\*?[]{}()<>|&;#~!") {
		return s
	}
	return "'" + strings.ReplaceAll(s, "'", `'\''`) + "'"
}

func (e *exec) logf(format string, a ...any) {
	e.res.stepLog = append(e.res.stepLog, fmt.Sprintf(format, a...))
}

func (e *exec) sh(format string, a ...any) {
	e.res.script = append(e.res.script, fmt.Sprintf(format, a...))
	e.res.scriptStep = append(e.res.scriptStep, e.cur)
}

func (e *exec) count(k string) {
	e.res.counts[k]++
}

// writeUser creates or replaces a user-owned file and records it in U.
func (e *exec) writeUser(rel, class, content string, mode fs.FileMode) {
	p := e.abs(rel)
	core.Must(os.MkdirAll(filepath.Dir(p), 0o755))
	core.Must(os.WriteFile(p, []byte(content), mode))
	core.Must(os.Chmod(p, mode))
	e.U[rel] = &ufile{info: finfo{Hash: hashBytes([]byte(content)), Mode: mode.Perm()}, class: class}
	e.sh("mkdir -p %s && cat > %s <<'VF_EOF'\n%sVF_EOF", shq(path.Dir(rel)), shq(rel), ensureNL(content))
	if mode.Perm() != 0o644 {
		e.sh("chmod %o %s", mode.Perm(), shq(rel))
	}
}

func ensureNL(s string) string {
	if strings.HasSuffix(s, "\n") || s == "" {
		return s
	}
	return s + "\n"
}

func (e *exec) appendTo(rel, text string) {
	p := e.abs(rel)
	f, err := os.OpenFile(p, os.O_APPEND|os.O_WRONLY, 0)
	core.Must(err)
	_, err = f.WriteString(text)
	core.Must(err)
	core.Must(f.Close())
	e.sh("printf %%s %s >> %s", shq(text), shq(rel))
}

func (e *exec) exists(rel string) bool {
	st, err := os.Lstat(e.abs(rel))
	return err == nil && !st.IsDir()
}

func (e *exec) fileInfo(rel string) (finfo, bool) {
	p := e.abs(rel)
	st, err := os.Lstat(p)
	if err != nil || st.IsDir() {
		return finfo{}, false
	}
	b, err := os.ReadFile(p)
	if err != nil {
		return finfo{}, false
	}
	return finfo{Hash: hashBytes(b), Mode: st.Mode().Perm()}, true
}

// generated lists the generated files that currently exist (configure files
// excluded), sorted.
func (e *exec) generated() []string {
	var out []string
	for p := range e.G {
		if _, isU := e.U[p]; isU {
			continue
		}
		if _, isC := e.CF[p]; isC || isConfigure(p) {
			continue
		}
		if e.exists(p) {
			out = append(out, p)
		}
	}
	sort.Strings(out)
	return out
}

func pickS(list []string, sel int) string {
	if len(list) == 0 {
		return ""
	}
	if sel < 0 {
		sel = -sel
	}
	return list[sel%len(list)]
}

func goFile(pkg, body string) string {
	return "package " + pkg + "\n\n// written by the user, not by the generator\n" + body + "\n"
}

func (e *exec) addUserFile(class string, sel int) bool {
	e.nUser++
	n := e.nUser
	switch class {
	case "go-in-server-pkg":
		e.writeUser(e.t("restapi/my_handlers.go"), class, goFile("restapi", fmt.Sprintf("func myHandler%d() string { return \"mine\" }", n)), 0o644)
	case "go-in-models-pkg":
		e.writeUser(e.t("models/extra.go"), class, goFile("models", fmt.Sprintf("type Extra%d struct{ Note string }", n)), 0o644)
	case "lookalike-params":
		e.writeUser(e.t("restapi/operations/foo_parameters.go"), class, goFile("operations", fmt.Sprintf("type FooParams struct{ N int } // %d", n)), 0o644)
	case "lookalike-in-tag":
		tag := ""
		if ents, err := os.ReadDir(e.abs(e.t("restapi/operations"))); err == nil {
			var dirs []string
			for _, d := range ents {
				if d.IsDir() {
					dirs = append(dirs, d.Name())
				}
			}
			sort.Strings(dirs)
			tag = pickS(dirs, sel)
		}
		if tag == "" {
			tag = pickS(histgen.Tags(e.doc), sel)
		}
		if tag == "" {
			tag = "misc"
		}
		e.writeUser(e.t("restapi/operations/"+tag+"/foo_responses.go"), class, goFile(tag, fmt.Sprintf("type FooOK struct{ N int } // %d", n)), 0o644)
	case "lookalike-model":
		e.writeUser(e.t("models/foo_bar.go"), class, goFile("models", fmt.Sprintf("type FooBar struct{ N int } // %d", n)), 0o644)
	case "lookalike-handler":
		e.writeUser(e.t("restapi/operations/foo.go"), class, goFile("operations", fmt.Sprintf("type Foo struct{ N int } // %d", n)), 0o644)
	case "test-sibling":
		var cands []string
		for _, g := range e.generated() {
			if strings.HasSuffix(g, ".go") {
				cands = append(cands, g)
			}
		}
		g := pickS(cands, sel)
		if g == "" {
			g = e.t("restapi/server.go")
		}
		pkg := path.Base(path.Dir(g))
		if b, err := os.ReadFile(e.abs(g)); err == nil {
			if m := regexp.MustCompile(`(?m)^package (\w+)`).FindSubmatch(b); m != nil {
				pkg = string(m[1])
			}
		}
		e.writeUser(strings.TrimSuffix(g, ".go")+"_test.go", class, goFile(pkg, fmt.Sprintf("import \"testing\"\n\nfunc TestUser%d(t *testing.T) {}", n)), 0o644)
	case "case-variant":
		g := pickS(e.generated(), sel)
		if g == "" {
			g = e.t("models/widget.go")
		}
		b := path.Base(g)
		v := strings.ToUpper(b[:1]) + b[1:]
		if v == b {
			v = "X" + b
		}
		e.writeUser(path.Dir(g)+"/"+v, class, goFile(path.Base(path.Dir(g)), fmt.Sprintf("// variant %d", n)), 0o644)
	case "readme":
		e.writeUser(e.t("README.md"), class, fmt.Sprintf("# my service\n\nnotes %d\n", n), 0o644)
	case "nested-dir":
		e.writeUser(e.t("docs/notes/design.txt"), class, fmt.Sprintf("design notes %d\n", n), 0o644)
	case "user-cmd":
		e.writeUser(e.t("cmd/tool/main.go"), class, goFile("main", fmt.Sprintf("func main() { println(%d) }", n)), 0o644)
	case "go-in-client-pkg":
		e.writeUser(e.t("client/my_transport.go"), class, goFile("client", fmt.Sprintf("const userAgent = \"mine/%d\"", n)), 0o644)
	case "go-in-cli-pkg":
		e.writeUser(e.t("cli/extra_cmd.go"), class, goFile("cli", fmt.Sprintf("const extraCmd = \"x%d\"", n)), 0o644)
	case "go-in-main-pkg":
		dir := ""
		for _, g := range e.generated() {
			if path.Base(g) == "main.go" {
				dir = path.Dir(g)
				break
			}
		}
		if dir == "" {
			dir = e.t("cmd/" + histgen.BaseName + "-server")
		}
		e.writeUser(dir+"/extra_flags.go", class, goFile("main", fmt.Sprintf("var extraFlag%d bool", n)), 0o644)
	case "dotfile":
		e.writeUser(e.t(".gitignore"), class, fmt.Sprintf("*.tmp\n# %d\n", n), 0o644)
	case "executable":
		e.writeUser(e.t("scripts/regen.sh"), class, fmt.Sprintf("#!/bin/sh\n# %d\nswagger generate server\n", n), 0o755)
	case "makefile":
		e.writeUser(e.t("Makefile"), class, fmt.Sprintf("all:\n\tgo build ./... # %d\n", n), 0o644)
	case "precreated-config":
		var target string
		for _, name := range []string{histgen.OtherName, histgen.BaseName} {
			p := e.t("restapi/configure_" + name + ".go")
			if !e.exists(p) {
				target = p
				break
			}
		}
		if target == "" {
			return false
		}
		e.writeUser(target, class, goFile("restapi", fmt.Sprintf("// hand-written configuration %d\nfunc userConfigured() bool { return true }", n)), 0o644)
	case "go-in-custom-pkgs":
		e.writeUser(e.t("internal/rest/my_handlers.go"), class, goFile("rest", fmt.Sprintf("func myHandler%d() {}", n)), 0o644)
		e.writeUser(e.t("dto/extra.go"), class, goFile("dto", fmt.Sprintf("type Extra%d struct{}", n)), 0o644)
		e.writeUser(e.t("sdk/my_transport.go"), class, goFile("sdk", fmt.Sprintf("const ua = \"mine/%d\"", n)), 0o644)
		e.writeUser(e.t("internal/rest/ops/foo_parameters.go"), class, goFile("ops", fmt.Sprintf("type FooParams struct{ N int } // %d", n)), 0o644)
	case "backup-of-generated":
		g := pickS(e.generated(), sel)
		if g == "" {
			return false
		}
		b, err := os.ReadFile(e.abs(g))
		if err != nil {
			return false
		}
		e.writeUser(g+".orig", class, string(b), 0o644)
	default:
		return false
	}
	return true
}

func (e *exec) editConfigure() bool {
	var ps []string
	for p := range e.CF {
		if e.exists(p) {
			ps = append(ps, p)
		}
	}
	sort.Strings(ps)
	if len(ps) == 0 {
		return false
	}
	e.nUser++
	for _, p := range ps {
		e.appendTo(p, fmt.Sprintf("\n// user implementation %d\nfunc userHook%d() {}\n", e.nUser, e.nUser))
		if fi, ok := e.fileInfo(p); ok {
			e.CF[p] = fi.Hash
			if u, isU := e.U[p]; isU {
				u.info = fi
			}
		}
	}
	e.cfEdit = true
	return true
}

func (e *exec) userStep(s histgen.Step) bool {
	act := s.Act
	switch {
	case act == "bundle":
		for _, c := range histgen.UserFileClasses {
			e.addUserFile(c, s.Sel)
		}
		e.editConfigure()
		if g := pickS(e.generated(), s.Sel); g != "" {
			e.appendTo(g, "// user tweak in a generated file\n")
		}
		return true
	case strings.HasPrefix(act, "add:"):
		return e.addUserFile(strings.TrimPrefix(act, "add:"), s.Sel)
	case act == "edit-configure":
		return e.editConfigure()
	case strings.HasPrefix(act, "edit-generated:"):
		g := pickS(e.generated(), s.Sel)
		if g == "" {
			return false
		}
		switch strings.TrimPrefix(act, "edit-generated:") {
		case "comment":
			e.appendTo(g, "// user tweak in a generated file\n")
		case "garbage":
			b, err := os.ReadFile(e.abs(g))
			core.Must(err)
			core.Must(os.WriteFile(e.abs(g), append([]byte("<<<<<<< HEAD\n"), b...), 0o644))
			e.sh("{ echo '<<<<<<< HEAD'; cat %s; } > vf.tmp && mv vf.tmp %s", shq(g), shq(g))
		case "truncate":
			core.Must(os.WriteFile(e.abs(g), nil, 0o644))
			e.sh(": > %s", shq(g))
		}
		return true
	case act == "delete-generated":
		g := pickS(e.generated(), s.Sel)
		if g == "" {
			return false
		}
		core.Must(os.Remove(e.abs(g)))
		e.sh("rm -f %s", shq(g))
		return true
	case act == "delete-generated-dir":
		// a directory that holds generated files only
		dirs := map[string]bool{}
		for _, g := range e.generated() {
			dirs[path.Dir(g)] = true
		}
		var cands []string
		for d := range dirs {
			if d == "." || d == e.tgt {
				continue
			}
			clean := true
			for u := range e.U {
				if strings.HasPrefix(u, d+"/") {
					clean = false
				}
			}
			for c := range e.CF {
				if strings.HasPrefix(c, d+"/") {
					clean = false
				}
			}
			if clean {
				cands = append(cands, d)
			}
		}
		sort.Strings(cands)
		d := pickS(cands, s.Sel)
		if d == "" {
			return false
		}
		core.Must(os.RemoveAll(e.abs(d)))
		e.sh("rm -rf %s", shq(d))
		return true
	case act == "delete-configure":
		any := false
		for p := range e.CF {
			if e.exists(p) {
				core.Must(os.Remove(e.abs(p)))
				e.sh("rm -f %s", shq(p))
				any = true
			}
			delete(e.CF, p)
			delete(e.U, p)
		}
		e.cfEdit, e.cfUser = false, false
		return any
	case act == "edit-user-file":
		var ps []string
		for p, u := range e.U {
			if u.class == "module-file" || u.class == "spec-file" || u.class == "precreated-config" {
				continue
			}
			ps = append(ps, p)
		}
		sort.Strings(ps)
		p := pickS(ps, s.Sel)
		if p == "" {
			return false
		}
		e.appendTo(p, "\n// second thoughts\n")
		if fi, ok := e.fileInfo(p); ok {
			e.U[p].info = fi
		}
		return true
	case act == "chmod-generated":
		g := pickS(e.generated(), s.Sel)
		if g == "" {
			return false
		}
		core.Must(os.Chmod(e.abs(g), 0o600))
		e.sh("chmod 600 %s", shq(g))
		return true
	}
	return false
}

func (e *exec) writeSpec() {
	b := jx.Marshal(e.doc)
	core.Must(os.WriteFile(filepath.Join(e.mod, "swagger.json"), b, 0o644))
	e.U["swagger.json"] = &ufile{info: finfo{Hash: hashBytes(b), Mode: 0o644}, class: "spec-file"}
	e.sh("cat > swagger.json <<'VF_SPEC_EOF'\n%sVF_SPEC_EOF", ensureNL(string(b)))
	// every document handed to the generator is a valid Swagger 2.0 document
	h := hashBytes(b)
	if _, seen := e.specOK.Load(h); !seen {
		r := core.Run(e.mod, e.childEnv(""), 5*time.Minute, "", e.sw, "validate", "swagger.json")
		msg := ""
		if r.TimedOut {
			msg = "watchdog"
		} else if r.Exit != 0 {
			msg = core.OneLine(r.Stderr + r.Stdout)
		}
		e.specOK.Store(h, msg)
		if msg != "" {
			e.res.incon = append(e.res.incon, fmt.Sprintf("history %s: evolved spec does not validate: %s", e.h.ID, msg))
		}
	}
}

func (e *env) childEnv(trace string) []string {
	env := core.GoEnv()
	env = append(env, "TMPDIR="+e.tmp)
	if trace != "" {
		env = append(env, "VERIF_TRACE="+trace)
	}
	return env
}

func (e *exec) genArgs(s histgen.Step) []string {
	args := []string{"generate", s.Cmd, "-f", "swagger.json"}
	if e.tgt != "" {
		args = append(args, "-t", e.tgt)
	}
	return append(args, s.Args(e.doc)...)
}

type fresh struct {
	exit     int
	timedOut bool
	snap     snap
	ev       events
	dir      string // where the fresh tree was parked (module root of the fresh tree)
	stderr   string
}

// freshGen runs the same command line into an empty target at the same absolute
// path: the real target is moved aside, regenerated, parked, and moved back.
func (e *exec) freshGen(tag string, args []string) fresh {
	aside := filepath.Join(e.root, "aside")
	park := filepath.Join(e.root, "fresh-"+tag)
	core.Must(os.MkdirAll(aside, 0o755))
	_ = os.RemoveAll(park)
	core.Must(os.MkdirAll(park, 0o755))
	trace := filepath.Join(e.root, "trace-fresh-"+tag+".jsonl")
	_ = os.Remove(trace)
	var fr fresh
	if e.tgt != "" {
		real := filepath.Join(e.mod, e.tgt)
		core.Must(os.Rename(real, filepath.Join(aside, e.tgt)))
		core.Must(os.MkdirAll(real, 0o755))
		r := core.Run(e.mod, e.childEnv(trace), 5*time.Minute, "", e.sw, args...)
		fr.exit, fr.timedOut, fr.stderr = r.Exit, r.TimedOut, r.Stderr
		fr.snap = snapshot(e.mod)
		core.Must(os.Rename(real, filepath.Join(park, e.tgt)))
		core.Must(os.Rename(filepath.Join(aside, e.tgt), real))
	} else {
		core.Must(os.Rename(e.mod, filepath.Join(aside, "mod")))
		core.Must(os.MkdirAll(e.mod, 0o755))
		for _, f := range []string{"go.mod", "go.sum", "swagger.json"} {
			b, err := os.ReadFile(filepath.Join(aside, "mod", f))
			core.Must(err)
			core.Must(os.WriteFile(filepath.Join(e.mod, f), b, 0o644))
		}
		r := core.Run(e.mod, e.childEnv(trace), 5*time.Minute, "", e.sw, args...)
		fr.exit, fr.timedOut, fr.stderr = r.Exit, r.TimedOut, r.Stderr
		fr.snap = snapshot(e.mod)
		_ = os.Remove(park)
		core.Must(os.Rename(e.mod, park))
		core.Must(os.Rename(filepath.Join(aside, "mod"), e.mod))
	}
	fr.ev = parseTrace(trace, e.mod, e.mod)
	fr.dir = park
	return fr
}

func (fr fresh) read(e *exec, rel string) string {
	p := filepath.Join(fr.dir, filepath.FromSlash(rel))
	b, err := os.ReadFile(p)
	if err != nil {
		return ""
	}
	return string(b)
}

func firstDiff(a, b string) string {
	la, lb := strings.Split(a, "\n"), strings.Split(b, "\n")
	for i := 0; i < len(la) || i < len(lb); i++ {
		var x, y string
		if i < len(la) {
			x = la[i]
		}
		if i < len(lb) {
			y = lb[i]
		}
		if x != y {
			return fmt.Sprintf("line %d: real %q vs fresh %q", i+1, clip(x, 90), clip(y, 90))
		}
	}
	return "identical text"
}

func clip(s string, n int) string {
	if len(s) > n {
		return s[:n] + "…"
	}
	return s
}

func (e *exec) cfgState() string {
	n := 0
	for p := range e.CF {
		if e.exists(p) {
			n++
		}
	}
	switch {
	case n == 0:
		return "none"
	case e.cfUser:
		return "user-made"
	case e.cfEdit:
		return "edited"
	}
	return "pristine"
}

func (e *exec) gensLabel() string {
	l := ""
	for _, c := range []struct{ cmd, l string }{{"server", "s"}, {"client", "c"}, {"cli", "l"}, {"model", "m"}, {"operation", "o"}, {"support", "p"}} {
		if e.gens[c.cmd] {
			l += c.l
		}
	}
	if l == "" {
		return "-"
	}
	return l
}

func (e *exec) sinceLabel() string {
	if len(e.since) == 0 {
		return "-"
	}
	set := map[string]bool{}
	for _, s := range e.since {
		set[s] = true
	}
	l := jx.Keys(set)
	if len(l) > 3 {
		l = append(l[:3], "…")
	}
	return strings.Join(l, ",")
}

func sortedKeys[T any](m map[string]T) []string {
	ks := make([]string, 0, len(m))
	for k := range m {
		ks = append(ks, k)
	}
	sort.Strings(ks)
	return ks
}

// genStep runs and judges one generate step. It returns false when the history
// cannot continue (watchdog).
func (e *exec) genStep(i int, s histgen.Step) bool {
	args := e.genArgs(s)
	sig := fmt.Sprintf("%s | cfg=%s gens=%s since=%s", s.Atom(), e.cfgState(), e.gensLabel(), e.sinceLabel())
	before := snapshot(e.mod)
	trace := filepath.Join(e.root, fmt.Sprintf("trace-%02d.jsonl", i))
	_ = os.Remove(trace)
	r := core.Run(e.mod, e.childEnv(trace), 5*time.Minute, "", e.sw, args...)
	cmdline := "swagger " + strings.Join(args, " ")
	e.sh("$SWAGGER %s >/dev/null 2>&1; echo \"step %d exit=$?\"", shJoin(args), i)
	if r.TimedOut {
		e.res.incon = append(e.res.incon, fmt.Sprintf("history %s step %d: watchdog on %s", e.h.ID, i, cmdline))
		return false
	}
	after := snapshot(e.mod)
	ev := parseTrace(trace, e.mod, e.mod)
	regen := s.HasOpt("regenerate-configureapi")
	strato := s.HasOpt("template=stratoscale")
	e.logf("step %d: %s -> exit %d (%d written, %d skipped)", i, cmdline, r.Exit, len(ev.written), len(ev.skip))
	if r.Exit != 0 {
		e.logf("        stderr: %s", core.OneLine(lastLines(r.Stderr, 3)))
		e.count("generate-exit-nonzero")
	} else {
		e.count("generate-ok")
	}

	changed, removed := map[string]bool{}, map[string]bool{}
	for p, a := range after {
		if b, ok := before[p]; !ok || b.Hash != a.Hash {
			changed[p] = true
		}
	}
	for p := range before {
		if _, ok := after[p]; !ok {
			removed[p] = true
		}
	}
	// a run into a target that holds nothing but the module skeleton IS the fresh
	// generation: nothing to compare (such steps only build the prior state)
	pristine := true
	for p := range before {
		if u, ok := e.U[p]; !ok || (u.class != "module-file" && u.class != "spec-file") {
			pristine = false
			break
		}
	}
	needFresh := r.Exit == 0 && !pristine
	for p := range e.U {
		if changed[p] || removed[p] {
			needFresh = true
		}
	}
	var fr *fresh
	if needFresh {
		f := e.freshGen(fmt.Sprintf("%02d", i), args)
		if f.timedOut {
			e.res.incon = append(e.res.incon, fmt.Sprintf("history %s step %d: watchdog on the fresh run of %s", e.h.ID, i, cmdline))
			return false
		}
		fr = &f
	}
	base := func(rule, class, what string, files map[string]string) {
		if files == nil {
			files = map[string]string{}
		}
		files["trace-of-step.txt"] = strings.Join(ev.order, "\n") + "\n"
		e.res.viols = append(e.res.viols, viol{Rule: rule, Cmd: s.Cmd, Opts: s.Opts, Class: class, Step: i,
			What: fmt.Sprintf("%s (step %d of history %s: %s, exit %d)", what, i, e.h.ID, cmdline, r.Exit), Files: files})
		e.logf("        VIOLATION %s/%s: %s", rule, class, what)
	}

	// (a) files the generator did not produce are never modified or removed
	for _, p := range sortedKeys(e.U) {
		u := e.U[p]
		a, ok := after[p]
		if ok && a == u.info {
			continue
		}
		if ev.written[p] && fr != nil && fr.ev.written[p] {
			// the generator is responsible for this very path under this command
			// line: a name collision between a user file and a generated file,
			// which the property does not rule on
			e.count("unspecified:user-file-at-a-generated-path")
			delete(e.U, p)
			e.G[p] = true
			continue
		}
		if !ok {
			base("user-file-removed", u.class, fmt.Sprintf("user file %s (%s) was removed by the run", p, u.class), nil)
			delete(e.U, p)
			continue
		}
		how := "content changed"
		if a.Hash == u.info.Hash {
			how = fmt.Sprintf("mode changed %o -> %o", u.info.Mode, a.Mode)
		}
		b, _ := os.ReadFile(e.abs(p))
		base("user-file-modified", u.class, fmt.Sprintf("user file %s (%s): %s; logged written by the generator: %v", p, u.class, how, ev.written[p]),
			map[string]string{"after/" + path.Base(p): string(b)})
		u.info = a
	}

	// (b) the configure file is never rewritten once it exists unless explicitly requested
	protected := map[string]bool{}
	for p := range e.CF {
		protected[p] = true
	}
	for p := range ev.all {
		if isConfigure(p) {
			protected[p] = true
		}
	}
	for _, p := range sortedKeys(protected) {
		b, existed := before[p]
		if !existed {
			continue
		}
		a, still := after[p]
		logged := ev.render[p] || ev.written[p] || ev.ffail[p]
		if still && a.Hash == b.Hash && !logged {
			continue
		}
		if regen && ev.written[p] {
			e.count("configure-regenerated-on-request")
			continue
		}
		if strato && ev.written[p] {
			// the contributed template regenerates the file on every run by
			// design (contrib.go); whether choosing it is an explicit request
			// is left open by the property
			e.count("unspecified:stratoscale-regenerates-configure")
			continue
		}
		how := "rewritten with identical bytes (logged written)"
		switch {
		case !still:
			how = "removed"
		case a.Hash != b.Hash:
			how = "content changed"
		}
		cur, _ := os.ReadFile(e.abs(p))
		base("configure-rewritten", "configure", fmt.Sprintf("configure file %s existed before the step, --regenerate-configureapi was not given, and it was %s", p, how),
			map[string]string{"after/" + path.Base(p): string(cur)})
	}

	// (c) every file the run is responsible for equals a fresh generation
	if r.Exit == 0 && fr != nil {
		if fr.exit != 0 {
			e.count("fresh-run-fails-where-real-run-succeeds")
			e.res.notes = append(e.res.notes, fmt.Sprintf("history %s step %d: %s exits 0 on the existing target but %d on an empty one: %s", e.h.ID, i, cmdline, fr.exit, core.OneLine(lastLines(fr.stderr, 2))))
		} else {
			resp := map[string]string{}
			for p := range ev.written {
				resp[p] = "written"
			}
			for p := range fr.ev.written {
				if _, ok := resp[p]; !ok {
					resp[p] = "written-by-fresh-only"
				}
			}
			for p := range changed {
				if !ev.written[p] && !ev.ffail[p] {
					resp[p] = "unlogged"
				}
			}
			var fr2 *fresh
			for _, p := range sortedKeys(resp) {
				if _, isUser := e.U[p]; isUser {
					continue
				}
				if isConfigure(p) {
					if _, existed := before[p]; existed && !ev.written[p] {
						continue // kept as it was: rule (b)
					}
				}
				a, okA := after[p]
				f, okF := fr.snap[p]
				if okA && okF && a.Hash == f.Hash {
					continue
				}
				// generation itself must be a function of its inputs for the
				// comparison to mean anything (run-to-run variation is C07's subject)
				if fr2 == nil {
					f2 := e.freshGen(fmt.Sprintf("%02db", i), args)
					fr2 = &f2
				}
				if f2, ok2 := fr2.snap[p]; ok2 != okF || f2.Hash != f.Hash {
					e.count("nondeterministic-generation-left-to-C07")
					e.res.notes = append(e.res.notes, fmt.Sprintf("history %s step %d: %s: two fresh generations of %s differ (left to C07)", e.h.ID, i, cmdline, p))
					continue
				}
				class := genClass(p)
				if resp[p] == "unlogged" {
					class = "unlogged-" + class
				}
				realTxt, _ := os.ReadFile(e.abs(p))
				freshTxt := fr.read(e, p)
				var how string
				switch {
				case !okA:
					how = "a fresh generation writes it but it is missing after the run"
				case !okF:
					how = "written by the run but absent from a fresh generation"
				default:
					how = "bytes differ from a fresh generation, " + firstDiff(string(realTxt), freshTxt)
				}
				base("not-converged", class, fmt.Sprintf("%s (%s, %s): %s", p, class, resp[p], how),
					map[string]string{"real/" + path.Base(p): string(realTxt), "fresh/" + path.Base(p): freshTxt})
			}
		}
	}

	// (d) the configure file of application <name> is configure_<name>.go
	if name, given := s.AppName(); given && r.Exit == 0 && (s.Cmd == "server" || s.Cmd == "support") &&
		!s.HasOpt("implementation-package") && !s.HasOpt("skip-support") {
		want := "configure_" + swag.ToFileName(name) + ".go"
		found := false
		var saw []string
		for p := range ev.all {
			if path.Base(p) == want {
				found = true
			}
			if isConfigure(p) {
				saw = append(saw, p)
			}
		}
		if !found {
			sort.Strings(saw)
			base("configure-misnamed", "configure", fmt.Sprintf("run with -A %s did not address %s; configure files addressed: %v", name, want, saw), nil)
		}
	}

	// model update
	for p := range ev.render {
		e.G[p] = true
	}
	for p := range ev.written {
		e.G[p] = true
	}
	for p := range ev.all {
		if isConfigure(p) {
			if a, ok := after[p]; ok {
				if _, had := e.CF[p]; !had {
					if _, isU := e.U[p]; isU {
						e.cfUser = true
					}
				}
				e.CF[p] = a.Hash
			}
		}
	}
	for p := range e.CF {
		if a, ok := after[p]; ok {
			e.CF[p] = a.Hash
		} else {
			delete(e.CF, p)
		}
	}
	if regen || strato {
		any := false
		for p := range ev.written {
			if isConfigure(p) {
				any = true
			}
		}
		if any {
			e.cfEdit = false
		}
	}
	if r.Exit == 0 {
		e.gens[s.Cmd] = true
	}
	if pristine {
		e.count("generate-into-empty-target(prior-state only)")
	} else {
		e.res.sigs = append(e.res.sigs, sig)
	}
	e.since = nil
	for _, f := range []string{"fresh-" + fmt.Sprintf("%02d", i), "fresh-" + fmt.Sprintf("%02db", i)} {
		_ = os.RemoveAll(filepath.Join(e.root, f))
	}
	return true
}

func lastLines(s string, n int) string {
	l := strings.Split(strings.TrimSpace(s), "\n")
	if len(l) > n {
		l = l[len(l)-n:]
	}
	return strings.Join(l, "\n")
}

func shJoin(args []string) string {
	q := make([]string, len(args))
	for i, a := range args {
		q[i] = shq(a)
	}
	return strings.Join(q, " ")
}

var runSeq int64

// runHistory executes one history in its own module and judges every step.
func (ev *env) runHistory(h histgen.History) result {
	n := atomic.AddInt64(&runSeq, 1)
	name := fmt.Sprintf("h/%s-%d", h.ID, n)
	root := filepath.Join(ev.c.Scratch, filepath.FromSlash(name))
	m := ev.c.NewModule(name + "/mod")
	e := &exec{env: ev, h: h, root: root, mod: m.Dir, U: map[string]*ufile{}, CF: map[string]string{}, G: map[string]bool{}, gens: map[string]bool{}}
	e.res.counts = map[string]int{}
	defer os.RemoveAll(root)
	if h.Layout != "root" {
		e.tgt = "app"
		core.Must(os.MkdirAll(filepath.Join(e.mod, "app"), 0o755))
	}
	e.doc = h.Doc
	if e.doc == nil {
		e.doc = histgen.BaseSpec(h.Spec)
	}
	if e.doc == nil {
		e.res.incon = append(e.res.incon, "unknown base spec "+h.Spec)
		return e.res
	}
	e.doc = jx.CloneJ(e.doc)
	for _, f := range []string{"go.mod", "go.sum"} {
		if fi, ok := e.fileInfo(f); ok {
			e.U[f] = &ufile{info: fi, class: "module-file"}
		}
	}
	e.cur = -1
	e.writeSpec()
	for i, s := range h.Steps {
		e.cur = i
		switch s.Kind {
		case "gen":
			if !e.genStep(i, s) {
				return e.res
			}
		case "user":
			e.sh("# step %d: user %s", i, s.Act)
			if e.userStep(s) {
				e.logf("step %d: user %s", i, s.Act)
				e.since = append(e.since, "user:"+s.Act)
			} else {
				e.logf("step %d: user %s (does not apply here, no-op)", i, s.Act)
				e.res.noops++
			}
		case "spec":
			d, what, ok := histgen.Evolve(e.doc, s.Edit, s.Sel)
			if ok {
				e.doc = d
				e.sh("# step %d: %s", i, what)
				e.writeSpec()
				e.logf("step %d: %s", i, what)
				e.since = append(e.since, "spec:"+s.Edit)
			} else {
				e.logf("step %d: spec %s (does not apply here, no-op)", i, s.Edit)
				e.res.noops++
			}
		}
	}
	return e.res
}

// ---------------------------------------------------------------------------
// reporting

func reproScript(h histgen.History, res result, key string) string {
	// only the steps up to the violating one (h is already truncated)
	var lines []string
	for i, l := range res.script {
		if res.scriptStep[i] < len(h.Steps) {
			lines = append(lines, l)
		}
	}
	res.script = lines
	var b strings.Builder
	fmt.Fprintf(&b, "#!/bin/sh\n# %s\n# Re-runs the history with a swagger binary (SWAGGER=/path/to/swagger, default: swagger from PATH)\n", key)
	b.WriteString("# and shows (1) which files the last generate step changed and (2) how the target differs from a\n# fresh generation of the same command line at the same absolute path.\n")
	b.WriteString("SWAGGER=${SWAGGER:-swagger}\nW=$(mktemp -d); trap 'rm -rf \"$W\"' EXIT\nmkdir -p \"$W/mod\" && cd \"$W/mod\" || exit 2\nprintf 'module vfmod/mod\\n\\ngo 1.21\\n' > go.mod\n")
	if h.Layout != "root" {
		b.WriteString("mkdir -p app\n")
	}
	last := -1
	for i, l := range res.script {
		if strings.HasPrefix(l, "$SWAGGER ") {
			last = i
		}
	}
	for i, l := range res.script {
		if i == last {
			b.WriteString("find . -type f | sort | xargs sha256sum > \"$W/before.sha\"\n")
		}
		b.WriteString(l + "\n")
		if i == last {
			b.WriteString("find . -type f | sort | xargs sha256sum > \"$W/after.sha\"\n")
			b.WriteString("echo '--- files changed by the last step (expected: no user file, no configure_*.go unless --regenerate-configureapi):'\ndiff \"$W/before.sha\" \"$W/after.sha\"\n")
			gen := strings.SplitN(l, ";", 2)[0]
			if h.Layout != "root" {
				fmt.Fprintf(&b, "mv app \"$W/real-app\"; mkdir app; %s\n", gen)
				b.WriteString("echo '--- real target vs fresh generation (files present on both sides; expected: only the kept configure file differs):'\ndiff -r \"$W/real-app\" app | grep -v '^Only in'\n")
			} else {
				fmt.Fprintf(&b, "cd \"$W\"; mv mod real-mod; mkdir mod; cp real-mod/go.mod real-mod/swagger.json mod/; cd mod; %s\n", gen)
				b.WriteString("echo '--- real target vs fresh generation (files present on both sides; expected: only the kept configure file differs):'\ndiff -r \"$W/real-mod\" . | grep -v '^Only in'\n")
			}
		}
	}
	out := b.String()
	if strings.Contains(out, histgen.LayoutDir) {
		// self-contained script: the configuration file of the config-file options
		out = strings.ReplaceAll(out, histgen.LayoutDir, "$W/layouts")
		mark := "> go.mod\n"
		out = strings.Replace(out, mark, mark+"mkdir -p \"$W/layouts\"; cat > \"$W/layouts/server-layout.yml\" <<'VF_LAYOUT_EOF'\n"+histgen.ServerLayout+"VF_LAYOUT_EOF\ncat > \"$W/layouts/server-layout-doc.yml\" <<'VF_LAYOUT_EOF'\n"+histgen.ServerLayoutDoc+"VF_LAYOUT_EOF\n", 1)
	}
	return out
}

func truncated(h histgen.History, upto int) histgen.History {
	t := h
	t.Steps = append([]histgen.Step(nil), h.Steps[:upto+1]...)
	return t
}

func (ev *env) report(h histgen.History, res result, v viol) {
	t := truncated(h, v.Step)
	t.Doc = histgen.BaseSpec(h.Spec)
	if h.Doc != nil {
		t.Doc = h.Doc
	}
	hj, _ := json.MarshalIndent(t, "", " ")
	files := map[string]string{
		"history.json": string(hj) + "\n",
		"observed.txt": v.What + "\n\nstep log:\n" + strings.Join(res.stepLog, "\n") + "\n",
		"expected.txt": "After every generate step: files the generator did not produce are unchanged; an existing configure_<name>.go is neither changed nor re-written unless --regenerate-configureapi is given; every file the run writes (or a fresh generation would write) equals the fresh generation of the same command line into an empty target at the same absolute path.\n",
		"repro.sh":     reproScript(t, res, v.key()),
	}
	for k, b := range v.Files {
		files[k] = b
	}
	ev.c.Violation(v.key(), v.What, files)
}

var minimisations int64

// sameDefect tells whether a run of a candidate history shows the defect again
// at its last step.
func sameDefect(res result, v viol, last int) *viol {
	for i := range res.viols {
		w := res.viols[i]
		if w.Rule == v.Rule && w.Class == v.Class && w.Cmd == v.Cmd && w.Step == last {
			return &w
		}
	}
	return nil
}

// minimise shrinks a seeded history to a canonical form for the violation: the
// key names the smallest option set, the replay holds the fewest steps.
func (ev *env) minimise(h histgen.History, v viol) (histgen.History, result, viol, bool) {
	cur := truncated(h, v.Step)
	cur.ID = h.ID + "m"
	curRes := ev.runHistory(cur)
	cv := sameDefect(curRes, v, len(cur.Steps)-1)
	if cv == nil {
		return h, result{}, v, false
	}
	best := *cv
	for i := len(cur.Steps) - 2; i >= 0; i-- {
		cand := cur
		cand.Steps = append(append([]histgen.Step(nil), cur.Steps[:i]...), cur.Steps[i+1:]...)
		r := ev.runHistory(cand)
		if w := sameDefect(r, v, len(cand.Steps)-1); w != nil {
			cur, curRes, best = cand, r, *w
		}
	}
	lastI := len(cur.Steps) - 1
	for _, o := range append([]string(nil), cur.Steps[lastI].Opts...) {
		cand := cur
		cand.Steps = append([]histgen.Step(nil), cur.Steps...)
		var opts []string
		for _, x := range cand.Steps[lastI].Opts {
			if x != o {
				opts = append(opts, x)
			}
		}
		cand.Steps[lastI].Opts = opts
		r := ev.runHistory(cand)
		if w := sameDefect(r, v, lastI); w != nil {
			cur, curRes, best = cand, r, *w
		}
	}
	return cur, curRes, best, true
}

type outcome struct {
	h   histgen.History
	res result
}

func summarise(h histgen.History, res result) map[string]any {
	var steps []string
	for _, s := range h.Steps {
		steps = append(steps, s.Atom())
	}
	verdict := "held"
	if len(res.viols) > 0 {
		verdict = "violated: " + res.viols[0].key()
	}
	return map[string]any{"history": h.ID, "pass": h.Pass, "spec": h.Spec, "layout": h.Layout, "steps": steps,
		"judged_generate_steps": len(res.sigs), "verdict": verdict, "log": res.stepLog}
}

func main() {
	c := core.New("C11")
	ev := &env{c: c, sw: c.BuildSwagger(), tmp: filepath.Join(c.Scratch, "tmp")}
	histgen.LayoutDir = filepath.Join(c.Scratch, "layouts")
	core.Must(histgen.WriteLayouts())
	core.Must(os.MkdirAll(ev.tmp, 0o755))

	if c.Replay != "" {
		replay(ev)
		return
	}

	// every base document is a valid Swagger 2.0 document
	for _, s := range histgen.BaseSpecs() {
		f := filepath.Join(c.Scratch, "spec-"+s.ID+".json")
		core.Must(os.WriteFile(f, jx.Marshal(s.Doc), 0o644))
		r := core.Run(c.Scratch, ev.childEnv(""), 5*time.Minute, "", ev.sw, "validate", f)
		if r.Exit != 0 || r.TimedOut {
			c.Inconclusive("base spec %s does not validate: %s", s.ID, core.OneLine(r.Stderr+r.Stdout))
		}
		_ = os.Remove(f)
	}

	totals := map[string]int{}
	var mu sync.Mutex
	failed := map[string]bool{} // atoms that did not hold in pass A
	transitions := map[string]bool{}
	var nHist, nSteps, nNoop int

	absorb := func(h histgen.History, res result) {
		mu.Lock()
		defer mu.Unlock()
		nHist++
		nSteps += len(h.Steps)
		nNoop += res.noops
		for k, n := range res.counts {
			totals[k] += n
		}
		for _, s := range res.sigs {
			transitions[s] = true
		}
		for _, n := range res.notes {
			c.Note("%s", n)
		}
	}
	register := func(res result) {
		for _, s := range res.sigs {
			c.Eval(s)
		}
		for _, s := range res.incon {
			c.Inconclusive("%s", s)
		}
	}

	// ---- pass A: the fixed catalogue
	standardPrior := map[string]bool{"empty+user-files": true, "server+edits": true, "client+edits": true}
	nSampleA := 0
	cat := histgen.Catalogue(c.Thorough())
	outA := make([]outcome, len(cat))
	core.Parallel(len(cat), 16, func(i int) {
		outA[i] = outcome{cat[i], ev.runHistory(cat[i])}
	})
	// a defect that shows on the option-less run of a command is the same defect
	// when it shows again with an option: it keeps the option-less key
	baseFail := map[string]bool{}
	for _, o := range outA {
		for _, v := range o.res.viols {
			if len(v.Opts) == 0 {
				baseFail[v.Rule+"|"+v.Cmd+"|"+v.Class] = true
			}
		}
	}
	fold := func(v viol) viol {
		if len(v.Opts) > 0 && baseFail[v.Rule+"|"+v.Cmd+"|"+v.Class] {
			v.What += fmt.Sprintf(" [options of this run: %s; reported under the option-less key]", histgen.OptLabel(v.Opts))
			v.Opts = nil
		}
		return v
	}
	markGen := func(v viol) {
		for _, opt := range v.Opts {
			failed["gen:"+v.Cmd+"/"+opt] = true
		}
		if len(v.Opts) == 0 {
			failed["gen:"+v.Cmd+"/-"] = true
		}
	}
	genFailed := func(v viol) bool {
		if failed["gen:"+v.Cmd+"/-"] {
			return true
		}
		for _, opt := range v.Opts {
			if failed["gen:"+v.Cmd+"/"+opt] {
				return true
			}
		}
		return false
	}
	// first the histories whose subject is a generate atom in a standard prior
	// state, then the others: a user or spec atom is only blamed for a violation
	// that its generate step does not show on its own
	for round := 0; round < 2; round++ {
		for _, o := range outA {
			isGen := strings.HasPrefix(o.h.Atom, "gen:")
			if (round == 0) != isGen {
				continue
			}
			absorb(o.h, o.res)
			register(o.res)
			for _, v := range o.res.viols {
				ev.report(o.h, o.res, fold(v))
				switch {
				case strings.HasPrefix(v.Rule, "user-file-"):
					failed["user:add:"+v.Class] = true
				case isGen && standardPrior[o.h.Prior]:
					// (a defect that needs a special prior state does not
					// disqualify the generate atom; its recurrences in pass B
					// fold into the pass-A key through baseFail)
					markGen(v)
				case !isGen && !genFailed(v):
					// the user/spec action is needed for this generate atom to
					// fail: the pair is kept out of pass B, not the action
					for _, opt := range v.Opts {
						failed["pair:"+o.h.Atom+">gen:"+v.Cmd+"/"+opt] = true
					}
					if len(v.Opts) == 0 {
						failed["pair:"+o.h.Atom+">gen:"+v.Cmd+"/-"] = true
					}
				}
			}
			if len(o.res.viols) == 0 && strings.HasSuffix(o.h.ID, "7") && nSampleA < 6 {
				nSampleA++
				c.Sample(summarise(o.h, o.res))
			}
		}
	}
	if failed["user:add:module-file"] || failed["user:add:spec-file"] {
		failed["user:bundle"] = true
	}

	// ---- pass B: seeded histories composed of atoms that held in pass A
	nB := c.Pick(25, 250)
	rng := rand.New(rand.NewSource(c.Seed))
	hsB := make([]histgen.History, nB)
	for i := range hsB {
		hsB[i] = histgen.Random(rng, fmt.Sprintf("B%03d", i), func(atom string) bool { return !failed[atom] })
	}
	outB := make([]outcome, nB)
	core.Parallel(nB, 16, func(i int) {
		outB[i] = outcome{hsB[i], ev.runHistory(hsB[i])}
	})
	// minimisation of pass-B violations (bounded), in parallel
	type job struct {
		o outcome
		v viol
	}
	var jobs []job
	seen := map[string]bool{}
	for i, o := range outB {
		absorb(o.h, o.res)
		register(o.res)
		if i < 4 {
			c.Sample(summarise(o.h, o.res))
		}
		for _, v := range o.res.viols {
			if f := fold(v); len(f.Opts) != len(v.Opts) {
				ev.report(o.h, o.res, f)
				continue
			}
			sk := v.Rule + "|" + v.Cmd + "|" + v.Class + "|" + histgen.OptLabel(v.Opts)
			if seen[sk] {
				continue
			}
			seen[sk] = true
			jobs = append(jobs, job{o, v})
		}
	}
	core.Parallel(len(jobs), 16, func(i int) {
		j := jobs[i]
		if atomic.AddInt64(&minimisations, 1) <= 24 {
			if mh, mres, mv, ok := ev.minimise(j.o.h, j.v); ok {
				for _, s := range mres.incon {
					c.Inconclusive("%s", s)
				}
				ev.report(mh, mres, mv)
				return
			}
		}
		ev.report(j.o.h, j.o.res, j.v)
	})

	c.Extra["histories"] = nHist
	c.Extra["history_steps"] = nSteps
	c.Extra["steps_not_applicable"] = nNoop
	c.Extra["pass_A_histories"] = len(cat)
	c.Extra["pass_B_histories"] = nB
	c.Extra["outcome_counts"] = totals
	c.Extra["atoms_excluded_from_pass_B"] = sortedKeys(failed)
	c.Finish("histories of generate server|client|cli|model|operation|support runs (single options in pass A, seeded option sets in pass B), user edits of the configure file and of generated files, user-added files of 20 classes, and spec evolution (gain/lose operation, definition, tag; retitle) against one target directory with the real swagger binary; after every generate step: user files byte- and mode-identical, existing configure_<name>.go neither changed nor logged as rendered/written unless --regenerate-configureapi, every path written by the run or by a fresh run of the same command line into an empty target at the same absolute path byte-identical between the two; evaluations = judged generate steps, distinct = (generate action, prior-state class) transitions",
		c.Pick(300, 1200), c.Pick(250, 1000), []string{
			"the generator's own trace (VERIF_TRACE, build tag verif) tells which paths a run skipped, rendered and wrote; files changed without a trace entry are treated as written",
			"the configure file is identified from the trace by its documented name configure_<name>.go; for the plain lower-case -A names used here the expected file name needs no name mangling",
			"a user file placed at a path that the same command line also generates into an empty target (name collision) is counted as unspecified, not judged",
			"--template stratoscale regenerates the configure file by design (contrib.go); counted as unspecified",
			"a path whose content differs between two fresh generations of the same command line is left to C07",
			"files left over from removed operations/definitions are not asserted either way; generated code is not compiled here",
		})
}

func replay(ev *env) {
	c := ev.c
	b, err := os.ReadFile(filepath.Join(c.Replay, "history.json"))
	if err != nil {
		fmt.Println("INCONCLUSIVE cannot read history.json:", err)
		c.Cleanup()
		os.Exit(2)
	}
	var h histgen.History
	if err := json.Unmarshal(b, &h); err != nil {
		fmt.Println("INCONCLUSIVE bad history.json:", err)
		c.Cleanup()
		os.Exit(2)
	}
	if h.Doc != nil {
		h.Doc = jx.Normalize(h.Doc).(jx.J)
	}
	h.ID = "replay"
	res := ev.runHistory(h)
	for _, l := range res.stepLog {
		fmt.Println(l)
	}
	c.Cleanup()
	if len(res.incon) > 0 {
		fmt.Println("INCONCLUSIVE", strings.Join(res.incon, "; "))
		os.Exit(2)
	}
	if len(res.viols) > 0 {
		for _, v := range res.viols {
			fmt.Printf("VIOLATION property=C11 replay=%s key=%s %s\n", c.Replay, v.key(), core.OneLine(v.What))
		}
		os.Exit(1)
	}
	fmt.Println("no violation on replay")
	os.Exit(0)
}
