// C06 — generated server enforces security requirements exactly.
package main

import (
	"encoding/base64"
	"encoding/json"
	"fmt"
	"math/rand"
	"net/url"
	"sort"
	"strings"
	"sync"

	"verif/rig/core"
	"verif/rig/jx"
	"verif/rig/servrig"
)

type J = jx.J

// the security schemes of every generated document
var schemeDefs = J{
	"basicS": J{"type": "basic"},
	"keyH":   J{"type": "apiKey", "in": "header", "name": "X-Key-H"},
	"keyQ":   J{"type": "apiKey", "in": "query", "name": "key_q"},
	"keyH2":  J{"type": "apiKey", "in": "header", "name": "X-Key-Two"},
	"keySame": J{"type": "apiKey", "in": "header", "name": "X-Key-H"}, // shares its header with keyH
	"oauthS": J{"type": "oauth2", "flow": "accessCode", "authorizationUrl": "https://auth.example.com/authorize", "tokenUrl": "https://auth.example.com/token",
		"scopes": J{"read": "read things", "write": "write things", "admin": "administer"}},
}

type alt map[string][]string // scheme -> required scopes

type secAtom struct {
	id       string
	security []alt // nil = key absent (inherit), empty non-nil = explicit []
	explicit bool
}

func req(alts ...alt) []alt { return alts }

func atoms() []secAtom {
	return []secAtom{
		{id: "inherit-global"},
		{id: "explicit-empty", security: []alt{}, explicit: true},
		{id: "basic", security: req(alt{"basicS": {}}), explicit: true},
		{id: "apikey-header", security: req(alt{"keyH": {}}), explicit: true},
		{id: "apikey-query", security: req(alt{"keyQ": {}}), explicit: true},
		{id: "oauth-noscope", security: req(alt{"oauthS": {}}), explicit: true},
		{id: "oauth-read", security: req(alt{"oauthS": {"read"}}), explicit: true},
		{id: "oauth-read+write", security: req(alt{"oauthS": {"read", "write"}}), explicit: true},
		{id: "and-basic+keyH", security: req(alt{"basicS": {}, "keyH": {}}), explicit: true},
		{id: "and-keyH+keyQ", security: req(alt{"keyH": {}, "keyQ": {}}), explicit: true},
		{id: "and-keyH+keyQ+oauth-read", security: req(alt{"keyH": {}, "keyQ": {}, "oauthS": {"read"}}), explicit: true},
		{id: "or-keyH|keyQ", security: req(alt{"keyH": {}}, alt{"keyQ": {}}), explicit: true},
		{id: "or-basic|keyQ|keyH2", security: req(alt{"basicS": {}}, alt{"keyQ": {}}, alt{"keyH2": {}}), explicit: true},
		{id: "or-of-ands", security: req(alt{"basicS": {}, "keyH": {}}, alt{"oauthS": {"read", "write"}}), explicit: true},
		{id: "or-keyQ|oauth-admin", security: req(alt{"keyQ": {}}, alt{"oauthS": {"admin"}}), explicit: true},
		{id: "same-header-schemes", security: req(alt{"keyH": {}, "keySame": {}}), explicit: true},
		{id: "or-same-header-schemes", security: req(alt{"keySame": {}}, alt{"keyH2": {}}), explicit: true},
	}
}

type opInfo struct {
	opID, path, method string
	atom               secAtom
	effective          []alt
	pass               string
}

func secJSON(alts []alt) []any {
	out := []any{}
	for _, a := range alts {
		m := J{}
		for k, sc := range a {
			l := []any{}
			for _, s := range sc {
				l = append(l, s)
			}
			m[k] = l
		}
		out = append(out, m)
	}
	return out
}

func buildSpec(title string, global []alt, ops []opInfo, principalModel bool) J {
	paths := J{}
	for _, op := range ops {
		o := J{"operationId": op.opID, "responses": J{"200": J{"description": "ok"}, "default": J{"description": "error"}},
			"parameters": []any{J{"name": "need", "in": "query", "type": "integer", "minimum": json.Number("1"), "required": true}}}
		if op.atom.explicit {
			o["security"] = secJSON(op.atom.security)
		}
		paths[op.path] = J{strings.ToLower(op.method): o}
	}
	d := J{"swagger": "2.0", "info": J{"title": title, "version": "1.0.0"}, "basePath": "/sec", "consumes": []any{"application/json"}, "produces": []any{"application/json"},
		"securityDefinitions": jx.Clone(schemeDefs), "paths": paths}
	if global != nil {
		d["security"] = secJSON(global)
	}
	if principalModel {
		d["definitions"] = J{"principal": J{"type": "object", "properties": J{"name": J{"type": "string"}, "roles": J{"type": "array", "items": J{"type": "string"}}}}}
	}
	return d
}

// credential states
const (
	absent = iota
	valid
	invalid
	insufficient // oauth only: authentic token lacking the required scopes
)

var stateName = []string{"absent", "valid", "invalid", "insufficient-scope"}

func schemesOf(alts []alt) []string {
	set := map[string]bool{}
	for _, a := range alts {
		for k := range a {
			set[k] = true
		}
	}
	var out []string
	for k := range set {
		out = append(out, k)
	}
	sort.Strings(out)
	return out
}

type cred struct {
	state int
	token string
}

// buildRequest renders credentials; ok=false when they cannot be presented together.
func buildRequest(id string, op opInfo, creds map[string]cred, validParams bool) (servrig.Req, bool) {
	r := servrig.Req{ID: id, Method: op.method, URL: "/sec" + op.path, Header: map[string][]string{}}
	q := url.Values{}
	if validParams {
		q.Set("need", "5")
	} else {
		q.Set("need", "0") // violates minimum 1
	}
	authUsed := ""
	for _, name := range sortedKeys(creds) {
		cr := creds[name]
		if cr.state == absent {
			continue
		}
		def := schemeDefs[name].(J)
		switch def["type"] {
		case "basic":
			if authUsed != "" {
				return r, false
			}
			authUsed = name
			r.Header["Authorization"] = []string{"Basic " + base64.StdEncoding.EncodeToString([]byte("user:"+cr.token))}
		case "oauth2":
			if authUsed != "" {
				return r, false
			}
			authUsed = name
			r.Header["Authorization"] = []string{"Bearer " + cr.token}
		case "apiKey":
			if def["in"] == "query" {
				q.Set(def["name"].(string), cr.token)
			} else {
				h := def["name"].(string)
				if prev, ok := r.Header[h]; ok && prev[0] != cr.token {
					return r, false // two schemes on one header need the same token to be presented together
				}
				r.Header[h] = []string{cr.token}
			}
		}
	}
	if len(q) > 0 {
		r.URL += "?" + q.Encode()
	}
	return r, true
}

func sortedKeys(m map[string]cred) []string {
	ks := make([]string, 0, len(m))
	for k := range m {
		ks = append(ks, k)
	}
	sort.Strings(ks)
	return ks
}

// satisfied evaluates the effective requirement (OR of ANDs).
func satisfied(effective []alt, creds map[string]cred) (bool, map[string]bool) {
	okTokens := map[string]bool{}
	any := false
	for _, a := range effective {
		all := true
		for scheme, scopes := range a {
			st := creds[scheme].state
			// an authentic oauth2 token without scopes satisfies an alternative that asks for none
			if !(st == valid || (st == insufficient && len(scopes) == 0)) {
				all = false
			}
		}
		if all {
			any = true
			for scheme := range a {
				okTokens[creds[scheme].token] = true
			}
		}
	}
	return any, okTokens
}

func main() {
	c := core.New("C06")
	c.ReplayFallback()
	swagger := c.BuildSwagger()
	rng := rand.New(rand.NewSource(c.Seed))
	type docSpec struct {
		name      string
		global    []alt
		ops       []opInfo
		principal bool
	}
	var docs []docSpec
	mkOps := func(pass string, as []secAtom, global []alt) []opInfo {
		var ops []opInfo
		for i, a := range as {
			eff := a.security
			if !a.explicit {
				eff = global
			}
			ops = append(ops, opInfo{opID: fmt.Sprintf("op%d", i), path: fmt.Sprintf("/r%d", i), method: []string{"GET", "POST", "PUT", "DELETE"}[i%4], atom: a, effective: eff, pass: pass})
		}
		return ops
	}
	globalG := req(alt{"keyH": {}})
	docs = append(docs, docSpec{"global-apikey", globalG, mkOps("", atoms(), globalG), false})
	docs = append(docs, docSpec{"no-global", nil, mkOps("", atoms(), nil), false})
	globalOr := req(alt{"basicS": {}}, alt{"oauthS": {"read"}})
	docs = append(docs, docSpec{"global-or", globalOr, mkOps("", atoms()[:6], globalOr), false})
	if c.Thorough() {
		docs = append(docs, docSpec{"principal-model", globalG, mkOps("", atoms(), globalG), true})
	}
	// pass B: random requirement shapes
	names := []string{"basicS", "keyH", "keyQ", "keyH2", "oauthS"}
	for d := 0; d < c.Pick(2, 12); d++ {
		var as []secAtom
		for i := 0; i < 20; i++ {
			var alts []alt
			for k := 0; k < 1+rng.Intn(3); k++ {
				a := alt{}
				for j := 0; j < 1+rng.Intn(3); j++ {
					s := names[rng.Intn(len(names))]
					if s == "oauthS" {
						a[s] = [][]string{{}, {"read"}, {"read", "write"}, {"admin"}}[rng.Intn(4)]
					} else {
						a[s] = []string{}
					}
				}
				dup := false
				for _, prev := range alts {
					if fmt.Sprint(prev) == fmt.Sprint(a) {
						dup = true
					}
				}
				if !dup {
					alts = append(alts, a)
				}
			}
			kind := rng.Intn(8)
			switch kind {
			case 0:
				as = append(as, secAtom{id: "B.inherit"})
			case 1:
				as = append(as, secAtom{id: "B.explicit-empty", security: []alt{}, explicit: true})
			default:
				as = append(as, secAtom{id: fmt.Sprintf("B.random[%d-alternatives]", len(alts)), security: alts, explicit: true})
			}
		}
		var global []alt
		if rng.Intn(3) > 0 {
			global = req(alt{names[rng.Intn(4)]: {}})
		}
		docs = append(docs, docSpec{fmt.Sprintf("passB-%d", d), global, mkOps("B:", as, global), false})
	}
	var mu sync.Mutex
	core.Parallel(len(docs), 8, func(di int) {
		d := docs[di]
		spec := buildSpec("vf sec "+d.name, d.global, d.ops, d.principal)
		var args []string
		if d.principal {
			args = []string{"--principal", "models.Principal"}
		}
		s := servrig.Build(c, swagger, spec, servrig.Options{ServerArgs: args})
		if s.Stage != "" {
			if strings.HasSuffix(s.Stage, "timeout") {
				c.Inconclusive("watchdog building %s", d.name)
			} else {
				c.Violation("C06/"+d.name+"/"+s.Stage+"-failed", "a valid spec with security requirements does not generate/build: "+core.OneLine(s.Output), map[string]string{"spec.json": string(jx.Marshal(spec)), "output.txt": s.Output})
			}
			s.Cleanup()
			return
		}
		type pend struct {
			op          opInfo
			creds       map[string]cred
			label       string
			validParams bool
		}
		var reqs []servrig.Req
		cases := map[string]pend{}
		for _, op := range d.ops {
			schemes := schemesOf(op.effective)
			// also present credentials of schemes the operation does not list
			extra := []string{}
			for _, s := range []string{"keyH2", "keyQ"} {
				found := false
				for _, x := range schemes {
					if x == s {
						found = true
					}
				}
				if !found && len(schemes) < 3 {
					extra = append(extra, s)
					break
				}
			}
			all := append(append([]string{}, schemes...), extra...)
			states := make([]int, len(all))
			var rec func(i int)
			n := 0
			rec = func(i int) {
				if i == len(all) {
					creds := map[string]cred{}
					var lbl []string
					for k, sname := range all {
						st := states[k]
						tok := ""
						switch st {
						case valid:
							tok = fmt.Sprintf("ok-%s-%d", sname, n)
							if sname == "oauthS" {
								tok = fmt.Sprintf("ok%d:read,write,admin", n)
							}
						case invalid:
							tok = "bad-" + sname
						case insufficient:
							tok = fmt.Sprintf("ok%d:none", n)
						}
						creds[sname] = cred{state: st, token: tok}
						lbl = append(lbl, sname+"="+stateName[st])
					}
					// schemes that read the same header see the same credential: only assignments in
					// which they agree can be presented
					for k1, s1 := range all {
						for k2, s2 := range all {
							d1, d2 := schemeDefs[s1].(J), schemeDefs[s2].(J)
							if k1 < k2 && d1["type"] == "apiKey" && d2["type"] == "apiKey" && d1["in"] == d2["in"] && d1["name"] == d2["name"] {
								if states[k1] != states[k2] {
									return
								}
								cr := creds[s1]
								creds[s2] = cr
							}
						}
					}
					evalCreds := creds
					id := fmt.Sprintf("%s/%d", op.opID, n)
					n++
					r, ok := buildRequest(id, op, creds, true)
					if !ok {
						return
					}
					reqs = append(reqs, r)
					cases[id] = pend{op: op, creds: evalCreds, label: strings.Join(lbl, ","), validParams: true}
					// the same credentials on a request whose parameters are invalid: authentication
					// comes first, so an unsatisfied requirement must still give 401/403
					uniform := true
					for k := range states {
						if states[k] != states[0] {
							uniform = false
						}
					}
					if uniform {
						id2 := id + "/badparams"
						r2, _ := buildRequest(id2, op, creds, false)
						reqs = append(reqs, r2)
						cases[id2] = pend{op: op, creds: evalCreds, label: strings.Join(lbl, ",") + ",params=invalid", validParams: false}
					}
					return
				}
				maxState := invalid
				if all[i] == "oauthS" {
					maxState = insufficient
				}
				for st := absent; st <= maxState; st++ {
					states[i] = st
					rec(i + 1)
				}
			}
			rec(0)
		}
		answers, crashes := s.Run(reqs)
		mu.Lock()
		defer mu.Unlock()
		for _, cr := range crashes {
			if cr.Killed {
				c.Inconclusive("watchdog in %s", d.name)
			} else {
				c.Violation("C06/crash", "generated server died: "+core.OneLine(cr.Output), map[string]string{"spec.json": string(jx.Marshal(spec)), "crash.txt": cr.Output})
			}
		}
		ids := make([]string, 0, len(cases))
		for id := range cases {
			ids = append(ids, id)
		}
		sort.Strings(ids)
		for _, id := range ids {
			p := cases[id]
			a, ok := answers[id]
			if !ok {
				continue
			}
			open := len(p.op.effective) == 0
			sat, okTokens := satisfied(p.op.effective, p.creds)
			reached := a.Reached != ""
			pattern := credPattern(p.creds)
			shape := p.op.pass + p.op.atom.id
			cfg := ""
			if d.principal {
				cfg = "/principal-model"
			}
			if d.name == "no-global" && !p.op.atom.explicit {
				shape += "(no-global)"
			}
			if d.name == "global-or" && !p.op.atom.explicit {
				shape += "(global-or)"
			}
			files := map[string]string{"spec.json": string(jx.Marshal(spec)), "request.json": string(jx.Marshal(jx.Normalize(reqOf(reqs, id)))), "observed.txt": fmt.Sprintf("status=%d reached=%q principal=%s auth_calls=%v body=%s", a.Status, a.Reached, a.Principal, a.AuthCalls, a.Body()),
				"expected.txt": fmt.Sprintf("operation %s %s, effective requirement %v, credentials %s => satisfied=%v open=%v", p.op.method, p.op.path, p.op.effective, p.label, sat, open)}
			outcome := "denied"
			if reached {
				outcome = "served"
			}
			if !p.validParams {
				pattern += ",params=invalid"
				c.Eval(shape + "/" + pattern + "/" + outcome + cfg)
				key := fmt.Sprintf("C06/%s/%s", shape, pattern)
				switch {
				case reached:
					c.Violation(key+"/handler-run-with-invalid-params"+cfg, "the handler ran for a request whose parameters violate the spec", files)
				case !open && !sat && a.Status != 401 && a.Status != 403:
					c.Violation(key+"/validated-before-authenticated"+cfg, fmt.Sprintf("a request that satisfies no alternative of the requirement and also has invalid parameters is answered %d instead of 401/403: parameters are validated (and their errors disclosed) before the caller is authenticated; body %s", a.Status, core.OneLine(string(a.Body()))), files)
				}
				continue
			}
			c.Eval(shape + "/" + pattern + "/" + outcome + cfg)
			key := fmt.Sprintf("C06/%s/%s", shape, pattern)
			if a.Panic != "" {
				c.Violation(key+"/panic"+cfg, "generated server panicked: "+core.OneLine(a.Panic), files)
				continue
			}
			switch {
			case open && !reached:
				c.Violation(key+"/open-operation-denied"+cfg, fmt.Sprintf("operation with an empty effective requirement answered %d with credentials %s", a.Status, p.label), files)
			case !open && sat && !reached:
				c.Violation(key+"/satisfied-but-denied"+cfg, fmt.Sprintf("an alternative of the requirement is satisfied (%s) but the answer is %d", p.label, a.Status), files)
			case !open && !sat && reached:
				c.Violation(key+"/unsatisfied-but-served"+cfg, fmt.Sprintf("no alternative of %v is satisfied by %s, yet the handler ran (principal %s)", p.op.effective, p.label, a.Principal), files)
			case !open && !sat && a.Status != 401 && a.Status != 403:
				c.Violation(key+"/denied-with-wrong-status"+cfg, fmt.Sprintf("request satisfying no alternative answered %d instead of 401/403", a.Status), files)
			case !open && sat && reached:
				// the principal must come from an authenticator of a satisfied alternative
				pr := string(a.Principal)
				found := false
				for tok := range okTokens {
					if strings.Contains(pr, ":"+tok) {
						found = true
					}
				}
				if !found {
					c.Violation(key+"/wrong-principal"+cfg, fmt.Sprintf("handler received principal %s, which no authenticator of a satisfied alternative returned (credentials %s)", pr, p.label), files)
				} else {
					c.Sample(map[string]any{"operation": shape, "credentials": p.label, "status": a.Status, "principal": pr, "verdict": "served with a principal of a satisfied alternative"})
				}
			}
		}
		s.Cleanup()
	})
	c.Finish("generated servers with reflective authenticators run in child processes; pass A: every requirement shape (inherit global, explicit empty, each scheme type and location, oauth2 with 0/1/2 scopes, AND of 2-3, OR of 2-3, OR of ANDs, schemes sharing a header) under a global apiKey / no global / global OR requirement, each with EVERY assignment of {absent, valid, invalid, insufficient-scope} to the schemes involved plus one unlisted scheme; pass B: seeded 20-operation documents with random requirement shapes; oracle = OR-of-ANDs evaluator on the input document; distinct = (requirement shape, credential pattern, served|denied)",
		600, 120, []string{
			"a credential is valid iff its token starts with ok; an oauth2 token grants the scopes written after the colon",
			"basic and oauth2 credentials share the Authorization header and are never presented together; two apiKey schemes on one header are presented together only with the same token",
			"which satisfied alternative wins and 401 vs 403 are not asserted",
		})
}

func credPattern(creds map[string]cred) string {
	var parts []string
	for _, k := range sortedKeys(creds) {
		parts = append(parts, k+"="+stateName[creds[k].state])
	}
	return strings.Join(parts, ",")
}

func reqOf(reqs []servrig.Req, id string) any {
	for _, r := range reqs {
		if r.ID == id {
			return r
		}
	}
	return nil
}
