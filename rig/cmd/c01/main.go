// C01 — generated code always builds.
package main

import (
	"encoding/json"
	"fmt"
	"math/rand"
	"os"
	"path/filepath"
	"regexp"
	"sort"
	"strings"
	"sync"
	"time"

	"verif/rig/core"
	"verif/rig/difflib"
	"verif/rig/jx"
	"verif/rig/modelrig"
	"verif/rig/oracle"
	"verif/rig/specgen"
)

type J = jx.J

// atom contributes definitions and/or operations to a batch document.
type atom struct {
	id       string
	kind     string // schema | param | name | op | text
	defs     map[string]J
	ops      []opJ
	secDefs  J
	noCLI    bool
	noExpand bool
}

type opJ struct {
	method, path string
	op           J
}

type mode struct {
	name string
	args []string
}

var modes = []mode{{"minimal", nil}, {"full", []string{"--with-flatten=full"}}, {"expand", []string{"--with-expand"}}}

type target struct {
	name string
	cmd  []string // generate sub-command and fixed args
}

var targets = []target{
	{"model", []string{"generate", "model"}},
	{"server", []string{"generate", "server", "-A", "Vf"}},
	{"client", []string{"generate", "client", "-A", "Vf"}},
	{"cli", []string{"generate", "cli", "-A", "Vf", "--cli-app-name", "vfcli"}},
}

var (
	mu       sync.Mutex
	swagger  string
	self     string
	heldAtom = map[string]bool{}
)

func main() {
	if len(os.Args) > 1 && os.Args[1] == "worker" {
		core.ServeWorker(difflib.Handle)
		return
	}
	c := core.New("C01")
	c.ReplayFallback()
	if len(os.Args) > 1 && os.Args[1] == "--warm" {
		c.Cleanup()
		return
	}
	swagger = c.BuildSwagger()
	self, _ = os.Executable()
	rng := rand.New(rand.NewSource(c.Seed))

	atoms := catalogue(c)
	for _, a := range atoms {
		heldAtom[a.id] = true
	}
	// ---- pass A: batches per kind
	byKind := map[string][]atom{}
	for _, a := range atoms {
		byKind[a.kind] = append(byKind[a.kind], a)
	}
	type job struct {
		atoms   []atom
		targets []string
		mode    mode
		extra   []string
		label   string
	}
	var jobs []job
	size := map[string]int{"schema": 70, "param": 60, "name": 40, "op": 60, "text": 7}
	modeSet := modes[:1]
	if c.Thorough() {
		modeSet = modes
	}
	for _, kind := range []string{"schema", "param", "name", "op", "text"} {
		as := byKind[kind]
		for i := 0; i < len(as); i += size[kind] {
			j := i + size[kind]
			if j > len(as) {
				j = len(as)
			}
			for mi, m := range modeSet {
				if !c.Thorough() && mi > 0 {
					continue
				}
				tg := []string{"model", "server", "client", "cli"}
				jobs = append(jobs, job{atoms: as[i:j], targets: tg, mode: m, label: kind})
			}
		}
	}
	// option switches on a covering subset (pairwise over target x switch on one batch per kind)
	switches := [][]string{{"--skip-tag-packages"}, {"--strict-responders"}, {"--struct-tags", "yaml", "--struct-tags", "db"}, {"--strict-additional-properties"}, {"--keep-spec-order"}, {"--principal", "models.VfPrincipal"}}
	if c.Thorough() {
		// --skip-models / --skip-operations are not switches of a complete generation: they leave out
		// the packages the rest refers to on purpose (incremental regeneration, C11's subject)
		switches = append(switches, []string{"--with-enum-ci"}, []string{"--rooted-error-path"}, []string{"--exclude-main"}, []string{"--exclude-spec"})
	}
	for si, sw := range switches {
		for ki, kind := range []string{"schema", "param", "name", "op"} {
			as := byKind[kind]
			if len(as) == 0 || (!c.Thorough() && (si+ki)%4 != 0) {
				continue
			}
			n := size[kind]
			if n > len(as) {
				n = len(as)
			}
			start := (si * 17) % (len(as) - n + 1)
			m := modeSet[(si+ki)%len(modeSet)]
			jobs = append(jobs, job{atoms: as[start : start+n], targets: []string{"server", "client", "model", "cli"}, mode: m, extra: sw, label: kind + "+" + strings.TrimPrefix(sw[0], "--")})
		}
	}
	run := func(js []job, pass string) {
		core.Parallel(len(js), 8, func(i int) {
			j := js[i]
			runBatch(c, j.atoms, j.targets, j.mode, j.extra, pass, j.label, 0)
		})
	}
	run(jobs, "")
	// ---- pass B: composites of atoms that held alone
	var pool []atom
	for _, a := range atoms {
		if heldAtom[a.id] && a.kind != "text" {
			pool = append(pool, a)
		}
	}
	var jobsB []job
	for k := 0; k < c.Pick(4, 60) && len(pool) > 10; k++ {
		var as []atom
		seen := map[string]bool{}
		for len(as) < 30 {
			a := pool[rng.Intn(len(pool))]
			if !seen[a.id] {
				seen[a.id] = true
				as = append(as, a)
			}
		}
		m := modeSet[rng.Intn(len(modeSet))]
		var extra []string
		if c.Thorough() && rng.Intn(2) == 0 { // quick covers only a few (kind, switch) pairs in pass A
			extra = switches[rng.Intn(len(switches))]
		}
		jobsB = append(jobsB, job{atoms: as, targets: []string{"model", "server", "client", "cli"}, mode: m, extra: extra, label: "composite"})
	}
	run(jobsB, "B:")
	flushReports(c)
	c.Finish("the real swagger binary generates model / server / client / cli code for batches of atoms (every schema shape, every parameter kind, the name corpus at every name position, free-text breakers) under the flatten modes and a covering set of option switches, then `go build ./...` compiles the output against the pinned go-openapi runtime; diagnostics are attributed to atoms through swagger:model / swagger:route markers of the generated files; oracle: a document accepted by validate.Spec generates with exit 0 and compiles; pass B: seeded 30-atom composites of atoms that held; distinct = (atom, target, mode, outcome)",
		400, 200, []string{
			"documents rejected by go-openapi/validate v0.24.0 are dropped (the generator runs the same validation)",
			"expand mode is not run on polymorphic / recursive atoms (documented limitation)",
			"x-go-type, custom templates, --existing-models, XML and remote $refs are outside the fragment",
		})
}

// ---------------------------------------------------------------------------
// batches

func batchSpec(as []atom) J {
	defs, paths, sec := J{}, J{}, J{}
	for _, a := range as {
		for k, v := range a.defs {
			defs[k] = jx.Clone(v)
		}
		for _, o := range a.ops {
			pi, _ := paths[o.path].(J)
			if pi == nil {
				pi = J{}
				paths[o.path] = pi
			}
			pi[strings.ToLower(o.method)] = jx.Clone(o.op)
		}
		for k, v := range a.secDefs {
			sec[k] = v
		}
	}
	if len(paths) == 0 {
		// a batch of definitions only: the application targets need at least one operation
		paths["/vfping"] = J{"get": J{"operationId": "vfPing", "responses": J{"200": J{"description": "ok"}}}}
	}
	// reference every definition from an operation so that flattening keeps it
	defs["VfPrincipal"] = J{"type": "object", "properties": J{"name": J{"type": "string"}}}
	d := J{"swagger": "2.0", "info": J{"title": "vf build", "version": "1.0.0"}, "basePath": "/b", "consumes": []any{"application/json"}, "produces": []any{"application/json"}, "paths": paths, "definitions": defs}
	if len(sec) > 0 {
		d["securityDefinitions"] = sec
	}
	oracle.StripHints(d)
	return d
}

var rxRoute = regexp.MustCompile(`swagger:route\s+\S+\s+(\S+)`)
var rxModel = regexp.MustCompile(`swagger:model\s+(.+)`)
var rxPathPattern = regexp.MustCompile(`PathPattern:\s+"([^"]+)"`)
var rxFileLine = regexp.MustCompile(`([^\s:"']+\.go):(\d+)`)

func readFile(p string) string { b, _ := os.ReadFile(p); return string(b) }

// attribute maps a generated file to the atom responsible for it.
func attribute(modDir, rel string, line int, byDef, byPath, byOp map[string]string) string {
	full := filepath.Join(modDir, rel)
	src := readFile(full)
	if m := rxModel.FindStringSubmatch(src); m != nil {
		if id, ok := byDef[strings.TrimSpace(m[1])]; ok {
			return id
		}
	}
	lookPath := func(s string) string {
		for _, m := range rxRoute.FindAllStringSubmatch(s, -1) {
			if id, ok := byPath[m[1]]; ok {
				return id
			}
		}
		return ""
	}
	if id := lookPath(src); id != "" {
		return id
	}
	// sibling files of the same operation: <op>.go next to <op>_parameters.go etc.
	base := filepath.Base(rel)
	for _, sfx := range []string{"_parameters.go", "_responses.go", "_urlbuilder.go", "_operation.go"} {
		if strings.HasSuffix(base, sfx) {
			prefix := strings.TrimSuffix(base, sfx)
			var found string
			_ = filepath.Walk(modDir, func(p string, info os.FileInfo, err error) error {
				if err == nil && !info.IsDir() && filepath.Base(p) == prefix+".go" && found == "" {
					found = lookPath(readFile(p))
				}
				return nil
			})
			if found != "" {
				return found
			}
		}
	}
	// client facade files: the enclosing method's PathPattern
	if strings.HasSuffix(base, "_client.go") && line > 0 {
		lines := strings.Split(src, "\n")
		// the enclosing method: back to its "func" line, then forward to its PathPattern
		start := line - 1
		if start >= len(lines) {
			start = len(lines) - 1
		}
		for start > 0 && !strings.HasPrefix(lines[start], "func ") {
			start--
		}
		for i := start; i < len(lines); i++ {
			if i > start && strings.HasPrefix(lines[i], "func ") {
				break
			}
			if m := rxPathPattern.FindStringSubmatch(lines[i]); m != nil {
				if id, ok := byPath[m[1]]; ok {
					return id
				}
				break
			}
		}
	}
	// file name prefix = mangled operation id (see also byOp entries "pkg:<name>" for tag packages)
	stemOp := base
	for _, sfx := range []string{"_parameters.go", "_responses.go", "_urlbuilder.go", "_operation.go", ".go"} {
		if strings.HasSuffix(stemOp, sfx) {
			stemOp = strings.TrimSuffix(stemOp, sfx)
			break
		}
	}
	if id, ok := byOp[norm(stemOp)]; ok {
		return id
	}
	// model companion files of the cli target: <def>_model.go
	if strings.HasSuffix(base, "_model.go") {
		stem := strings.TrimSuffix(base, "_model.go")
		for d, id := range byDef {
			if norm(d) == norm(stem) {
				return id
			}
		}
	}
	return ""
}

func norm(s string) string {
	return strings.ToLower(regexp.MustCompile(`[^A-Za-z0-9]`).ReplaceAllString(s, ""))
}

func dirTarget(rel string) string {
	switch strings.SplitN(rel, "/", 2)[0] {
	case "models":
		return "model"
	case "restapi":
		return "server"
	case "client":
		return "client"
	case "cli", "cmd":
		if strings.HasPrefix(rel, "cmd/vf-server") {
			return "server"
		}
		return "cli"
	}
	return "other"
}

var batchSeq struct {
	sync.Mutex
	n int
}

func runBatch(c *core.Ctx, as []atom, tgs []string, m mode, extra []string, pass, label string, depth int) {
	if m.name == "expand" {
		var keep []atom
		for _, a := range as {
			if !a.noExpand {
				keep = append(keep, a)
			}
		}
		as = keep
	}
	if len(as) == 0 {
		return
	}
	spec := batchSpec(as)
	batchSeq.Lock()
	batchSeq.n++
	name := fmt.Sprintf("b%04d", batchSeq.n)
	batchSeq.Unlock()
	mod := c.NewModule(filepath.Join("build", name))
	defer os.RemoveAll(mod.Dir)
	specPath := filepath.Join(mod.Dir, "spec.json")
	core.Must(os.WriteFile(specPath, jx.Marshal(spec), 0o644))
	// validity per the reference validator
	ans, _ := core.RunWorker("", nil, 5*time.Minute, self, []string{"worker"}, []map[string]any{{"id": "v", "mode": "validate", "a": specPath}})
	var va difflib.Ans
	_ = json.Unmarshal(ans["v"], &va)
	if va.Valid == nil || !*va.Valid {
		if len(as) == 1 {
			c.Note("%s: document rejected by validate.Spec, dropped: %v %s", as[0].id, va.Errors, va.Err)
			mu.Lock()
			heldAtom[as[0].id] = false
			mu.Unlock()
			return
		}
		mid := len(as) / 2
		runBatch(c, as[:mid], tgs, m, extra, pass, label, depth+1)
		runBatch(c, as[mid:], tgs, m, extra, pass, label, depth+1)
		return
	}
	byDef, byPath, byOp := map[string]string{}, map[string]string{}, map[string]string{}
	for _, a := range as {
		for d := range a.defs {
			byDef[d] = a.id
		}
		for _, o := range a.ops {
			byPath[o.path] = a.id
			if oid, _ := o.op["operationId"].(string); norm(oid) != "" {
				byOp[norm(oid)] = a.id
			}
			if tags, ok := o.op["tags"].([]any); ok && strings.HasPrefix(a.id, "name.tag=") {
				for _, t := range tags {
					if ts, _ := t.(string); ts != "" {
						byOp["pkg:"+strings.ToLower(regexp.MustCompile(`[^\pL\pN]`).ReplaceAllString(ts, ""))] = a.id
					}
				}
			}
		}
	}
	cfg := m.name
	if len(extra) > 0 {
		cfg += "+" + strings.TrimPrefix(extra[0], "--")
	}
	files := func(out string) map[string]string {
		return map[string]string{"spec.json": string(jx.Marshal(spec)), "output.txt": out,
			"repro.sh": "#!/bin/sh\n# generate into a scratch module and build; see output.txt for the recorded diagnostics\n"}
	}
	blamed := map[string]bool{}
	var deferred []func()
	blame := func(kind, tg, out string) {
		// attribute failure text to atoms; unattributed output blames the whole batch (split further)
		ids := map[string]string{}
		for _, mm := range regexp.MustCompile(`malformed import path "([^"]+)"`).FindAllStringSubmatch(out, -1) {
			parts := strings.Split(mm[1], "/")
			if id, ok := byOp["pkg:"+strings.ToLower(regexp.MustCompile(`[^\pL\pN]`).ReplaceAllString(parts[len(parts)-1], ""))]; ok {
				ids[id] = "malformed import path " + mm[1]
			}
		}
		// a tag package that closes an import cycle (a tag named like a package the generated code imports)
		for _, mm := range regexp.MustCompile(`imports (\S+): import cycle not allowed`).FindAllStringSubmatch(out, -1) {
			parts := strings.Split(mm[1], "/")
			if id, ok := byOp["pkg:"+strings.ToLower(regexp.MustCompile(`[^\pL\pN]`).ReplaceAllString(parts[len(parts)-1], ""))]; ok {
				ids[id] = "import cycle not allowed: " + mm[1]
			}
		}
		// a tag package that shadows a predeclared identifier in the files shared by all operations
		for _, mm := range regexp.MustCompile(`(?m)^(.*(?:use of package (\pL[\pL\pN_]*) not in selector|: (\pL[\pL\pN_]*) is not a type|: (\pL[\pL\pN_]*) \(package\) is not|cannot use (\pL[\pL\pN_]*) \(package\)).*)$`).FindAllStringSubmatch(out, -1) {
			for _, name := range mm[2:] {
				if name == "" {
					continue
				}
				if id, ok := byOp["pkg:"+strings.ToLower(name)]; ok {
					if _, seen := ids[id]; !seen {
						ids[id] = strings.TrimSpace(mm[1])
					}
				}
			}
		}
		for _, mm := range rxFileLine.FindAllStringSubmatch(out, -1) {
			if len(ids) > 0 && strings.Contains(out, "malformed import path") {
				break
			}
			rel := mm[1]
			if filepath.IsAbs(rel) {
				if r, err := filepath.Rel(mod.Dir, rel); err == nil {
					rel = r
				}
			}
			var line int
			fmt.Sscan(mm[2], &line)
			if id := attribute(mod.Dir, rel, line, byDef, byPath, byOp); id != "" {
				if _, seen := ids[id]; !seen {
					for _, l := range strings.Split(out, "\n") {
						if strings.Contains(l, mm[1]) {
							ids[id] = strings.TrimSpace(l)
							break
						}
					}
				}
			}
		}
		if len(ids) == 0 {
			// last resort: the message itself names a generated identifier built from an operation id
			// or a definition name (o.NewNameTag39 undefined, registerModelVfXFlags ...)
			for _, l := range strings.Split(out, "\n") {
				nl := norm(l)
				best := ""
				for k, id := range byOp {
					if !strings.HasPrefix(k, "pkg:") && len(k) > 5 && strings.Contains(nl, k) && len(k) > len(best) {
						best = k
						ids[id] = strings.TrimSpace(l)
					}
				}
				for d, id := range byDef {
					if k := norm(d); len(k) > 7 && strings.Contains(nl, k) {
						ids[id] = strings.TrimSpace(l)
					}
				}
				// <scheme>Auth fields of the API struct (names the ASCII normalisation erases included)
				for _, a := range as {
					for sk := range a.secDefs {
						if strings.Contains(l, sk+"Auth") || (len(norm(sk)) > 1 && strings.Contains(nl, norm(sk)+"auth")) {
							ids[a.id] = strings.TrimSpace(l)
						}
					}
				}
			}
		}
		mu.Lock()
		defer mu.Unlock()
		for id, msg := range ids {
			heldAtom[id] = false
			blamed[id] = true
			if pass == "" {
				report(id, kind, tg, cfg, fmt.Sprintf("generate %s on a valid document: %s: %s", tg, kind, core.OneLine(msg)), files(out))
			} else {
				reportedAtoms[id]++
				c.Violation(fmt.Sprintf("C01/B:%s/%s/%s", id, kind, tg), fmt.Sprintf("composite (%s): generate %s: %s: %s", cfg, tg, kind, core.OneLine(msg)), files(out))
			}
		}
		if len(ids) == 0 && kind == "does-not-compile" {
			// diagnostics in files shared by all operations (API struct, client facade): if other atoms
			// were blamed in this round the batch is built again without them; only what persists is reported
			deferred = append(deferred, func() {
				c.Violation(fmt.Sprintf("C01/%sunattributed[%s]/%s/%s/%s", pass, label, kind, tg, cfg), fmt.Sprintf("generate %s: %s, not attributable to one atom: %s", tg, kind, core.OneLine(tail(out, 600))), files(out))
			})
			return
		}
		if len(ids) == 0 {
			c.Violation(fmt.Sprintf("C01/%sunattributed[%s]/%s/%s/%s", pass, label, kind, tg, cfg), fmt.Sprintf("generate %s: %s, not attributable to one atom: %s", tg, kind, core.OneLine(tail(out, 600))), files(out))
		}
	}
	generated := map[string]bool{}
	for _, t := range targets {
		use := false
		for _, x := range tgs {
			if x == t.name {
				use = true
			}
		}
		if !use {
			continue
		}
		args := append(append([]string{}, t.cmd...), "-q", "-f", specPath, "-t", mod.Dir)
		args = append(args, m.args...)
		for i := 0; i < len(extra); i++ {
			// not every switch exists on every sub-command
			if t.name == "model" && (extra[i] == "--skip-tag-packages" || extra[i] == "--strict-responders" || extra[i] == "--principal" || extra[i] == "--exclude-main" || extra[i] == "--exclude-spec" || extra[i] == "--skip-models" || extra[i] == "--skip-operations") {
				if extra[i] == "--principal" {
					i++
				}
				continue
			}
			if t.name != "server" && (extra[i] == "--strict-responders" || extra[i] == "--exclude-main" || extra[i] == "--exclude-spec") {
				continue
			}
			if t.name == "cli" && (extra[i] == "--skip-tag-packages") {
				continue
			}
			args = append(args, extra[i])
		}
		if t.name == "model" {
			var margs []string
			for _, a := range args {
				if a == "-A" || a == "Vf" {
					continue
				}
				margs = append(margs, a)
			}
			args = margs
		}
		r := core.Run(mod.Dir, nil, 10*time.Minute, "", swagger, args...)
		if r.TimedOut {
			c.Inconclusive("watchdog: generate %s on batch %s", t.name, label)
			continue
		}
		if r.Exit != 0 {
			out := r.Stderr + r.Stdout
			if strings.Contains(out, "unknown flag") {
				c.Note("switch not supported by generate %s: %s", t.name, core.OneLine(tail(out, 200)))
				continue
			}
			if len(as) > 1 && !strings.Contains(out, ".go:") {
				// no file named: split the batch to find the atom
				mid := len(as) / 2
				runBatch(c, as[:mid], []string{t.name}, m, extra, pass, label, depth+1)
				runBatch(c, as[mid:], []string{t.name}, m, extra, pass, label, depth+1)
				continue
			}
			if len(as) == 1 {
				mu.Lock()
				heldAtom[as[0].id] = false
				if pass == "" {
					report(as[0].id, "generate-failed", t.name, cfg, fmt.Sprintf("generate %s exits %d on a valid document: %s", t.name, r.Exit, core.OneLine(tail(out, 500))), files(out))
				} else {
					c.Violation(fmt.Sprintf("C01/B:%s/generate-failed/%s", as[0].id, t.name), fmt.Sprintf("generate %s exits %d: %s", t.name, r.Exit, core.OneLine(tail(out, 500))), files(out))
				}
				mu.Unlock()
				continue
			}
			before := len(blamed)
			blame("generate-failed", t.name, out)
			if len(blamed) > before && depth < 10 {
				// the formatting gate stops at the first broken file: rerun this target without the blamed atoms
				var rest []atom
				for _, a := range as {
					if !blamed[a.id] {
						rest = append(rest, a)
					}
				}
				runBatch(c, rest, []string{t.name}, m, extra, pass, label, depth+1)
			} else if len(as) > 1 {
				// retry budget spent (or nothing new to blame): halve, so that no atom is left unjudged
				var rest []atom
				for _, a := range as {
					if !blamed[a.id] {
						rest = append(rest, a)
					}
				}
				if len(rest) > 1 {
					mid := len(rest) / 2
					runBatch(c, rest[:mid], []string{t.name}, m, extra, pass, label, 0)
					runBatch(c, rest[mid:], []string{t.name}, m, extra, pass, label, 0)
				} else if len(rest) == 1 && len(rest) < len(as) {
					runBatch(c, rest, []string{t.name}, m, extra, pass, label, 0)
				}
			}
			continue
		}
		generated[t.name] = true
	}
	if len(generated) == 0 {
		return
	}
	ok, _, raw, timedOut := mod.GoBuild(20*time.Minute, "./...")
	if timedOut {
		c.Inconclusive("watchdog: go build of batch %s", label)
		return
	}
	// per (atom, target) outcome
	failedTargets := map[string]bool{}
	otherOut, unjudged := "", false
	if !ok {
		byTarget := map[string]string{}
		for _, l := range strings.Split(raw, "\n") {
			if mm := rxFileLine.FindStringSubmatch(l); mm != nil {
				byTarget[dirTarget(mm[1])] += l + "\n"
			} else if strings.TrimSpace(l) != "" && !strings.HasPrefix(l, "#") {
				byTarget["other"] += l + "\n"
			}
		}
		for tg, out := range byTarget {
			failedTargets[tg] = true
			if tg == "other" {
				mu.Lock()
				c.Note("build output not tied to a file: %s", core.OneLine(out))
				mu.Unlock()
				otherOut = out
				if strings.Contains(out, "import cycle not allowed") {
					otg := "server"
					for _, cand := range []string{"cli", "client", "model"} {
						if strings.Contains(out, "/"+cand+"\n") || strings.Contains(out, "/"+cand+"/") || strings.Contains(out, "/"+cand+" ") || strings.Contains(out, "/"+cand+":") {
							otg = cand
							break
						}
					}
					before := len(blamed)
					blame("does-not-compile", otg, out)
					if len(blamed) == before {
						unjudged = true
					}
				} else if !rxFileLine.MatchString(raw) {
					unjudged = true // nothing but untied output: no atom of this batch was type-checked
				}
				continue
			}
			blame("does-not-compile", tg, out)
		}
	}
	if !ok && len(blamed) == 0 && (unjudged || len(deferred) > 0) {
		// a failure that no atom answers for: judge the halves; what only the whole shows is reported unattributed
		if len(as) > 1 {
			var gt []string
			for t := range generated {
				gt = append(gt, t)
			}
			sort.Strings(gt)
			before := reportsFor(as)
			mid := len(as) / 2
			runBatch(c, as[:mid], gt, m, extra, pass, label, 0)
			runBatch(c, as[mid:], gt, m, extra, pass, label, 0)
			if reportsFor(as) > before {
				return
			}
		} else if pass == "" {
			tgl := keys(failedTargets)
			tg := "server"
			for _, t := range tgl {
				if t != "other" {
					tg = t
					break
				}
			}
			mu.Lock()
			heldAtom[as[0].id] = false
			report(as[0].id, "does-not-compile", tg, cfg, fmt.Sprintf("generate %s on a valid document: does-not-compile: %s", tg, core.OneLine(tail(raw, 500))), files(raw))
			mu.Unlock()
			return
		}
	}
	if len(blamed) == 0 {
		mu.Lock()
		for _, f := range deferred {
			f()
		}
		if len(deferred) == 0 && unjudged && !ok {
			c.Violation(fmt.Sprintf("C01/%sunattributed[%s]/does-not-compile/build/%s", pass, label, cfg), fmt.Sprintf("the generated module does not build, not attributable to one atom: %s", core.OneLine(tail(otherOut, 600))), files(raw))
		}
		mu.Unlock()
	}
	if !ok && len(blamed) > 0 && depth < 8 {
		// errors of one atom can hide those of another (a package that fails to type-check is
		// not analysed further, dependants are not compiled): build again without the blamed atoms
		var rest []atom
		for _, a := range as {
			if !blamed[a.id] {
				rest = append(rest, a)
			}
		}
		if len(rest) > 0 && len(rest) < len(as) {
			var gt []string
			for t := range generated {
				gt = append(gt, t)
			}
			sort.Strings(gt)
			runBatch(c, rest, gt, m, extra, pass, label, depth+1)
			return
		}
	}
	if !ok && len(blamed) > 0 && depth >= 8 {
		// rebuild budget spent: halve what is left, so that no atom is left unjudged
		var rest []atom
		for _, a := range as {
			if !blamed[a.id] {
				rest = append(rest, a)
			}
		}
		if len(rest) > 1 {
			var gt []string
			for t := range generated {
				gt = append(gt, t)
			}
			sort.Strings(gt)
			mid := len(rest) / 2
			runBatch(c, rest[:mid], gt, m, extra, pass, label, 0)
			runBatch(c, rest[mid:], gt, m, extra, pass, label, 0)
			return
		}
	}
	mu.Lock()
	for _, a := range as {
		for tg := range generated {
			out := "builds"
			if failedTargets[tg] {
				out = "target-has-errors"
			}
			c.Eval(pass + a.id + "/" + tg + "/" + cfg + "/" + out)
		}
	}
	if ok {
		c.Sample(map[string]any{"batch": label, "atoms": len(as), "targets": keys(generated), "mode": cfg, "verdict": "generated and compiled"})
	}
	mu.Unlock()
}

func keys(m map[string]bool) []string {
	var o []string
	for k := range m {
		o = append(o, k)
	}
	sort.Strings(o)
	return o
}

func tail(s string, n int) string {
	if len(s) > n {
		return "…" + s[len(s)-n:]
	}
	return s
}

// ---------------------------------------------------------------------------
// catalogue

var nameCorpus = []string{
	// Go keywords and predeclared identifiers
	"func", "type", "range", "select", "map", "chan", "interface", "package", "import", "return", "var", "const", "default", "switch", "go", "defer",
	"string", "int", "error", "nil", "true", "len", "new", "any", "bool", "byte",
	// names of generated methods / fields / imports
	"Validate", "validate", "ContextValidate", "MarshalBinary", "UnmarshalJSON", "Context", "context", "HTTPClient", "httpClient", "timeout", "Timeout", "Payload", "payload", "Code", "Error", "String",
	"errors", "http", "models", "operations", "client", "api", "runtime", "strfmt", "swag", "json", "fmt", "restapi", "params", "Params", "body", "Body", "request", "Handler", "principal", "formats", "res", "err", "m", "o", "r", "rw",
	// shapes
	"1st", "2", "9lives", "_private", "-dash", "a-b", "a_b", "a b", "a.b", "a/b", "a:b", "a@b", "a+b", "a#b", "a$b", "a%b", "a&b", "a*b", "a(b)", "a[b]", "a{b}", "a|b", "a~b", "a!b", "a?b", "a,b", "a;b", "a'b", "a\"b", "a<b>", "a=b", "a\\b", "a`b",
	"ID", "id", "Id", "HTTP", "url", "URL", "userID", "xmlHttpRequest", "UPPER", "lower", "MixedCase", "snake_case_name", "kebab-case-name", "x-Forwarded for",
	"Ünïcode", "naïve", "größe", "Ωmega", "名前", "имя", "ñ",
	"select 1+1", "a very long name that goes on and on and on and on and on and on and on and on and on and never seems to stop",
}

func dedupeNorm(names []string) []string {
	seen := map[string]bool{}
	var out []string
	for _, n := range names {
		k := norm(n)
		if k == "" {
			k = n
		}
		if seen[k] {
			continue
		}
		seen[k] = true
		out = append(out, n)
	}
	return out
}

var textBreakers = map[string]string{
	"comment-close": "a */ b", "comment-open": "a /* b", "line-comment": "a // b", "newline": "line1\nline2", "cr": "a\rb", "crlf": "a\r\nb", "u2028": "a b",
	"backtick": "a ` b", "dquote": `a " b`, "backslash": `a \ b`, "escaped-quote": `a \" b`, "percent": "100% %s %d", "template": "{{ .Name }} {{",
}

func okOp(id string, extra J) J {
	o := J{"operationId": id, "responses": J{"200": J{"description": "ok"}}}
	for k, v := range extra {
		o[k] = v
	}
	return o
}

func catalogue(c *core.Ctx) []atom {
	var out []atom
	// schema shapes: as definitions (+ as required property), each referenced by an operation
	satoms := specgen.SchemaAtoms()
	positions := []string{"def"}
	if c.Thorough() {
		positions = []string{"def", "reqprop", "items", "mapval", "allof"}
	}
	for i, g := range modelrig.MakeGroups(satoms, positions) {
		a := atom{id: "schema." + g.Placed.Atom.ID + "@" + g.Placed.Pos, kind: "schema", defs: g.Defs, noExpand: g.Placed.Atom.Poly || strings.Contains(g.Placed.Atom.ID, "recursive")}
		path := fmt.Sprintf("/s%d", i)
		a.ops = []opJ{{"POST", path, okOp(fmt.Sprintf("schemaOp%d", i), J{
			"parameters": []any{J{"name": "body", "in": "body", "schema": J{"$ref": "#/definitions/" + g.Placed.DefName}}},
			"responses":  J{"200": J{"description": "ok", "schema": J{"$ref": "#/definitions/" + g.Placed.DefName}}}})}}
		if g.Placed.Atom.Tuple {
			continue // tuples need --skip-validation (documented); exercised by C02/C05 through generate model
		}
		out = append(out, a)
	}
	// parameter kinds
	for k, pa := range specgen.ParamAtoms() {
		if !c.Thorough() && k%2 == 1 && !pa.Body {
			continue
		}
		op := specgen.OpFor(k, pa)
		o := J{"operationId": "param" + op.OpID, "parameters": []any{jx.Clone(pa.Param)}, "responses": J{"200": J{"description": "ok"}, "default": J{"description": "error"}}}
		if pa.Consumes != nil {
			o["consumes"] = pa.Consumes
		}
		a := atom{id: "param." + pa.ID, kind: "param", ops: []opJ{{op.Method, "/p" + strings.TrimPrefix(op.Path, "/op"), o}}, defs: map[string]J{}}
		for dk, dv := range pa.Aux {
			a.defs[dk] = dv
			if _, poly := dv["discriminator"]; poly {
				a.noExpand = true // expand mode and polymorphism: documented limitation
			}
		}
		out = append(out, a)
	}
	// names x positions
	names := dedupeNorm(nameCorpus)
	if !c.Thorough() {
		var sel []string
		for i, n := range names {
			if i%3 == 0 || (i >= 26 && i < 60) {
				sel = append(sel, n)
			}
		}
		names = sel
	}
	for i, nm := range names {
		id := fmt.Sprintf("%q", nm)
		// definition name
		out = append(out, atom{id: "name.definition=" + id, kind: "name", defs: map[string]J{nm: J{"type": "object", "properties": J{"v": J{"type": "string"}}}},
			ops: []opJ{{"GET", fmt.Sprintf("/nd%d", i), okOp(fmt.Sprintf("nameDef%d", i), J{"responses": J{"200": J{"description": "ok", "schema": J{"$ref": "#/definitions/" + strings.ReplaceAll(strings.ReplaceAll(nm, "~", "~0"), "/", "~1")}}}})}}})
		// property name
		out = append(out, atom{id: "name.property=" + id, kind: "name", defs: map[string]J{fmt.Sprintf("PropHolder%d", i): J{"type": "object", "required": []any{nm}, "properties": J{nm: J{"type": "string", "minLength": json.Number("1")}, "other": J{"type": "integer"}}}}})
		// query parameter name
		out = append(out, atom{id: "name.query-param=" + id, kind: "name", ops: []opJ{{"GET", fmt.Sprintf("/nq%d", i), okOp(fmt.Sprintf("nameQuery%d", i), J{"parameters": []any{J{"name": nm, "in": "query", "type": "string"}, J{"name": "other", "in": "query", "type": "integer"}}})}}})
		// operation id
		out = append(out, atom{id: "name.operationId=" + id, kind: "name", ops: []opJ{{"GET", fmt.Sprintf("/no%d", i), okOp(nm, nil)}}})
		if i%3 == 0 || c.Thorough() {
			out = append(out, atom{id: "name.header-param=" + id, kind: "name", ops: []opJ{{"GET", fmt.Sprintf("/nh%d", i), okOp(fmt.Sprintf("nameHeader%d", i), J{"parameters": []any{J{"name": nm, "in": "header", "type": "string"}}})}}})
			out = append(out, atom{id: "name.formData-param=" + id, kind: "name", ops: []opJ{{"POST", fmt.Sprintf("/nf%d", i), okOp(fmt.Sprintf("nameForm%d", i), J{"consumes": []any{"application/x-www-form-urlencoded"}, "parameters": []any{J{"name": nm, "in": "formData", "type": "string"}}})}}})
			out = append(out, atom{id: "name.tag=" + id, kind: "name", ops: []opJ{{"GET", fmt.Sprintf("/nt%d", i), okOp(fmt.Sprintf("nameTag%d", i), J{"tags": []any{nm}})}}})
			out = append(out, atom{id: "name.enum-value=" + id, kind: "name", defs: map[string]J{fmt.Sprintf("EnumHolder%d", i): J{"type": "string", "enum": []any{nm, "plainone", "plaintwo"}}},
				ops: []opJ{{"GET", fmt.Sprintf("/ne%d", i), okOp(fmt.Sprintf("nameEnum%d", i), J{"parameters": []any{J{"name": "e", "in": "query", "type": "string", "enum": []any{nm, "plainone"}}}})}}})
			out = append(out, atom{id: "name.response-header=" + id, kind: "name", ops: []opJ{{"GET", fmt.Sprintf("/nr%d", i), okOp(fmt.Sprintf("nameRespHeader%d", i), J{"responses": J{"200": J{"description": "ok", "headers": J{nm: J{"type": "string"}}}}})}}})
			out = append(out, atom{id: "name.security-scheme=" + id, kind: "name", secDefs: J{nm: J{"type": "apiKey", "in": "header", "name": fmt.Sprintf("X-Key-%d", i)}},
				ops: []opJ{{"GET", fmt.Sprintf("/ns%d", i), okOp(fmt.Sprintf("nameSec%d", i), J{"security": []any{J{nm: []any{}}}})}}})
		}
		if strings.Contains(nm, "{") || strings.Contains(nm, "}") {
			continue
		}
		if i%3 == 1 || c.Thorough() {
			pn := strings.NewReplacer("/", "", "?", "", "#", "").Replace(nm)
			if pn != "" {
				out = append(out, atom{id: "name.path-param=" + id, kind: "name", ops: []opJ{{"GET", fmt.Sprintf("/np%d/{%s}", i, pn), okOp(fmt.Sprintf("namePath%d", i), J{"parameters": []any{J{"name": pn, "in": "path", "type": "string", "required": true}}})}}})
			}
		}
	}
	// operation layouts: response layouts, and parameter names that meet each other or the
	// names the generated Params structs reserve (timeout, Context, HTTPClient)
	out = append(out, opLayouts()...)
	// free text breakers: all positions at once per breaker (a description containing */ must not break generation)
	for ti, k := range sortedKeys(textBreakers) {
		d := withText(textBreakers[k], ti)
		a := atom{id: "text." + k, kind: "text", defs: map[string]J{}}
		for dn, dv := range d["definitions"].(J) {
			a.defs[dn] = dv.(J)
		}
		for p, pi := range d["paths"].(J) {
			for mth, o := range pi.(J) {
				if oj, ok := o.(J); ok && mth != "parameters" {
					a.ops = append(a.ops, opJ{strings.ToUpper(mth), p, oj})
				}
			}
		}
		out = append(out, a)
	}
	return out
}

func sortedKeys(m map[string]string) []string {
	ks := make([]string, 0, len(m))
	for k := range m {
		ks = append(ks, k)
	}
	sort.Strings(ks)
	return ks
}

// withText puts a text into the free-text positions of a small document.
func withText(text string, k int) J {
	thing := fmt.Sprintf("TxtThing%d", k)
	return J{
		"paths": J{fmt.Sprintf("/txt%d/{id}", k): J{"get": J{"operationId": fmt.Sprintf("getTxt%d", k), "summary": text, "description": text, "tags": []any{"txt"},
			"parameters": []any{J{"name": "id", "in": "path", "type": "string", "required": true, "description": text}, J{"name": "q", "in": "query", "type": "string", "description": text, "default": text},
				J{"name": "h", "in": "header", "type": "string", "description": text, "enum": []any{"one", text}}},
			"responses": J{"200": J{"description": text, "schema": J{"$ref": "#/definitions/" + thing}, "headers": J{"X-T": J{"type": "string", "description": text}}}, "default": J{"description": text}}},
			"post": J{"operationId": fmt.Sprintf("postTxt%d", k), "summary": text, "parameters": []any{J{"name": "id", "in": "path", "type": "string", "required": true}, J{"name": "body", "in": "body", "description": text, "schema": J{"$ref": "#/definitions/" + thing}}},
				"responses": J{"201": J{"description": text}}}}},
		"definitions": J{thing: J{"type": "object", "title": text, "description": text, "properties": J{
			"name":  J{"type": "string", "description": text, "title": text, "default": text, "example": text},
			"color": J{"type": "string", "enum": []any{"red", text}, "description": text},
			"inner": J{"type": "object", "description": text, "properties": J{"v": J{"type": "integer", "description": text}}}}}},
	}
}

// opLayouts: one operation per atom.
func opLayouts() []atom {
	var out []atom
	n := 0
	add := func(id, method string, o J, defs map[string]J) {
		n++
		o["operationId"] = fmt.Sprintf("layoutOp%d", n)
		if _, ok := o["responses"]; !ok {
			o["responses"] = J{"200": J{"description": "ok"}}
		}
		out = append(out, atom{id: "op." + id, kind: "op", ops: []opJ{{method, fmt.Sprintf("/lay%d", n), o}}, defs: defs})
	}
	num := func(s string) json.Number { return json.Number(s) }
	_ = num
	thing := func(k string) (string, map[string]J) {
		name := "LayThing" + k
		return "#/definitions/" + name, map[string]J{name: {"type": "object", "properties": J{"v": J{"type": "string"}, "n": J{"type": "integer"}}}}
	}
	stream := J{"type": "file"}
	binary := J{"type": "string", "format": "binary"}
	r := func(desc string, schema any) J {
		x := J{"description": desc}
		if schema != nil {
			x["schema"] = schema
		}
		return x
	}
	ref := func(p string) J { return J{"$ref": p} }
	// ---- response layouts
	add("resp.default-only", "GET", J{"responses": J{"default": r("any", nil)}}, nil)
	{
		p, d := thing("A")
		add("resp.default-only.schema", "GET", J{"responses": J{"default": r("any", ref(p))}}, d)
	}
	add("resp.204-only", "DELETE", J{"responses": J{"204": r("gone", nil)}}, nil)
	{
		p, d := thing("B")
		add("resp.200+201+202.schemas", "POST", J{"responses": J{"200": r("ok", ref(p)), "201": r("created", J{"type": "array", "items": ref(p)}), "202": r("accepted", J{"type": "string"})}}, d)
	}
	{
		p, d := thing("C")
		add("resp.200+4xx+5xx+default.schemas", "GET", J{"responses": J{"200": r("ok", ref(p)), "400": r("bad", J{"type": "object", "properties": J{"message": J{"type": "string"}}}), "404": r("missing", nil), "500": r("boom", J{"type": "string"}), "default": r("other", ref(p))}}, d)
	}
	add("resp.3xx-only", "GET", J{"responses": J{"302": J{"description": "moved", "headers": J{"Location": J{"type": "string"}}}}}, nil)
	add("resp.4xx-only", "GET", J{"responses": J{"404": r("never there", nil)}}, nil)
	add("resp.primitive-bodies", "GET", J{"responses": J{"200": r("n", J{"type": "integer", "format": "int64"}), "201": r("b", J{"type": "boolean"}), "202": r("f", J{"type": "number"}), "203": r("d", J{"type": "string", "format": "date-time"})}}, nil)
	add("resp.array-and-map-bodies", "GET", J{"responses": J{"200": r("a", J{"type": "array", "items": J{"type": "string"}}), "201": r("m", J{"type": "object", "additionalProperties": J{"type": "integer"}}), "202": r("aa", J{"type": "array", "items": J{"type": "array", "items": J{"type": "number"}}}), "default": r("any", J{"type": "object", "additionalProperties": true})}}, nil)
	add("resp.inline-object-bodies", "GET", J{"responses": J{"200": r("o", J{"type": "object", "required": []any{"id"}, "properties": J{"id": J{"type": "integer"}, "inner": J{"type": "object", "properties": J{"deep": J{"type": "string"}}}}}), "default": r("e", J{"type": "object", "properties": J{"code": J{"type": "integer"}}})}}, nil)
	add("resp.headers-every-type", "GET", J{"responses": J{"200": J{"description": "ok", "headers": J{"X-Str": J{"type": "string"}, "X-Int": J{"type": "integer", "format": "int32"}, "X-Num": J{"type": "number"}, "X-Bool": J{"type": "boolean"}, "X-Date": J{"type": "string", "format": "date-time"},
		"X-Arr": J{"type": "array", "items": J{"type": "integer"}, "collectionFormat": "pipes"}, "X-Enum": J{"type": "string", "enum": []any{"a", "b"}}, "X-Max": J{"type": "integer", "maximum": num("10")}}},
		"default": J{"description": "err", "headers": J{"X-Err": J{"type": "string"}}}}}, nil)
	add("resp.stream.200-file", "GET", J{"produces": []any{"application/octet-stream"}, "responses": J{"200": r("file", stream)}}, nil)
	add("resp.stream.200-binary", "GET", J{"produces": []any{"application/octet-stream"}, "responses": J{"200": r("file", binary)}}, nil)
	add("resp.stream.default-only", "GET", J{"produces": []any{"application/octet-stream"}, "responses": J{"default": r("file", stream)}}, nil)
	add("resp.stream.4xx-only", "GET", J{"produces": []any{"application/octet-stream", "application/json"}, "responses": J{"200": r("ok", nil), "404": r("a file all the same", stream)}}, nil)
	add("resp.stream.5xx-binary-beside-json-200", "GET", J{"produces": []any{"application/octet-stream", "application/json"}, "responses": J{"200": r("ok", J{"type": "object", "properties": J{"v": J{"type": "string"}}}), "500": r("dump", binary)}}, nil)
	add("resp.stream.200+default", "GET", J{"produces": []any{"application/octet-stream"}, "responses": J{"200": r("file", stream), "default": r("file", stream)}}, nil)
	add("resp.stream.3xx", "GET", J{"produces": []any{"application/octet-stream"}, "responses": J{"200": r("ok", nil), "301": r("file", stream)}}, nil)
	add("resp.stream.with-headers", "GET", J{"produces": []any{"application/octet-stream"}, "responses": J{"200": J{"description": "file", "schema": stream, "headers": J{"Content-Disposition": J{"type": "string"}}}}}, nil)
	add("resp.upload+download", "POST", J{"consumes": []any{"multipart/form-data"}, "produces": []any{"application/octet-stream"}, "parameters": []any{J{"name": "up", "in": "formData", "type": "file"}}, "responses": J{"200": r("file", stream)}}, nil)
	add("resp.binary-body-in+out", "PUT", J{"consumes": []any{"application/octet-stream"}, "produces": []any{"application/octet-stream"}, "parameters": []any{J{"name": "blob", "in": "body", "schema": binary}}, "responses": J{"200": r("file", binary), "default": r("err", J{"type": "string"})}}, nil)
	add("resp.text-plain", "GET", J{"produces": []any{"text/plain"}, "responses": J{"200": r("text", J{"type": "string"}), "default": r("err", J{"type": "string"})}}, nil)
	{
		p, d := thing("D")
		add("resp.same-schema-every-code", "GET", J{"responses": J{"200": r("a", ref(p)), "201": r("b", ref(p)), "400": r("c", ref(p)), "default": r("d", ref(p))}}, d)
	}
	add("resp.head-no-body", "HEAD", J{"responses": J{"200": J{"description": "ok", "headers": J{"X-Len": J{"type": "integer"}}}, "404": r("no", nil)}}, nil)
	add("resp.options", "OPTIONS", J{"responses": J{"200": r("ok", nil)}}, nil)
	add("resp.patch", "PATCH", J{"parameters": []any{J{"name": "body", "in": "body", "schema": J{"type": "object", "additionalProperties": true}}}, "responses": J{"200": r("ok", J{"type": "object", "additionalProperties": true}), "422": r("bad", J{"type": "array", "items": J{"type": "string"}})}}, nil)
	// ---- parameter names that meet each other or the generated Params fields
	q := func(names ...string) []any {
		var ps []any
		for _, nm := range names {
			ps = append(ps, J{"name": nm, "in": "query", "type": "string"})
		}
		return ps
	}
	for _, set := range [][]string{
		{"timeout", "request_timeout"}, {"timeout", "request-timeout", "http_request_timeout"}, {"_timeout"}, {"timeout[]"}, {"timeout_"}, {"-timeout"}, {"timeout", "requestTimeout", "httpRequestTimeout", "swaggerTimeout"},
		{"context", "http_client"}, {"Context", "HTTPClient", "timeout"}, {"http-client", "_context"}, {"x", "X"}, {"a_b", "a-b", "a b", "aB"}, {"id", "ID", "Id"}, {"body", "Body"}, {"params", "request", "route", "principal"},
		{"rw", "producer", "res", "err", "o", "r", "reg", "formats"}, {"q", "qr", "values", "query", "result", "valuesQ"},
	} {
		add("params.together="+strings.Join(set, "+"), "GET", J{"parameters": q(set...)}, nil)
	}
	// the same names in different locations of one operation
	add("params.same-name.query+header", "GET", J{"parameters": []any{J{"name": "id", "in": "query", "type": "string"}, J{"name": "id", "in": "header", "type": "string"}}}, nil)
	add("params.same-name.query+formData", "POST", J{"consumes": []any{"application/x-www-form-urlencoded"}, "parameters": []any{J{"name": "name", "in": "query", "type": "string"}, J{"name": "name", "in": "formData", "type": "string"}}}, nil)
	add("params.same-name.query+body", "POST", J{"parameters": []any{J{"name": "item", "in": "query", "type": "string"}, J{"name": "item", "in": "body", "schema": J{"type": "object", "properties": J{"v": J{"type": "string"}}}}}}, nil)
	add("params.timeout.header+query", "GET", J{"parameters": []any{J{"name": "timeout", "in": "query", "type": "integer"}, J{"name": "Timeout", "in": "header", "type": "string"}}}, nil)
	return out
}

// Pass A violations are keyed by (atom, outcome, target, configuration). The same defect shows
// under every configuration the atom is run with; it is reported once, under the first
// configuration in a fixed order (plain modes minimal, full, expand, then mode+switch
// alphabetically), the others are named in the message.
type pendingReport struct {
	cfg, what string
	files     map[string]string
}

var pending = map[[3]string][]pendingReport{} // guarded by mu (callers hold it)

// reportedAtoms counts the reports made against each atom (guarded by mu).
var reportedAtoms = map[string]int{}

func reportsFor(as []atom) int {
	mu.Lock()
	defer mu.Unlock()
	n := 0
	for _, a := range as {
		n += reportedAtoms[a.id]
	}
	return n
}

func report(id, kind, tg, cfg, what string, files map[string]string) {
	reportedAtoms[id]++
	k := [3]string{id, kind, tg}
	pending[k] = append(pending[k], pendingReport{cfg, what, files})
}

func cfgRank(cfg string) string {
	for i, m := range modes {
		if cfg == m.name {
			return fmt.Sprintf("0%d", i)
		}
	}
	return "1" + cfg
}

func flushReports(c *core.Ctx) {
	mu.Lock()
	defer mu.Unlock()
	var ks [][3]string
	for k := range pending {
		ks = append(ks, k)
	}
	sort.Slice(ks, func(i, j int) bool { return strings.Join(ks[i][:], "/") < strings.Join(ks[j][:], "/") })
	for _, k := range ks {
		rs := pending[k]
		sort.SliceStable(rs, func(i, j int) bool { return cfgRank(rs[i].cfg) < cfgRank(rs[j].cfg) })
		var also []string
		for _, r := range rs[1:] {
			if r.cfg != rs[0].cfg && (len(also) == 0 || also[len(also)-1] != r.cfg) {
				also = append(also, r.cfg)
			}
		}
		what := rs[0].what
		if len(also) > 0 {
			what += " (also under: " + strings.Join(also, ", ") + ")"
		}
		c.Violation(fmt.Sprintf("C01/%s/%s/%s/%s", k[0], k[1], k[2], rs[0].cfg), what, rs[0].files)
	}
}
