// C07 — every command's output depends only on its inputs.
//
// This binary is built with -race (see /verif/check): its worker mode calls the
// generator / diff / codescan libraries concurrently in-process, with the
// verif yield hooks perturbing the interleavings.
package main

import (
	"crypto/sha256"
	"encoding/hex"
	"encoding/json"
	"fmt"
	"io"
	"log"
	"math/rand"
	"os"
	"path/filepath"
	"regexp"
	"sort"
	"strings"
	"sync"
	"time"

	"github.com/go-openapi/loads"
	"github.com/go-swagger/go-swagger/cmd/swagger/commands/diff"
	"github.com/go-swagger/go-swagger/generator"

	"verif/rig/core"
	"verif/rig/difflib"
	"verif/rig/jx"
	"verif/rig/oracle"
	"verif/rig/specgen"
)

type J = jx.J

// ---------------------------------------------------------------------------
// inputs built to put many entries into every map the tools range over

func wideSpec() J {
	d := difflib.BaseSpec()
	paths := d["paths"].(J)
	tags := []any{}
	for i := 0; i < 10; i++ {
		tg := fmt.Sprintf("tag%c", 'a'+(i*7)%10)
		tags = append(tags, J{"name": tg, "description": "about " + tg})
	}
	d["tags"] = tags
	d["securityDefinitions"] = J{
		"k1": J{"type": "apiKey", "in": "header", "name": "X-K1"}, "k2": J{"type": "apiKey", "in": "header", "name": "X-K2"}, "k3": J{"type": "apiKey", "in": "query", "name": "k3"},
		"k4": J{"type": "apiKey", "in": "header", "name": "X-K4"}, "k5": J{"type": "apiKey", "in": "query", "name": "k5"}, "b1": J{"type": "basic"},
		"o1": J{"type": "oauth2", "flow": "password", "tokenUrl": "https://a.example.com/t", "scopes": J{"s1": "1", "s2": "2", "s3": "3", "s4": "4", "s5": "5", "s6": "6", "s7": "7", "s8": "8"}},
	}
	d["security"] = []any{J{"k1": []any{}, "k2": []any{}, "k3": []any{}, "k4": []any{}, "k5": []any{}}, J{"o1": []any{"s8", "s1", "s5", "s3", "s7", "s2"}}}
	// many media types, including every family the generator names through pattern tables
	d["consumes"] = []any{"application/json", "application/vnd.vf+json", "application/xml", "text/plain", "application/x-yaml", "application/octet-stream", "text/csv", "application/vnd.b+json", "application/vnd.a+json",
		"application/gzip", "application/x-gzip", "application/zip", "application/x-tar", "application/pdf", "text/html", "text/xml", "text/yaml", "application/x-protobuf", "application/hal+json", "application/vnd.api+json", "application/msgpack", "image/png"}
	d["produces"] = []any{"application/json", "application/xml", "text/plain", "application/x-yaml", "text/csv", "application/vnd.z+json", "application/vnd.y+json", "application/vnd.x+json",
		"application/gzip", "application/x-gzip", "application/zip", "application/octet-stream", "application/pdf", "text/html", "text/xml", "application/x-protobuf", "image/png", "image/jpeg", "application/problem+json"}
	d["schemes"] = []any{"https", "http", "wss", "ws"}
	for i := 0; i < 24; i++ {
		hdrs := J{}
		for h := 0; h < 8; h++ {
			hdrs[fmt.Sprintf("X-H%c", 'a'+(h*5+i)%12)] = J{"type": "string"}
		}
		resp := J{}
		for _, code := range []string{"200", "201", "202", "400", "401", "403", "404", "409", "422", "500"} {
			resp[code] = J{"description": "r" + code, "headers": hdrs, "schema": J{"$ref": "#/definitions/Problem"}}
		}
		var params []any
		for p := 0; p < 9; p++ {
			params = append(params, J{"name": fmt.Sprintf("q%c", 'a'+(p*4+i)%13), "in": "query", "type": "string", "enum": []any{"e9", "e1", "e5", "e3", "e7", "e2", "e8", "e4"}})
		}
		op := J{"operationId": fmt.Sprintf("wide%02d", (i*5)%24), "tags": []any{fmt.Sprintf("tag%c", 'a'+i%10), fmt.Sprintf("tag%c", 'a'+(i+3)%10)}, "parameters": params, "responses": resp,
			"security": []any{J{"k3": []any{}, "k1": []any{}, "b1": []any{}}, J{"k5": []any{}, "k4": []any{}, "k2": []any{}}},
			"x-a": 1, "x-b": 2, "x-c": 3, "x-d": 4, "x-e": 5, "x-f": 6, "x-g": 7, "x-h": 8}
		paths[fmt.Sprintf("/wide/%02d", i)] = J{"get": op}
	}
	// parameters of different locations whose Go names meet (the generator renames them per location)
	for i, set := range [][][2]string{
		{{"query", "timeout"}, {"header", "Timeout"}}, {{"header", "user_id"}, {"query", "user-id"}, {"query", "userId"}}, {{"query", "id"}, {"header", "id"}, {"header", "ID"}},
		{{"query", "a_b"}, {"header", "a-b"}, {"header", "A B"}, {"query", "aB"}}, {{"header", "x-rate"}, {"query", "xRate"}, {"query", "X_Rate"}},
	} {
		var params []any
		for _, ln := range set {
			params = append(params, J{"name": ln[1], "in": ln[0], "type": "string"})
		}
		paths[fmt.Sprintf("/meet/%d", i)] = J{"get": J{"operationId": fmt.Sprintf("meet%d", i), "parameters": params, "responses": J{"200": J{"description": "ok"}}}}
	}
	defs := d["definitions"].(J)
	// alias chains: definitions that are nothing but a $ref, referred to from properties
	for i, target := range []J{
		{"type": "object", "additionalProperties": J{"type": "string", "enum": []any{"aa", "bb"}}},
		{"type": "integer", "format": "int32", "multipleOf": json.Number("3")},
		{"type": "array", "items": J{"type": "string", "minLength": json.Number("2")}},
		{"type": "object", "required": []any{"id"}, "properties": J{"id": J{"type": "string", "pattern": "^[a-z]+$"}}},
	} {
		n := fmt.Sprintf("Chain%d", i)
		defs[n+"Target"] = target
		defs[n+"Alias"] = J{"$ref": "#/definitions/" + n + "Target"}
		defs[n+"Alias2"] = J{"$ref": "#/definitions/" + n + "Alias"}
		defs[n+"Holder"] = J{"type": "object", "required": []any{"p"}, "properties": J{"p": J{"$ref": "#/definitions/" + n + "Alias"}, "o": J{"$ref": "#/definitions/" + n + "Alias"}, "c": J{"$ref": "#/definitions/" + n + "Alias2"}}}
	}
	for i := 0; i < 12; i++ {
		props := J{}
		for p := 0; p < 9; p++ {
			props[fmt.Sprintf("p%c", 'a'+(p*7+i)%11)] = J{"type": "string", "enum": []any{"v9", "v1", "v5", "v3", "v7"}}
		}
		defs[fmt.Sprintf("Wide%02d", i)] = J{"type": "object", "properties": props}
	}
	return d
}

func wideSpecV2() J {
	d := wideSpec()
	paths := d["paths"].(J)
	for i := 0; i < 8; i++ {
		delete(paths, fmt.Sprintf("/wide/%02d", i*3))
		paths[fmt.Sprintf("/added/%02d", i)] = J{"get": J{"operationId": fmt.Sprintf("added%02d", i), "responses": J{"200": J{"description": "ok"}}}}
	}
	for i := 0; i < 24; i++ {
		if pi, ok := paths[fmt.Sprintf("/wide/%02d", i)].(J); ok {
			op := pi["get"].(J)
			for _, p := range op["parameters"].([]any) {
				p.(J)["enum"] = []any{"e9", "e1", "n1", "n2", "n3"}
			}
			delete(op["responses"].(J), "409")
			delete(op["responses"].(J), "422")
			op["tags"] = []any{"tagz", "tagy", "tagx"}
		}
	}
	d["consumes"] = []any{"application/json", "text/plain", "application/new1", "application/new2", "application/new3"}
	defs := d["definitions"].(J)
	for i := 0; i < 6; i++ {
		delete(defs, fmt.Sprintf("Wide%02d", i*2))
		defs[fmt.Sprintf("New%02d", i)] = J{"type": "object", "properties": J{"a": J{"type": "string"}}}
	}
	return d
}

// ---------------------------------------------------------------------------
// worker: concurrent library calls in one process

type genJob struct {
	Kind      string `json:"kind"` // server client models markdown support
	Spec      string `json:"spec"`
	Target    string `json:"target"`
	KeepOrder bool   `json:"keep_order"` // --keep-spec-order: the generator works on a rewritten temp copy of the spec
}

func hashTree(dir string) (string, int) {
	var files []string
	_ = filepath.Walk(dir, func(p string, info os.FileInfo, err error) error {
		if err == nil && !info.IsDir() && filepath.Base(p) != "go.mod" && filepath.Base(p) != "go.sum" {
			files = append(files, p)
		}
		return nil
	})
	sort.Strings(files)
	h := sha256.New()
	for _, f := range files {
		rel, _ := filepath.Rel(dir, f)
		b, _ := os.ReadFile(f)
		fmt.Fprintf(h, "%s\x00%d\x00", rel, len(b))
		h.Write(b)
	}
	return hex.EncodeToString(h.Sum(nil)), len(files)
}

func genOpts(j genJob) *generator.GenOpts {
	g := &generator.GenOpts{}
	g.Spec = j.Spec
	g.Target = j.Target
	g.APIPackage, g.ModelPackage, g.ServerPackage, g.ClientPackage = "operations", "models", "restapi", "client"
	g.DefaultScheme = "http"
	g.IncludeModel, g.IncludeValidator, g.IncludeHandler, g.IncludeParameters, g.IncludeResponses = true, true, true, true, true
	g.IncludeURLBuilder = true
	g.IncludeMain, g.IncludeSupport = j.Kind != "client", true // as the client command does: no main for a client
	g.ValidateSpec = false
	g.PropertiesSpecOrder = j.KeepOrder
	g.IsClient = j.Kind == "client" // as the client command does before defaults: selects the client layout
	if err := g.EnsureDefaults(); err != nil {
		panic(err)
	}
	return g
}

func runGen(j genJob) (err error) {
	defer func() {
		if r := recover(); r != nil {
			err = fmt.Errorf("panic: %v", r)
		}
	}()
	opts := genOpts(j)
	switch j.Kind {
	case "server":
		return generator.GenerateServer("Vf", nil, nil, opts)
	case "client":
		return generator.GenerateClient("Vf", nil, nil, opts)
	case "models":
		return generator.GenerateModels(nil, opts)
	case "markdown":
		return generator.GenerateMarkdown(filepath.Join(j.Target, "api.md"), nil, nil, opts)
	case "support":
		return generator.GenerateSupport("Vf", nil, nil, opts)
	}
	return fmt.Errorf("unknown kind %s", j.Kind)
}

type workerOut struct {
	Sequential map[string]string   `json:"sequential"` // target -> hash
	Concurrent map[string][]string `json:"concurrent"` // target -> hash per round
	Errors     []string            `json:"errors"`
	DiffSeq    map[string]string   `json:"diff_seq"`
	DiffConc   map[string][]string `json:"diff_conc"`
}

func diffDigest(a, b string) string {
	d1, err := loads.Spec(a)
	if err != nil {
		return "load-error"
	}
	d2, err := loads.Spec(b)
	if err != nil {
		return "load-error"
	}
	ds, err := diff.Compare(d1.Spec(), d2.Spec())
	if err != nil {
		return "error:" + err.Error()
	}
	var lines []string
	for _, x := range ds {
		lines = append(lines, fmt.Sprintf("%d|%s", x.Compatibility, x.String()))
	}
	sort.Strings(lines)
	h := sha256.Sum256([]byte(strings.Join(lines, "\n")))
	return hex.EncodeToString(h[:8]) + fmt.Sprintf("/%d", len(lines))
}

func worker(cfgPath string) {
	log.SetOutput(io.Discard)
	var cfg struct {
		Jobs   []genJob    `json:"jobs"`
		Rounds int         `json:"rounds"`
		Pairs  [][2]string `json:"pairs"`
		Out    string      `json:"out"`
	}
	b, _ := os.ReadFile(cfgPath)
	if err := json.Unmarshal(b, &cfg); err != nil {
		fmt.Fprintln(os.Stderr, "bad config:", err)
		os.Exit(2)
	}
	out := workerOut{Sequential: map[string]string{}, Concurrent: map[string][]string{}, DiffSeq: map[string]string{}, DiffConc: map[string][]string{}}
	reset := func(j genJob) {
		entries, _ := os.ReadDir(j.Target)
		for _, e := range entries {
			if e.Name() != "go.mod" && e.Name() != "go.sum" {
				_ = os.RemoveAll(filepath.Join(j.Target, e.Name()))
			}
		}
	}
	// sequential baseline (yields are on but harmless with one goroutine)
	for _, j := range cfg.Jobs {
		reset(j)
		if err := runGen(j); err != nil {
			out.Errors = append(out.Errors, fmt.Sprintf("sequential %s %s: %v", j.Kind, filepath.Base(j.Target), err))
			continue
		}
		h, _ := hashTree(j.Target)
		out.Sequential[j.Target] = h
		// kept aside so that a differing concurrent tree can be compared file by file
		_ = os.RemoveAll(j.Target + ".seq")
		_ = copyTree(j.Target, j.Target+".seq")
	}
	for i, p := range cfg.Pairs {
		out.DiffSeq[fmt.Sprint(i)] = diffDigest(p[0], p[1])
	}
	// concurrent rounds
	for r := 0; r < cfg.Rounds; r++ {
		for _, j := range cfg.Jobs {
			reset(j)
		}
		var wg sync.WaitGroup
		var mu sync.Mutex
		for _, j := range cfg.Jobs {
			if _, ok := out.Sequential[j.Target]; !ok {
				continue
			}
			wg.Add(1)
			go func(j genJob) {
				defer wg.Done()
				err := runGen(j)
				h, _ := hashTree(j.Target)
				if err == nil && h != out.Sequential[j.Target] {
					if _, e := os.Stat(j.Target + ".bad"); e != nil {
						_ = copyTree(j.Target, j.Target+".bad")
					}
				}
				mu.Lock()
				if err != nil {
					out.Errors = append(out.Errors, fmt.Sprintf("concurrent round %d %s %s: %v", r, j.Kind, filepath.Base(j.Target), err))
					h = "error"
				}
				out.Concurrent[j.Target] = append(out.Concurrent[j.Target], h)
				mu.Unlock()
			}(j)
		}
		for i, p := range cfg.Pairs {
			wg.Add(1)
			go func(i int, p [2]string) {
				defer wg.Done()
				d := diffDigest(p[0], p[1])
				mu.Lock()
				out.DiffConc[fmt.Sprint(i)] = append(out.DiffConc[fmt.Sprint(i)], d)
				mu.Unlock()
			}(i, p)
		}
		wg.Wait()
	}
	ob, _ := json.Marshal(out)
	_ = os.WriteFile(cfg.Out, ob, 0o644)
}

// ---------------------------------------------------------------------------

func main() {
	if len(os.Args) > 2 && os.Args[1] == "worker" {
		worker(os.Args[2])
		return
	}
	c := core.New("C07")
	c.ReplayFallback()
	swagger := c.BuildSwagger()
	self, _ := os.Executable()
	rng := rand.New(rand.NewSource(c.Seed))
	K := c.Pick(4, 12)

	// ---- inputs
	specDir := filepath.Join(c.Scratch, "specs")
	core.Must(os.MkdirAll(specDir, 0o755))
	write := func(name string, d J) string {
		oracle.StripHints(d)
		p := filepath.Join(specDir, name+".json")
		core.Must(os.WriteFile(p, jx.Marshal(d), 0o644))
		return p
	}
	inputs := map[string]string{
		"wide":   write("wide", wideSpec()),
		"wide2":  write("wide2", wideSpecV2()),
		"base":   write("base", difflib.BaseSpec()),
		"models": "",
	}
	{
		atoms := specgen.SchemaAtoms()
		defs := map[string]J{}
		for i := range atoms {
			a := &atoms[i]
			if a.RootOnly || strings.Contains(a.ID, "items-enum") || strings.Contains(a.ID, "date.enum") || strings.Contains(a.ID, "array.enum") {
				continue
			}
			_, ds := specgen.Place(a, "reqprop")
			for k, v := range ds {
				defs[k] = v
			}
		}
		inputs["models"] = write("models", specgen.ModelSpec("vf c07 models", defs))
	}
	{
		// a recursive definition edited in one place: the diff report of this pair is known to vary
		a := difflib.BaseSpec()
		a["definitions"].(J)["Other"].(J)["properties"].(J)["next"] = J{"$ref": "#/definitions/Other"}
		b := jx.CloneJ(a)
		b["definitions"].(J)["Other"].(J)["properties"].(J)["code"].(J)["maximum"] = json.Number("40")
		inputs["recursive-a"], inputs["recursive-b"] = write("recursive-a", a), write("recursive-b", b)
	}
	hs := difflib.HostileSpecs()
	for _, k := range []string{"circular-self", "circular-mutual", "allof", "shared-params"} {
		inputs["h-"+k] = write("h-"+k, hs[k])
	}
	fixtureSpecs := []string{"fixtures/codegen/todolist.allparams.yml", "fixtures/codegen/todolist.discriminators.yml"}
	if c.Thorough() {
		fixtureSpecs = append(fixtureSpecs, "fixtures/codegen/todolist.responses.yml", "fixtures/bugs/1487/fixture-is-nullable.yaml", "fixtures/codegen/petstore-expanded.json")
		more, _ := filepath.Glob(filepath.Join(c.Repo, "fixtures/codegen/todolist.*.yml"))
		for _, m := range more {
			rel, _ := filepath.Rel(c.Repo, m)
			fixtureSpecs = append(fixtureSpecs, rel)
		}
	}
	for _, f := range fixtureSpecs {
		if _, err := os.Stat(filepath.Join(c.Repo, f)); err == nil {
			inputs["fx-"+strings.ReplaceAll(filepath.Base(f), ".", "_")] = filepath.Join(c.Repo, f)
		}
	}
	names := make([]string, 0, len(inputs))
	for k := range inputs {
		names = append(names, k)
	}
	sort.Strings(names)

	var mu sync.Mutex
	// ---- part 1: K fresh processes per (command, input)
	type cmdCase struct {
		id   string
		run  func(work string) (string, string, bool) // returns digest, detail, ok(=command succeeded)
		keep bool
	}
	var cases []cmdCase
	genCmd := func(kind string, args []string, in string) cmdCase {
		return cmdCase{id: "generate-" + kind + "/" + in, run: func(work string) (string, string, bool) {
			_ = os.RemoveAll(work)
			core.Must(os.MkdirAll(work, 0o755))
			core.Must(os.WriteFile(filepath.Join(work, "go.mod"), []byte("module vfmod/c07\n\ngo 1.21\n"), 0o644))
			a := append(append([]string{"generate"}, args...), "-q", "-f", inputs[in], "-t", work)
			r := core.Run(work, nil, 10*time.Minute, "", swagger, a...)
			if r.TimedOut {
				return "", "watchdog", false
			}
			if r.Exit != 0 {
				return "", core.OneLine(r.Stderr), false
			}
			h, n := hashTree(work)
			return h, fmt.Sprintf("%d files", n), true
		}}
	}
	for _, in := range names {
		if strings.HasPrefix(in, "h-circular") || strings.HasPrefix(in, "recursive-") {
			continue
		}
		if in == "models" {
			cases = append(cases, genCmd("model", []string{"model"}, in))
			continue
		}
		cases = append(cases, genCmd("server", []string{"server", "-A", "Vf"}, in), genCmd("client", []string{"client", "-A", "Vf"}, in))
		if in == "wide" || in == "base" || c.Thorough() {
			cases = append(cases, genCmd("markdown", []string{"markdown", "--output", "api.md"}, in), genCmd("cli", []string{"cli", "-A", "Vf"}, in))
		}
	}
	stdoutCmd := func(id string, args ...string) cmdCase {
		return cmdCase{id: id, run: func(work string) (string, string, bool) {
			r := core.Run("", nil, 5*time.Minute, "", swagger, args...)
			if r.TimedOut {
				return "", "watchdog", false
			}
			_ = os.RemoveAll(work)
			core.Must(os.MkdirAll(work, 0o755))
			_ = os.WriteFile(filepath.Join(work, "stdout.txt"), []byte(r.Stdout), 0o644)
			h := sha256.Sum256([]byte(fmt.Sprintf("%d\x00%s", r.Exit, r.Stdout)))
			return hex.EncodeToString(h[:]), fmt.Sprintf("exit %d, %d bytes", r.Exit, len(r.Stdout)), true
		}}
	}
	fileCmd := func(id string, outName string, args ...string) cmdCase {
		return cmdCase{id: id, run: func(work string) (string, string, bool) {
			_ = os.RemoveAll(work)
			core.Must(os.MkdirAll(work, 0o755))
			out := filepath.Join(work, outName)
			r := core.Run("", nil, 5*time.Minute, "", swagger, append(args, "-o", out)...)
			if r.TimedOut {
				return "", "watchdog", false
			}
			b, _ := os.ReadFile(out)
			h := sha256.Sum256(append([]byte(fmt.Sprintf("%d\x00", r.Exit)), b...))
			return hex.EncodeToString(h[:]), fmt.Sprintf("exit %d, %d bytes", r.Exit, len(b)), true
		}}
	}
	pairs := [][2]string{{"wide", "wide2"}, {"wide2", "wide"}, {"base", "wide"}, {"h-allof", "h-shared-params"}, {"h-circular-self", "h-circular-mutual"}, {"recursive-a", "recursive-b"}}
	for _, p := range pairs {
		a, b := inputs[p[0]], inputs[p[1]]
		cases = append(cases, stdoutCmd("diff-txt/"+p[0]+":"+p[1], "diff", a, b), stdoutCmd("diff-json/"+p[0]+":"+p[1], "diff", "-f", "json", a, b), stdoutCmd("diff-breaking/"+p[0]+":"+p[1], "diff", "-b", a, b))
	}
	if ms, _ := filepath.Glob(filepath.Join(c.Repo, "fixtures/diff/*.v1.json")); len(ms) > 0 {
		for _, v1 := range ms {
			v2 := strings.TrimSuffix(v1, ".v1.json") + ".v2.json"
			n := strings.TrimSuffix(filepath.Base(v1), ".v1.json")
			cases = append(cases, stdoutCmd("diff-txt/fixture-"+n, "diff", v1, v2), stdoutCmd("diff-json/fixture-"+n, "diff", "-f", "json", v1, v2))
		}
	}
	for _, in := range []string{"wide", "base", "h-allof", "h-circular-mutual"} {
		cases = append(cases, fileCmd("flatten-json/"+in, "o.json", "flatten", inputs[in]), fileCmd("flatten-yaml/"+in, "o.yaml", "flatten", "--format", "yaml", inputs[in]),
			fileCmd("flatten-full/"+in, "o.json", "flatten", "--with-flatten=full", inputs[in]))
		if !strings.Contains(in, "circular") {
			cases = append(cases, fileCmd("expand-json/"+in, "o.json", "expand", inputs[in]))
		}
	}
	cases = append(cases, fileCmd("mixin/wide+base", "o.json", "mixin", inputs["wide"], inputs["base"], inputs["h-allof"]))
	for _, pkg := range []string{"fixtures/goparsing/classification", "fixtures/goparsing/petstore", "fixtures/goparsing/bookings"} {
		if _, err := os.Stat(filepath.Join(c.Repo, pkg)); err == nil {
			pkg := pkg
			cases = append(cases, cmdCase{id: "generate-spec/" + filepath.Base(pkg), run: func(work string) (string, string, bool) {
				_ = os.RemoveAll(work)
				core.Must(os.MkdirAll(work, 0o755))
				out := filepath.Join(work, "o.json")
				r := core.Run(filepath.Join(c.Repo, pkg), core.GoEnv(), 10*time.Minute, "", swagger, "generate", "spec", "-m", "-o", out, "./...")
				if r.TimedOut {
					return "", "watchdog", false
				}
				b, _ := os.ReadFile(out)
				h := sha256.Sum256(append([]byte(fmt.Sprintf("%d\x00", r.Exit)), b...))
				return hex.EncodeToString(h[:]), fmt.Sprintf("exit %d, %d bytes", r.Exit, len(b)), true
			}})
		}
	}
	core.Parallel(len(cases), 8, func(i int) {
		cs := cases[i]
		work := filepath.Join(c.Scratch, "p1", fmt.Sprintf("c%03d", i), "t")
		digests := map[string]int{}
		var detail, firstDiff string
		ran := 0
		for k := 0; k < K; k++ {
			d, det, ok := cs.run(work)
			if !ok {
				if det == "watchdog" {
					mu.Lock()
					c.Inconclusive("watchdog on %s", cs.id)
					mu.Unlock()
				} else if k == 0 {
					mu.Lock()
					c.Note("%s: command fails (not this check's subject): %s", cs.id, det)
					mu.Unlock()
				}
				break
			}
			ran++
			digests[d]++
			detail = det
			if k == 0 {
				_ = os.RemoveAll(work + ".first")
				_ = copyTree(work, work+".first")
			} else if len(digests) > 1 && firstDiff == "" {
				firstDiff = treeDiff(work+".first", work)
			}
		}
		mu.Lock()
		defer mu.Unlock()
		if ran < 2 {
			return
		}
		kind := strings.SplitN(cs.id, "/", 2)[0]
		c.EvalN(cs.id, ran)
		if len(digests) > 1 {
			c.Violation("C07/nondeterministic/"+stableID(cs.id), fmt.Sprintf("%d runs of the same command on the same input in fresh processes gave %d different outputs (%s)", ran, len(digests), detail),
				map[string]string{"command.txt": cs.id + "\n", "digests.txt": fmt.Sprint(digests), "first-difference.txt": firstDiff})
		} else if kind != "" {
			c.Sample(map[string]any{"command": cs.id, "runs": ran, "distinct_outputs": 1, "output": detail})
		}
	})

	// ---- part 2: concurrent library calls under the race detector with yields
	rounds := c.Pick(2, 8)
	var jobs []genJob
	jroot := filepath.Join(c.Scratch, "p2")
	k := 0
	for _, in := range names {
		if strings.HasPrefix(in, "h-circular") || strings.HasPrefix(in, "recursive-") {
			continue
		}
		kinds := []string{"server", "client", "models", "markdown"}
		if !c.Thorough() {
			kinds = []string{[]string{"server", "client", "models", "markdown", "support"}[k%5], []string{"client", "models", "server", "support", "markdown"}[k%5]}
			if strings.HasPrefix(in, "h-") {
				kinds = kinds[:1]
			}
		}
		for _, kind := range kinds {
			t := filepath.Join(jroot, fmt.Sprintf("j%02d-%s-%s", len(jobs), kind, in))
			core.Must(os.MkdirAll(t, 0o755))
			core.Must(os.WriteFile(filepath.Join(t, "go.mod"), []byte("module vfmod/c07j\n\ngo 1.21\n"), 0o644))
			jobs = append(jobs, genJob{Kind: kind, Spec: inputs[in], Target: t})
		}
		k++
	}
	// generations with --keep-spec-order on documents that share a base name in different
	// directories (the option makes the generator work on a temp copy named after the base name)
	for i, in := range []string{"base", "models", "wide", "h-allof"} {
		dir := filepath.Join(specDir, fmt.Sprintf("tenant%d", i))
		core.Must(os.MkdirAll(dir, 0o755))
		b, _ := os.ReadFile(inputs[in])
		sp := filepath.Join(dir, "swagger.json")
		core.Must(os.WriteFile(sp, b, 0o644))
		for _, kind := range []string{"models", "client"} {
			if in == "models" && kind == "client" {
				continue
			}
			t := filepath.Join(jroot, fmt.Sprintf("j%02d-%s-keeporder-%s", len(jobs), kind, in))
			core.Must(os.MkdirAll(t, 0o755))
			core.Must(os.WriteFile(filepath.Join(t, "go.mod"), []byte("module vfmod/c07j\n\ngo 1.21\n"), 0o644))
			jobs = append(jobs, genJob{Kind: kind, Spec: sp, Target: t, KeepOrder: true})
		}
	}
	var dpairs [][2]string
	for _, p := range pairs[:4] {
		dpairs = append(dpairs, [2]string{inputs[p[0]], inputs[p[1]]})
	}
	raceSeen := map[string]string{}
	yieldSites := map[string]int{}
	interleavings := map[string]bool{}
	// a batch of look-alike tenants: same document shape and size (so that the generations stay
	// in step), same base name, one distinguishing model each, all with --keep-spec-order
	var tenantJobs []genJob
	{
		b, _ := os.ReadFile(inputs["base"])
		for i := 0; i < 8; i++ {
			doc, err := jx.Parse(b)
			core.Must(err)
			defs, _ := doc.(J)["definitions"].(J)
			if defs == nil {
				defs = J{}
				doc.(J)["definitions"] = defs
			}
			props := J{}
			for q := 0; q < 6; q++ {
				props[fmt.Sprintf("%c%dField", 'z'-byte((q*5+i)%26), i)] = J{"type": "string"}
			}
			defs[fmt.Sprintf("Tenant%dMarker", i)] = J{"type": "object", "properties": props}
			dir := filepath.Join(specDir, fmt.Sprintf("lookalike%d", i))
			core.Must(os.MkdirAll(dir, 0o755))
			sp := filepath.Join(dir, "swagger.json")
			core.Must(os.WriteFile(sp, jx.Marshal(doc), 0o644))
			t := filepath.Join(jroot, fmt.Sprintf("t%02d-models-keeporder-tenant%d", i, i))
			core.Must(os.MkdirAll(t, 0o755))
			core.Must(os.WriteFile(filepath.Join(t, "go.mod"), []byte("module vfmod/c07j\n\ngo 1.21\n"), 0o644))
			tenantJobs = append(tenantJobs, genJob{Kind: "models", Spec: sp, Target: t, KeepOrder: true})
		}
	}
	type batchSpec struct {
		jobs   []genJob
		pairs  [][2]string
		rounds int
	}
	var batches []batchSpec
	for i := 0; i < c.Pick(1, 5); i++ {
		batches = append(batches, batchSpec{jobs, dpairs, rounds})
	}
	for i := 0; i < c.Pick(1, 3); i++ {
		batches = append(batches, batchSpec{tenantJobs, nil, c.Pick(10, 40)})
	}
	for batch, bs := range batches {
		jobs, dpairs, rounds := bs.jobs, bs.pairs, bs.rounds
		cfgPath := filepath.Join(c.Scratch, fmt.Sprintf("p2cfg%d.json", batch))
		outPath := filepath.Join(c.Scratch, fmt.Sprintf("p2out%d.json", batch))
		trace := filepath.Join(c.Scratch, fmt.Sprintf("trace%d.jsonl", batch))
		raceLog := filepath.Join(c.Scratch, fmt.Sprintf("race%d", batch))
		cb, _ := json.Marshal(map[string]any{"jobs": jobs, "rounds": rounds, "pairs": dpairs, "out": outPath})
		core.Must(os.WriteFile(cfgPath, cb, 0o644))
		env := append(os.Environ(), fmt.Sprintf("VERIF_YIELD=%d", c.Seed*100+int64(batch)), "VERIF_TRACE="+trace, "GORACE=halt_on_error=0 log_path="+raceLog)
		r := core.Run(c.Scratch, env, 40*time.Minute, "", self, "worker", cfgPath)
		if r.TimedOut {
			c.Inconclusive("watchdog on the concurrent worker")
			continue
		}
		// race reports
		logs, _ := filepath.Glob(raceLog + "*")
		raceText := r.Stderr
		for _, l := range logs {
			b, _ := os.ReadFile(l)
			raceText += string(b)
		}
		for _, blk := range strings.Split(raceText, "==================") {
			if !strings.Contains(blk, "WARNING: DATA RACE") {
				continue
			}
			raceSeen[raceKey(blk)] = blk
		}
		if strings.Contains(raceText, "fatal error: concurrent map") {
			raceSeen["fatal-concurrent-map"] = tail(raceText, 4000)
		}
		b, err := os.ReadFile(outPath)
		if err != nil {
			if len(raceSeen) == 0 {
				c.Violation("C07/concurrent/worker-died", "the process running concurrent library generations died: "+core.OneLine(tail(r.Stderr, 800)), map[string]string{"stderr.txt": r.Stderr})
			}
			continue
		}
		var wo workerOut
		_ = json.Unmarshal(b, &wo)
		for _, e := range wo.Errors {
			if strings.HasPrefix(e, "sequential") {
				c.Note("%s", e)
			} else {
				c.Violation("C07/concurrent/error/"+classOf(e), "a library generation that succeeds sequentially fails when run concurrently with others: "+e, map[string]string{"error.txt": e})
			}
		}
		for t, seq := range wo.Sequential {
			kind := strings.SplitN(filepath.Base(t), "-", 3)
			for _, h := range wo.Concurrent[t] {
				c.Eval("concurrent/" + filepath.Base(t)[4:])
				if h != seq && h != "error" {
					d := treeDiff(t+".seq", t+".bad")
					c.Violation("C07/concurrent/differs-from-sequential/"+kind[1], fmt.Sprintf("concurrent generation of %s produced a different tree than the sequential generation of the same input into the same path: %s", filepath.Base(t), core.OneLine(tail(d, 300))),
						map[string]string{"job.txt": t, "sequential-vs-concurrent.diff": d})
				}
			}
		}
		for i, seq := range wo.DiffSeq {
			for _, h := range wo.DiffConc[i] {
				c.Eval("concurrent/diff.Compare/" + i)
				if h != seq {
					var pi int
					fmt.Sscan(i, &pi)
					if strings.Contains(dpairs[pi][0], "circular") || strings.Contains(dpairs[pi][1], "circular") {
						continue
					}
					c.Violation("C07/concurrent/diff.Compare-differs", fmt.Sprintf("diff.Compare run concurrently gives %s, sequentially %s", h, seq), nil)
				}
			}
		}
		// interleavings actually produced: ordered site sequences per goroutine
		if tb, err := os.ReadFile(trace); err == nil {
			perG := map[string][]string{}
			for _, line := range strings.Split(string(tb), "\n") {
				var ev struct {
					G    int    `json:"g"`
					Kind string `json:"kind"`
					Path string `json:"path"`
					N    int    `json:"n"`
				}
				if json.Unmarshal([]byte(line), &ev) != nil || ev.Kind != "yield" {
					continue
				}
				yieldSites[ev.Path]++
				g := fmt.Sprint(ev.G)
				perG[g] = append(perG[g], fmt.Sprintf("%s:%d", ev.Path, ev.N/500))
			}
			for _, seq := range perG {
				h := sha256.Sum256([]byte(strings.Join(seq, ">")))
				interleavings[hex.EncodeToString(h[:6])] = true
			}
		}
		_ = os.Remove(trace)
	}
	for key, blk := range raceSeen {
		c.Violation("C07/race/"+key, "the race detector reports a data race between concurrent library calls: "+core.OneLine(tail(blk, 600)), map[string]string{"race.txt": blk})
	}
	for s := range interleavings {
		c.Sig("interleaving:" + s)
	}
	c.Extra["yield_sites_hit"] = yieldSites
	c.Extra["distinct_goroutine_yield_sequences"] = len(interleavings)
	c.Extra["race_reports"] = len(raceSeen)
	c.Extra["concurrent_jobs"] = len(jobs) + len(tenantJobs)
	c.Extra["lookalike_tenant_rounds"] = c.Pick(10, 40)
	c.Extra["concurrent_rounds_per_batch"] = rounds
	_ = rng
	c.Finish("part 1: every command (generate server / client / model / cli / markdown, generate spec, diff txt / json / -b, flatten json / yaml / full, expand, mixin) run K times in fresh processes on inputs built to put >= 8 entries into every map the tools range over, byte-identical outputs (tree hashes at the same absolute path, stdout + exit status) required; part 2: a -race build of this harness calls generator.GenerateServer / Client / Models / Markdown / Support and diff.Compare concurrently (all jobs at once, several rounds and batches) with the verif yield hooks perturbing interleavings; every concurrent tree must equal the sequential tree of the same job, zero race reports; distinct = (command, input) pairs compared + concurrent jobs + distinct per-goroutine yield sequences observed",
		120, 40, []string{
			"identical absolute target and input paths across the runs that are compared",
			"log output is not part of the compared output",
			"race reports are counted from the log (GORACE halt_on_error=0), de-duplicated by the pair of outermost go-swagger frames",
			"a watchdog expiry is inconclusive",
		})
}

var rxFrame = regexp.MustCompile(`github.com/go-swagger/go-swagger/([\w/]+)\.([\w.()*]+)\(`)

// raceKey identifies a report by the go-swagger functions of its two stacks.
func raceKey(blk string) string {
	var fs []string
	seen := map[string]bool{}
	for _, m := range rxFrame.FindAllStringSubmatch(blk, -1) {
		f := filepath.Base(m[1]) + "." + strings.NewReplacer("(", "", ")", "", "*", "").Replace(m[2])
		if !seen[f] {
			seen[f] = true
			fs = append(fs, f)
		}
		if len(fs) >= 2 {
			break
		}
	}
	if len(fs) == 0 {
		return "outside-go-swagger"
	}
	return strings.Join(fs, "+")
}

func classOf(e string) string {
	parts := strings.Fields(e)
	if len(parts) > 3 {
		return parts[3]
	}
	return "generation"
}

func stableID(id string) string {
	return strings.ReplaceAll(id, " ", "_")
}

func tail(s string, n int) string {
	if len(s) > n {
		return "…" + s[len(s)-n:]
	}
	return s
}

// treeDiff describes the first difference between two output trees.
func treeDiff(a, b string) string {
	var out string
	_ = filepath.Walk(a, func(p string, info os.FileInfo, err error) error {
		if err != nil || info.IsDir() || out != "" {
			return nil
		}
		rel, _ := filepath.Rel(a, p)
		x, _ := os.ReadFile(p)
		y, err := os.ReadFile(filepath.Join(b, rel))
		if err != nil {
			out = "file " + rel + " only in the first run"
			return nil
		}
		if string(x) != string(y) {
			xl, yl := strings.Split(string(x), "\n"), strings.Split(string(y), "\n")
			for i := 0; i < len(xl) && i < len(yl); i++ {
				if xl[i] != yl[i] {
					out = fmt.Sprintf("%s line %d:\n  run A: %s\n  run B: %s", rel, i+1, xl[i], yl[i])
					return nil
				}
			}
			out = fmt.Sprintf("%s: %d vs %d lines", rel, len(xl), len(yl))
		}
		return nil
	})
	return out
}

func copyTree(src, dst string) error {
	return filepath.Walk(src, func(p string, info os.FileInfo, err error) error {
		if err != nil {
			return nil
		}
		rel, _ := filepath.Rel(src, p)
		if info.IsDir() {
			return os.MkdirAll(filepath.Join(dst, rel), 0o755)
		}
		b, err := os.ReadFile(p)
		if err != nil {
			return nil
		}
		return os.WriteFile(filepath.Join(dst, rel), b, 0o644)
	})
}
