// C15 — diff: ignore file, report formats and exit status are coherent.
package main

import (
	"encoding/json"
	"fmt"
	"math/rand"
	"os"
	"path/filepath"
	"sort"
	"strings"
	"sync/atomic"

	"github.com/go-swagger/go-swagger/cmd/swagger/commands/diff"

	"verif/rig/core"
	"verif/rig/difflib"
	"verif/rig/jx"
)

type pair struct {
	id, class string
	a, b      string
}

var swagger string

func main() {
	c := core.New("C15")
	swagger = c.BuildSwagger()
	rng := rand.New(rand.NewSource(c.Seed))
	var pairs []pair
	if c.Replay != "" {
		pairs = append(pairs, pair{id: "replay", class: "replay", a: filepath.Join(c.Replay, "a.json"), b: filepath.Join(c.Replay, "b.json")})
	} else {
		edits := difflib.Catalogue()
		perm := rng.Perm(len(edits))
		nEd := c.Pick(140, len(edits))
		for _, i := range perm[:nEd] {
			e := edits[i]
			a, b := difflib.WritePair(filepath.Join(c.Scratch, "edits", fmt.Sprint(i)), e.Old, e.New)
			pairs = append(pairs, pair{id: e.ID, class: "edit", a: a, b: b})
		}
		for k := 0; k < c.Pick(200, 2500); k++ {
			e, names := difflib.WithNoise(edits[rng.Intn(len(edits))], rng, "base-recursive-prop", "base-extra-definition")
			a, b := difflib.WritePair(filepath.Join(c.Scratch, "noise", fmt.Sprint(k)), e.Old, e.New)
			if rng.Intn(2) == 0 {
				a, b = b, a
			}
			pairs = append(pairs, pair{id: e.ID + "+" + strings.Join(names, ","), class: "noise", a: a, b: b})
		}
		if ms, _ := filepath.Glob(filepath.Join(c.Repo, "fixtures/diff/*.v1.json")); len(ms) > 0 {
			for _, v1 := range ms {
				v2 := strings.TrimSuffix(v1, ".v1.json") + ".v2.json"
				if _, err := os.Stat(v2); err == nil {
					pairs = append(pairs, pair{id: "fixturepair/" + filepath.Base(v1), class: "fixturepair", a: v1, b: v2},
						pair{id: "fixturepair-rev/" + filepath.Base(v1), class: "fixturepair", a: v2, b: v1})
				}
			}
		}
	}
	var cliRuns int64
	core.Parallel(len(pairs), 16, func(i int) {
		n := judge(c, pairs[i], rand.New(rand.NewSource(c.Seed*7919+int64(i))), filepath.Join(c.Scratch, "w", fmt.Sprint(i)))
		atomic.AddInt64(&cliRuns, int64(n))
	})
	c.Extra["cli_runs"] = cliRuns
	if c.Replay != "" {
		c.Finish("replay", 1, 0, nil)
	}
	c.Finish("the real swagger binary on catalogue edits, noisy composites and repository v1/v2 pairs: -f json / txt / -b reports and exit statuses, the JSON report fed back with -i in full, as every singleton (<=10) and as seeded random halves; all comparisons on multisets of entries; distinct = (pair class, subset class, breaking present?, rule) combinations judged",
		400, 12, []string{
			"entries are identified by their complete JSON form (code, compatibility, info, location), which is the tool's own Matches relation",
			"text lines are rendered from the JSON entries with the tool's own SpecDifference.String()",
			"pairs on which diff crashes are left to C12",
		})
}

type entry struct {
	raw  string
	sd   diff.SpecDifference
	comp string
}

func parseEntries(out string) ([]entry, error) {
	var raws []json.RawMessage
	if err := json.Unmarshal([]byte(out), &raws); err != nil {
		return nil, err
	}
	var es []entry
	for _, r := range raws {
		t, err := jx.Parse(r)
		if err != nil {
			return nil, err
		}
		var sd diff.SpecDifference
		if err := json.Unmarshal(r, &sd); err != nil {
			return nil, fmt.Errorf("entry does not unmarshal as a SpecDifference: %v: %s", err, r)
		}
		comp, _ := t.(jx.J)["compatibility"].(string)
		es = append(es, entry{raw: jx.Compact(t), sd: sd, comp: comp})
	}
	return es, nil
}

func bag(es []entry) map[string]int {
	m := map[string]int{}
	for _, e := range es {
		m[e.raw]++
	}
	return m
}

func hasBreaking(es []entry) bool {
	for _, e := range es {
		if e.comp == "Breaking" {
			return true
		}
	}
	return false
}

// parseText splits a text report into (section, line) items.
func parseText(out string) (map[string]int, string) {
	items := map[string]int{}
	section := ""
	last := ""
	for _, l := range strings.Split(out, "\n") {
		t := strings.TrimRight(l, "\r")
		switch {
		case t == "NON-BREAKING CHANGES:":
			section = "NonBreaking"
		case t == "NON-BREAKING CHANGES WITH WARNING:":
			section = "Warning"
		case t == "BREAKING CHANGES:":
			section = "Breaking"
		case strings.HasPrefix(t, "====") || t == "":
		case strings.HasPrefix(t, "compatibility test") || t == "No changes identified":
			last = t
		default:
			items[section+"|"+t]++
		}
	}
	return items, last
}

func sameBag(a, b map[string]int) string {
	var diffs []string
	for k, v := range a {
		if b[k] != v {
			diffs = append(diffs, fmt.Sprintf("%q: %d vs %d", k, v, b[k]))
		}
	}
	for k, v := range b {
		if _, ok := a[k]; !ok {
			diffs = append(diffs, fmt.Sprintf("%q: 0 vs %d", k, v))
		}
	}
	sort.Strings(diffs)
	if len(diffs) > 4 {
		diffs = append(diffs[:4], "…")
	}
	return strings.Join(diffs, "; ")
}

func judge(c *core.Ctx, p pair, rng *rand.Rand, work string) int {
	_ = os.MkdirAll(work, 0o755)
	runs := 0
	run := func(extra ...string) core.Result {
		runs++
		return difflib.RunCLI(swagger, extra, p.a, p.b)
	}
	files := func(extra map[string]string) map[string]string {
		fa, _ := os.ReadFile(p.a)
		fb, _ := os.ReadFile(p.b)
		m := map[string]string{"a.json": string(fa), "b.json": string(fb), "pair.txt": p.id + "\n"}
		for k, v := range extra {
			m[k] = v
		}
		return m
	}
	js := run("-f", "json")
	if js.TimedOut {
		c.Inconclusive("watchdog on %s", p.id)
		return runs
	}
	es, err := parseEntries(js.Stdout)
	if err != nil {
		if strings.Contains(js.Stderr, "panic:") || strings.Contains(js.Stderr, "goroutine ") {
			c.Note("crash on %s (left to C12)", p.id)
			return runs
		}
		c.Eval(p.class + "/json-parse")
		c.Violation("C15/json-report-unreadable", fmt.Sprintf("the -f json report of %s cannot be read back: %v", p.id, err), files(map[string]string{"report.json": js.Stdout, "stderr.txt": js.Stderr}))
		return runs
	}
	// the report must be a function of the input for the comparisons below to mean
	// anything; a pair whose report content varies between two runs is C07's subject
	if js2 := run("-f", "json"); true {
		es2, err2 := parseEntries(js2.Stdout)
		if err2 != nil || sameBag(bag(es), bag(es2)) != "" {
			c.Note("report content of %s varies from run to run (left to C07)", p.id)
			return runs
		}
	}
	breaking := hasBreaking(es)
	bsig := map[bool]string{true: "breaking", false: "nobreaking"}[breaking]
	if len(es) == 0 {
		c.Eval(p.class + "/empty")
		return runs
	}
	txt := run()
	bonly := run("-b")
	// --- exit status rule, per format
	exitRule := func(name string, r core.Result, want bool, extra map[string]string) {
		c.Eval(p.class + "/exit/" + name + "/" + bsig)
		if (r.Exit != 0) != want {
			if extra == nil {
				extra = map[string]string{}
			}
			extra["report.json"], extra["stdout.txt"] = js.Stdout, r.Stdout
			c.Violation(fmt.Sprintf("C15/exit/%s/%s", name, map[bool]string{true: "zero-with-breaking", false: "nonzero-without-breaking"}[want]),
				fmt.Sprintf("swagger diff (%s) exits %d on %s although the report %s a Breaking entry", name, r.Exit, p.id, map[bool]string{true: "contains", false: "does not contain"}[want]), files(extra))
		}
	}
	exitRule("txt", txt, breaking, nil)
	exitRule("json", js, breaking, nil)
	exitRule("breaking-only", bonly, breaking, nil)
	// --- the three reports describe the same set
	want := map[string]int{}
	wantB := map[string]int{}
	for _, e := range es {
		want[e.comp+"|"+e.sd.String()]++
		if e.comp == "Breaking" {
			wantB[e.comp+"|"+e.sd.String()]++
		}
	}
	got, _ := parseText(txt.Stdout)
	c.Eval(p.class + "/formats/txt-vs-json/" + bsig)
	if d := sameBag(want, got); d != "" {
		c.Violation("C15/formats/txt-vs-json", fmt.Sprintf("text and JSON reports of %s describe different sets (json vs txt): %s", p.id, d), files(map[string]string{"report.json": js.Stdout, "report.txt": txt.Stdout}))
	}
	gotB, _ := parseText(bonly.Stdout)
	c.Eval(p.class + "/formats/breaking-only/" + bsig)
	if d := sameBag(wantB, gotB); d != "" {
		c.Violation("C15/formats/breaking-only", fmt.Sprintf("-b report of %s differs from the Breaking entries of the JSON report (json vs -b): %s", p.id, d), files(map[string]string{"report.json": js.Stdout, "report-b.txt": bonly.Stdout}))
	}
	// -d file gives the same bytes as stdout
	if rng.Intn(4) == 0 {
		dest := filepath.Join(work, "dest.txt")
		r := run("-d", dest)
		b, _ := os.ReadFile(dest)
		c.Eval(p.class + "/dest-file")
		if string(b) != txt.Stdout || (r.Exit != 0) != (txt.Exit != 0) {
			c.Violation("C15/formats/dest-file", fmt.Sprintf("-d <file> output or exit status differs from stdout run on %s", p.id), files(map[string]string{"dest.txt": string(b), "report.txt": txt.Stdout}))
		}
	}
	// --- ignore file semantics
	type subset struct {
		class string
		idx   []int
	}
	var subsets []subset
	all := make([]int, len(es))
	for i := range es {
		all[i] = i
	}
	subsets = append(subsets, subset{"all", all}, subset{"none", nil})
	for i := 0; i < len(es) && i < 10; i++ {
		subsets = append(subsets, subset{"singleton", []int{i}})
	}
	for k := 0; k < 5 && len(es) > 1; k++ {
		var idx []int
		for i := range es {
			if rng.Intn(2) == 0 {
				idx = append(idx, i)
			}
		}
		subsets = append(subsets, subset{"half", idx})
	}
	for si, s := range subsets {
		ign := filepath.Join(work, fmt.Sprintf("ignore-%d.json", si))
		var body string
		if s.class == "all" {
			body = js.Stdout // verbatim
		} else {
			var raws []json.RawMessage
			for _, i := range s.idx {
				raws = append(raws, json.RawMessage(es[i].raw))
			}
			if raws == nil {
				raws = []json.RawMessage{}
			}
			b, _ := json.MarshalIndent(raws, "", "  ")
			body = string(b)
		}
		core.Must(os.WriteFile(ign, []byte(body), 0o644))
		listed := map[string]bool{}
		for _, i := range s.idx {
			listed[es[i].raw] = true
		}
		var expect []entry
		for _, e := range es {
			if !listed[e.raw] {
				expect = append(expect, e)
			}
		}
		rj := run("-f", "json", "-i", ign)
		rt := run("-i", ign)
		gotEs, err := parseEntries(rj.Stdout)
		ex := map[string]string{"ignore.json": body, "report.json": js.Stdout, "after.json": rj.Stdout, "after.txt": rt.Stdout}
		c.Eval(p.class + "/ignore/" + s.class + "/" + bsig)
		if err != nil {
			c.Violation("C15/ignore/"+s.class+"/unreadable", fmt.Sprintf("report with -i (%s subset) unreadable on %s: %v %s", s.class, p.id, err, core.OneLine(rj.Stderr)), files(ex))
			continue
		}
		if d := sameBag(bag(expect), bag(gotEs)); d != "" {
			kind := "wrong-set"
			if s.class == "all" {
				kind = "entries-left"
			}
			c.Violation("C15/ignore/"+s.class+"/"+kind, fmt.Sprintf("ignoring a %s subset (%d of %d entries) of %s: expected vs reported entries differ: %s", s.class, len(s.idx), len(es), p.id, d), files(ex))
			continue
		}
		remBreaking := hasBreaking(expect)
		c.Eval(p.class + "/ignore-exit/" + s.class + "/" + map[bool]string{true: "breaking", false: "nobreaking"}[remBreaking])
		if (rt.Exit != 0) != remBreaking {
			c.Violation("C15/ignore/"+s.class+"/exit-txt", fmt.Sprintf("with -i (%s subset) on %s the text run exits %d although %d non-ignored entries remain, Breaking among them: %v", s.class, p.id, rt.Exit, len(expect), remBreaking), files(ex))
		}
		if (rj.Exit != 0) != remBreaking {
			c.Violation(fmt.Sprintf("C15/exit/json/%s", map[bool]string{true: "zero-with-breaking", false: "nonzero-without-breaking"}[remBreaking]),
				fmt.Sprintf("with -i (%s subset) on %s the -f json run exits %d, Breaking entries remaining: %v", s.class, p.id, rj.Exit, remBreaking), files(ex))
		}
		if s.class == "all" {
			if _, lastLine := parseText(rt.Stdout); lastLine != "No changes identified" {
				c.Violation("C15/ignore/all/text-not-empty", fmt.Sprintf("ignoring every reported difference of %s still prints: %s", p.id, core.OneLine(rt.Stdout)), files(ex))
			}
		}
		// text report after ignoring = remaining entries
		wantT := map[string]int{}
		for _, e := range expect {
			wantT[e.comp+"|"+e.sd.String()]++
		}
		gotT, _ := parseText(rt.Stdout)
		if d := sameBag(wantT, gotT); d != "" {
			c.Violation("C15/ignore/"+s.class+"/txt-vs-json", fmt.Sprintf("with -i (%s subset) on %s text and JSON reports differ: %s", s.class, p.id, d), files(ex))
		}
	}
	if runs > 0 && len(es) > 0 {
		c.Sample(map[string]any{"pair": p.id, "entries": len(es), "breaking": breaking, "cli_runs": runs})
	}
	return runs
}
