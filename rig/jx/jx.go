// Package jx holds small helpers over untyped JSON trees.
package jx

import (
	"bytes"
	"encoding/json"
	"fmt"
	"math/big"
	"sort"
	"strconv"
	"strings"

	yaml "gopkg.in/yaml.v3"
)

type J = map[string]any
type A = []any

// Clone deep-copies a JSON tree.
func Clone(v any) any {
	switch t := v.(type) {
	case map[string]any:
		o := make(map[string]any, len(t))
		for k, x := range t {
			o[k] = Clone(x)
		}
		return o
	case []any:
		o := make([]any, len(t))
		for i, x := range t {
			o[i] = Clone(x)
		}
		return o
	default:
		return v
	}
}

func CloneJ(v J) J { return Clone(v).(J) }

// Marshal renders with sorted keys, no HTML escaping, indented.
func Marshal(v any) []byte {
	var buf bytes.Buffer
	enc := json.NewEncoder(&buf)
	enc.SetEscapeHTML(false)
	enc.SetIndent("", " ")
	if err := enc.Encode(v); err != nil {
		panic(err)
	}
	return buf.Bytes()
}

func Compact(v any) string {
	var buf bytes.Buffer
	enc := json.NewEncoder(&buf)
	enc.SetEscapeHTML(false)
	if err := enc.Encode(v); err != nil {
		return fmt.Sprintf("%v", v)
	}
	return strings.TrimSpace(buf.String())
}

// Parse decodes JSON keeping numbers as json.Number.
func Parse(b []byte) (any, error) {
	dec := json.NewDecoder(bytes.NewReader(b))
	dec.UseNumber()
	var v any
	if err := dec.Decode(&v); err != nil {
		return nil, err
	}
	return v, nil
}

func MustParse(s string) any {
	v, err := Parse([]byte(s))
	if err != nil {
		panic(fmt.Sprintf("bad json %q: %v", s, err))
	}
	return v
}

// Normalize round-trips through encoding/json so that Go ints, typed maps etc.
// become the generic representation with json.Number.
func Normalize(v any) any {
	b, err := json.Marshal(v)
	if err != nil {
		panic(err)
	}
	o, err := Parse(b)
	if err != nil {
		panic(err)
	}
	return o
}

// Get walks a path of keys / indices.
func Get(v any, path ...any) (any, bool) {
	cur := v
	for _, p := range path {
		switch k := p.(type) {
		case string:
			m, ok := cur.(map[string]any)
			if !ok {
				return nil, false
			}
			cur, ok = m[k]
			if !ok {
				return nil, false
			}
		case int:
			a, ok := cur.([]any)
			if !ok || k < 0 || k >= len(a) {
				return nil, false
			}
			cur = a[k]
		}
	}
	return cur, true
}

func GetJ(v any, path ...any) J {
	x, ok := Get(v, path...)
	if !ok {
		return nil
	}
	m, _ := x.(map[string]any)
	return m
}

// Keys returns the sorted keys of a map.
func Keys[T any](m map[string]T) []string {
	ks := make([]string, 0, len(m))
	for k := range m {
		ks = append(ks, k)
	}
	sort.Strings(ks)
	return ks
}

// ToYAML renders a JSON tree as YAML with yaml.v3 (independent of the tools
// under test). json.Number becomes an int64 or float64 scalar.
func ToYAML(v any) ([]byte, error) {
	return yaml.Marshal(yamlable(v))
}

func yamlable(v any) any {
	switch t := v.(type) {
	case map[string]any:
		o := make(map[string]any, len(t))
		for k, x := range t {
			o[k] = yamlable(x)
		}
		return o
	case []any:
		o := make([]any, len(t))
		for i, x := range t {
			o[i] = yamlable(x)
		}
		return o
	case json.Number:
		if i, err := strconv.ParseInt(string(t), 10, 64); err == nil {
			return i
		}
		f, _ := strconv.ParseFloat(string(t), 64)
		return f
	default:
		return v
	}
}

func num(v any) (*big.Float, bool) {
	switch t := v.(type) {
	case json.Number:
		f, ok := new(big.Float).SetPrec(200).SetString(string(t))
		return f, ok
	case float64:
		return new(big.Float).SetPrec(200).SetFloat64(t), true
	case int:
		return new(big.Float).SetPrec(200).SetInt64(int64(t)), true
	case int64:
		return new(big.Float).SetPrec(200).SetInt64(t), true
	}
	return nil, false
}

// Float64 extracts a number.
func Float64(v any) (float64, bool) {
	switch t := v.(type) {
	case json.Number:
		f, err := strconv.ParseFloat(string(t), 64)
		return f, err == nil
	case float64:
		return t, true
	case int:
		return float64(t), true
	case int64:
		return float64(t), true
	}
	return 0, false
}

// Equal compares two JSON trees, numbers numerically (as float64 values, which
// is what every encoding/json path in the tools under test uses).
func Equal(a, b any) bool {
	return Diff(a, b, "") == ""
}

// Diff returns a description of the first difference, or "".
func Diff(a, b any, path string) string {
	if na, ok := a.(json.Number); ok {
		if nb, ok := b.(json.Number); ok && isIntLit(string(na)) && isIntLit(string(nb)) {
			// two integer literals are compared exactly (int64 fields survive JSON untouched)
			x, _ := new(big.Int).SetString(string(na), 10)
			y, _ := new(big.Int).SetString(string(nb), 10)
			if x != nil && y != nil {
				if x.Cmp(y) != 0 {
					return fmt.Sprintf("%s: %s vs %s", path, na, nb)
				}
				return ""
			}
		}
	}
	if fa, ok := Float64(a); ok {
		fb, ok2 := Float64(b)
		if !ok2 {
			return fmt.Sprintf("%s: %s vs %s", path, Compact(a), Compact(b))
		}
		if fa != fb {
			return fmt.Sprintf("%s: %v vs %v", path, a, b)
		}
		return ""
	}
	switch ta := a.(type) {
	case map[string]any:
		tb, ok := b.(map[string]any)
		if !ok {
			return fmt.Sprintf("%s: object vs %s", path, Compact(b))
		}
		for _, k := range Keys(ta) {
			vb, ok := tb[k]
			if !ok {
				return fmt.Sprintf("%s/%s: missing on right", path, k)
			}
			if d := Diff(ta[k], vb, path+"/"+k); d != "" {
				return d
			}
		}
		for _, k := range Keys(tb) {
			if _, ok := ta[k]; !ok {
				return fmt.Sprintf("%s/%s: missing on left", path, k)
			}
		}
		return ""
	case []any:
		tb, ok := b.([]any)
		if !ok {
			return fmt.Sprintf("%s: array vs %s", path, Compact(b))
		}
		if len(ta) != len(tb) {
			return fmt.Sprintf("%s: array length %d vs %d", path, len(ta), len(tb))
		}
		for i := range ta {
			if d := Diff(ta[i], tb[i], fmt.Sprintf("%s/%d", path, i)); d != "" {
				return d
			}
		}
		return ""
	case string:
		tb, ok := b.(string)
		if !ok || ta != tb {
			return fmt.Sprintf("%s: %s vs %s", path, Compact(a), Compact(b))
		}
		return ""
	case bool:
		tb, ok := b.(bool)
		if !ok || ta != tb {
			return fmt.Sprintf("%s: %s vs %s", path, Compact(a), Compact(b))
		}
		return ""
	case nil:
		if b != nil {
			return fmt.Sprintf("%s: null vs %s", path, Compact(b))
		}
		return ""
	}
	return fmt.Sprintf("%s: unsupported %T", path, a)
}

var _ = num

func isIntLit(s string) bool {
	if s == "" {
		return false
	}
	for i, c := range s {
		if c == '-' && i == 0 && len(s) > 1 {
			continue
		}
		if c < '0' || c > '9' {
			return false
		}
	}
	return true
}

// DiffItem is one difference between two JSON trees.
type DiffItem struct {
	Path string // JSON-pointer-like path
	Last string // last path segment (array indices as "[]")
	Kind string // missing-right | missing-left | changed
	A, B any
}

// DiffAll lists every difference (numbers compared numerically).
func DiffAll(a, b any) []DiffItem {
	var out []DiffItem
	diffAll(a, b, "", "", &out)
	return out
}

func diffAll(a, b any, path, last string, out *[]DiffItem) {
	if len(*out) > 200 {
		return
	}
	if _, ok := a.(json.Number); ok {
		if _, ok := b.(json.Number); ok {
			if Diff(a, b, "") != "" {
				*out = append(*out, DiffItem{path, last, "changed", a, b})
			}
			return
		}
	}
	if fa, ok := Float64(a); ok {
		if fb, ok2 := Float64(b); !ok2 || fa != fb {
			*out = append(*out, DiffItem{path, last, "changed", a, b})
		}
		return
	}
	switch ta := a.(type) {
	case map[string]any:
		tb, ok := b.(map[string]any)
		if !ok {
			*out = append(*out, DiffItem{path, last, "changed", a, b})
			return
		}
		for _, k := range Keys(ta) {
			vb, ok := tb[k]
			if !ok {
				*out = append(*out, DiffItem{path + "/" + k, k, "missing-right", ta[k], nil})
				continue
			}
			diffAll(ta[k], vb, path+"/"+k, k, out)
		}
		for _, k := range Keys(tb) {
			if _, ok := ta[k]; !ok {
				*out = append(*out, DiffItem{path + "/" + k, k, "missing-left", nil, tb[k]})
			}
		}
	case []any:
		tb, ok := b.([]any)
		if !ok || len(ta) != len(tb) {
			*out = append(*out, DiffItem{path, last, "changed", a, b})
			return
		}
		for i := range ta {
			diffAll(ta[i], tb[i], fmt.Sprintf("%s/%d", path, i), last+"[]", out)
		}
	default:
		if Diff(a, b, "") != "" {
			*out = append(*out, DiffItem{path, last, "changed", a, b})
		}
	}
}

// IsZeroValue reports 0, "", false, [], {} and null.
func IsZeroValue(v any) bool {
	switch t := v.(type) {
	case nil:
		return true
	case string:
		return t == ""
	case bool:
		return !t
	case []any:
		return len(t) == 0
	case map[string]any:
		return len(t) == 0
	}
	if f, ok := Float64(v); ok {
		return f == 0
	}
	return false
}
