package difflib

import (
	"crypto/sha256"
	"encoding/hex"
	"encoding/json"
	"fmt"
	"os"
	"path/filepath"
	"regexp"
	"sort"
	"strings"
	"sync"
	"time"

	"verif/rig/core"
)

var rxSwagger2 = regexp.MustCompile(`(?m)["']?swagger["']?\s*:\s*["']?2\.0["']?`)

// ValidFixtures returns the files under <repo>/fixtures that load as Swagger 2.0
// and pass the reference validate.Spec. The verdict per file content hash is
// cached in .work (computed at setup; recomputed here when missing).
func ValidFixtures(c *core.Ctx, self string, maxBytes int64) []string {
	root := filepath.Join(c.Repo, "fixtures")
	var cands []string
	_ = filepath.Walk(root, func(p string, info os.FileInfo, err error) error {
		if err != nil || info.IsDir() {
			return nil
		}
		ext := strings.ToLower(filepath.Ext(p))
		if ext != ".json" && ext != ".yml" && ext != ".yaml" {
			return nil
		}
		if info.Size() > maxBytes {
			return nil
		}
		b, err := os.ReadFile(p)
		if err != nil || !rxSwagger2.Match(b) {
			return nil
		}
		cands = append(cands, p)
		return nil
	})
	sort.Strings(cands)
	cachePath := filepath.Join(c.Verif, ".work", "fixture-validity.json")
	cache := map[string]bool{}
	if b, err := os.ReadFile(cachePath); err == nil {
		_ = json.Unmarshal(b, &cache)
	}
	hashOf := func(p string) string {
		b, _ := os.ReadFile(p)
		h := sha256.Sum256(append([]byte(filepath.Ext(p)+"\x00"), b...))
		return hex.EncodeToString(h[:])
	}
	hashes := make([]string, len(cands))
	var todo []map[string]any
	for i, p := range cands {
		hashes[i] = hashOf(p)
		if _, ok := cache[hashes[i]]; !ok {
			todo = append(todo, map[string]any{"id": fmt.Sprint(i), "mode": "validate", "a": p})
		}
	}
	if len(todo) > 0 {
		var mu sync.Mutex
		// small chunks: a few fixtures are very slow to validate
		var chunks [][]map[string]any
		for i := 0; i < len(todo); i += 4 {
			j := i + 4
			if j > len(todo) {
				j = len(todo)
			}
			chunks = append(chunks, todo[i:j])
		}
		core.Parallel(len(chunks), 16, func(k int) {
			ans, crashes := core.RunWorker("", nil, 5*time.Minute, self, []string{"worker"}, chunks[k])
			mu.Lock()
			defer mu.Unlock()
			for id, raw := range ans {
				var a Ans
				_ = json.Unmarshal(raw, &a)
				var i int
				fmt.Sscan(id, &i)
				cache[hashes[i]] = a.Valid != nil && *a.Valid
			}
			for _, cr := range crashes {
				var i int
				if _, err := fmt.Sscan(cr.ID, &i); err == nil {
					cache[hashes[i]] = false
				}
			}
		})
		if b, err := json.Marshal(cache); err == nil {
			_ = os.MkdirAll(filepath.Dir(cachePath), 0o755)
			tmp := fmt.Sprintf("%s.%d", cachePath, os.Getpid())
			if os.WriteFile(tmp, b, 0o644) == nil {
				_ = os.Rename(tmp, cachePath)
			}
		}
	}
	var out []string
	for i, p := range cands {
		if cache[hashes[i]] {
			out = append(out, p)
		}
	}
	return out
}
