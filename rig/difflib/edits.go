package difflib

import (
	"encoding/json"
	"fmt"
	"sort"
	"strings"

	"verif/rig/jx"
	"verif/rig/oracle"
)

type J = jx.J

// Edit is one elementary spec edit with its witness request.
type Edit struct {
	ID       string // edit=<kind>@<position>:<slot>
	Kind     string
	Pos      string
	Old, New J
	Witness  *oracle.Request // nil for response-side edits
	Response bool            // one of the documented client-breaking response edits
	Info     bool            // outside the statement's enumeration: informational only
}

// slot is a position holding a constrained schema.
type slot struct {
	name   string // unique
	pos    string // position class
	typ    string // integer number string boolean array intenum strenum
	op     string // operationId for the base witness
	schema func(doc J) J
	put    func(w *Witness, v any)
	simple bool // simple (non-JSON) schema: values travel as text
}

func findParam(doc J, path, method, in, name string) J {
	var look func(list any) J
	look = func(list any) J {
		l, _ := list.([]any)
		for _, p := range l {
			pj := p.(J)
			if pj["name"] == name && pj["in"] == in {
				return pj
			}
		}
		return nil
	}
	if p := look(jx.GetJ(doc, "paths", path, method)["parameters"]); p != nil {
		return p
	}
	return look(jx.GetJ(doc, "paths", path)["parameters"])
}

func def(doc J, name string) J { return jx.GetJ(doc, "definitions", name) }
func props(s J) J              { return s["properties"].(J) }

func text(v any) string {
	switch t := v.(type) {
	case []any:
		parts := make([]string, len(t))
		for i, x := range t {
			parts[i] = text(x)
		}
		return strings.Join(parts, ",")
	default:
		return oracle.ScalarText(v)
	}
}

func slots() []slot {
	var out []slot
	P := "/things/{pid}"
	qp := func(name, in, typ, pos string) {
		out = append(out, slot{name: in + ":" + name, pos: pos, typ: typ, op: "postThing", simple: true,
			schema: func(d J) J { return findParam(d, P, "post", in, name) },
			put: func(w *Witness, v any) {
				switch in {
				case "query":
					w.Req.Query[name] = []string{text(v)}
				case "header":
					w.Req.Header[name] = []string{text(v)}
				case "path":
					w.Req.PathParams[name] = text(v)
				}
			}})
	}
	qp("pid", "path", "integer", "path")
	qp("qs", "query", "string", "query")
	qp("ps", "query", "string", "query")
	qp("qi", "query", "integer", "query")
	qp("qn", "query", "number", "query")
	qp("qb", "query", "boolean", "query")
	qp("qe", "query", "strenum", "query")
	qp("qie", "query", "intenum", "query")
	qp("qa", "query", "array", "query")
	qp("X-Hs", "header", "string", "header")
	qp("X-Hi", "header", "integer", "header")
	qp("X-Hn", "header", "number", "header")
	qp("X-He", "header", "strenum", "header")
	qp("X-Ha", "header", "array", "header")
	qp("X-Shared", "header", "integer", "shared")
	// operation-level parameter that overrides a path-level one of the same name and location
	out = append(out, slot{name: "query:limit(override)", pos: "override", typ: "integer", op: "getThing", simple: true,
		schema: func(d J) J {
			for _, p := range jx.GetJ(d, "paths", P, "get")["parameters"].([]any) {
				if p.(J)["name"] == "limit" {
					return p.(J)
				}
			}
			return nil
		},
		put: func(w *Witness, v any) {
			if w.Req.Query == nil {
				w.Req.Query = map[string][]string{}
			}
			w.Req.Query["limit"] = []string{text(v)}
		}})
	// path string parameter
	out = append(out, slot{name: "path:name", pos: "path", typ: "string", op: "getName", simple: true,
		schema: func(d J) J { return findParam(d, "/names/{name}", "get", "path", "name") },
		put:    func(w *Witness, v any) { w.Req.PathParams["name"] = text(v) }})
	// items of array parameters
	items := func(name, in, typ string, depth int) {
		pos := fmt.Sprintf("items%d", depth)
		out = append(out, slot{name: fmt.Sprintf("%s:%s.items%d", in, name, depth), pos: pos, typ: typ, op: "postThing", simple: true,
			schema: func(d J) J {
				s := findParam(d, P, "post", in, name)
				for i := 0; i < depth; i++ {
					s = s["items"].(J)
				}
				return s
			},
			put: func(w *Witness, v any) {
				if in == "query" {
					w.Req.Query[name] = []string{text(v)}
				} else {
					w.Req.Header[name] = []string{text(v)}
				}
			}})
	}
	items("qa", "query", "integer", 1)
	items("qas", "query", "string", 1)
	items("qae", "query", "strenum", 1)
	items("X-Ha", "header", "integer", 1)
	items("qaa", "query", "integer", 2)
	items("qaa", "query", "array", 1)
	// formData
	fp := func(name, typ string) {
		out = append(out, slot{name: "formData:" + name, pos: "formData", typ: typ, op: "postForm", simple: true,
			schema: func(d J) J { return findParam(d, "/forms", "post", "formData", name) },
			put:    func(w *Witness, v any) { w.Req.Form[name] = []string{text(v)} }})
	}
	fp("fs", "string")
	fp("fi", "integer")
	fp("fn", "number")
	fp("fe", "strenum")
	fp("fb", "boolean")
	fp("fa", "array")
	out = append(out, slot{name: "formData:fa.items1", pos: "items1", typ: "integer", op: "postForm", simple: true,
		schema: func(d J) J { return findParam(d, "/forms", "post", "formData", "fa")["items"].(J) },
		put:    func(w *Witness, v any) { w.Req.Form["fa"] = []string{text(v)} }})
	// body positions
	bp := func(name, pos, typ string, schema func(d J) J, put func(body J, v any)) {
		out = append(out, slot{name: "body:" + name, pos: pos, typ: typ, op: "postThing", schema: schema,
			put: func(w *Witness, v any) { put(w.Body.(J), v) }})
	}
	top := func(prop, typ string) {
		bp(prop, "body.top", typ, func(d J) J { return props(def(d, "Thing"))[prop].(J) }, func(b J, v any) { b[prop] = v })
	}
	top("name", "string")
	top("count", "integer")
	top("ratio", "number")
	top("flag", "boolean")
	top("color", "strenum")
	top("level", "intenum")
	top("tags", "array")
	top("scores", "array")
	nested := func(prop, typ string) {
		bp("inner."+prop, "body.nested", typ, func(d J) J { return props(props(def(d, "Thing"))["inner"].(J))[prop].(J) },
			func(b J, v any) { b["inner"].(J)[prop] = v })
	}
	nested("depth", "string")
	nested("qty", "integer")
	nested("hue", "strenum")
	ref := func(prop, typ string) {
		bp("other."+prop, "body.ref", typ, func(d J) J { return props(def(d, "Other"))[prop].(J) },
			func(b J, v any) { b["other"].(J)[prop] = v })
	}
	ref("label", "string")
	ref("code", "integer")
	ref("tone", "strenum")
	bp("mixed.baseval", "body.allOf", "integer", func(d J) J { return props(def(d, "Base"))["baseval"].(J) }, func(b J, v any) { b["mixed"].(J)["baseval"] = v })
	bp("mixed.basestr", "body.allOf", "string", func(d J) J { return props(def(d, "Base"))["basestr"].(J) }, func(b J, v any) { b["mixed"].(J)["basestr"] = v })
	allOfInline := func(d J) J { return props(def(d, "Thing"))["mixed"].(J)["allOf"].([]any)[1].(J) }
	bp("mixed.extra", "body.allOf", "integer", func(d J) J { return props(allOfInline(d))["extra"].(J) }, func(b J, v any) { b["mixed"].(J)["extra"] = v })
	bp("mixed.extras", "body.allOf", "string", func(d J) J { return props(allOfInline(d))["extras"].(J) }, func(b J, v any) { b["mixed"].(J)["extras"] = v })
	bp("tags.items", "body.items", "string", func(d J) J { return props(def(d, "Thing"))["tags"].(J)["items"].(J) }, func(b J, v any) { b["tags"] = []any{v} })
	bp("scores.items", "body.items", "integer", func(d J) J { return props(def(d, "Thing"))["scores"].(J)["items"].(J) }, func(b J, v any) { b["scores"] = []any{v} })
	bp("shades.items", "body.items", "strenum", func(d J) J { return props(def(d, "Thing"))["shades"].(J)["items"].(J) }, func(b J, v any) { b["shades"] = []any{v} })
	partItem := func(d J) J { return props(def(d, "Thing"))["parts"].(J)["items"].(J) }
	bp("parts.items.pname", "body.items", "string", func(d J) J { return props(partItem(d))["pname"].(J) }, func(b J, v any) { b["parts"].([]any)[0].(J)["pname"] = v })
	bp("parts.items.pqty", "body.items", "integer", func(d J) J { return props(partItem(d))["pqty"].(J) }, func(b J, v any) { b["parts"].([]any)[0].(J)["pqty"] = v })
	bp("attrs.values", "body.map", "integer", func(d J) J { return props(def(d, "Thing"))["attrs"].(J)["additionalProperties"].(J) }, func(b J, v any) { b["attrs"] = J{"k1": v} })
	bp("labels.values", "body.map", "string", func(d J) J { return props(def(d, "Thing"))["labels"].(J)["additionalProperties"].(J) }, func(b J, v any) { b["labels"] = J{"k1": v} })
	thingVal := func(d J) J { return props(def(d, "Thing"))["things"].(J)["additionalProperties"].(J) }
	bp("things.values.tqty", "body.map", "integer", func(d J) J { return props(thingVal(d))["tqty"].(J) }, func(b J, v any) { b["things"].(J)["k1"].(J)["tqty"] = v })
	// inline body schema (no $ref) on another operation
	out = append(out, slot{name: "body:doc.title", pos: "body.inline", typ: "string", op: "putDoc",
		schema: func(d J) J { return props(findParam(d, "/docs", "put", "body", "doc")["schema"].(J))["title"].(J) },
		put:    func(w *Witness, v any) { w.Body.(J)["title"] = v }})
	out = append(out, slot{name: "body:doc.pages", pos: "body.inline", typ: "integer", op: "putDoc",
		schema: func(d J) J { return props(findParam(d, "/docs", "put", "body", "doc")["schema"].(J))["pages"].(J) },
		put:    func(w *Witness, v any) { w.Body.(J)["pages"] = v }})
	return out
}

func n(s string) json.Number { return json.Number(s) }

// kindEdit mutates the old and new schema objects in place and returns the
// witness value (valid for old, meant to be invalid for new).
type kindEdit struct {
	kind  string
	info  bool
	apply func(o, nw J, simple bool) (any, bool)
}

func del(m J, keys ...string) {
	for _, k := range keys {
		delete(m, k)
	}
}

func kindsFor(typ string) []kindEdit {
	numeric := func(isInt bool) []kindEdit {
		lo, hi, mid1, mid2 := any(n("1")), any(n("100")), any(n("55")), any(n("45"))
		below, above := any(n("-5")), any(n("150"))
		if !isInt {
			lo, hi, mid1, mid2 = n("0.5"), n("99.5"), n("55.5"), n("45.5")
			below, above = n("-5.5"), n("150.5")
		}
		ks := []kindEdit{
			{"minimum-raised", false, func(o, w J, _ bool) (any, bool) { w["minimum"] = n("60"); return mid1, true }},
			{"maximum-lowered", false, func(o, w J, _ bool) (any, bool) { w["maximum"] = n("40"); return mid2, true }},
			{"minimum-added", false, func(o, w J, _ bool) (any, bool) { del(o, "minimum"); return below, true }},
			{"maximum-added", false, func(o, w J, _ bool) (any, bool) { del(o, "maximum"); return above, true }},
			{"exclusiveMinimum-added", false, func(o, w J, _ bool) (any, bool) { w["exclusiveMinimum"] = true; return lo, true }},
			{"exclusiveMaximum-added", false, func(o, w J, _ bool) (any, bool) { w["exclusiveMaximum"] = true; return hi, true }},
			{"maximum+exclusive-added", false, func(o, w J, _ bool) (any, bool) { del(o, "maximum"); w["exclusiveMaximum"] = true; return hi, true }},
			{"minimum+exclusive-added", false, func(o, w J, _ bool) (any, bool) { del(o, "minimum"); w["exclusiveMinimum"] = true; return lo, true }},
			{"enum-added", false, func(o, w J, _ bool) (any, bool) {
				if isInt {
					w["enum"] = []any{n("10"), n("20"), n("30")}
				} else {
					w["enum"] = []any{n("10.5"), n("20.5")}
				}
				return mid1, true
			}},
			{"type-to-boolean", false, func(o, w J, _ bool) (any, bool) {
				del(w, "minimum", "maximum", "format")
				w["type"] = "boolean"
				return mid1, true
			}},
			{"type-to-string", false, func(o, w J, simple bool) (any, bool) {
				del(w, "minimum", "maximum", "format")
				w["type"] = "string"
				return mid1, true
			}},
			{"multipleOf-added", true, func(o, w J, _ bool) (any, bool) { w["multipleOf"] = n("10"); return mid1, true }},
		}
		if isInt {
			ks = append(ks, kindEdit{"format-int64-to-int32", false, func(o, w J, _ bool) (any, bool) {
				del(o, "maximum")
				del(w, "maximum")
				w["format"] = "int32"
				return n("3000000000"), true
			}})
		} else {
			ks = append(ks, kindEdit{"type-number-to-integer", false, func(o, w J, _ bool) (any, bool) {
				w["type"] = "integer"
				w["format"] = "int64"
				w["minimum"], w["maximum"] = n("1"), n("99")
				return n("50.5"), true
			}}, kindEdit{"format-double-to-float", false, func(o, w J, simple bool) (any, bool) {
				del(o, "maximum")
				del(w, "maximum")
				w["format"] = "float"
				return n("1e39"), simple
			}})
		}
		return ks
	}
	switch typ {
	case "integer":
		return numeric(true)
	case "number":
		return numeric(false)
	case "intenum":
		return []kindEdit{{"enum-value-removed", false, func(o, w J, _ bool) (any, bool) { w["enum"] = []any{n("1"), n("2")}; return n("3"), true }}}
	case "strenum":
		return []kindEdit{{"enum-value-removed", false, func(o, w J, _ bool) (any, bool) { w["enum"] = []any{"red", "green"}; return "blue", true }}}
	case "string":
		return []kindEdit{
			{"minLength-raised", false, func(o, w J, _ bool) (any, bool) { w["minLength"] = n("5"); return "abc", true }},
			{"maxLength-lowered", false, func(o, w J, _ bool) (any, bool) { w["maxLength"] = n("4"); return "abcdef", true }},
			{"minLength-added", false, func(o, w J, _ bool) (any, bool) { del(o, "minLength"); return "a", true }},
			{"maxLength-added", false, func(o, w J, _ bool) (any, bool) { del(o, "maxLength"); return "abcdefghijklmn", true }},
			{"pattern-added", false, func(o, w J, _ bool) (any, bool) { del(o, "pattern"); return "ABCDE", true }},
			{"pattern-changed", false, func(o, w J, _ bool) (any, bool) { w["pattern"] = "^[a-c]+$"; return "xyz", true }},
			{"enum-added", false, func(o, w J, _ bool) (any, bool) { w["enum"] = []any{"aaa", "bbb"}; return "abcde", true }},
			{"format-date-added", false, func(o, w J, _ bool) (any, bool) {
				del(o, "pattern")
				del(w, "pattern")
				w["format"] = "date"
				return "abcde", true
			}},
			{"format-uuid-added", false, func(o, w J, _ bool) (any, bool) {
				del(o, "pattern")
				del(w, "pattern")
				w["format"] = "uuid"
				return "abcde", true
			}},
			{"type-to-integer", false, func(o, w J, _ bool) (any, bool) {
				del(w, "minLength", "maxLength", "pattern")
				w["type"] = "integer"
				return "abcde", true
			}},
		}
	case "boolean":
		return []kindEdit{{"type-to-integer", false, func(o, w J, _ bool) (any, bool) { w["type"] = "integer"; return true, true }}}
	case "array":
		isStr := func(s J) bool { it, _ := s["items"].(J); return it != nil && it["type"] == "string" }
		mk := func(s J, k int) any {
			arr := make([]any, k)
			for i := range arr {
				if isStr(s) {
					arr[i] = fmt.Sprintf("ab%c", 'c'+i)
				} else {
					arr[i] = n(fmt.Sprint(10 + i))
				}
			}
			return arr
		}
		return []kindEdit{
			{"minItems-raised", false, func(o, w J, _ bool) (any, bool) { w["minItems"] = n("3"); return mk(o, 2), true }},
			{"maxItems-lowered", false, func(o, w J, _ bool) (any, bool) { w["maxItems"] = n("2"); return mk(o, 3), true }},
			{"minItems-added", false, func(o, w J, _ bool) (any, bool) { del(o, "minItems"); w["minItems"] = n("2"); return mk(o, 1), true }},
			{"maxItems-added", false, func(o, w J, _ bool) (any, bool) { del(o, "maxItems"); return mk(o, 7), true }},
			{"uniqueItems-added", true, func(o, w J, _ bool) (any, bool) {
				w["uniqueItems"] = true
				a := mk(o, 2).([]any)
				a[1] = a[0]
				return a, true
			}},
			{"collectionFormat-changed", false, func(o, w J, simple bool) (any, bool) {
				if !simple || isStr(o) {
					return nil, false
				}
				w["collectionFormat"] = "pipes"
				return mk(o, 2), true
			}},
		}
	}
	return nil
}

// Catalogue builds the complete edit catalogue (pass A).
func Catalogue() []Edit {
	var out []Edit
	for _, s := range slots() {
		for _, k := range kindsFor(s.typ) {
			old, nw := BaseSpec(), BaseSpec()
			so, sn := s.schema(old), s.schema(nw)
			if so == nil || sn == nil {
				panic("slot schema not found: " + s.name)
			}
			probeOld, probeNew := jx.CloneJ(so), jx.CloneJ(so)
			v, ok := k.apply(probeOld, probeNew, s.simple)
			if !ok {
				continue
			}
			replace(so, probeOld)
			replace(sn, probeNew)
			w := BaseWitness(s.op)
			s.put(w, v)
			out = append(out, Edit{ID: fmt.Sprintf("edit=%s@%s:%s", k.kind, s.pos, s.name), Kind: k.kind, Pos: s.pos,
				Old: old, New: nw, Witness: w.Final(), Info: k.info})
		}
	}
	out = append(out, structuralEdits()...)
	sort.SliceStable(out, func(i, j int) bool { return out[i].ID < out[j].ID })
	return out
}

func replace(dst, src J) {
	for k := range dst {
		delete(dst, k)
	}
	for k, v := range src {
		dst[k] = v
	}
}

func opOf(doc J, path, method string) J { return jx.GetJ(doc, "paths", path, method) }

func addParam(doc J, path, method string, p J) {
	op := opOf(doc, path, method)
	ps, _ := op["parameters"].([]any)
	op["parameters"] = append(ps, p)
}

func setRequired(s J, name string, on bool) {
	req, _ := s["required"].([]any)
	var out []any
	for _, r := range req {
		if r != name {
			out = append(out, r)
		}
	}
	if on {
		out = append(out, name)
	}
	if len(out) == 0 {
		delete(s, "required")
	} else {
		s["required"] = out
	}
}

func structuralEdits() []Edit {
	var out []Edit
	add := func(kind, pos, op string, response bool, f func(old, nw J, w *Witness) bool) {
		old, nw := BaseSpec(), BaseSpec()
		var w *Witness
		if !response {
			w = BaseWitness(op)
		}
		if !f(old, nw, w) {
			return
		}
		e := Edit{ID: fmt.Sprintf("edit=%s@%s", kind, pos), Kind: kind, Pos: pos, Old: old, New: nw, Response: response}
		if w != nil {
			e.Witness = w.Final()
		}
		out = append(out, e)
	}
	P := "/things/{pid}"
	add("endpoint-removed", "path", "postForm", false, func(o, w J, wt *Witness) bool {
		delete(w["paths"].(J), "/forms")
		return true
	})
	add("endpoint-removed", "method", "deleteDoc", false, func(o, w J, wt *Witness) bool {
		delete(jx.GetJ(w, "paths", "/docs"), "delete")
		return true
	})
	add("consumes-removed", "spec", "postThing", false, func(o, w J, wt *Witness) bool {
		w["consumes"] = []any{"application/json"}
		wt.Req.ContentType = "application/vnd.vf+json"
		return true
	})
	add("consumes-removed", "operation", "putDoc", false, func(o, w J, wt *Witness) bool {
		opOf(w, "/docs", "put")["consumes"] = []any{"application/json"}
		wt.Req.ContentType = "application/vnd.vf.doc+json"
		return true
	})
	for _, in := range []string{"query", "header", "formData"} {
		in := in
		path, method, op := P, "post", "postThing"
		if in == "formData" {
			path, method, op = "/forms", "post", "postForm"
		}
		add("required-param-added", in, op, false, func(o, w J, wt *Witness) bool {
			addParam(w, path, method, J{"name": "newp", "in": in, "type": "string", "required": true})
			return true
		})
	}
	add("required-param-added", "body", "deleteDoc", false, func(o, w J, wt *Witness) bool {
		addParam(w, "/docs", "delete", J{"name": "reason", "in": "body", "required": true, "schema": J{"type": "object"}})
		return true
	})
	add("required-param-added", "shared", "getThing", false, func(o, w J, wt *Witness) bool {
		pi := jx.GetJ(w, "paths", P)
		pi["parameters"] = append(pi["parameters"].([]any), J{"name": "X-New", "in": "header", "type": "string", "required": true})
		return true
	})
	optreq := func(pos, op, path, method, in, name string, drop func(*Witness)) {
		add("param-optional-to-required", pos+":"+name, op, false, func(o, w J, wt *Witness) bool {
			findParam(w, path, method, in, name)["required"] = true
			drop(wt)
			return true
		})
	}
	optreq("query", "postThing", P, "post", "query", "qs", func(w *Witness) { delete(w.Req.Query, "qs") })
	optreq("query", "postThing", P, "post", "query", "qa", func(w *Witness) { delete(w.Req.Query, "qa") })
	optreq("header", "postThing", P, "post", "header", "X-Hs", func(w *Witness) { delete(w.Req.Header, "X-Hs") })
	optreq("shared", "postThing", P, "post", "header", "X-Shared", func(w *Witness) { delete(w.Req.Header, "X-Shared") })
	optreq("formData", "postForm", "/forms", "post", "formData", "fs", func(w *Witness) { delete(w.Req.Form, "fs") })
	add("param-location-changed", "query-to-header:qi", "postThing", false, func(o, w J, wt *Witness) bool {
		findParam(w, P, "post", "query", "qi")["in"] = "header"
		return true
	})
	add("param-location-changed", "header-to-query:X-Hi", "postThing", false, func(o, w J, wt *Witness) bool {
		findParam(w, P, "post", "header", "X-Hi")["in"] = "query"
		return true
	})
	add("param-location-changed", "formData-to-query:fi", "postForm", false, func(o, w J, wt *Witness) bool {
		findParam(w, "/forms", "post", "formData", "fi")["in"] = "query"
		return true
	})
	// required-ness of body properties at every level
	type lvl struct {
		pos    string
		schema func(d J) J
		opt    string // an optional property present in the base body
		drop   func(b J)
	}
	levels := []lvl{
		{"body.top", func(d J) J { return def(d, "Thing") }, "count", func(b J) { delete(b, "count") }},
		{"body.nested", func(d J) J { return props(def(d, "Thing"))["inner"].(J) }, "qty", func(b J) { delete(b["inner"].(J), "qty") }},
		{"body.ref", func(d J) J { return def(d, "Other") }, "code", func(b J) { delete(b["other"].(J), "code") }},
		{"body.allOf", func(d J) J { return def(d, "Base") }, "baseval", func(b J) { delete(b["mixed"].(J), "baseval") }},
		{"body.allOf-inline", func(d J) J { return props(def(d, "Thing"))["mixed"].(J)["allOf"].([]any)[1].(J) }, "extra", func(b J) { delete(b["mixed"].(J), "extra") }},
		{"body.items", func(d J) J { return props(def(d, "Thing"))["parts"].(J)["items"].(J) }, "pqty", func(b J) { delete(b["parts"].([]any)[0].(J), "pqty") }},
		{"body.map", func(d J) J { return props(def(d, "Thing"))["things"].(J)["additionalProperties"].(J) }, "tqty", func(b J) { delete(b["things"].(J)["k1"].(J), "tqty") }},
	}
	for _, l := range levels {
		l := l
		add("required-property-added", l.pos, "postThing", false, func(o, w J, wt *Witness) bool {
			s := l.schema(w)
			props(s)["newprop"] = J{"type": "string"}
			setRequired(s, "newprop", true)
			return true
		})
		add("property-optional-to-required", l.pos, "postThing", false, func(o, w J, wt *Witness) bool {
			setRequired(l.schema(w), l.opt, true)
			l.drop(wt.Body.(J))
			return true
		})
	}
	// the same on schemas that have no "properties" of their own before the edit
	add("required-property-added", "body.no-properties(map)", "postThing", false, func(o, w J, wt *Witness) bool {
		s := props(def(w, "Thing"))["attrs"].(J)
		s["properties"] = J{"newprop": J{"type": "integer"}}
		setRequired(s, "newprop", true)
		wt.Body.(J)["attrs"] = J{"k1": n("50")}
		return true
	})
	add("required-property-added", "body.no-properties(allOf)", "postThing", false, func(o, w J, wt *Witness) bool {
		s := props(def(w, "Thing"))["mixed"].(J)
		s["properties"] = J{"newprop": J{"type": "string"}}
		setRequired(s, "newprop", true)
		return true
	})
	add("required-property-added", "body.inline", "putDoc", false, func(o, w J, wt *Witness) bool {
		s := findParam(w, "/docs", "put", "body", "doc")["schema"].(J)
		props(s)["newprop"] = J{"type": "string"}
		setRequired(s, "newprop", true)
		return true
	})
	add("property-optional-to-required", "body.inline", "putDoc", false, func(o, w J, wt *Witness) bool {
		s := findParam(w, "/docs", "put", "body", "doc")["schema"].(J)
		setRequired(s, "pages", true)
		delete(wt.Body.(J), "pages")
		return true
	})
	add("additionalProperties-false", "body.top", "postThing", false, func(o, w J, wt *Witness) bool {
		def(w, "Thing")["additionalProperties"] = false
		wt.Body.(J)["unknown"] = "abcde"
		return true
	})
	out[len(out)-1].Info = true
	add("maxProperties-added", "body.map", "postThing", false, func(o, w J, wt *Witness) bool {
		props(def(w, "Thing"))["attrs"].(J)["maxProperties"] = n("1")
		wt.Body.(J)["attrs"] = J{"k1": n("50"), "k2": n("51")}
		return true
	})
	out[len(out)-1].Info = true

	// response side: the four documented client-breaking cases
	resp := func(d J, path, method, code string) J { return jx.GetJ(d, "paths", path, method, "responses", code) }
	add("response-code-removed", "response", "", true, func(o, w J, _ *Witness) bool {
		delete(jx.GetJ(w, "paths", P, "post", "responses"), "404")
		return true
	})
	add("response-code-removed", "response-noschema", "", true, func(o, w J, _ *Witness) bool {
		delete(jx.GetJ(w, "paths", P, "get", "responses"), "410")
		return true
	})
	add("response-property-removed", "response.ref-top", "", true, func(o, w J, _ *Witness) bool {
		delete(props(def(w, "Result")), "id")
		return true
	})
	add("response-property-removed", "response.ref-nested", "", true, func(o, w J, _ *Witness) bool {
		delete(props(props(def(w, "Result"))["meta"].(J)), "note")
		return true
	})
	add("response-property-removed", "response.ref-ref", "", true, func(o, w J, _ *Witness) bool {
		delete(props(def(w, "Owner")), "login")
		return true
	})
	add("response-property-removed", "response.inline-top", "", true, func(o, w J, _ *Witness) bool {
		delete(props(resp(w, P, "get", "200")["schema"].(J)), "id")
		return true
	})
	add("response-property-removed", "response.inline-nested", "", true, func(o, w J, _ *Witness) bool {
		delete(props(props(resp(w, P, "get", "200")["schema"].(J))["detail"].(J)), "note")
		return true
	})
	add("response-header-removed", "response", "", true, func(o, w J, _ *Witness) bool {
		delete(resp(w, P, "post", "200")["headers"].(J), "X-Trace")
		return true
	})
	add("response-enum-value-added", "response.ref", "", true, func(o, w J, _ *Witness) bool {
		props(def(w, "Result"))["status"].(J)["enum"] = []any{"new", "done", "failed"}
		return true
	})
	add("response-enum-value-added", "response.inline", "", true, func(o, w J, _ *Witness) bool {
		props(resp(w, P, "get", "200")["schema"].(J))["state"].(J)["enum"] = []any{"on", "off", "idle"}
		return true
	})
	return out
}
