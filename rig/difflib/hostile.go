package difflib

import "verif/rig/jx"

// HostileSpecs are small hand-written documents exercising the shapes the
// property names: circular references, untyped schemas, allOf, parameters
// shared at path level, $ref'd parameters and responses, tuples, defaults and
// examples of every JSON kind on parameters.
func HostileSpecs() map[string]J {
	out := map[string]J{}
	add := func(name, text string) { out[name] = jx.MustParse(text).(J) }
	add("circular-self", `{"swagger":"2.0","info":{"title":"t","version":"1"},"paths":{"/n":{"get":{"operationId":"getN","responses":{"200":{"description":"ok","schema":{"$ref":"#/definitions/Node"}}}},
	 "post":{"operationId":"postN","parameters":[{"name":"b","in":"body","schema":{"$ref":"#/definitions/Node"}}],"responses":{"200":{"description":"ok"}}}}},
	 "definitions":{"Node":{"type":"object","properties":{"val":{"type":"integer"},"next":{"$ref":"#/definitions/Node"},"kids":{"type":"array","items":{"$ref":"#/definitions/Node"}},
	 "byName":{"type":"object","additionalProperties":{"$ref":"#/definitions/Node"}}}}}}`)
	add("circular-mutual", `{"swagger":"2.0","info":{"title":"t","version":"1"},"paths":{"/a":{"get":{"operationId":"getA","responses":{"200":{"description":"ok","schema":{"$ref":"#/definitions/A"}}}}}},
	 "definitions":{"A":{"type":"object","properties":{"b":{"$ref":"#/definitions/B"}}},"B":{"type":"object","properties":{"a":{"$ref":"#/definitions/A"},"c":{"allOf":[{"$ref":"#/definitions/C"}]}}},
	 "C":{"allOf":[{"$ref":"#/definitions/A"},{"type":"object","properties":{"x":{"type":"string"}}}]}}}`)
	add("untyped", `{"swagger":"2.0","info":{"title":"t","version":"1"},"paths":{"/u":{"post":{"operationId":"postU","parameters":[{"name":"b","in":"body","schema":{}}],
	 "responses":{"200":{"description":"ok","schema":{"properties":{"p":{}, "q":{"enum":["a",1,null]}}}},"201":{"description":"c","schema":{"enum":["x","y"]}},"202":{"description":"any","schema":{"additionalProperties":true}}}}}},
	 "definitions":{"Any":{},"PropsOnly":{"properties":{"a":{"type":"string"},"b":{}}},"EnumOnly":{"enum":[1,2,3]},"ArrNoItems":{"type":"array","items":{}},"Holder":{"type":"object","properties":{"any":{"$ref":"#/definitions/Any"},"arr":{"$ref":"#/definitions/ArrNoItems"},"po":{"$ref":"#/definitions/PropsOnly"}}}}}`)
	add("allof", `{"swagger":"2.0","info":{"title":"t","version":"1"},"paths":{"/p":{"put":{"operationId":"putP","parameters":[{"name":"b","in":"body","required":true,"schema":{"allOf":[{"$ref":"#/definitions/Pet"},{"type":"object","required":["extra"],"properties":{"extra":{"type":"string"}}}]}}],
	 "responses":{"200":{"description":"ok","schema":{"allOf":[{"$ref":"#/definitions/Pet"}]}}}}}},
	 "definitions":{"Animal":{"type":"object","required":["kind"],"properties":{"kind":{"type":"string"}}},"Pet":{"allOf":[{"$ref":"#/definitions/Animal"},{"type":"object","properties":{"name":{"type":"string"},"tags":{"type":"array","items":{"type":"string"}}}}]}}}`)
	add("shared-params", `{"swagger":"2.0","info":{"title":"t","version":"1"},
	 "parameters":{"limit":{"name":"limit","in":"query","type":"integer","default":10},"trace":{"name":"X-Trace","in":"header","type":"string"}},
	 "responses":{"err":{"description":"error","schema":{"$ref":"#/definitions/Err"},"headers":{"X-Code":{"type":"integer"}}}},
	 "paths":{"/s/{id}":{"parameters":[{"name":"id","in":"path","required":true,"type":"string"},{"$ref":"#/parameters/trace"}],
	 "get":{"operationId":"getS","parameters":[{"$ref":"#/parameters/limit"},{"name":"id","in":"path","required":true,"type":"string","maxLength":5}],"responses":{"200":{"description":"ok"},"500":{"$ref":"#/responses/err"},"default":{"$ref":"#/responses/err"}}},
	 "delete":{"operationId":"delS","responses":{"204":{"description":"gone"}}}}},
	 "definitions":{"Err":{"type":"object","properties":{"msg":{"type":"string"}}}}}`)
	add("param-defaults", `{"swagger":"2.0","info":{"title":"t","version":"1"},"paths":{"/d":{"get":{"operationId":"getD","parameters":[
	 {"name":"a","in":"query","type":"array","items":{"type":"string"},"default":["x","y"]},
	 {"name":"n","in":"query","type":"integer","default":3,"x-example":4},
	 {"name":"s","in":"query","type":"string","default":"dflt","enum":["dflt","other"]},
	 {"name":"b","in":"query","type":"boolean","default":true},
	 {"name":"f","in":"query","type":"number","default":1.5},
	 {"name":"aa","in":"query","type":"array","collectionFormat":"pipes","items":{"type":"array","items":{"type":"integer"},"default":[1,2]},"default":[[1],[2,3]]},
	 {"name":"h","in":"header","type":"array","items":{"type":"integer","default":7},"default":[1,2,3]}],
	 "responses":{"200":{"description":"ok","headers":{"X-A":{"type":"array","items":{"type":"string"},"default":["p"]}},"examples":{"application/json":{"a":[1,2],"o":{"k":"v"}}}}}}}}}`)
	add("tuples", `{"swagger":"2.0","info":{"title":"t","version":"1"},"paths":{"/t":{"post":{"operationId":"postT","parameters":[{"name":"b","in":"body","schema":{"$ref":"#/definitions/Tup"}}],"responses":{"200":{"description":"ok","schema":{"$ref":"#/definitions/Tup"}}}}}},
	 "definitions":{"Tup":{"type":"array","items":[{"type":"string"},{"type":"integer"},{"$ref":"#/definitions/Obj"}]},"Obj":{"type":"object","properties":{"t":{"type":"array","items":[{"type":"number"}]}}}}}`)
	add("nested-arrays-maps", `{"swagger":"2.0","info":{"title":"t","version":"1"},"paths":{"/m":{"post":{"operationId":"postM","parameters":[{"name":"b","in":"body","schema":{"type":"array","items":{"type":"array","items":{"$ref":"#/definitions/M"}}}}],
	 "responses":{"200":{"description":"ok","schema":{"type":"object","additionalProperties":{"type":"array","items":{"type":"object","additionalProperties":{"type":"integer"}}}}},"default":{"description":"no schema"}}}}},
	 "definitions":{"M":{"type":"object","additionalProperties":{"$ref":"#/definitions/M"},"properties":{"deep":{"type":"array","items":{"type":"array","items":{"type":"array","items":{"type":"string","enum":["a","b"]}}}}}}}}`)
	add("responses-variety", `{"swagger":"2.0","info":{"title":"t","version":"1"},"paths":{"/r":{"get":{"operationId":"getR","produces":["application/json","text/plain"],"responses":{"200":{"description":"file","schema":{"type":"file"}},
	 "201":{"description":"string","schema":{"type":"string","format":"date-time"}},"202":{"description":"arr","schema":{"type":"array","items":{"type":"string"}}},"204":{"description":"none"},"default":{"description":"d","schema":{"type":"object"}}}},
	 "head":{"operationId":"headR","deprecated":true,"responses":{"200":{"description":"ok"}}}}},"definitions":{}}`)
	add("same-name-params", `{"swagger":"2.0","info":{"title":"t","version":"1"},"paths":{"/v/{version}":{"parameters":[{"name":"version","in":"path","required":true,"type":"string"},{"name":"trace","in":"header","type":"string"}],
	 "get":{"operationId":"getV","parameters":[{"name":"version","in":"query","type":"integer"},{"name":"version","in":"header","type":"string","enum":["a","b","c"]},{"name":"trace","in":"query","type":"boolean"},{"name":"limit","in":"query","type":"integer"}],"responses":{"200":{"description":"ok"}}},
	 "post":{"operationId":"postV","consumes":["application/x-www-form-urlencoded"],"parameters":[{"name":"version","in":"formData","type":"string"},{"name":"version","in":"query","type":"string"},{"name":"trace","in":"header","type":"integer"}],"responses":{"200":{"description":"ok"}}}}}}`)
	add("array-only-recursion", `{"swagger":"2.0","info":{"title":"t","version":"1"},"paths":{"/c":{"get":{"operationId":"getC","responses":{"200":{"description":"ok","schema":{"$ref":"#/definitions/Category"}}}},
	 "post":{"operationId":"postC","parameters":[{"name":"b","in":"body","schema":{"type":"array","items":{"$ref":"#/definitions/Category"}}}],"responses":{"200":{"description":"ok","schema":{"type":"array","items":{"$ref":"#/definitions/Ring1"}}}}}}},
	 "definitions":{"Category":{"type":"object","properties":{"name":{"type":"string"},"children":{"type":"array","items":{"$ref":"#/definitions/Category"}}}},
	 "Ring1":{"type":"object","properties":{"next":{"type":"array","items":{"$ref":"#/definitions/Ring2"}}}},"Ring2":{"type":"object","properties":{"back":{"type":"array","items":{"$ref":"#/definitions/Ring1"}}}}}}`)
	return out
}
