package difflib

import (
	"fmt"
	"math/rand"

	"verif/rig/jx"
)

type noiseFn struct {
	name string
	both bool // applied to old and new alike (base variation) instead of new only
	f    func(d J)
}

func noises() []noiseFn {
	P := "/things/{pid}"
	return []noiseFn{
		{"desc-info", false, func(d J) { d["info"].(J)["description"] = "changed text" }},
		{"desc-op", false, func(d J) { opOf(d, P, "post")["description"] = "now described" }},
		{"tag-added", false, func(d J) { opOf(d, P, "post")["tags"] = []any{"things", "extra"} }},
		{"endpoint-added", false, func(d J) {
			d["paths"].(J)["/extra"] = J{"get": J{"operationId": "getExtra", "responses": J{"200": J{"description": "ok"}}}}
		}},
		{"optional-param-added", false, func(d J) { addParam(d, P, "post", J{"name": "opt", "in": "query", "type": "string"}) }},
		{"optional-prop-added", false, func(d J) { props(def(d, "Thing"))["addedprop"] = J{"type": "string"} }},
		{"response-added", false, func(d J) { jx.GetJ(d, "paths", P, "post", "responses")["409"] = J{"description": "conflict"} }},
		{"definition-added", false, func(d J) { d["definitions"].(J)["Fresh"] = J{"type": "object", "properties": J{"a": J{"type": "string"}}} }},
		{"produces-added", false, func(d J) { d["produces"] = []any{"application/json", "application/xml"} }},
		{"scheme-added", false, func(d J) { d["schemes"] = []any{"https", "http", "wss"} }},
		{"extension-added", false, func(d J) { d["x-vf-note"] = "n" }},
		{"base-extra-endpoint", true, func(d J) {
			d["paths"].(J)["/pre"] = J{"get": J{"operationId": "getPre", "parameters": []any{J{"name": "z", "in": "query", "type": "integer"}}, "responses": J{"200": J{"description": "ok", "schema": J{"$ref": "#/definitions/Problem"}}}}}
		}},
		{"base-extra-definition", true, func(d J) {
			d["definitions"].(J)["Unused"] = J{"type": "object", "properties": J{"self": J{"$ref": "#/definitions/Unused"}, "n": J{"type": "integer"}}}
		}},
		{"base-basepath", true, func(d J) { d["basePath"] = "/v2" }},
		{"base-descriptions", true, func(d J) {
			for _, name := range jx.Keys(d["definitions"].(J)) {
				def(d, name)["description"] = "about " + name
			}
		}},
		{"base-recursive-prop", true, func(d J) { props(def(d, "Other"))["next"] = J{"$ref": "#/definitions/Other"} }},
		{"base-response-headers", true, func(d J) {
			jx.GetJ(d, "paths", P, "post", "responses", "200")["headers"].(J)["X-More"] = J{"type": "array", "items": J{"type": "string"}}
		}},
	}
}

// WithNoise returns a copy of the edit with 1–3 base variations applied to both
// documents and 1–3 non-breaking changes applied to the new document only.
func WithNoise(e Edit, rng *rand.Rand, exclude ...string) (Edit, []string) {
	var ns []noiseFn
	for _, n := range noises() {
		skip := false
		for _, x := range exclude {
			if n.name == x {
				skip = true
			}
		}
		if !skip {
			ns = append(ns, n)
		}
	}
	out := e
	out.Old, out.New = jx.CloneJ(e.Old), jx.CloneJ(e.New)
	var names []string
	k := 2 + rng.Intn(4)
	perm := rng.Perm(len(ns))
	for _, i := range perm[:k] {
		n := ns[i]
		func() {
			defer func() {
				if r := recover(); r != nil {
					names = append(names, fmt.Sprintf("%s(skipped)", n.name))
				}
			}()
			if n.both {
				n.f(out.Old)
			}
			n.f(out.New)
			names = append(names, n.name)
		}()
	}
	return out, names
}

// HasCircularRef reports whether the definitions of a document reference each
// other in a cycle.
func HasCircularRef(doc J) bool {
	defs, _ := doc["definitions"].(J)
	graph := map[string][]string{}
	var collect func(v any, out *[]string)
	collect = func(v any, out *[]string) {
		switch t := v.(type) {
		case map[string]any:
			if r, ok := t["$ref"].(string); ok {
				if i := len("#/definitions/"); len(r) > i && r[:i] == "#/definitions/" {
					*out = append(*out, r[i:])
				}
			}
			for _, x := range t {
				collect(x, out)
			}
		case []any:
			for _, x := range t {
				collect(x, out)
			}
		}
	}
	for name, d := range defs {
		var refs []string
		collect(d, &refs)
		graph[name] = refs
	}
	state := map[string]int{}
	var visit func(n string) bool
	visit = func(n string) bool {
		switch state[n] {
		case 1:
			return true
		case 2:
			return false
		}
		state[n] = 1
		for _, m := range graph[n] {
			if visit(m) {
				return true
			}
		}
		state[n] = 2
		return false
	}
	for name := range graph {
		if visit(name) {
			return true
		}
	}
	return false
}
