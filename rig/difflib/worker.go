// Package difflib is shared by the diff-family checks (C12–C15).
package difflib

import (
	"encoding/json"
	"fmt"
	"runtime/debug"
	"strings"

	"github.com/go-openapi/loads"
	"github.com/go-openapi/strfmt"
	"github.com/go-openapi/validate"
	"github.com/go-swagger/go-swagger/cmd/swagger/commands/diff"
)

// D is one reported difference, flattened.
type D struct {
	URL      string   `json:"url"`
	Method   string   `json:"method"`
	Response int      `json:"response"`
	Fields   []string `json:"fields"` // node chain, field names only
	Types    []string `json:"types"`  // node chain, type labels ("T" or "[]T")
	Code     int      `json:"code"`
	Compat   int      `json:"compat"`
	Info     string   `json:"info"`
	Text     string   `json:"text"` // SpecDifference.String()
}

type Ans struct {
	ID     string   `json:"id"`
	Diffs  []D      `json:"diffs"`
	Err    string   `json:"err,omitempty"`
	Panic  string   `json:"panic,omitempty"`
	Stack  string   `json:"stack,omitempty"`
	Valid  *bool    `json:"valid,omitempty"`
	Errors []string `json:"errors,omitempty"`
}

// Handle is the worker side: {"id","mode":"compare"|"validate","a","b"}.
func Handle(raw json.RawMessage) (out any) {
	var req struct {
		ID, Mode, A, B string
	}
	_ = json.Unmarshal(raw, &req)
	ans := &Ans{ID: req.ID}
	defer func() {
		if r := recover(); r != nil {
			ans.Panic = fmt.Sprint(r)
			ans.Stack = string(debug.Stack())
			out = ans
		}
	}()
	switch req.Mode {
	case "validate":
		doc, err := loads.Spec(req.A)
		if err != nil {
			ans.Err = err.Error()
			return ans
		}
		if doc.Spec().Swagger != "2.0" {
			ans.Err = "not swagger 2.0"
			return ans
		}
		err = validate.Spec(doc, strfmt.Default)
		ok := err == nil
		ans.Valid = &ok
		if err != nil {
			ans.Errors = []string{err.Error()}
		}
	default:
		a, err := loads.Spec(req.A)
		if err != nil {
			ans.Err = "load a: " + err.Error()
			return ans
		}
		b, err := loads.Spec(req.B)
		if err != nil {
			ans.Err = "load b: " + err.Error()
			return ans
		}
		diffs, err := diff.Compare(a.Spec(), b.Spec())
		if err != nil {
			ans.Err = err.Error()
			return ans
		}
		ans.Diffs = Flatten(diffs)
	}
	return ans
}

func Flatten(diffs diff.SpecDifferences) []D {
	out := make([]D, 0, len(diffs))
	for _, d := range diffs {
		x := D{URL: d.DifferenceLocation.URL, Method: d.DifferenceLocation.Method, Response: d.DifferenceLocation.Response,
			Code: int(d.Code), Compat: int(d.Compatibility), Info: d.DiffInfo, Text: d.String()}
		for n := d.DifferenceLocation.Node; n != nil; n = n.ChildNode {
			x.Fields = append(x.Fields, n.Field)
			t := n.TypeName
			if n.IsArray {
				t = "[]" + t
			}
			x.Types = append(x.Types, t)
		}
		out = append(out, x)
	}
	return out
}

// LocKey identifies the location of a difference on field paths only.
func (d D) LocKey() string {
	return fmt.Sprintf("%s %s %d %s", d.Method, d.URL, d.Response, strings.Join(d.Fields, "."))
}

// CodeName is the tool's JSON name of a change code.
func CodeName(c int) string {
	b, _ := diff.SpecChangeCode(c).MarshalJSON()
	return strings.Trim(string(b), `"`)
}

const (
	Breaking    = int(diff.Breaking)
	NonBreaking = int(diff.NonBreaking)
	Warning     = int(diff.Warning)
)
