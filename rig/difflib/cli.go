package difflib

import (
	"encoding/json"
	"os"
	"path/filepath"
	"time"

	"verif/rig/core"
	"verif/rig/jx"
)

// CLIEntry is one entry of the JSON report.
type CLIEntry struct {
	Location      json.RawMessage `json:"location"`
	Code          string          `json:"code"`
	Compatibility string          `json:"compatibility"`
	Info          string          `json:"info,omitempty"`
}

// WritePair writes old/new documents under dir and returns their paths.
func WritePair(dir string, old, nw any) (string, string) {
	_ = os.MkdirAll(dir, 0o755)
	a, b := filepath.Join(dir, "old.json"), filepath.Join(dir, "new.json")
	core.Must(os.WriteFile(a, jx.Marshal(old), 0o644))
	core.Must(os.WriteFile(b, jx.Marshal(nw), 0o644))
	return a, b
}

// RunCLI runs `swagger diff <extra...> a b`.
func RunCLI(swagger string, extra []string, a, b string) core.Result {
	args := append([]string{"diff"}, extra...)
	args = append(args, a, b)
	return core.Run("", nil, 2*time.Minute, "", swagger, args...)
}

// ParseReport parses the JSON report.
func ParseReport(out string) ([]CLIEntry, error) {
	var es []CLIEntry
	if err := json.Unmarshal([]byte(out), &es); err != nil {
		return nil, err
	}
	return es, nil
}
