package difflib

import (
	"verif/rig/jx"
	"verif/rig/oracle"
)

// BaseSpec is the hand-written base document of the edit catalogue: every
// position the property enumerates (query/path/header/formData parameter, array
// parameter items at depth 1 and 2, shared path-level parameter, body schema at
// top level, nested, through $ref, through allOf, in array items and in map
// values) holds a constrained schema of every primitive type.
const baseSpecJSON = `{
 "swagger": "2.0",
 "info": {"title": "vf diff base", "version": "1.0.0"},
 "host": "api.example.com",
 "basePath": "/v1",
 "schemes": ["https", "http"],
 "consumes": ["application/json", "application/vnd.vf+json"],
 "produces": ["application/json"],
 "paths": {
  "/things/{pid}": {
   "parameters": [
    {"name": "X-Shared", "in": "header", "type": "integer", "format": "int64", "minimum": 1, "maximum": 100},
    {"name": "limit", "in": "query", "type": "integer", "format": "int64", "minimum": 1, "maximum": 1000}
   ],
   "post": {
    "operationId": "postThing",
    "tags": ["things"],
    "parameters": [
     {"name": "pid", "in": "path", "required": true, "type": "integer", "format": "int64", "minimum": 1, "maximum": 100},
     {"name": "ps", "in": "query", "required": true, "type": "string", "minLength": 2, "maxLength": 10, "pattern": "^[a-z]+$"},
     {"name": "qs", "in": "query", "type": "string", "minLength": 2, "maxLength": 10, "pattern": "^[a-z]+$"},
     {"name": "qi", "in": "query", "required": true, "type": "integer", "format": "int64", "minimum": 1, "maximum": 100},
     {"name": "qn", "in": "query", "type": "number", "format": "double", "minimum": 0.5, "maximum": 99.5},
     {"name": "qb", "in": "query", "type": "boolean"},
     {"name": "qe", "in": "query", "type": "string", "enum": ["red", "green", "blue"]},
     {"name": "qie", "in": "query", "type": "integer", "enum": [1, 2, 3]},
     {"name": "qa", "in": "query", "type": "array", "collectionFormat": "csv", "minItems": 1, "maxItems": 5,
      "items": {"type": "integer", "format": "int64", "minimum": 1, "maximum": 100}},
     {"name": "qas", "in": "query", "type": "array", "collectionFormat": "csv", "minItems": 1, "maxItems": 5,
      "items": {"type": "string", "minLength": 2, "maxLength": 10, "pattern": "^[a-z]+$"}},
     {"name": "qae", "in": "query", "type": "array", "collectionFormat": "csv",
      "items": {"type": "string", "enum": ["red", "green", "blue"]}},
     {"name": "qaa", "in": "query", "type": "array", "collectionFormat": "pipes",
      "items": {"type": "array", "collectionFormat": "csv", "minItems": 1, "maxItems": 5, "items": {"type": "integer", "format": "int64", "minimum": 1, "maximum": 100}}},
     {"name": "X-Hs", "in": "header", "type": "string", "minLength": 2, "maxLength": 10, "pattern": "^[a-z]+$"},
     {"name": "X-Hi", "in": "header", "required": true, "type": "integer", "format": "int64", "minimum": 1, "maximum": 100},
     {"name": "X-Hn", "in": "header", "type": "number", "format": "double", "minimum": 0.5, "maximum": 99.5},
     {"name": "X-He", "in": "header", "type": "string", "enum": ["red", "green", "blue"]},
     {"name": "X-Ha", "in": "header", "type": "array", "collectionFormat": "csv", "minItems": 1, "maxItems": 5,
      "items": {"type": "integer", "format": "int64", "minimum": 1, "maximum": 100}},
     {"name": "body", "in": "body", "required": true, "schema": {"$ref": "#/definitions/Thing"}}
    ],
    "responses": {
     "200": {"description": "ok", "schema": {"$ref": "#/definitions/Result"},
      "headers": {"X-Rate": {"type": "integer"}, "X-Trace": {"type": "string"}}},
     "404": {"description": "not found", "schema": {"$ref": "#/definitions/Problem"}},
     "default": {"description": "error", "schema": {"$ref": "#/definitions/Problem"}}
    }
   },
   "get": {
    "operationId": "getThing",
    "tags": ["things"],
    "parameters": [
     {"name": "pid", "in": "path", "required": true, "type": "integer", "format": "int64", "minimum": 1, "maximum": 100},
     {"name": "limit", "in": "query", "type": "integer", "format": "int64", "minimum": 1, "maximum": 100},
     {"name": "ovs", "in": "query", "type": "string", "minLength": 2, "maxLength": 10, "pattern": "^[a-z]+$"}
    ],
    "responses": {
     "200": {"description": "ok", "schema": {"type": "object", "properties": {"id": {"type": "integer"}, "state": {"type": "string", "enum": ["on", "off"]},
       "detail": {"type": "object", "properties": {"note": {"type": "string"}, "rank": {"type": "integer"}}}}}},
     "410": {"description": "gone"}
    }
   }
  },
  "/names/{name}": {
   "get": {
    "operationId": "getName",
    "parameters": [
     {"name": "name", "in": "path", "required": true, "type": "string", "minLength": 2, "maxLength": 10, "pattern": "^[a-z]+$"}
    ],
    "responses": {"200": {"description": "ok"}}
   }
  },
  "/forms": {
   "post": {
    "operationId": "postForm",
    "consumes": ["application/x-www-form-urlencoded"],
    "parameters": [
     {"name": "fs", "in": "formData", "type": "string", "minLength": 2, "maxLength": 10, "pattern": "^[a-z]+$"},
     {"name": "fi", "in": "formData", "required": true, "type": "integer", "format": "int64", "minimum": 1, "maximum": 100},
     {"name": "fn", "in": "formData", "type": "number", "format": "double", "minimum": 0.5, "maximum": 99.5},
     {"name": "fe", "in": "formData", "type": "string", "enum": ["red", "green", "blue"]},
     {"name": "fb", "in": "formData", "type": "boolean"},
     {"name": "fa", "in": "formData", "type": "array", "collectionFormat": "csv", "minItems": 1, "maxItems": 5,
      "items": {"type": "integer", "format": "int64", "minimum": 1, "maximum": 100}}
    ],
    "responses": {"201": {"description": "created"}}
   }
  },
  "/docs": {
   "put": {
    "operationId": "putDoc",
    "consumes": ["application/json", "application/vnd.vf.doc+json"],
    "parameters": [
     {"name": "doc", "in": "body", "required": true, "schema": {"type": "object", "required": ["title"], "properties": {
       "title": {"type": "string", "minLength": 2, "maxLength": 10, "pattern": "^[a-z]+$"},
       "pages": {"type": "integer", "format": "int64", "minimum": 1, "maximum": 100}}}}
    ],
    "responses": {"204": {"description": "stored"}}
   },
   "delete": {
    "operationId": "deleteDoc",
    "parameters": [
     {"name": "why", "in": "query", "type": "string"}
    ],
    "responses": {"204": {"description": "deleted"}}
   }
  }
 },
 "definitions": {
  "Thing": {
   "type": "object",
   "required": ["name"],
   "properties": {
    "name": {"type": "string", "minLength": 2, "maxLength": 10, "pattern": "^[a-z]+$"},
    "count": {"type": "integer", "format": "int64", "minimum": 1, "maximum": 100},
    "ratio": {"type": "number", "format": "double", "minimum": 0.5, "maximum": 99.5},
    "flag": {"type": "boolean"},
    "color": {"type": "string", "enum": ["red", "green", "blue"]},
    "level": {"type": "integer", "enum": [1, 2, 3]},
    "tags": {"type": "array", "minItems": 1, "maxItems": 5, "items": {"type": "string", "minLength": 2, "maxLength": 10, "pattern": "^[a-z]+$"}},
    "scores": {"type": "array", "minItems": 1, "maxItems": 5, "items": {"type": "integer", "format": "int64", "minimum": 1, "maximum": 100}},
    "shades": {"type": "array", "items": {"type": "string", "enum": ["red", "green", "blue"]}},
    "inner": {"type": "object", "required": ["depth"], "properties": {
      "depth": {"type": "string", "minLength": 2, "maxLength": 10, "pattern": "^[a-z]+$"},
      "qty": {"type": "integer", "format": "int64", "minimum": 1, "maximum": 100},
      "hue": {"type": "string", "enum": ["red", "green", "blue"]}}},
    "other": {"$ref": "#/definitions/Other"},
    "mixed": {"allOf": [{"$ref": "#/definitions/Base"}, {"type": "object", "properties": {
      "extra": {"type": "integer", "format": "int64", "minimum": 1, "maximum": 100},
      "extras": {"type": "string", "minLength": 2, "maxLength": 10, "pattern": "^[a-z]+$"}}}]},
    "parts": {"type": "array", "items": {"type": "object", "required": ["pname"], "properties": {
      "pname": {"type": "string", "minLength": 2, "maxLength": 10, "pattern": "^[a-z]+$"},
      "pqty": {"type": "integer", "format": "int64", "minimum": 1, "maximum": 100}}}},
    "attrs": {"type": "object", "additionalProperties": {"type": "integer", "format": "int64", "minimum": 1, "maximum": 100}},
    "labels": {"type": "object", "additionalProperties": {"type": "string", "minLength": 2, "maxLength": 10, "pattern": "^[a-z]+$"}},
    "things": {"type": "object", "additionalProperties": {"type": "object", "required": ["tname"], "properties": {
      "tname": {"type": "string", "minLength": 2, "maxLength": 10, "pattern": "^[a-z]+$"},
      "tqty": {"type": "integer", "format": "int64", "minimum": 1, "maximum": 100}}}}
   }
  },
  "Other": {
   "type": "object",
   "required": ["label"],
   "properties": {
    "code": {"type": "integer", "format": "int64", "minimum": 1, "maximum": 100},
    "label": {"type": "string", "minLength": 2, "maxLength": 10, "pattern": "^[a-z]+$"},
    "tone": {"type": "string", "enum": ["red", "green", "blue"]}
   }
  },
  "Base": {
   "type": "object",
   "required": ["basestr"],
   "properties": {
    "baseval": {"type": "integer", "format": "int64", "minimum": 1, "maximum": 100},
    "basestr": {"type": "string", "minLength": 2, "maxLength": 10, "pattern": "^[a-z]+$"}
   }
  },
  "Result": {
   "type": "object",
   "properties": {
    "id": {"type": "integer", "format": "int64"},
    "status": {"type": "string", "enum": ["new", "done"]},
    "meta": {"type": "object", "properties": {"note": {"type": "string"}, "rank": {"type": "integer"}}},
    "owner": {"$ref": "#/definitions/Owner"}
   }
  },
  "Owner": {"type": "object", "properties": {"login": {"type": "string"}, "age": {"type": "integer"}}},
  "Problem": {"type": "object", "properties": {"message": {"type": "string"}, "code": {"type": "integer"}}}
 }
}`

// BaseSpec returns a fresh copy of the base document.
func BaseSpec() jx.J {
	doc := jx.MustParse(baseSpecJSON).(jx.J)
	return doc
}

func sp(s string) *string { return &s }

// BaseBody is the valid request body of POST /things/{pid}.
func BaseBody() jx.J {
	return jx.MustParse(`{
 "name": "abcde", "count": 50, "ratio": 50.5, "flag": true, "color": "green", "level": 2,
 "tags": ["abcde", "fghij"], "scores": [50, 51], "shades": ["green"],
 "inner": {"depth": "abcde", "qty": 50, "hue": "green"},
 "other": {"code": 50, "label": "abcde", "tone": "green"},
 "mixed": {"baseval": 50, "basestr": "abcde", "extra": 50, "extras": "abcde"},
 "parts": [{"pname": "abcde", "pqty": 50}],
 "attrs": {"k1": 50}, "labels": {"k1": "abcde"},
 "things": {"k1": {"tname": "abcde", "tqty": 50}}
}`).(jx.J)
}

// Witness is a request under construction: the body is kept as a tree until
// the request is finalised.
type Witness struct {
	Req  oracle.Request
	Body any
}

func (w *Witness) Final() *oracle.Request {
	r := w.Req.Clone()
	if w.Body != nil {
		r.Body = sp(jx.Compact(w.Body))
	}
	return r
}

// BaseWitness returns a request valid for the named operation of the base spec.
func BaseWitness(op string) *Witness {
	switch op {
	case "postThing":
		return &Witness{Req: oracle.Request{Method: "POST", Path: "/things/{pid}",
			PathParams: map[string]string{"pid": "50"},
			Query: map[string][]string{"ps": {"abcde"}, "qs": {"abcde"}, "qi": {"50"}, "qn": {"50.5"}, "qb": {"true"}, "qe": {"green"}, "qie": {"2"},
				"qa": {"50,51"}, "qas": {"abcde,fghij"}, "qae": {"green"}, "qaa": {"50,51|52"}},
			Header:      map[string][]string{"X-Shared": {"50"}, "X-Hs": {"abcde"}, "X-Hi": {"50"}, "X-Hn": {"50.5"}, "X-He": {"green"}, "X-Ha": {"50,51"}},
			ContentType: "application/json"}, Body: BaseBody()}
	case "getThing":
		return &Witness{Req: oracle.Request{Method: "GET", Path: "/things/{pid}", PathParams: map[string]string{"pid": "50"},
			Header: map[string][]string{"X-Shared": {"50"}}}}
	case "getName":
		return &Witness{Req: oracle.Request{Method: "GET", Path: "/names/{name}", PathParams: map[string]string{"name": "abcde"}}}
	case "postForm":
		return &Witness{Req: oracle.Request{Method: "POST", Path: "/forms", ContentType: "application/x-www-form-urlencoded",
			Form: map[string][]string{"fs": {"abcde"}, "fi": {"50"}, "fn": {"50.5"}, "fe": {"green"}, "fb": {"true"}, "fa": {"50,51"}}}}
	case "putDoc":
		return &Witness{Req: oracle.Request{Method: "PUT", Path: "/docs", ContentType: "application/json"},
			Body: jx.MustParse(`{"title": "abcde", "pages": 50}`)}
	case "deleteDoc":
		return &Witness{Req: oracle.Request{Method: "DELETE", Path: "/docs", Query: map[string][]string{"why": {"abcde"}}}}
	}
	panic("unknown op " + op)
}
