package difflib

import (
	"fmt"
	"sort"
	"strings"

	"github.com/go-swagger/go-swagger/cmd/swagger/commands/diff"
)

type dirCode struct {
	base string
	dir  int // +1 added/widened/opt->req, -1 the opposite, 0 direction-less
}

var mirrorTable = map[diff.SpecChangeCode]dirCode{
	diff.AddedEndpoint:             {"Endpoint", +1},
	diff.DeletedEndpoint:           {"Endpoint", -1},
	diff.DeletedDeprecatedEndpoint: {"Endpoint", -1},
	diff.AddedProperty:             {"Property", +1},
	diff.AddedRequiredProperty:     {"Property", +1},
	diff.DeletedProperty:           {"Property", -1},
	diff.AddedOptionalParam:        {"Param", +1},
	diff.AddedRequiredParam:        {"Param", +1},
	diff.DeletedOptionalParam:      {"Param", -1},
	diff.DeletedRequiredParam:      {"Param", -1},
	diff.AddedResponse:             {"Response", +1},
	diff.DeletedResponse:           {"Response", -1},
	diff.AddedResponseHeader:       {"ResponseHeader", +1},
	diff.DeletedResponseHeader:     {"ResponseHeader", -1},
	diff.AddedEnumValue:            {"EnumValue", +1},
	diff.DeletedEnumValue:          {"EnumValue", -1},
	diff.AddedConstraint:           {"Constraint", +1},
	diff.DeletedConstraint:         {"Constraint", -1},
	diff.AddedDescripton:           {"Description", +1},
	diff.DeletedDescripton:         {"Description", -1},
	diff.AddedTag:                  {"Tag", +1},
	diff.DeletedTag:                {"Tag", -1},
	diff.AddedDefinition:           {"Definition", +1},
	diff.DeletedDefinition:         {"Definition", -1},
	diff.AddedExtension:            {"Extension", +1},
	diff.DeletedExtension:          {"Extension", -1},
	diff.AddedDefault:              {"Default", +1},
	diff.DeletedDefault:            {"Default", -1},
	diff.AddedExample:              {"Example", +1},
	diff.DeletedExample:            {"Example", -1},
	diff.AddedConsumesFormat:       {"Consumes", +1},
	diff.DeletedConsumesFormat:     {"Consumes", -1},
	diff.AddedProducesFormat:       {"Produces", +1},
	diff.DeletedProducesFormat:     {"Produces", -1},
	diff.AddedSchemes:              {"Schemes", +1},
	diff.DeletedSchemes:            {"Schemes", -1},
	diff.WidenedType:               {"TypeWidth", +1},
	diff.NarrowedType:              {"TypeWidth", -1},
	diff.ChangedOptionalToRequired: {"Required", +1},
	diff.ChangedRequiredToOptional: {"Required", -1},
}

func classify(code int) dirCode {
	if dc, ok := mirrorTable[diff.SpecChangeCode(code)]; ok {
		return dc
	}
	return dirCode{CodeName(code), 0}
}

// LocClass is a coarse class of the location of a difference.
func (d D) LocClass() string {
	switch {
	case d.Method == "" && d.URL == "":
		if len(d.Fields) > 0 {
			return strings.ReplaceAll(strings.ToLower(d.Fields[0]), " ", "-")
		}
		return "spec"
	case d.Method == "":
		return "path"
	case d.Response != 0:
		if len(d.Fields) > 0 && d.Fields[0] == "Headers" {
			return "response-header"
		}
		return "response-body"
	case len(d.Fields) == 0:
		return "operation"
	case d.Fields[0] == "Body":
		return "request-body"
	default:
		return "request-param"
	}
}

// Asymmetry is a mismatch between diff(A,B) and the mirror image of diff(B,A)
// at one location.
type Asymmetry struct {
	Sig      string
	Location string
	Fwd, Bwd []string
}

// Mirror compares the two reports. It returns the asymmetries (empty = the
// reports mirror each other) and the set of change-code names seen.
func Mirror(fwd, bwd []D) ([]Asymmetry, map[string]bool) {
	type bag map[dirCode][]string // class -> code names (for reporting)
	locs := map[string]*[2]bag{}
	locClass := map[string]string{}
	seen := map[string]bool{}
	get := func(k string) *[2]bag {
		if locs[k] == nil {
			locs[k] = &[2]bag{{}, {}}
		}
		return locs[k]
	}
	for i := range fwd {
		fwd[i] = normLoc(fwd[i])
	}
	for i := range bwd {
		bwd[i] = normLoc(bwd[i])
	}
	for _, d := range fwd {
		dc := classify(d.Code)
		get(d.LocKey())[0][dc] = append(get(d.LocKey())[0][dc], CodeName(d.Code))
		locClass[d.LocKey()] = d.LocClass()
		seen[CodeName(d.Code)+"@"+d.LocClass()] = true
	}
	for _, d := range bwd {
		dc := classify(d.Code)
		dc.dir = -dc.dir // mirror
		get(d.LocKey())[1][dc] = append(get(d.LocKey())[1][dc], CodeName(d.Code))
		locClass[d.LocKey()] = d.LocClass()
		seen[CodeName(d.Code)+"@"+d.LocClass()] = true
	}
	var out []Asymmetry
	keys := make([]string, 0, len(locs))
	for k := range locs {
		keys = append(keys, k)
	}
	sort.Strings(keys)
	for _, k := range keys {
		b := locs[k]
		var f, r []string
		all := map[dirCode]bool{}
		for dc := range b[0] {
			all[dc] = true
		}
		for dc := range b[1] {
			all[dc] = true
		}
		for dc := range all {
			nf, nb := len(b[0][dc]), len(b[1][dc])
			if nf > nb {
				f = append(f, b[0][dc][:nf-nb]...)
			} else if nb > nf {
				r = append(r, b[1][dc][:nb-nf]...)
			}
		}
		if len(f) == 0 && len(r) == 0 {
			continue
		}
		sort.Strings(f)
		sort.Strings(r)
		out = append(out, Asymmetry{
			Sig:      fmt.Sprintf("fwd[%s] bwd[%s]", strings.Join(uniq(f), ","), strings.Join(uniq(r), ",")),
			Location: k, Fwd: f, Bwd: r})
	}
	return out, seen
}

func uniq(s []string) []string {
	var o []string
	for i, x := range s {
		if i == 0 || x != s[i-1] {
			o = append(o, x)
		}
	}
	return o
}

// normLoc removes a labelling artefact: the first node of a response location is
// called "Body" or "NoContent" depending on whether the *old* response has a
// schema, so the same response is labelled differently in the two directions.
func normLoc(d D) D {
	if d.Response != 0 && len(d.Fields) > 0 && d.Fields[0] == "NoContent" {
		d.Fields = append([]string{"Body"}, d.Fields[1:]...)
	}
	return d
}

// ExpectedDirection gives, for a catalogue edit kind, the class of change code
// the forward report must use if it reports a change of that class at all
// (base name, direction). ok=false: nothing is asserted for this kind.
func ExpectedDirection(kind string) (base string, dir int, ok bool) {
	switch kind {
	case "minimum-raised", "maximum-lowered", "exclusiveMinimum-added", "exclusiveMaximum-added",
		"minLength-raised", "maxLength-lowered", "minItems-raised", "maxItems-lowered",
		"format-int64-to-int32", "format-double-to-float", "type-number-to-integer":
		return "TypeWidth", -1, true
	case "minimum-added", "maximum-added", "minLength-added", "maxLength-added", "maxItems-added":
		return "Constraint", +1, true
	case "maximum+exclusive-added", "minimum+exclusive-added":
		return "", 0, false // reported as a narrowing or as an added constraint; only the mirror relation is asserted
	case "enum-value-removed":
		return "EnumValue", -1, true
	case "response-enum-value-added":
		return "EnumValue", +1, true
	case "required-param-added":
		return "Param", +1, true
	case "param-optional-to-required", "property-optional-to-required":
		return "Required", +1, true
	case "required-property-added":
		return "Property", +1, true
	case "response-property-removed":
		return "Property", -1, true
	case "endpoint-removed":
		return "Endpoint", -1, true
	case "consumes-removed":
		return "Consumes", -1, true
	case "response-code-removed":
		return "Response", -1, true
	case "response-header-removed":
		return "ResponseHeader", -1, true
	}
	return "", 0, false
}

// DirectionOf returns the (base, dir) class of a change code.
func DirectionOf(code int) (string, int) {
	dc := classify(code)
	return dc.base, dc.dir
}
