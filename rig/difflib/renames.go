package difflib

import (
	"fmt"
	"strings"

	"verif/rig/jx"
)

// RenameEdits are pairs in which one named element of the base document is respelled — by
// letter case only, or to a different name — so that one side's element is the other side's
// "deleted" and vice versa at the same place. They have no expected absolute direction (Kind is
// empty): only the mirror relation judges them. Every named thing the analyser matches by name is
// covered: response headers, parameters in every location (operation and path level), body and
// response properties at every depth, definitions (with their $refs), paths, enum values, tags,
// media types and extension keys.
func RenameEdits() []Edit {
	var out []Edit
	add := func(what, from, to string, f func(d J, from, to string) bool) {
		old, nw := BaseSpec(), BaseSpec()
		if !f(nw, from, to) {
			panic("difflib: rename edit does not apply: " + what + " " + from)
		}
		out = append(out, Edit{ID: fmt.Sprintf("rename=%s:%s->%s", what, from, to), Pos: what, Old: old, New: nw})
	}
	variants := func(name string) []string {
		vs := []string{}
		for _, v := range []string{strings.ToUpper(name), strings.ToLower(name), name + "2"} {
			if v != name {
				vs = append(vs, v)
			}
		}
		return vs
	}
	renameKey := func(m J, from, to string) bool {
		v, ok := m[from]
		if !ok {
			return false
		}
		delete(m, from)
		m[to] = v
		return true
	}
	P := "/things/{pid}"
	for _, h := range []string{"X-Trace", "X-Rate"} {
		for _, to := range variants(h) {
			add("response-header", h, to, func(d J, from, to string) bool {
				return renameKey(jx.GetJ(d, "paths", P, "post", "responses", "200", "headers"), from, to)
			})
		}
	}
	type pp struct{ path, method, in, name string }
	for _, p := range []pp{{P, "post", "header", "X-Hs"}, {P, "post", "header", "X-Hi"}, {P, "post", "query", "qs"}, {P, "post", "query", "qi"},
		{P, "post", "query", "qa"}, {"/forms", "post", "formData", "fs"}, {"/forms", "post", "formData", "fi"}, {"/docs", "delete", "query", "why"}} {
		p := p
		for _, to := range variants(p.name) {
			add("param."+p.in, p.name, to, func(d J, from, to string) bool {
				q := findParam(d, p.path, p.method, p.in, from)
				if q == nil {
					return false
				}
				q["name"] = to
				return true
			})
		}
	}
	for _, name := range []string{"X-Shared", "limit"} {
		for _, to := range variants(name) {
			add("param.shared", name, to, func(d J, from, to string) bool {
				for _, q := range jx.GetJ(d, "paths", P)["parameters"].([]any) {
					if q.(J)["name"] == from {
						q.(J)["name"] = to
						return true
					}
				}
				return false
			})
		}
	}
	type sp struct {
		pos    string
		schema func(d J) J
		prop   string
	}
	resp := func(d J, path, method, code string) J { return jx.GetJ(d, "paths", path, method, "responses", code) }
	for _, s := range []sp{
		{"body.top", func(d J) J { return def(d, "Thing") }, "count"},
		{"body.top-required", func(d J) J { return def(d, "Thing") }, "name"},
		{"body.nested", func(d J) J { return props(def(d, "Thing"))["inner"].(J) }, "qty"},
		{"body.ref", func(d J) J { return def(d, "Other") }, "code"},
		{"body.allOf", func(d J) J { return def(d, "Base") }, "baseval"},
		{"body.allOf-inline", func(d J) J { return props(def(d, "Thing"))["mixed"].(J)["allOf"].([]any)[1].(J) }, "extra"},
		{"body.items", func(d J) J { return props(def(d, "Thing"))["parts"].(J)["items"].(J) }, "pqty"},
		{"body.map", func(d J) J { return props(def(d, "Thing"))["things"].(J)["additionalProperties"].(J) }, "tqty"},
		{"body.inline", func(d J) J { return findParam(d, "/docs", "put", "body", "doc")["schema"].(J) }, "pages"},
		{"response.ref-top", func(d J) J { return def(d, "Result") }, "id"},
		{"response.ref-nested", func(d J) J { return props(def(d, "Result"))["meta"].(J) }, "note"},
		{"response.ref-ref", func(d J) J { return def(d, "Owner") }, "login"},
		{"response.inline-top", func(d J) J { return resp(d, P, "get", "200")["schema"].(J) }, "state"},
		{"response.inline-nested", func(d J) J { return props(resp(d, P, "get", "200")["schema"].(J))["detail"].(J) }, "rank"},
	} {
		s := s
		for _, to := range variants(s.prop) {
			add("property@"+s.pos, s.prop, to, func(d J, from, to string) bool {
				sch := s.schema(d)
				if !renameKey(props(sch), from, to) {
					return false
				}
				if req, ok := sch["required"].([]any); ok {
					for i, r := range req {
						if r == from {
							req[i] = to
						}
					}
				}
				return true
			})
		}
	}
	for _, name := range []string{"Other", "Owner", "Problem", "Base"} {
		for _, to := range variants(name) {
			add("definition", name, to, func(d J, from, to string) bool {
				if !renameKey(d["definitions"].(J), from, to) {
					return false
				}
				var walk func(v any)
				walk = func(v any) {
					switch t := v.(type) {
					case J:
						if r, ok := t["$ref"].(string); ok && r == "#/definitions/"+from {
							t["$ref"] = "#/definitions/" + to
						}
						for _, c := range t {
							walk(c)
						}
					case []any:
						for _, c := range t {
							walk(c)
						}
					}
				}
				walk(d)
				return true
			})
		}
	}
	for _, p := range []string{"/forms", "/docs", "/names/{name}"} {
		for _, to := range []string{strings.ToUpper(p[:2]) + p[2:], p + "2"} {
			add("path", p, to, func(d J, from, to string) bool { return renameKey(d["paths"].(J), from, to) })
		}
	}
	enumAt := func(what string, get func(d J) J) {
		for _, to := range []string{"GREEN", "Green", "teal"} {
			add("enum-value@"+what, "green", to, func(d J, from, to string) bool {
				e := get(d)["enum"].([]any)
				for i, v := range e {
					if v == from {
						e[i] = to
						return true
					}
				}
				return false
			})
		}
	}
	enumAt("query", func(d J) J { return findParam(d, P, "post", "query", "qe") })
	enumAt("header", func(d J) J { return findParam(d, P, "post", "header", "X-He") })
	enumAt("formData", func(d J) J { return findParam(d, "/forms", "post", "formData", "fe") })
	enumAt("items", func(d J) J { return findParam(d, P, "post", "query", "qae")["items"].(J) })
	enumAt("body.top", func(d J) J { return props(def(d, "Thing"))["color"].(J) })
	enumAt("body.ref", func(d J) J { return props(def(d, "Other"))["tone"].(J) })
	enumAt("body.items", func(d J) J { return props(def(d, "Thing"))["shades"].(J)["items"].(J) })
	for _, to := range []string{"DONE", "finished"} {
		add("enum-value@response.ref", "done", to, func(d J, from, to string) bool {
			e := props(def(d, "Result"))["status"].(J)["enum"].([]any)
			for i, v := range e {
				if v == from {
					e[i] = to
					return true
				}
			}
			return false
		})
	}
	listAt := func(what, from string, tos []string, get func(d J) J, key string) {
		for _, to := range tos {
			add(what, from, to, func(d J, from, to string) bool {
				l, ok := get(d)[key].([]any)
				if !ok {
					return false
				}
				for i, v := range l {
					if v == from {
						l[i] = to
						return true
					}
				}
				return false
			})
		}
	}
	root := func(d J) J { return d }
	listAt("consumes@spec", "application/vnd.vf+json", []string{"application/vnd.VF+json", "application/vnd.vf2+json"}, root, "consumes")
	listAt("produces@spec", "application/json", []string{"Application/JSON", "application/xml"}, root, "produces")
	listAt("consumes@operation", "application/vnd.vf.doc+json", []string{"application/vnd.VF.doc+json", "application/vnd.vf.doc2+json"},
		func(d J) J { return opOf(d, "/docs", "put") }, "consumes")
	listAt("tag@operation", "things", []string{"Things", "stuff"}, func(d J) J { return opOf(d, P, "post") }, "tags")
	listAt("scheme", "http", []string{"ws"}, root, "schemes")
	// extension keys (the loader lower-cases them: a case-only respelling is the same key)
	for _, where := range []struct {
		name string
		get  func(d J) J
	}{{"spec", root}, {"operation", func(d J) J { return opOf(d, P, "get") }}, {"definition", func(d J) J { return def(d, "Other") }},
		{"response", func(d J) J { return resp(d, P, "post", "404") }}} {
		where := where
		for _, to := range []string{"x-vf-Key", "x-vf-key2"} {
			old, nw := BaseSpec(), BaseSpec()
			where.get(old)["x-vf-key"] = "v"
			where.get(nw)[to] = "v"
			out = append(out, Edit{ID: fmt.Sprintf("rename=extension@%s:x-vf-key->%s", where.name, to), Pos: "extension@" + where.name, Old: old, New: nw})
		}
	}
	return out
}
