package oracle

import (
	"encoding/json"
	"fmt"
	"math"
	"math/big"
	"net/http"
	"sort"
	"strconv"
	"strings"

	"github.com/go-openapi/spec"
	"github.com/go-openapi/strfmt"

	"verif/rig/jx"
)

// Request is an HTTP request at the level of Swagger 2.0 parameter semantics.
type Request struct {
	Method      string              `json:"method"`
	Path        string              `json:"path"` // path template of the operation
	PathParams  map[string]string   `json:"path_params,omitempty"`
	Query       map[string][]string `json:"query,omitempty"`
	Header      map[string][]string `json:"header,omitempty"`
	Form        map[string][]string `json:"form,omitempty"`
	Files       map[string]string   `json:"files,omitempty"` // formData file name -> content
	ContentType string              `json:"content_type,omitempty"`
	Body        *string             `json:"body,omitempty"` // raw body, nil = no body
}

func (r *Request) Clone() *Request {
	b, _ := json.Marshal(r)
	o := new(Request)
	_ = json.Unmarshal(b, o)
	return o
}

type Verdict int

const (
	Accept Verdict = iota
	Reject
	Unspecified
)

func (v Verdict) String() string { return [...]string{"accept", "reject", "unspecified"}[v] }

// Bound is the outcome of reference binding.
type Bound struct {
	Verdict Verdict
	Values  map[string]any // parameter name -> typed JSON value (absent optional without default: key missing)
	Absent  map[string]bool
	Loose   map[string]bool // the value may also be seen as absent / zero (empty value that the spec allows)
	Reasons []string
}

// Operation finds the operation and its effective parameter list.
func (d *Doc) Operation(method, path string) (*spec.Operation, []spec.Parameter, error) {
	if d.Sw.Paths == nil {
		return nil, nil, fmt.Errorf("no paths")
	}
	pi, ok := d.Sw.Paths.Paths[path]
	if !ok {
		return nil, nil, fmt.Errorf("no path %s", path)
	}
	var op *spec.Operation
	switch strings.ToUpper(method) {
	case "GET":
		op = pi.Get
	case "PUT":
		op = pi.Put
	case "POST":
		op = pi.Post
	case "DELETE":
		op = pi.Delete
	case "OPTIONS":
		op = pi.Options
	case "HEAD":
		op = pi.Head
	case "PATCH":
		op = pi.Patch
	}
	if op == nil {
		return nil, nil, fmt.Errorf("no operation %s %s", method, path)
	}
	byKey := map[string]spec.Parameter{}
	var order []string
	add := func(p spec.Parameter) {
		if p.Ref.String() != "" {
			name := p.Ref.String()
			name = name[strings.LastIndex(name, "/")+1:]
			if rp, ok := d.Sw.Parameters[name]; ok {
				p = rp
			}
		}
		k := p.In + ":" + p.Name
		if _, seen := byKey[k]; !seen {
			order = append(order, k)
		}
		byKey[k] = p
	}
	for _, p := range pi.Parameters {
		add(p)
	}
	for _, p := range op.Parameters {
		add(p)
	}
	var params []spec.Parameter
	for _, k := range order {
		params = append(params, byKey[k])
	}
	return op, params, nil
}

// Consumes returns the effective consumes list of an operation.
func (d *Doc) Consumes(op *spec.Operation) []string {
	if len(op.Consumes) > 0 {
		return op.Consumes
	}
	if len(d.Sw.Consumes) > 0 {
		return d.Sw.Consumes
	}
	return []string{"application/json"}
}

// Bind evaluates a request against an operation of the document.
func (d *Doc) Bind(req *Request) Bound {
	res := Bound{Values: map[string]any{}, Absent: map[string]bool{}, Loose: map[string]bool{}}
	op, params, err := d.Operation(req.Method, req.Path)
	if err != nil {
		res.Verdict = Reject
		res.Reasons = append(res.Reasons, "routing: "+err.Error())
		return res
	}
	reject := func(f string, a ...any) {
		res.Verdict = Reject
		res.Reasons = append(res.Reasons, fmt.Sprintf(f, a...))
	}
	unspec := false
	hasBodyish := false
	for _, p := range params {
		if p.In == "body" || p.In == "formData" {
			hasBodyish = true
		}
	}
	if hasBodyish && (req.Body != nil || len(req.Form) > 0 || len(req.Files) > 0) {
		ct := strings.ToLower(strings.TrimSpace(strings.SplitN(req.ContentType, ";", 2)[0]))
		ok := false
		for _, c := range d.Consumes(op) {
			if strings.ToLower(strings.TrimSpace(strings.SplitN(c, ";", 2)[0])) == ct {
				ok = true
			}
		}
		if !ok {
			reject("content type %q not consumed", req.ContentType)
		}
	}
	for _, p := range params {
		p := p
		switch p.In {
		case "body":
			if req.Body == nil || strings.TrimSpace(*req.Body) == "" {
				if p.Required {
					reject("body %s required", p.Name)
				} else {
					res.Absent[p.Name] = true
				}
				continue
			}
			doc, err := jx.Parse([]byte(*req.Body))
			if err != nil {
				reject("body: malformed JSON: %v", err)
				continue
			}
			if p.Schema != nil {
				if errs := d.ValidateSchema(p.Schema, doc); len(errs) > 0 {
					reject("body: %s", strings.Join(errs, "; "))
					continue
				}
			}
			res.Values[p.Name] = doc
		default:
			var raws []string
			present := false
			switch p.In {
			case "query":
				raws, present = req.Query[p.Name]
			case "formData":
				if p.Type == "file" {
					_, present = req.Files[p.Name]
					if !present && p.Required {
						reject("file %s required", p.Name)
					}
					if present {
						res.Values[p.Name] = req.Files[p.Name]
					} else {
						res.Absent[p.Name] = true
					}
					continue
				}
				raws, present = req.Form[p.Name]
			case "header":
				for k, v := range req.Header {
					if http.CanonicalHeaderKey(k) == http.CanonicalHeaderKey(p.Name) {
						raws, present = append(raws, v...), true
					}
				}
			case "path":
				var s string
				s, present = req.PathParams[p.Name]
				raws = []string{s}
				if !present {
					reject("path param %s missing", p.Name)
					continue
				}
			}
			if !present || len(raws) == 0 {
				if p.Required {
					reject("%s %s required", p.In, p.Name)
				} else if p.Default != nil {
					res.Values[p.Name] = jx.Normalize(p.Default)
				} else {
					res.Absent[p.Name] = true
				}
				continue
			}
			v, verdict, why := bindSimple(d, &p, raws)
			if verdict == Accept && why == "loose" {
				res.Loose[p.Name] = true
			}
			switch verdict {
			case Reject:
				reject("%s %s: %s", p.In, p.Name, why)
			case Unspecified:
				unspec = true
				res.Reasons = append(res.Reasons, fmt.Sprintf("unspecified %s %s: %s", p.In, p.Name, why))
			default:
				if v == nil {
					res.Absent[p.Name] = true
				} else {
					res.Values[p.Name] = v
				}
			}
		}
	}
	if res.Verdict != Reject && unspec {
		res.Verdict = Unspecified
	}
	return res
}

func sepFor(cf string) string {
	switch cf {
	case "ssv":
		return " "
	case "tsv":
		return "\t"
	case "pipes":
		return "|"
	default:
		return ","
	}
}

// simple is the common view of a parameter / items / header.
type simple struct {
	spec.SimpleSchema
	spec.CommonValidations
}

func bindSimple(d *Doc, p *spec.Parameter, raws []string) (any, Verdict, string) {
	s := simple{p.SimpleSchema, p.CommonValidations}
	if p.Type == "array" {
		var parts []string
		if p.CollectionFormat == "multi" {
			parts = raws
		} else {
			if len(raws) > 1 {
				return nil, Unspecified, "repeated key for non-multi array"
			}
			if raws[0] == "" {
				if p.Required && !p.AllowEmptyValue {
					return nil, Reject, "empty value for required array"
				}
				if p.AllowEmptyValue && (p.In == "query" || p.In == "formData") && p.MinItems == nil {
					// the spec explicitly allows the empty value: the request is valid, the handler may
					// see an empty list or nothing
					return []any{}, Accept, "loose"
				}
				return nil, Unspecified, "empty value for array"
			}
			parts = strings.Split(raws[0], sepFor(p.CollectionFormat))
		}
		v, verdict, why := convertArray(&s, parts)
		if verdict != Accept {
			return nil, verdict, why
		}
		return validateSimple(d, &s, v)
	}
	if len(raws) > 1 {
		return nil, Unspecified, "repeated key for scalar"
	}
	raw := raws[0]
	if raw == "" {
		plain := p.MinLength == nil && p.Pattern == "" && len(p.Enum) == 0 && p.Format == ""
		allowEmpty := p.AllowEmptyValue && (p.In == "query" || p.In == "formData")
		if p.Type == "string" {
			if p.Required && !allowEmpty {
				return nil, Reject, "empty value for required string"
			}
			if plain {
				// an empty string the spec allows (allowEmptyValue, or an optional unconstrained
				// string): the request is valid; the handler may see "" or nothing
				return "", Accept, "loose"
			}
			return nil, Unspecified, "empty value for a constrained string"
		}
		if p.Required && !allowEmpty {
			return nil, Reject, "empty value for required parameter"
		}
		return nil, Unspecified, "empty value for non-string"
	}
	v, verdict, why := convertScalar(s.Type, s.Format, raw)
	if verdict != Accept {
		return nil, verdict, why
	}
	return validateSimple(d, &s, v)
}

func convertArray(s *simple, parts []string) (any, Verdict, string) {
	out := make([]any, 0, len(parts))
	if s.Items == nil {
		for _, p := range parts {
			out = append(out, p)
		}
		return out, Accept, ""
	}
	it := simple{s.Items.SimpleSchema, s.Items.CommonValidations}
	for _, part := range parts {
		if part == "" {
			return nil, Unspecified, "empty item after split"
		}
		if it.Type == "array" {
			sub := strings.Split(part, sepFor(it.CollectionFormat))
			v, verdict, why := convertArray(&it, sub)
			if verdict != Accept {
				return nil, verdict, why
			}
			out = append(out, v)
			continue
		}
		v, verdict, why := convertScalar(it.Type, it.Format, part)
		if verdict != Accept {
			return nil, verdict, why
		}
		out = append(out, v)
	}
	return out, Accept, ""
}

var intRanges = map[string][2]string{
	"int32":  {"-2147483648", "2147483647"},
	"int64":  {"-9223372036854775808", "9223372036854775807"},
	"":       {"-9223372036854775808", "9223372036854775807"},
	"uint32": {"0", "4294967295"},
	"uint64": {"0", "18446744073709551615"},
	"int8":   {"-128", "127"}, "int16": {"-32768", "32767"}, "uint8": {"0", "255"}, "uint16": {"0", "65535"},
}

// IntInRange reports whether the decimal literal fits the Go type of format.
func IntInRange(lit, format string) bool {
	n, ok := new(big.Int).SetString(lit, 10)
	if !ok {
		return false
	}
	r, ok := intRanges[format]
	if !ok {
		r = intRanges[""]
	}
	lo, _ := new(big.Int).SetString(r[0], 10)
	hi, _ := new(big.Int).SetString(r[1], 10)
	return n.Cmp(lo) >= 0 && n.Cmp(hi) <= 0
}

func isDecimalInt(s string) bool {
	if s == "" {
		return false
	}
	i := 0
	if s[0] == '-' || s[0] == '+' {
		i = 1
	}
	if i >= len(s) {
		return false
	}
	for ; i < len(s); i++ {
		if s[i] < '0' || s[i] > '9' {
			return false
		}
	}
	return true
}

func convertScalar(typ, format, raw string) (any, Verdict, string) {
	switch typ {
	case "integer":
		if !isDecimalInt(raw) {
			return nil, Reject, fmt.Sprintf("%q is not an integer", raw)
		}
		lit := strings.TrimPrefix(raw, "+")
		if !IntInRange(lit, format) {
			return nil, Reject, fmt.Sprintf("%q out of range for %s", raw, format)
		}
		if raw[0] == '+' {
			return nil, Unspecified, "explicit plus sign"
		}
		n, _ := new(big.Int).SetString(lit, 10)
		return json.Number(n.String()), Accept, ""
	case "number":
		f, err := strconv.ParseFloat(raw, 64)
		if err != nil || math.IsInf(f, 0) || math.IsNaN(f) {
			if err == nil {
				return nil, Unspecified, "non-finite float literal"
			}
			return nil, Reject, fmt.Sprintf("%q is not a number", raw)
		}
		if format == "float" && math.Abs(f) > math.MaxFloat32 {
			return nil, Reject, "out of float32 range"
		}
		lower := strings.ToLower(raw)
		if strings.ContainsAny(lower, "xp_") || strings.HasPrefix(lower, "+") || strings.Contains(lower, "inf") || strings.Contains(lower, "nan") {
			return nil, Unspecified, "exotic float spelling"
		}
		return json.Number(strconv.FormatFloat(f, 'g', -1, 64)), Accept, ""
	case "boolean":
		switch raw {
		case "true":
			return true, Accept, ""
		case "false":
			return false, Accept, ""
		}
		// other spellings that Go's strconv.ParseBool knows (1, t, TRUE, ...): go-swagger
		// uses the lenient swag.ConvertBool; Swagger 2.0 itself only knows true/false.
		// Left open. Anything else is not a boolean under any reading.
		if _, err := strconv.ParseBool(raw); err == nil {
			return nil, Unspecified, "non-canonical boolean spelling"
		}
		switch strings.ToLower(raw) {
		case "yes", "ok", "y", "on", "selected", "checked", "enabled", "no", "n", "off", "unselected", "unchecked", "disabled":
			// the lenient word list of swag.ConvertBool (and its natural opposites): a deliberate,
			// documented leniency of the runtime, left open
			return nil, Unspecified, "lenient boolean word"
		}
		return nil, Reject, fmt.Sprintf("%q is not a boolean", raw)
	case "string", "":
		return raw, Accept, ""
	}
	return raw, Unspecified, "unknown simple type " + typ
}

// SimpleToSchema lifts a simple schema (parameter, items, header) to a JSON schema.
func SimpleToSchema(s *simple) *spec.Schema {
	sc := new(spec.Schema)
	if s.Type != "" {
		sc.Type = spec.StringOrArray{s.Type}
	}
	sc.Format = s.Format
	sc.Maximum, sc.ExclusiveMaximum = s.Maximum, s.ExclusiveMaximum
	sc.Minimum, sc.ExclusiveMinimum = s.Minimum, s.ExclusiveMinimum
	sc.MaxLength, sc.MinLength, sc.Pattern = s.MaxLength, s.MinLength, s.Pattern
	sc.MaxItems, sc.MinItems, sc.UniqueItems = s.MaxItems, s.MinItems, s.UniqueItems
	sc.MultipleOf = s.MultipleOf
	sc.Enum = s.Enum
	if s.Items != nil {
		it := simple{s.Items.SimpleSchema, s.Items.CommonValidations}
		sc.Items = &spec.SchemaOrArray{Schema: SimpleToSchema(&it)}
	}
	return sc
}

func validateSimple(d *Doc, s *simple, v any) (any, Verdict, string) {
	sc := SimpleToSchema(s)
	if errs := d.ValidateSchema(sc, v); len(errs) > 0 {
		return nil, Reject, strings.Join(errs, "; ")
	}
	// string formats: the reference schema validator covers registered formats;
	// double-check through the registry so unknown formats are not silently accepted
	if s.Type == "string" && s.Format != "" {
		if str, ok := v.(string); ok && strfmt.Default.ContainsName(s.Format) && !strfmt.Default.Validates(s.Format, str) {
			return nil, Reject, fmt.Sprintf("%q is not a valid %s", str, s.Format)
		}
	}
	return v, Accept, ""
}

// EncodeSimple is the reference encoder: typed JSON value -> raw strings for a parameter.
func EncodeSimple(p *spec.Parameter, v any) []string {
	s := simple{p.SimpleSchema, p.CommonValidations}
	if p.Type == "array" {
		arr, _ := v.([]any)
		if p.CollectionFormat == "multi" {
			out := make([]string, 0, len(arr))
			for _, x := range arr {
				out = append(out, encodeItem(s.Items, x))
			}
			return out
		}
		parts := make([]string, 0, len(arr))
		for _, x := range arr {
			parts = append(parts, encodeItem(s.Items, x))
		}
		return []string{strings.Join(parts, sepFor(p.CollectionFormat))}
	}
	return []string{ScalarText(v)}
}

func encodeItem(it *spec.Items, v any) string {
	if it != nil && it.Type == "array" {
		arr, _ := v.([]any)
		parts := make([]string, 0, len(arr))
		for _, x := range arr {
			parts = append(parts, encodeItem(it.Items, x))
		}
		return strings.Join(parts, sepFor(it.CollectionFormat))
	}
	return ScalarText(v)
}

// ScalarText renders a typed scalar canonically.
func ScalarText(v any) string {
	switch t := v.(type) {
	case string:
		return t
	case json.Number:
		return string(t)
	case bool:
		return strconv.FormatBool(t)
	case float64:
		return strconv.FormatFloat(t, 'g', -1, 64)
	case int:
		return strconv.Itoa(t)
	case int64:
		return strconv.FormatInt(t, 10)
	case nil:
		return ""
	}
	return fmt.Sprint(v)
}

// SortedReasons is for stable output.
func SortedReasons(r []string) []string { o := append([]string(nil), r...); sort.Strings(o); return o }
