// Package oracle holds the reference semantics the monitors compare against.
// It depends only on go-openapi libraries from the module cache and on the
// *input* documents, never on anything produced by the code under test.
package oracle

import (
	"encoding/json"
	"fmt"
	"sync"

	"github.com/go-openapi/spec"
	"github.com/go-openapi/strfmt"
	"github.com/go-openapi/validate"
)

// Doc is an input Swagger 2.0 document, typed.
type Doc struct {
	Raw []byte
	Sw  *spec.Swagger
	mu  sync.Mutex
}

func LoadDoc(raw []byte) (*Doc, error) {
	sw := new(spec.Swagger)
	if err := json.Unmarshal(raw, sw); err != nil {
		return nil, err
	}
	return &Doc{Raw: raw, Sw: sw}, nil
}

// ValidateSchema checks data (as produced by jx.Parse: json.Number numbers)
// against schema, resolving $refs against the document. It returns the list of
// error messages (empty = valid). Panics of the reference validator are
// reported as an error string starting with "oracle-panic".
func (d *Doc) ValidateSchema(schema *spec.Schema, data any) (errs []string) {
	defer func() {
		if r := recover(); r != nil {
			errs = []string{fmt.Sprintf("oracle-panic: %v", r)}
		}
	}()
	d.mu.Lock()
	defer d.mu.Unlock()
	var root any
	if d != nil && d.Sw != nil {
		root = d.Sw
	}
	v := validate.NewSchemaValidator(schema, root, "", strfmt.Default)
	res := v.Validate(data)
	if res == nil {
		return nil
	}
	for _, e := range res.Errors {
		errs = append(errs, e.Error())
	}
	return errs
}

// SchemaFromJSON builds a *spec.Schema from an untyped tree.
func SchemaFromJSON(v any) (*spec.Schema, error) {
	b, err := json.Marshal(v)
	if err != nil {
		return nil, err
	}
	s := new(spec.Schema)
	if err := json.Unmarshal(b, s); err != nil {
		return nil, err
	}
	return s, nil
}
