package oracle

import (
	"encoding/json"
	"fmt"
	"strings"

	"verif/rig/jx"
)

// ModelOracle decides which verdicts a generated model may give for a JSON
// document, under the reference validator plus exactly the documented
// exceptions of docs/reference/models/schemas.md (see DESIGN.md, C02):
//  1. additionalProperties:false is not enforced (unless strict);
//  2. untyped sub-schemas and property-less objects are not validated;
//  3. an explicit zero value (0, "", false) of an optional property — or of a
//     required one that is readOnly, has a default or is x-nullable:false — may
//     be treated as absent;
//  4. tuples are partial (handled by callers).
//
// Unspecified (either verdict accepted): u1 a required property with a default
// that is absent; u2 "" for format byte; null anywhere but an x-nullable property.
type ModelOracle struct {
	defs   jx.J // original definitions
	doc    *Doc // document with rules 1 and 2 applied
	strict bool
}

func NewModelOracle(spec jx.J, strict bool) (*ModelOracle, error) {
	orig, _ := spec["definitions"].(jx.J)
	t := jx.CloneJ(spec)
	tdefs, _ := t["definitions"].(jx.J)
	for k, v := range tdefs {
		tdefs[k] = relax(v, strict)
	}
	stripHints(t)
	d, err := LoadDoc(jx.Marshal(t))
	if err != nil {
		return nil, err
	}
	return &ModelOracle{defs: orig, doc: d, strict: strict}, nil
}

func stripHints(v any) {
	switch t := v.(type) {
	case map[string]any:
		for k, x := range t {
			if strings.HasPrefix(k, "x-vf-") {
				delete(t, k)
				continue
			}
			stripHints(x)
		}
	case []any:
		for _, x := range t {
			stripHints(x)
		}
	}
}

// StripHints removes the generator's x-vf-* markers from a document.
func StripHints(v any) { stripHints(v) }

func isSchemaLess(s jx.J) bool {
	if _, ok := s["$ref"]; ok {
		return false
	}
	if _, ok := s["allOf"]; ok {
		return false
	}
	t, hasType := s["type"].(string)
	if !hasType {
		_, hasProps := s["properties"]
		_, hasItems := s["items"]
		_, hasAP := s["additionalProperties"].(jx.J)
		return !hasProps && !hasItems && !hasAP
	}
	if t == "object" {
		_, hasProps := s["properties"]
		_, hasAP := s["additionalProperties"].(jx.J)
		return !hasProps && !hasAP
	}
	return false
}

func relax(v any, strict bool) any {
	s, ok := v.(jx.J)
	if !ok {
		return v
	}
	if isSchemaLess(s) {
		return jx.J{}
	}
	out := jx.J{}
	for k, x := range s {
		switch k {
		case "additionalProperties":
			if b, isBool := x.(bool); isBool {
				if !b && strict {
					out[k] = false
				}
				continue
			}
			out[k] = relax(x, strict)
		case "properties":
			p := jx.J{}
			for pk, pv := range x.(jx.J) {
				p[pk] = relax(pv, strict)
			}
			out[k] = p
		case "items":
			if arr, isArr := x.([]any); isArr {
				na := make([]any, len(arr))
				for i, it := range arr {
					na[i] = relax(it, strict)
				}
				out[k] = na
			} else {
				out[k] = relax(x, strict)
			}
		case "allOf":
			arr := x.([]any)
			na := make([]any, len(arr))
			for i, it := range arr {
				na[i] = relax(it, strict)
			}
			out[k] = na
		default:
			out[k] = x
		}
	}
	return out
}

// Judgement of one (definition, document) pair.
type Judgement struct {
	Allowed     map[bool]bool // verdicts a generated model may give
	RefValid    bool          // plain reference verdict on the document (after null-as-absent)
	RefErrors   []string
	Unspecified string // non-empty: either verdict accepted, with the reason
	ZeroPaths   []string
}

func (m *ModelOracle) resolve(s jx.J) jx.J {
	for i := 0; i < 20 && s != nil; i++ {
		r, ok := s["$ref"].(string)
		if !ok {
			return s
		}
		s, _ = m.defs[strings.TrimPrefix(r, "#/definitions/")].(jx.J)
	}
	return s
}

func (m *ModelOracle) members(s jx.J, depth int) []jx.J {
	s = m.resolve(s)
	if s == nil {
		return nil
	}
	var out []jx.J
	if all, ok := s["allOf"].([]any); ok && depth < 8 {
		for _, x := range all {
			if xj, ok := x.(jx.J); ok {
				out = append(out, m.members(xj, depth+1)...)
			}
		}
	}
	out = append(out, s)
	return out
}

type walkState struct {
	zero   [][]any // paths of removable zero-valued properties
	nulls  [][]any // paths of nulls at x-nullable properties (treated as absent)
	unspec string
	poly   []polySub // values sitting at a position typed by a discriminated base type
}

type polySub struct {
	val  any
	base string
}

func isZeroScalar(v any) bool {
	switch t := v.(type) {
	case string:
		return t == ""
	case bool:
		return !t
	case json.Number:
		f, ok := jx.Float64(t)
		return ok && f == 0
	case float64:
		return t == 0
	}
	return false
}

func (m *ModelOracle) walk(v any, s jx.J, path []any, st *walkState, depth int) {
	if depth > 12 {
		return
	}
	if depth > 0 {
		if r, ok := s["$ref"].(string); ok {
			name := strings.TrimPrefix(r, "#/definitions/")
			if target, _ := m.defs[name].(jx.J); target != nil {
				if d, _ := target["discriminator"].(string); d != "" {
					st.poly = append(st.poly, polySub{val: v, base: name})
					// keep walking with the subtype's schema, so that its properties are seen
					if sub, perr := m.subtypeFor(name, v); perr == "" && sub != name {
						if ss, _ := m.defs[sub].(jx.J); ss != nil {
							s = ss
						}
					}
				}
			}
		}
	}
	s = m.resolve(s)
	if s == nil {
		return
	}
	switch t := v.(type) {
	case nil:
		if st.unspec == "" {
			st.unspec = "null outside an x-nullable property"
		}
	case string:
		if t == "" && s["format"] == "byte" && st.unspec == "" {
			st.unspec = "u2: empty string for format byte"
		}
	case []any:
		if it, ok := s["items"].(jx.J); ok {
			for i, x := range t {
				m.walk(x, it, append(append([]any{}, path...), i), st, depth+1)
			}
		}
	case map[string]any:
		declared := map[string]bool{}
		for _, mem := range m.members(s, 0) {
			props, _ := mem["properties"].(jx.J)
			req := map[string]bool{}
			if r, ok := mem["required"].([]any); ok {
				for _, x := range r {
					if str, ok := x.(string); ok {
						req[str] = true
					}
				}
			}
			for k, psAny := range props {
				ps, _ := psAny.(jx.J)
				declared[k] = true
				rps := m.resolve(ps)
				val, present := t[k]
				if !present {
					if req[k] && rps != nil && rps["default"] != nil && st.unspec == "" {
						st.unspec = "u1: required property with a default is absent"
					}
					continue
				}
				p := append(append([]any{}, path...), k)
				if val == nil {
					nl, _ := ps["x-nullable"].(bool)
					if rps != nil {
						if b, ok := rps["x-nullable"].(bool); ok && b {
							nl = true
						}
					}
					if nl {
						st.nulls = append(st.nulls, p)
					} else if st.unspec == "" {
						st.unspec = "null outside an x-nullable property"
					}
					continue
				}
				if isZeroScalar(val) && rps != nil {
					nonNullable := false
					if b, ok := ps["x-nullable"].(bool); ok && !b {
						nonNullable = true
					}
					if b, ok := rps["x-nullable"].(bool); ok && !b {
						nonNullable = true
					}
					ro, _ := rps["readOnly"].(bool)
					if ro2, _ := ps["readOnly"].(bool); ro2 {
						ro = true
					}
					if !req[k] || ro || rps["default"] != nil || nonNullable {
						st.zero = append(st.zero, p)
					}
				}
				m.walk(val, ps, p, st, depth+1)
			}
		}
		for _, mem := range m.members(s, 0) {
			if ap, ok := mem["additionalProperties"].(jx.J); ok {
				for k, x := range t {
					if !declared[k] {
						m.walk(x, ap, append(append([]any{}, path...), k), st, depth+1)
					}
				}
			}
		}
	}
}

func deletePath(root any, path []any) {
	cur := root
	for i, p := range path {
		last := i == len(path)-1
		switch k := p.(type) {
		case string:
			mm, ok := cur.(map[string]any)
			if !ok {
				return
			}
			if last {
				delete(mm, k)
				return
			}
			cur = mm[k]
		case int:
			a, ok := cur.([]any)
			if !ok || k >= len(a) {
				return
			}
			cur = a[k]
		}
	}
}

// SchemaFor returns the (original) schema to judge a document of a definition
// against: for a polymorphic base type, the subtype named by the discriminator.
func (m *ModelOracle) subtypeFor(defName string, doc any) (string, string) {
	s, _ := m.defs[defName].(jx.J)
	s = m.resolve(s)
	if s == nil {
		return defName, ""
	}
	disc, _ := s["discriminator"].(string)
	if disc == "" {
		return defName, ""
	}
	obj, ok := doc.(map[string]any)
	if !ok {
		return defName, ""
	}
	val, _ := obj[disc].(string)
	if val == "" {
		return defName, "no discriminator value"
	}
	if val == defName {
		return defName, ""
	}
	if _, ok := m.defs[val]; ok {
		return val, ""
	}
	for name, d := range m.defs {
		if dj, ok := d.(jx.J); ok && dj["x-class"] == val {
			return name, ""
		}
	}
	return defName, "unknown discriminator value " + val
}

// Judge computes the allowed verdicts for decoding+validating doc as defName.
func (m *ModelOracle) Judge(defName string, doc any) Judgement {
	j := Judgement{Allowed: map[bool]bool{}}
	target, polyErr := m.subtypeFor(defName, doc)
	if polyErr != "" {
		j.Allowed[false] = true
		j.RefErrors = []string{polyErr}
		return j
	}
	schema, _ := m.defs[target].(jx.J)
	if schema == nil {
		j.Unspecified = "definition not found: " + target
		j.Allowed[true], j.Allowed[false] = true, true
		return j
	}
	st := &walkState{}
	if doc == nil {
		st.unspec = "null document"
	}
	m.walk(doc, schema, nil, st, 0)
	work := jx.Clone(doc)
	for _, p := range st.nulls {
		deletePath(work, p)
	}
	refSchema := m.doc.Sw.Definitions[target]
	errs := m.doc.ValidateSchema(&refSchema, work)
	// Swagger polymorphism: a value at a position typed by a discriminated base type
	// must be valid for the subtype its discriminator names (JSON-schema knows nothing
	// of discriminators)
	for _, ps := range st.poly {
		sub, perr := m.subtypeFor(ps.base, ps.val)
		if perr != "" {
			errs = append(errs, "polymorphic value: "+perr)
			continue
		}
		if sub == ps.base {
			continue
		}
		subSchema := m.doc.Sw.Definitions[sub]
		for _, e := range m.doc.ValidateSchema(&subSchema, ps.val) {
			errs = append(errs, "as "+sub+": "+e)
		}
	}
	if len(st.poly) > 0 && len(st.zero) > 0 && j.Unspecified == "" {
		st.unspec = "zero-valued optional property inside a polymorphic container"
	}
	j.RefValid, j.RefErrors = len(errs) == 0, errs
	for _, e := range errs {
		if strings.HasPrefix(e, "oracle-panic") {
			j.Unspecified = e
		}
	}
	if st.unspec != "" && j.Unspecified == "" {
		j.Unspecified = st.unspec
	}
	if len(st.zero) > 6 && j.Unspecified == "" {
		j.Unspecified = fmt.Sprintf("%d zero-valued optional properties (more than the 6 evaluated exhaustively)", len(st.zero))
	}
	if j.Unspecified != "" {
		j.Allowed[true], j.Allowed[false] = true, true
		return j
	}
	j.Allowed[j.RefValid] = true
	for _, p := range st.zero {
		j.ZeroPaths = append(j.ZeroPaths, fmt.Sprint(p))
	}
	for mask := 1; mask < 1<<len(st.zero); mask++ {
		if j.Allowed[true] && j.Allowed[false] {
			break
		}
		w := jx.Clone(work)
		for i, p := range st.zero {
			if mask&(1<<i) != 0 {
				deletePath(w, p)
			}
		}
		j.Allowed[len(m.doc.ValidateSchema(&refSchema, w)) == 0] = true
	}
	return j
}
