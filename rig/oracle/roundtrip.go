package oracle

import (
	"fmt"
	"strings"

	"github.com/go-openapi/strfmt"

	"verif/rig/jx"
)

// RTIssue is one loss / change / addition observed between a document and its
// decode→encode image.
type RTIssue struct {
	Kind   string // lost-key required-omitted changed-value added-key type-changed
	Path   string // path class: array indices as [], map keys as *
	Detail string
	Out    any // for added-key: the value the output carries
}

func isEmptyJSON(v any) bool {
	switch t := v.(type) {
	case nil:
		return true
	case []any:
		return len(t) == 0
	case map[string]any:
		return len(t) == 0
	}
	return isZeroScalar(v)
}

// RoundTrip compares in (a reference-valid document of defName) with out (what
// the generated model re-encoded) under exactly the tolerances of C05: an
// optional property holding the zero value of its type may be omitted; an
// absent array may be rendered as null; undeclared properties may be dropped
// where additionalProperties is absent or false.
func (m *ModelOracle) RoundTrip(defName string, in, out any) []RTIssue {
	target, perr := m.subtypeFor(defName, in)
	if perr != "" {
		return nil
	}
	schema, _ := m.defs[target].(jx.J)
	var issues []RTIssue
	m.rt(in, out, schema, "", &issues, 0)
	return issues
}

func (m *ModelOracle) rt(in, out any, s jx.J, path string, issues *[]RTIssue, depth int) {
	add := func(kind, p, detail string) { *issues = append(*issues, RTIssue{Kind: kind, Path: p, Detail: detail}) }
	if depth > 14 {
		return
	}
	// polymorphic position: compare under the subtype named by the input
	if s != nil {
		if r, ok := s["$ref"].(string); ok {
			name := strings.TrimPrefix(r, "#/definitions/")
			if t, _ := m.defs[name].(jx.J); t != nil {
				if d, _ := t["discriminator"].(string); d != "" {
					if sub, perr := m.subtypeFor(name, in); perr == "" {
						s, _ = m.defs[sub].(jx.J)
					}
				}
			}
		}
	}
	s = m.resolve(s)
	if s == nil || isSchemaLess(s) {
		if d := jx.Diff(in, out, path); d != "" {
			add("changed-value", path, d)
		}
		return
	}
	switch ti := in.(type) {
	case map[string]any:
		to, ok := out.(map[string]any)
		if !ok {
			add("type-changed", path, fmt.Sprintf("object became %s", jx.Compact(out)))
			return
		}
		declared := map[string]jx.J{}
		required := map[string]bool{}
		var apSchema jx.J
		apAllowed := false
		for _, mem := range m.members(s, 0) {
			if props, ok := mem["properties"].(jx.J); ok {
				for k, v := range props {
					if vj, ok := v.(jx.J); ok {
						declared[k] = vj
					}
				}
			}
			if r, ok := mem["required"].([]any); ok {
				for _, x := range r {
					if str, ok := x.(string); ok {
						required[str] = true
					}
				}
			}
			switch ap := mem["additionalProperties"].(type) {
			case jx.J:
				apSchema, apAllowed = ap, true
			case bool:
				if ap {
					apAllowed = true
				}
			}
		}
		for _, k := range jx.Keys(ti) {
			vi := ti[k]
			vo, present := to[k]
			if ps, ok := declared[k]; ok {
				p := path + "/" + k
				if !present {
					switch {
					case required[k]:
						add("required-omitted", p, fmt.Sprintf("required property with value %s is missing from the output", jx.Compact(vi)))
					case isEmptyJSON(vi):
						// tolerated: optional property holding the zero value of its type
					default:
						add("lost-key", p, fmt.Sprintf("value %s is missing from the output", jx.Compact(vi)))
					}
					continue
				}
				if vi == nil && vo == nil {
					continue
				}
				if vo == nil && isEmptyJSON(vi) && !required[k] {
					continue // empty optional rendered as null
				}
				m.rt(vi, vo, ps, p, issues, depth+1)
				continue
			}
			// undeclared
			if !apAllowed {
				continue // may be dropped (or kept)
			}
			p := path + "/*"
			if !present {
				add("lost-key", p, fmt.Sprintf("additional property %q=%s is missing from the output", k, jx.Compact(vi)))
				continue
			}
			if apSchema != nil {
				m.rt(vi, vo, apSchema, p, issues, depth+1)
			} else if d := jx.Diff(vi, vo, p); d != "" {
				add("changed-value", p, d)
			}
		}
		for _, k := range jx.Keys(to) {
			if _, ok := ti[k]; ok {
				continue
			}
			ps, isDecl := declared[k]
			if isDecl && to[k] == nil {
				if rs := m.resolve(ps); rs != nil && typeOfSchema(rs) == "array" {
					continue // tolerated: absent array rendered as null
				}
			}
			if isDecl {
				// x-omitempty:false is the documented request to render the zero value of an
				// absent property; that rendering is not counted as an addition
				rs := m.resolve(ps)
				noOmit := false
				if b, ok := ps["x-omitempty"].(bool); ok && !b {
					noOmit = true
				}
				if rs != nil {
					if b, ok := rs["x-omitempty"].(bool); ok && !b {
						noOmit = true
					}
				}
				if noOmit && isEmptyJSON(to[k]) {
					continue
				}
			}
			p := path + "/*"
			if isDecl {
				p = path + "/" + k
			}
			*issues = append(*issues, RTIssue{Kind: "added-key", Path: p, Detail: fmt.Sprintf("output carries %q=%s which the input does not have", k, jx.Compact(to[k])), Out: to[k]})
		}
	case []any:
		to, ok := out.([]any)
		if !ok {
			add("type-changed", path, fmt.Sprintf("array became %s", jx.Compact(out)))
			return
		}
		if len(ti) != len(to) {
			add("changed-value", path+"[]", fmt.Sprintf("array length %d became %d", len(ti), len(to)))
			return
		}
		if tup, ok := s["items"].([]any); ok {
			for i := range ti {
				var is jx.J
				if i < len(tup) {
					is, _ = tup[i].(jx.J)
				}
				m.rt(ti[i], to[i], is, path+"[]", issues, depth+1)
			}
			return
		}
		is, _ := s["items"].(jx.J)
		for i := range ti {
			m.rt(ti[i], to[i], is, path+"[]", issues, depth+1)
		}
	case string:
		so, ok := out.(string)
		if !ok {
			add("type-changed", path, fmt.Sprintf("string %q became %s", ti, jx.Compact(out)))
			return
		}
		if ti == so {
			return
		}
		switch s["format"] {
		case "date-time":
			a, e1 := strfmt.ParseDateTime(ti)
			b, e2 := strfmt.ParseDateTime(so)
			if e1 == nil && e2 == nil && a.Equal(b) {
				return
			}
		case "duration":
			a, e1 := strfmt.ParseDuration(ti)
			b, e2 := strfmt.ParseDuration(so)
			if e1 == nil && e2 == nil && a == b {
				return
			}
		}
		add("changed-value", path, fmt.Sprintf("%q became %q", ti, so))
	default:
		if d := jx.Diff(in, out, path); d != "" {
			add("changed-value", path, d)
		}
	}
}

func typeOfSchema(s jx.J) string {
	if t, ok := s["type"].(string); ok {
		return t
	}
	if _, ok := s["items"]; ok {
		return "array"
	}
	return ""
}
