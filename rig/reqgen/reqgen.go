// Package reqgen turns parameter atoms into HTTP requests: a valid assignment
// encoded by the reference encoder, then one mutation per rule.
package reqgen

import (
	"bytes"
	"encoding/base64"
	"encoding/json"
	"fmt"
	"mime/multipart"
	"net/url"
	"sort"
	"strings"

	"verif/rig/instgen"
	"verif/rig/jx"
	"verif/rig/oracle"
	"verif/rig/servrig"
	"verif/rig/specgen"
)

type J = jx.J

// Case is one request for an operation.
type Case struct {
	Label string // rule exercised
	Req   *oracle.Request
	Value any // the typed value the request carries for the parameter under test (nil when not applicable)
}

func sep(cf string) string {
	switch cf {
	case "ssv":
		return " "
	case "tsv":
		return "\t"
	case "pipes":
		return "|"
	}
	return ","
}

// lift turns a simple parameter/items object into a JSON-schema tree for instgen.
func lift(p J) J {
	s := J{}
	for _, k := range []string{"type", "format", "minimum", "maximum", "exclusiveMinimum", "exclusiveMaximum", "minLength", "maxLength", "pattern", "minItems", "maxItems", "uniqueItems", "multipleOf", "enum", "x-vf-samples", "x-vf-docs"} {
		if v, ok := p[k]; ok {
			s[k] = v
		}
	}
	if it, ok := p["items"].(J); ok {
		s["items"] = lift(it)
	}
	return s
}

// encode renders a typed value as raw strings for the parameter; ok=false when the
// value cannot travel in this parameter (objects, nulls, items containing the delimiter).
func encode(p J, v any) (raws []string, ok bool) {
	if p["type"] == "array" {
		arr, isArr := v.([]any)
		if !isArr {
			s, ok := scalarText(v)
			return []string{s}, ok
		}
		cf, _ := p["collectionFormat"].(string)
		items, _ := p["items"].(J)
		var parts []string
		for _, x := range arr {
			var part string
			if items != nil && items["type"] == "array" {
				r, ok := encode(items, x)
				if !ok || len(r) != 1 {
					return nil, false
				}
				part = r[0]
			} else {
				s, ok := scalarText(x)
				if !ok {
					return nil, false
				}
				part = s
			}
			if cf != "multi" && strings.Contains(part, sep(cf)) {
				return nil, false
			}
			parts = append(parts, part)
		}
		if cf == "multi" {
			return parts, true
		}
		return []string{strings.Join(parts, sep(cf))}, true
	}
	s, ok := scalarText(v)
	return []string{s}, ok
}

func scalarText(v any) (string, bool) {
	switch t := v.(type) {
	case string:
		return t, true
	case json.Number:
		return string(t), true
	case bool:
		if t {
			return "true", true
		}
		return "false", true
	}
	return "", false
}

func place(req *oracle.Request, in, name string, raws []string) {
	switch in {
	case "query":
		req.Query[name] = raws
	case "header":
		req.Header[name] = raws
	case "formData":
		req.Form[name] = raws
	case "path":
		req.PathParams[name] = raws[0]
	}
}

func base(op specgen.ParamOp) *oracle.Request {
	r := &oracle.Request{Method: op.Method, Path: op.Path, PathParams: map[string]string{}, Query: map[string][]string{}, Header: map[string][]string{}, Form: map[string][]string{}, Files: map[string]string{}}
	return r
}

// fill puts a valid value for every parameter of the operation except skip.
func fill(op specgen.ParamOp, defs J, r *oracle.Request, skip string) {
	for _, a := range op.Atoms {
		if a.Name() == skip {
			continue
		}
		gen := instgen.New(defs)
		switch {
		case a.Body:
			b := jx.Compact(gen.Valid(a.Param["schema"].(J)))
			r.Body = &b
			r.ContentType = "application/json"
		case a.Param["type"] == "file":
			r.Files[a.Name()] = "file content of " + a.Name()
			r.ContentType = "multipart/form-data"
		default:
			if raws, ok := encode(a.Param, gen.Valid(lift(a.Param))); ok {
				place(r, a.In(), a.Name(), raws)
			}
			if a.In() == "formData" && r.ContentType == "" {
				r.ContentType = "application/x-www-form-urlencoded"
			}
		}
	}
}

// Encode is the exported reference encoder for one parameter value.
func Encode(p J, v any) ([]string, bool) { return encode(p, v) }

// Cases generates the requests that exercise one parameter of an operation.
func Cases(op specgen.ParamOp, target specgen.ParamAtom, defs J) []Case {
	var out []Case
	gen := instgen.New(defs)
	mk := func(label string, f func(r *oracle.Request) bool, val any) {
		r := base(op)
		fill(op, defs, r, target.Name())
		if f(r) {
			out = append(out, Case{Label: label, Req: r, Value: val})
		}
	}
	in, name := target.In(), target.Name()
	switch {
	case target.Body:
		for _, v := range gen.Variants(target.Param["schema"].(J)) {
			v := v
			mk(v.Label+"@"+v.Path, func(r *oracle.Request) bool {
				b := jx.Compact(v.Doc)
				r.Body, r.ContentType = &b, "application/json"
				return true
			}, v.Doc)
		}
		mk("body-absent", func(r *oracle.Request) bool { r.Body = nil; r.ContentType = "application/json"; return true }, nil)
		mk("body-malformed-json", func(r *oracle.Request) bool { b := `{"a":`; r.Body, r.ContentType = &b, "application/json"; return true }, nil)
		mk("body-wrong-content-type", func(r *oracle.Request) bool {
			b := jx.Compact(gen.Valid(target.Param["schema"].(J)))
			r.Body, r.ContentType = &b, "text/plain"
			return true
		}, nil)
	case target.Param["type"] == "file":
		mk("file-present", func(r *oracle.Request) bool { r.Files[name] = "hello file"; r.ContentType = "multipart/form-data"; return true }, "hello file")
		mk("file-absent", func(r *oracle.Request) bool { delete(r.Files, name); r.ContentType = "multipart/form-data"; return true }, nil)
	default:
		seen := map[string]bool{}
		for _, v := range gen.Variants(lift(target.Param)) {
			raws, ok := encode(target.Param, v.Doc)
			if !ok {
				continue
			}
			key := strings.Join(raws, "\x00")
			if seen[key] {
				continue
			}
			seen[key] = true
			if in == "path" && (len(raws) != 1 || raws[0] == "" || strings.Contains(raws[0], "/")) {
				continue
			}
			v := v
			mk(v.Label+"@"+v.Path, func(r *oracle.Request) bool {
				place(r, in, name, raws)
				if in == "formData" {
					r.ContentType = "application/x-www-form-urlencoded"
				}
				return true
			}, v.Doc)
		}
		if in != "path" {
			mk("absent", func(r *oracle.Request) bool {
				if in == "formData" {
					r.ContentType = "application/x-www-form-urlencoded"
				}
				return true
			}, nil)
			mk("empty-value", func(r *oracle.Request) bool {
				place(r, in, name, []string{""})
				if in == "formData" {
					r.ContentType = "application/x-www-form-urlencoded"
				}
				return true
			}, nil)
			if raws, ok := encode(target.Param, gen.Valid(lift(target.Param))); ok && len(raws) == 1 && in != "header" {
				mk("repeated-key", func(r *oracle.Request) bool {
					place(r, in, name, []string{raws[0], raws[0]})
					if in == "formData" {
						r.ContentType = "application/x-www-form-urlencoded"
					}
					return true
				}, nil)
			}
		}
		if target.Param["type"] == "array" {
			cf, _ := target.Param["collectionFormat"].(string)
			other := "|"
			if cf == "pipes" {
				other = ","
			}
			if cf != "multi" {
				v0, v1 := gen.ValidN(lift(target.Param["items"].(J)), 0, 1), gen.ValidN(lift(target.Param["items"].(J)), 1, 1)
				s0, ok0 := scalarText(v0)
				s1, ok1 := scalarText(v1)
				if ok0 && ok1 && (in != "path") {
					mk("wrong-delimiter", func(r *oracle.Request) bool {
						place(r, in, name, []string{s0 + other + s1})
						if in == "formData" {
							r.ContentType = "application/x-www-form-urlencoded"
						}
						return true
					}, nil)
					mk("empty-item", func(r *oracle.Request) bool {
						place(r, in, name, []string{s0 + sep(cf) + sep(cf) + s1})
						if in == "formData" {
							r.ContentType = "application/x-www-form-urlencoded"
						}
						return true
					}, nil)
				}
			}
		}
	}
	return out
}

// ToHTTP renders a reference-level request as a driver request.
func ToHTTP(id string, r *oracle.Request, basePath string) servrig.Req {
	p := r.Path
	for k, v := range r.PathParams {
		p = strings.ReplaceAll(p, "{"+k+"}", url.PathEscape(v))
	}
	u := basePath + p
	if len(r.Query) > 0 {
		q := url.Values{}
		for _, k := range sortedKeys(r.Query) {
			for _, v := range r.Query[k] {
				q.Add(k, v)
			}
		}
		u += "?" + q.Encode()
	}
	out := servrig.Req{ID: id, Method: r.Method, URL: u, Header: map[string][]string{}}
	for k, v := range r.Header {
		out.Header[k] = v
	}
	var body []byte
	switch {
	case len(r.Files) > 0 || strings.HasPrefix(r.ContentType, "multipart/form-data"):
		var buf bytes.Buffer
		w := multipart.NewWriter(&buf)
		for _, k := range sortedKeys(r.Form) {
			for _, v := range r.Form[k] {
				_ = w.WriteField(k, v)
			}
		}
		fk := make([]string, 0, len(r.Files))
		for k := range r.Files {
			fk = append(fk, k)
		}
		sort.Strings(fk)
		for _, k := range fk {
			fw, _ := w.CreateFormFile(k, k+".bin")
			_, _ = fw.Write([]byte(r.Files[k]))
		}
		_ = w.Close()
		body = buf.Bytes()
		out.Header["Content-Type"] = []string{w.FormDataContentType()}
	case len(r.Form) > 0 || r.ContentType == "application/x-www-form-urlencoded":
		q := url.Values{}
		for _, k := range sortedKeys(r.Form) {
			for _, v := range r.Form[k] {
				q.Add(k, v)
			}
		}
		body = []byte(q.Encode())
		out.Header["Content-Type"] = []string{"application/x-www-form-urlencoded"}
	case r.Body != nil:
		body = []byte(*r.Body)
		if r.ContentType != "" {
			out.Header["Content-Type"] = []string{r.ContentType}
		}
	default:
		if r.ContentType != "" && (r.Method == "POST" || r.Method == "PUT" || r.Method == "PATCH") {
			out.Header["Content-Type"] = []string{r.ContentType}
		}
	}
	if body != nil {
		out.BodyB64 = base64.StdEncoding.EncodeToString(body)
	}
	return out
}

func sortedKeys(m map[string][]string) []string {
	ks := make([]string, 0, len(m))
	for k := range m {
		ks = append(ks, k)
	}
	sort.Strings(ks)
	return ks
}

var _ = fmt.Sprint
