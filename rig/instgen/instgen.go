// Package instgen generates JSON instances for a Swagger 2.0 schema: canonical
// valid values and labelled one-fault neighbours (boundaries of every
// constraint, zero values, type confusion, missing / extra properties).
// Labels are heuristic; validity is always decided by the reference validator.
package instgen

import (
	"encoding/json"
	"fmt"
	"math"
	"strconv"
	"strings"

	"verif/rig/jx"
	"verif/rig/specgen"
)

type J = jx.J

// Variant is one generated instance.
type Variant struct {
	Doc   any
	Label string // fault class, e.g. "valid", "min-1", "len+1", "zero", "missing:p", "type:string->number"
	Path  string // where the fault sits ("" = root)
}

type Gen struct {
	Defs J // definitions of the document, for $ref resolution
	// Hints: per schema identity (pointer of the J map) extra samples; filled by callers.
	Samples map[string][]any // keyed by x-vf-atom marker (optional)
	MaxPer  int              // cap of variants per (sub)schema
}

func New(defs J) *Gen { return &Gen{Defs: defs, MaxPer: 80} }

func (g *Gen) resolve(s J) J {
	for i := 0; i < 20; i++ {
		r, ok := s["$ref"].(string)
		if !ok {
			return s
		}
		name := strings.TrimPrefix(r, "#/definitions/")
		t, ok := g.Defs[name].(J)
		if !ok {
			return J{}
		}
		s = t
	}
	return s
}

func num(v any) (float64, bool) { return jx.Float64(v) }

func typeOf(s J) string {
	if t, ok := s["type"].(string); ok {
		return t
	}
	if _, ok := s["properties"]; ok {
		return "object"
	}
	if _, ok := s["additionalProperties"]; ok {
		return "object"
	}
	if _, ok := s["allOf"]; ok {
		return "allOf"
	}
	if _, ok := s["items"]; ok {
		return "array"
	}
	return ""
}

func intLit(f float64) json.Number { return json.Number(strconv.FormatInt(int64(f), 10)) }
func fltLit(f float64) json.Number { return json.Number(strconv.FormatFloat(f, 'g', -1, 64)) }

// samples returns the distinct valid sample values hinted on the schema.
func samples(s J) []any {
	if v, ok := s["x-vf-samples"].([]any); ok {
		return v
	}
	return nil
}

// ValidN returns the i-th distinct canonical valid value for a schema (best effort).
func (g *Gen) ValidN(s J, i int, depth int) any {
	s = g.resolve(s)
	if sm := samples(s); len(sm) > 0 {
		return jx.Clone(sm[i%len(sm)])
	}
	if e, ok := s["enum"].([]any); ok && len(e) > 0 {
		return jx.Clone(e[i%len(e)])
	}
	switch typeOf(s) {
	case "string":
		if f, _ := s["format"].(string); f != "" {
			if fs, ok := specgen.FormatSamples[f]; ok {
				return fs.Valid[i%len(fs.Valid)]
			}
		}
		minL, maxL := 0.0, math.Inf(1)
		if v, ok := num(s["minLength"]); ok {
			minL = v
		}
		if v, ok := num(s["maxLength"]); ok {
			maxL = v
		}
		l := math.Max(minL, 3)
		if l > maxL {
			l = maxL
		}
		base := strings.Repeat("a", int(l))
		if i > 0 && l > 0 {
			b := []byte(base)
			b[len(b)-1] = byte('a' + i%26)
			if l > 1 {
				b[0] = byte('a' + (i/26)%26)
			}
			base = string(b)
		}
		return base
	case "integer", "number":
		isInt := typeOf(s) == "integer"
		step := 1.0
		if m, ok := num(s["multipleOf"]); ok && m > 0 {
			step = m
		}
		lo, hasLo := num(s["minimum"])
		hi, hasHi := num(s["maximum"])
		if f, _ := s["format"].(string); strings.HasPrefix(f, "uint") && !hasLo {
			lo, hasLo = 0, true
		}
		start := 1.0
		if !isInt && step == 1 {
			start = 1.5
		}
		if hasLo {
			start = lo
			if b, _ := s["exclusiveMinimum"].(bool); b {
				start = lo + step
			} else if !isInt && step == 1 {
				start = lo + 0.25
			}
		} else if hasHi && hi < start {
			start = hi - 3*step
			if b, _ := s["exclusiveMaximum"].(bool); b {
				start = hi - 4*step
			}
		}
		if step != 1 {
			start = math.Ceil(start/step) * step
		}
		v := start + float64(i)*step
		if hasHi {
			excl, _ := s["exclusiveMaximum"].(bool)
			for v > hi || (excl && v == hi) {
				v -= step
				if v < start-100*step {
					break
				}
			}
		}
		if isInt {
			return intLit(v)
		}
		return fltLit(v)
	case "boolean":
		return i%2 == 0
	case "array":
		if tup, ok := s["items"].([]any); ok { // tuple
			out := make([]any, len(tup))
			for k, it := range tup {
				out[k] = g.ValidN(it.(J), i, depth+1)
			}
			return out
		}
		it, _ := s["items"].(J)
		if it == nil {
			it = J{}
		}
		nItems := 1.0
		if v, ok := num(s["minItems"]); ok && v > nItems {
			nItems = v
		}
		if v, ok := num(s["maxItems"]); ok && v < nItems {
			nItems = v
		}
		if depth > 4 {
			nItems = math.Min(nItems, 1)
			if v, ok := num(s["minItems"]); !ok || v == 0 {
				nItems = 0
			}
		}
		out := make([]any, 0, int(nItems))
		for k := 0; k < int(nItems); k++ {
			out = append(out, g.ValidN(it, i+k, depth+1))
		}
		return out
	case "object", "allOf", "":
		if typeOf(s) == "" {
			return "anything"
		}
		out := J{}
		g.fillObject(s, out, i, depth, true)
		return out
	case "file":
		return "file"
	}
	return nil
}

func (g *Gen) Valid(s J) any { return g.ValidN(s, 0, 0) }

// members flattens allOf into the list of object schemas contributing properties.
func (g *Gen) members(s J, depth int) []J {
	s = g.resolve(s)
	var out []J
	if all, ok := s["allOf"].([]any); ok && depth < 8 {
		for _, m := range all {
			if mj, ok := m.(J); ok {
				out = append(out, g.members(mj, depth+1)...)
			}
		}
	}
	if _, ok := s["properties"]; ok || s["additionalProperties"] != nil || s["type"] == "object" {
		out = append(out, s)
	}
	return out
}

func (g *Gen) fillObject(s J, out J, i, depth int, optional bool) {
	for _, m := range g.members(s, 0) {
		req := map[string]bool{}
		if r, ok := m["required"].([]any); ok {
			for _, x := range r {
				if str, ok := x.(string); ok {
					req[str] = true
				}
			}
		}
		props, _ := m["properties"].(J)
		for _, k := range jx.Keys(props) {
			ps, _ := props[k].(J)
			if !req[k] && (!optional || depth > 3) {
				continue
			}
			// break recursion: optional $ref properties are left out below depth 2
			if _, isRef := ps["$ref"]; isRef && !req[k] && depth >= 2 {
				continue
			}
			if d, _ := m["discriminator"].(string); d == k {
				continue // set by callers
			}
			out[k] = g.ValidN(ps, i, depth+1)
		}
		if ap, ok := m["additionalProperties"].(J); ok && depth <= 3 {
			if len(props) == 0 || optional {
				out["k1"] = g.ValidN(ap, i, depth+1)
			}
		}
		if mp, ok := num(m["minProperties"]); ok {
			for k := 0; len(out) < int(mp); k++ {
				if ap, ok := m["additionalProperties"].(J); ok {
					out[fmt.Sprintf("k%d", k+2)] = g.ValidN(ap, i+k+1, depth+1)
				} else {
					break
				}
			}
		}
	}
}

func zeroOf(t string) (any, bool) {
	switch t {
	case "string":
		return "", true
	case "integer", "number":
		return json.Number("0"), true
	case "boolean":
		return false, true
	case "array":
		return []any{}, true
	case "object", "allOf":
		return J{}, true
	}
	return nil, false
}

// Variants returns labelled instances for a schema: the canonical valid value
// first, then one-fault neighbours.
func (g *Gen) Variants(s J) []Variant {
	vs := g.variants(s, 0, "")
	if g.MaxPer > 0 && len(vs) > g.MaxPer*3 {
		vs = vs[:g.MaxPer*3]
	}
	return vs
}

func (g *Gen) variants(s J, depth int, path string) []Variant {
	s = g.resolve(s)
	var out []Variant
	add := func(doc any, label string) { out = append(out, Variant{Doc: doc, Label: label, Path: path}) }
	add(g.ValidN(s, 0, depth), "valid")
	if extra, ok := s["x-vf-docs"].([]any); ok {
		for k, d := range extra {
			add(jx.Clone(d), fmt.Sprintf("hand%d", k))
		}
	}
	if nl, _ := s["x-nullable"].(bool); nl {
		add(nil, "null")
	}
	t := typeOf(s)
	if e, ok := s["enum"].([]any); ok {
		for k, v := range e {
			if k > 0 && k < 4 {
				add(jx.Clone(v), "enum-member")
			}
		}
		switch t {
		case "string":
			add("not-in-enum", "enum-miss")
		case "integer":
			add(json.Number("977"), "enum-miss")
		case "number":
			add(json.Number("977.25"), "enum-miss")
		case "array":
			add([]any{"zz-not-in-enum"}, "enum-miss")
		}
	}
	switch t {
	case "string":
		f, _ := s["format"].(string)
		if fs, ok := specgen.FormatSamples[f]; ok {
			for k, v := range fs.Valid {
				if k > 0 {
					add(v, "valid-alt")
				}
			}
			if fs.Invalid != "" {
				add(fs.Invalid, "format-invalid")
			}
		}
		add("", "zero")
		_, hasPattern := s["pattern"]
		if f == "" && !hasPattern && s["enum"] == nil {
			if v, ok := num(s["minLength"]); ok {
				for _, d := range []int{-1, 0, 1} {
					if l := int(v) + d; l >= 0 {
						add(strings.Repeat("b", l), fmt.Sprintf("minLength%+d", d))
					}
				}
			}
			if v, ok := num(s["maxLength"]); ok {
				for _, d := range []int{-1, 0, 1} {
					if l := int(v) + d; l >= 0 {
						add(strings.Repeat("c", l), fmt.Sprintf("maxLength%+d", d))
					}
				}
			}
		}
		add(json.Number("12"), "type:number-for-string")
		add(true, "type:bool-for-string")
	case "integer", "number":
		isInt := t == "integer"
		lit := fltLit
		if isInt {
			lit = func(f float64) json.Number { return intLit(f) }
		}
		eps := 1.0
		if !isInt {
			eps = 0.25
		}
		f, _ := s["format"].(string)
		unsigned := strings.HasPrefix(f, "uint")
		addNum := func(v float64, label string) {
			if unsigned && v < 0 {
				label += "(negative-for-unsigned)"
			}
			add(lit(v), label)
		}
		addNum(0, "zero")
		if v, ok := num(s["minimum"]); ok {
			addNum(v-eps, "min-1")
			addNum(v, "min")
			addNum(v+eps, "min+1")
		}
		if v, ok := num(s["maximum"]); ok {
			addNum(v-eps, "max-1")
			addNum(v, "max")
			addNum(v+eps, "max+1")
		}
		if m, ok := num(s["multipleOf"]); ok && m > 0 {
			addNum(m*4, "multiple")
			addNum(-m*2, "multiple-neg")
			if isInt {
				addNum(m*4+1, "non-multiple")
			} else {
				addNum(m*4+m/2, "non-multiple")
			}
		}
		if s["minimum"] == nil && s["maximum"] == nil && s["enum"] == nil {
			addNum(-7, "negative")
			switch f {
			case "int32":
				add(json.Number("2147483647"), "int32-max")
				add(json.Number("-2147483648"), "int32-min")
			case "uint32":
				add(json.Number("4294967295"), "uint32-max")
			case "float":
				add(json.Number("1.5e30"), "float-big")
			case "double", "":
				if !isInt {
					add(json.Number("1.5e300"), "double-big")
				}
			}
			if isInt && f != "int32" && f != "uint32" {
				add(json.Number("9007199254740991"), "int-2^53-1")
			}
		}
		if isInt {
			add(json.Number("1.5"), "type:fraction-for-integer")
		}
		add("12", "type:string-for-number")
		add(true, "type:bool-for-number")
	case "boolean":
		add(false, "zero")
		add("true", "type:string-for-bool")
		add(json.Number("1"), "type:number-for-bool")
	case "array":
		if tup, ok := s["items"].([]any); ok {
			_ = tup
			add([]any{}, "zero")
			add(J{}, "type:object-for-array")
			break
		}
		it, _ := s["items"].(J)
		if it == nil {
			it = J{}
		}
		mk := func(k int) []any {
			a := make([]any, 0, k)
			for x := 0; x < k; x++ {
				a = append(a, g.ValidN(it, x, depth+1))
			}
			return a
		}
		add([]any{}, "zero")
		if v, ok := num(s["minItems"]); ok {
			for _, d := range []int{-1, 0, 1} {
				if k := int(v) + d; k >= 0 {
					add(mk(k), fmt.Sprintf("minItems%+d", d))
				}
			}
		}
		if v, ok := num(s["maxItems"]); ok {
			for _, d := range []int{-1, 0, 1} {
				if k := int(v) + d; k >= 0 {
					add(mk(k), fmt.Sprintf("maxItems%+d", d))
				}
			}
		}
		if s["minItems"] == nil && s["maxItems"] == nil {
			add(mk(3), "valid-3-items")
		}
		v0 := g.ValidN(it, 0, depth+1)
		add([]any{v0, jx.Clone(v0)}, "duplicate-items")
		if depth < 3 {
			iv := g.variants(it, depth+1, path+"[]")
			lim := len(iv)
			if depth > 0 && lim > 14 {
				lim = 14
			}
			for _, x := range iv[1:lim] {
				nItems := 1
				if v, ok := num(s["minItems"]); ok && int(v) > 1 {
					nItems = int(v)
				}
				arr := mk(nItems)
				if len(arr) == 0 {
					arr = []any{nil}
				}
				arr[len(arr)-1] = x.Doc
				out = append(out, Variant{Doc: arr, Label: x.Label, Path: x.Path})
			}
		}
		add(J{}, "type:object-for-array")
		add("x", "type:string-for-array")
	case "object", "allOf":
		full := g.ValidN(s, 0, depth).(J)
		minimal := J{}
		g.fillObject(s, minimal, 0, depth, false)
		add(minimal, "valid-required-only")
		add(J{}, "zero")
		withExtra := jx.CloneJ(full)
		withExtra["vfUnknownProp"] = "x"
		add(withExtra, "extra-property")
		for _, m := range g.members(s, 0) {
			props, _ := m["properties"].(J)
			if r, ok := m["required"].([]any); ok {
				for _, x := range r {
					name, _ := x.(string)
					d := jx.CloneJ(full)
					delete(d, name)
					out = append(out, Variant{Doc: d, Label: "missing-required", Path: path + "/" + name})
				}
			}
			for _, k := range jx.Keys(props) {
				ps := g.resolve(props[k].(J))
				if z, ok := zeroOf(typeOf(ps)); ok {
					d := jx.CloneJ(full)
					d[k] = z
					out = append(out, Variant{Doc: d, Label: "zero-value", Path: path + "/" + k})
				}
				if depth < 3 {
					pv := g.variants(props[k].(J), depth+1, path+"/"+k)
					lim := len(pv)
					if depth > 0 && lim > 14 {
						lim = 14
					}
					for _, x := range pv[1:lim] {
						d := jx.CloneJ(full)
						d[k] = x.Doc
						out = append(out, Variant{Doc: d, Label: x.Label, Path: x.Path})
					}
				}
			}
			if ap, ok := m["additionalProperties"].(J); ok && depth < 3 {
				av := g.variants(ap, depth+1, path+"/*")
				lim := len(av)
				if depth > 0 && lim > 14 {
					lim = 14
				}
				for _, x := range av[1:lim] {
					d := jx.CloneJ(full)
					d["k1"] = x.Doc
					out = append(out, Variant{Doc: d, Label: x.Label, Path: x.Path})
				}
				d := jx.CloneJ(full)
				d["k1"], d["k2"], d["k3"] = g.ValidN(ap, 0, depth+1), g.ValidN(ap, 1, depth+1), g.ValidN(ap, 2, depth+1)
				add(d, "valid-3-keys")
			}
			if v, ok := num(m["maxProperties"]); ok {
				d := J{}
				for k := 0; k <= int(v); k++ {
					if ap, ok := m["additionalProperties"].(J); ok {
						d[fmt.Sprintf("k%d", k)] = g.ValidN(ap, k, depth+1)
					}
				}
				for _, k := range jx.Keys(props) {
					if len(d) > int(v) {
						break
					}
					d[k] = g.ValidN(props[k].(J), 0, depth+1)
				}
				add(d, "maxProperties+1")
			}
			if _, ok := num(m["minProperties"]); ok {
				add(J{}, "minProperties-1")
			}
		}
		add([]any{}, "type:array-for-object")
		add("x", "type:string-for-object")
	}
	if g.MaxPer > 0 && depth > 0 && len(out) > g.MaxPer {
		out = out[:g.MaxPer]
	}
	return out
}
