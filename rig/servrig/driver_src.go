package servrig

// driverMain is the static reflective driver compiled next to a generated
// server. MODPATH is replaced by the scratch module path.
const driverMain = `package main

import (
	"bufio"
	"bytes"
	"encoding/base64"
	"encoding/json"
	"fmt"
	"io"
	"net/http"
	"net/http/httptest"
	"os"
	"reflect"
	"runtime/debug"
	"sort"
	"strings"
	"sync"

	oaerrors "github.com/go-openapi/errors"
	"github.com/go-openapi/loads"
	oaspec "github.com/go-openapi/spec"
	"github.com/go-openapi/runtime"
	"github.com/go-openapi/runtime/middleware"

	"MODPATH/restapi"
	"MODPATH/restapi/operations"
)

type respondSpec struct {
	Code    string                     ` + "`json:\"code\"`" + `    // "200", "default", "" = plain recorder response
	Status  int                        ` + "`json:\"status\"`" + `  // for default responders
	Headers map[string]json.RawMessage ` + "`json:\"headers\"`" + ` // by header name (json tag of the responder field)
	Payload json.RawMessage            ` + "`json:\"payload\"`" + `
}

type request struct {
	ID      string              ` + "`json:\"id\"`" + `
	Op      string              ` + "`json:\"op\"`" + ` // "" = http request, "dump", "describe", "client"
	Method  string              ` + "`json:\"method\"`" + `
	URL     string              ` + "`json:\"url\"`" + `
	Header  map[string][]string ` + "`json:\"header\"`" + `
	BodyB64 string              ` + "`json:\"body_b64\"`" + `
	Respond *respondSpec        ` + "`json:\"respond\"`" + `
	Client  json.RawMessage     ` + "`json:\"client\"`" + `
}

type answer struct {
	ID        string                     ` + "`json:\"id\"`" + `
	Status    int                        ` + "`json:\"status\"`" + `
	Header    map[string][]string        ` + "`json:\"header,omitempty\"`" + `
	BodyB64   string                     ` + "`json:\"body_b64,omitempty\"`" + `
	Reached   string                     ` + "`json:\"reached,omitempty\"`" + ` // API struct field of the handler that ran
	Params    map[string]json.RawMessage ` + "`json:\"params,omitempty\"`" + `
	Principal json.RawMessage            ` + "`json:\"principal,omitempty\"`" + `
	AuthCalls []string                   ` + "`json:\"auth_calls,omitempty\"`" + `
	Panic     string                     ` + "`json:\"panic,omitempty\"`" + `
	Extra     map[string]json.RawMessage ` + "`json:\"extra,omitempty\"`" + `
	Error     string                     ` + "`json:\"error,omitempty\"`" + `
}

// per-request recording slot (requests are served one at a time)
var (
	mu      sync.Mutex
	cur     *answer
	curResp *respondSpec
)

var responderType = reflect.TypeOf((*middleware.Responder)(nil)).Elem()
var errorType = reflect.TypeOf((*error)(nil)).Elem()

func jsonOf(v reflect.Value) json.RawMessage {
	defer func() { _ = recover() }()
	if !v.IsValid() {
		return json.RawMessage("null")
	}
	if v.Kind() == reflect.Interface && !v.IsNil() {
		if rc, ok := v.Interface().(io.Reader); ok {
			b, _ := io.ReadAll(rc)
			out, _ := json.Marshal(map[string]string{"file_b64": base64.StdEncoding.EncodeToString(b)})
			return out
		}
	}
	b, err := json.Marshal(v.Interface())
	if err != nil {
		b, _ = json.Marshal("!marshal-error: " + err.Error())
	}
	return b
}

func recordParams(p reflect.Value) map[string]json.RawMessage {
	out := map[string]json.RawMessage{}
	if p.Kind() == reflect.Ptr {
		p = p.Elem()
	}
	if p.Kind() != reflect.Struct {
		return out
	}
	t := p.Type()
	for i := 0; i < t.NumField(); i++ {
		f := t.Field(i)
		if !f.IsExported() || f.Name == "HTTPRequest" {
			continue
		}
		out[f.Name] = jsonOf(p.Field(i))
	}
	return out
}

// buildResponder constructs the generated typed responder the supervisor asked for.
func buildResponder(handlerType reflect.Type, rs *respondSpec) (middleware.Responder, string) {
	key := handlerType.PkgPath() + "." + strings.TrimSuffix(handlerType.Name(), "Handler")
	for _, e := range responders[key] {
		isDefault := e.Code == 0
		if (rs.Code == "default" && isDefault) || (!isDefault && rs.Code == fmt.Sprint(e.Code)) {
			obj := e.New(rs.Status)
			v := reflect.ValueOf(obj).Elem()
			t := v.Type()
			for i := 0; i < t.NumField(); i++ {
				f := t.Field(i)
				if !f.IsExported() {
					continue
				}
				tag := strings.Split(f.Tag.Get("json"), ",")[0]
				if f.Name == "Payload" {
					if len(rs.Payload) > 0 && string(rs.Payload) != "null" {
						if err := setFromJSON(v.Field(i), rs.Payload); err != nil {
							return nil, "payload: " + err.Error()
						}
					}
					continue
				}
				if raw, ok := rs.Headers[tag]; ok {
					if err := setFromJSON(v.Field(i), raw); err != nil {
						return nil, "header " + tag + ": " + err.Error()
					}
				}
			}
			r, ok := obj.(middleware.Responder)
			if !ok {
				return nil, "not a responder"
			}
			return r, ""
		}
	}
	return nil, "no generated responder for code " + rs.Code + " on " + key
}

func curRespHeaders(rs *respondSpec) map[string]string {
	out := map[string]string{}
	for k, raw := range rs.Headers {
		var s string
		if json.Unmarshal(raw, &s) == nil {
			out[k] = s
		} else {
			out[k] = strings.Trim(string(raw), "\"")
		}
	}
	return out
}

func setFromJSON(dst reflect.Value, raw json.RawMessage) error {
	if dst.Kind() == reflect.Slice && dst.Type().Elem().Kind() == reflect.Interface {
		if u, ok := polyUnmarshal[dst.Type().Elem().String()]; ok {
			var parts []json.RawMessage
			if err := json.Unmarshal(raw, &parts); err != nil {
				return err
			}
			out := reflect.MakeSlice(dst.Type(), 0, len(parts))
			for _, p := range parts {
				v, err := u(p)
				if err != nil {
					return err
				}
				out = reflect.Append(out, reflect.ValueOf(v))
			}
			dst.Set(out)
			return nil
		}
	}
	if dst.Kind() == reflect.Interface {
		// polymorphic payload or io.ReadCloser: try the registered base-type unmarshallers
		if u, ok := polyUnmarshal[dst.Type().String()]; ok {
			v, err := u(raw)
			if err != nil {
				return err
			}
			dst.Set(reflect.ValueOf(v))
			return nil
		}
		if dst.Type().String() == "io.ReadCloser" || dst.Type().String() == "io.Reader" {
			var s string
			_ = json.Unmarshal(raw, &s)
			dst.Set(reflect.ValueOf(io.NopCloser(strings.NewReader(s))))
			return nil
		}
		var x interface{}
		if err := json.Unmarshal(raw, &x); err != nil {
			return err
		}
		if x != nil {
			dst.Set(reflect.ValueOf(x))
		}
		return nil
	}
	return json.Unmarshal(raw, dst.Addr().Interface())
}

func installHandlers(api *operations.VfAPI) []string {
	var names []string
	v := reflect.ValueOf(api).Elem()
	t := v.Type()
	for i := 0; i < t.NumField(); i++ {
		f := t.Field(i)
		if !f.IsExported() || !strings.HasSuffix(f.Name, "Handler") || f.Type.Kind() != reflect.Interface {
			continue
		}
		fv := v.Field(i)
		if fv.IsNil() {
			continue
		}
		fnType := fv.Elem().Type() // the XxxHandlerFunc installed by NewVfAPI
		if fnType.Kind() != reflect.Func {
			continue
		}
		name, ifaceType := f.Name, f.Type
		fn := reflect.MakeFunc(fnType, func(args []reflect.Value) []reflect.Value {
			var resp middleware.Responder
			if cur != nil {
				cur.Reached = name
				cur.Params = recordParams(args[0])
				if len(args) > 1 {
					cur.Principal = jsonOf(args[1])
				}
			}
			if curResp != nil && curResp.Code == "raw" {
				st, payload := curResp.Status, curResp.Payload
				resp = middleware.ResponderFunc(func(w http.ResponseWriter, p runtime.Producer) {
					for k, raw := range curRespHeaders(curResp) {
						w.Header().Set(k, raw)
					}
					if len(payload) > 0 && string(payload) != "null" {
						w.Header().Set("Content-Type", "application/json")
					}
					w.WriteHeader(st)
					if len(payload) > 0 && string(payload) != "null" {
						_, _ = w.Write(payload)
					}
				})
			} else if curResp != nil && curResp.Code != "" {
				r, why := buildResponder(ifaceType, curResp)
				if r == nil {
					if cur != nil {
						cur.Error = "responder: " + why
					}
					resp = middleware.ResponderFunc(func(w http.ResponseWriter, _ runtime.Producer) { w.WriteHeader(598) })
				} else {
					resp = r
				}
			} else {
				resp = middleware.ResponderFunc(func(w http.ResponseWriter, _ runtime.Producer) { w.WriteHeader(299) })
			}
			out := reflect.New(responderType).Elem()
			out.Set(reflect.ValueOf(resp))
			return []reflect.Value{out}
		})
		fv.Set(fn)
		names = append(names, name)
	}
	sort.Strings(names)
	return names
}

// token conventions: a credential is valid iff it starts with "ok"; an oauth2 token
// "ok:read,write" grants the scopes after the colon.
func installAuth(api *operations.VfAPI) []string {
	var names []string
	v := reflect.ValueOf(api).Elem()
	t := v.Type()
	for i := 0; i < t.NumField(); i++ {
		f := t.Field(i)
		if !f.IsExported() || !strings.HasSuffix(f.Name, "Auth") || f.Type.Kind() != reflect.Func || f.Type.NumOut() != 2 {
			continue
		}
		name, ft := f.Name, f.Type
		fn := reflect.MakeFunc(ft, func(args []reflect.Value) []reflect.Value {
			var token string
			var scopes []string
			basic := false
			switch {
			case ft.NumIn() == 2 && ft.In(1).Kind() == reflect.String: // basic: user, pass
				token = args[1].String()
				basic = true
				_ = basic
			case ft.NumIn() == 2: // oauth2: token, scopes
				token = args[0].String()
				scopes, _ = args[1].Interface().([]string)
			default:
				token = args[0].String()
			}
			if cur != nil {
				cur.AuthCalls = append(cur.AuthCalls, name+"("+token+")")
			}
			ok := strings.HasPrefix(token, "ok")
			if ok && ft.NumIn() == 2 && !basic {
				granted := map[string]bool{}
				if i := strings.Index(token, ":"); i >= 0 {
					for _, s := range strings.Split(token[i+1:], ",") {
						granted[s] = true
					}
				}
				for _, s := range scopes {
					if !granted[s] {
						ok = false
					}
				}
			}
			pt := ft.Out(0)
			princ := reflect.Zero(pt)
			errV := reflect.Zero(errorType)
			if !ok {
				// what the go-swagger documentation's authenticators return for bad credentials
				errV = reflect.ValueOf(oaerrors.New(401, "incorrect credentials for %s", name)).Convert(errorType)
				return []reflect.Value{princ, errV}
			}
			label := name + ":" + token
			switch pt.Kind() {
			case reflect.Interface:
				princ = reflect.New(pt).Elem()
				princ.Set(reflect.ValueOf(label))
			case reflect.Ptr:
				princ = reflect.New(pt.Elem())
				setFirstString(princ.Elem(), label)
			case reflect.String:
				princ = reflect.ValueOf(label).Convert(pt)
			case reflect.Struct:
				princ = reflect.New(pt).Elem()
				setFirstString(princ, label)
			}
			return []reflect.Value{princ, errV}
		})
		v.Field(i).Set(fn)
		names = append(names, name)
	}
	sort.Strings(names)
	return names
}

func setFirstString(s reflect.Value, label string) {
	if s.Kind() != reflect.Struct {
		return
	}
	for i := 0; i < s.NumField(); i++ {
		f := s.Field(i)
		if !f.CanSet() {
			continue
		}
		if f.Kind() == reflect.String {
			f.SetString(label)
			return
		}
		if f.Kind() == reflect.Ptr && f.Type().Elem().Kind() == reflect.String {
			p := reflect.New(f.Type().Elem())
			p.Elem().SetString(label)
			f.Set(p)
			return
		}
	}
}

var (
	theAPI     *operations.VfAPI
	theHandler http.Handler
	handlerNames, authNames []string
)

func setup() error {
	doc, err := loads.Analyzed(restapi.SwaggerJSON, "")
	if err != nil {
		return fmt.Errorf("embedded SwaggerJSON does not load: %w", err)
	}
	theAPI = operations.NewVfAPI(doc)
	theAPI.Logger = func(string, ...interface{}) {}
	for _, mt := range jsonLikeMediaTypes(doc) {
		theAPI.RegisterConsumer(mt, runtime.JSONConsumer())
		theAPI.RegisterProducer(mt, runtime.JSONProducer())
	}
	handlerNames = installHandlers(theAPI)
	authNames = installAuth(theAPI)
	theHandler = theAPI.Serve(nil)
	return nil
}

// jsonLikeMediaTypes lists the media types of the document that are JSON dialects
// (application/vnd.x+json): the driver serves them with the JSON codecs on both sides.
func jsonLikeMediaTypes(doc *loads.Document) []string {
	seen := map[string]bool{}
	add := func(l []string) {
		for _, m := range l {
			if strings.Contains(m, "+json") {
				seen[m] = true
			}
		}
	}
	sw := doc.Spec()
	add(sw.Consumes)
	add(sw.Produces)
	if sw.Paths != nil {
		for _, pi := range sw.Paths.Paths {
			for _, op := range ops(pi.Get, pi.Put, pi.Post, pi.Delete, pi.Patch, pi.Head, pi.Options) {
				add(op.Consumes)
				add(op.Produces)
			}
		}
	}
	var out []string
	for m := range seen {
		out = append(out, m)
	}
	sort.Strings(out)
	return out
}

func ops(list ...*oaspec.Operation) []*oaspec.Operation {
	var out []*oaspec.Operation
	for _, o := range list {
		if o != nil {
			out = append(out, o)
		}
	}
	return out
}

func serveOne(rq request) (a answer) {
	a.ID = rq.ID
	defer func() {
		if p := recover(); p != nil {
			a.Panic = fmt.Sprint(p) + "\n" + string(debug.Stack())
		}
	}()
	switch rq.Op {
	case "describe":
		a.Extra = map[string]json.RawMessage{}
		b, _ := json.Marshal(handlerNames)
		a.Extra["handlers"] = b
		b, _ = json.Marshal(authNames)
		a.Extra["auth"] = b
		return
	case "dump":
		a.Extra = map[string]json.RawMessage{"SwaggerJSON": restapi.SwaggerJSON, "FlatSwaggerJSON": restapi.FlatSwaggerJSON}
		rec := httptest.NewRecorder()
		req := httptest.NewRequest("GET", rq.URL, nil)
		theHandler.ServeHTTP(rec, req)
		a.Status = rec.Code
		a.BodyB64 = base64.StdEncoding.EncodeToString(rec.Body.Bytes())
		return
	case "client":
		return clientCall(rq)
	}
	body, _ := base64.StdEncoding.DecodeString(rq.BodyB64)
	var rd io.Reader
	if rq.BodyB64 != "" || rq.Method == "POST" || rq.Method == "PUT" || rq.Method == "PATCH" {
		rd = bytes.NewReader(body)
	}
	req := httptest.NewRequest(rq.Method, rq.URL, rd)
	for k, vs := range rq.Header {
		for _, v := range vs {
			req.Header.Add(k, v)
		}
	}
	rec := httptest.NewRecorder()
	mu.Lock()
	cur, curResp = &a, rq.Respond
	mu.Unlock()
	theHandler.ServeHTTP(rec, req)
	mu.Lock()
	cur, curResp = nil, nil
	mu.Unlock()
	a.Status = rec.Code
	a.Header = rec.Header()
	a.BodyB64 = base64.StdEncoding.EncodeToString(rec.Body.Bytes())
	return
}

func main() {
	if err := setup(); err != nil {
		fmt.Fprintln(os.Stderr, "SETUP-FAILED:", err)
		os.Exit(4)
	}
	rd := bufio.NewReaderSize(os.Stdin, 4<<20)
	out := bufio.NewWriter(os.Stdout)
	for {
		line, err := rd.ReadBytes('\n')
		if len(bytes.TrimSpace(line)) > 0 {
			var rq request
			_ = json.Unmarshal(line, &rq)
			fmt.Fprintf(os.Stderr, "BEGIN %s\n", rq.ID)
			b, _ := json.Marshal(serveOne(rq))
			out.Write(b)
			out.WriteByte('\n')
			out.Flush()
		}
		if err != nil {
			if err != io.EOF {
				os.Exit(3)
			}
			return
		}
	}
}
`

// clientStub is used when no client was generated.
const clientStub = `package main

func clientCall(rq request) answer { return answer{ID: rq.ID, Error: "no client in this build"} }
`

// clientMain is compiled in when a client was generated into the same module:
// the generated client talks to the generated server through an in-process
// RoundTripper.
const clientMain = `package main

import (
	"encoding/json"
	"errors"
	"fmt"
	"io"
	"net/http"
	"net/http/httptest"
	"reflect"
	"regexp"
	"strings"

	"github.com/go-openapi/loads"
	"github.com/go-openapi/runtime"
	httptransport "github.com/go-openapi/runtime/client"
	"github.com/go-openapi/strfmt"

	vfclient "MODPATH/client"
	"MODPATH/restapi"
)

type inproc struct{}

func (inproc) RoundTrip(req *http.Request) (*http.Response, error) {
	rec := httptest.NewRecorder()
	theHandler.ServeHTTP(rec, req)
	res := rec.Result()
	res.Request = req
	return res, nil
}

// probe transport: learns which operation a client method submits
type probe struct{ last *runtime.ClientOperation }

var errProbe = errors.New("probe")

func (p *probe) Submit(op *runtime.ClientOperation) (interface{}, error) {
	p.last = op
	return nil, errProbe
}

type clientMethod struct {
	svc    reflect.Value
	method reflect.Method
	OpID   string
	Method string
	Path   string
}

var (
	clientMethods map[string]*clientMethod
	clientFacade  *vfclient.Vf
)

func clientSetup() {
	if clientMethods != nil {
		return
	}
	clientMethods = map[string]*clientMethod{}
	pr := &probe{}
	fac := vfclient.New(pr, strfmt.Default)
	fv := reflect.ValueOf(fac).Elem()
	for i := 0; i < fv.NumField(); i++ {
		f := fv.Field(i)
		if f.Kind() != reflect.Interface || f.IsNil() || fv.Type().Field(i).Name == "Transport" {
			continue
		}
		svc := f.Elem()
		st := svc.Type()
		for m := 0; m < st.NumMethod(); m++ {
			meth := st.Method(m)
			if meth.Name == "SetTransport" || meth.Type.NumIn() < 2 {
				continue
			}
			args := []reflect.Value{svc}
			ok := true
			for a := 1; a < meth.Type.NumIn(); a++ {
				if meth.Type.IsVariadic() && a == meth.Type.NumIn()-1 {
					break
				}
				at := meth.Type.In(a)
				if at.String() == "io.Writer" {
					args = append(args, reflect.ValueOf(io.Discard).Convert(at))
				} else {
					args = append(args, reflect.Zero(at))
				}
			}
			pr.last = nil
			func() {
				defer func() {
					if recover() != nil {
						ok = false
					}
				}()
				meth.Func.Call(args)
			}()
			if ok && pr.last != nil {
				clientMethods[pr.last.ID] = &clientMethod{svc: svc, method: meth, OpID: pr.last.ID, Method: pr.last.Method, Path: pr.last.PathPattern}
			}
		}
	}
	cfg := vfclient.DefaultTransportConfig()
	rt := httptransport.New("vf.test", cfg.BasePath, []string{"http"})
	rt.Transport = inproc{}
	if doc, err := loads.Analyzed(restapi.SwaggerJSON, ""); err == nil {
		for _, mt := range jsonLikeMediaTypes(doc) {
			rt.Consumers[mt] = runtime.JSONConsumer()
			rt.Producers[mt] = runtime.JSONProducer()
		}
	}
	clientFacade = vfclient.New(rt, strfmt.Default)
	// re-bind the services of the real facade
	rv := reflect.ValueOf(clientFacade).Elem()
	for _, cm := range clientMethods {
		for i := 0; i < rv.NumField(); i++ {
			f := rv.Field(i)
			if f.Kind() == reflect.Interface && !f.IsNil() && f.Elem().Type() == cm.svc.Type() {
				cm.svc = f.Elem()
			}
		}
	}
}

type clientSpec struct {
	OpID   string                     ` + "`json:\"opid\"`" + `
	Params map[string]json.RawMessage ` + "`json:\"params\"`" + ` // by normalised field name
	Auth   []struct {
		Type  string ` + "`json:\"type\"`" + ` // basic apikey bearer
		Name  string ` + "`json:\"name\"`" + `
		In    string ` + "`json:\"in\"`" + `
		Value string ` + "`json:\"value\"`" + `
		User  string ` + "`json:\"user\"`" + `
	} ` + "`json:\"auth\"`" + `
	Describe bool ` + "`json:\"describe\"`" + `
}

var rxNorm = regexp.MustCompile("[^a-z0-9]")

func norm(s string) string { return rxNorm.ReplaceAllString(strings.ToLower(s), "") }

type fileReader struct {
	io.Reader
	name string
}

func (f fileReader) Name() string  { return f.name }
func (f fileReader) Close() error  { return nil }

func clientCall(rq request) (a answer) {
	a.ID = rq.ID
	clientSetup()
	var cs clientSpec
	if err := json.Unmarshal(rq.Client, &cs); err != nil {
		a.Error = "bad client spec: " + err.Error()
		return
	}
	a.Extra = map[string]json.RawMessage{}
	if cs.Describe {
		desc := map[string]map[string]string{}
		for id, cm := range clientMethods {
			desc[id] = map[string]string{"go": cm.method.Name, "method": cm.Method, "path": cm.Path}
		}
		b, _ := json.Marshal(desc)
		a.Extra["client_methods"] = b
		return
	}
	cm, ok := clientMethods[cs.OpID]
	if !ok {
		a.Error = "no client method for operation " + cs.OpID
		return
	}
	mt := cm.method.Type
	pt := mt.In(1)
	params := reflect.New(pt.Elem())
	if sd := params.MethodByName("SetDefaults"); sd.IsValid() {
		sd.Call(nil)
	}
	pv := params.Elem()
	unmatched := []string{}
	for name, raw := range cs.Params {
		found := false
		for i := 0; i < pv.NumField(); i++ {
			f := pv.Type().Field(i)
			if !f.IsExported() || f.Name == "Context" || f.Name == "HTTPClient" || norm(f.Name) != norm(name) {
				continue
			}
			found = true
			fv := pv.Field(i)
			if fv.Kind() == reflect.Interface && (strings.Contains(fv.Type().String(), "NamedReadCloser") || strings.Contains(fv.Type().String(), "ReadCloser")) {
				var s string
				_ = json.Unmarshal(raw, &s)
				fv.Set(reflect.ValueOf(fileReader{Reader: strings.NewReader(s), name: "upload.bin"}))
				break
			}
			if err := setFromJSON(fv, raw); err != nil {
				a.Error = fmt.Sprintf("cannot set client param %s: %v", f.Name, err)
				return
			}
			break
		}
		if !found {
			unmatched = append(unmatched, name)
		}
	}
	if len(unmatched) > 0 {
		b, _ := json.Marshal(unmatched)
		a.Extra["unmatched_params"] = b
	}
	var writers []runtime.ClientAuthInfoWriter
	for _, au := range cs.Auth {
		switch au.Type {
		case "basic":
			writers = append(writers, httptransport.BasicAuth(au.User, au.Value))
		case "apikey":
			writers = append(writers, httptransport.APIKeyAuth(au.Name, au.In, au.Value))
		case "bearer":
			writers = append(writers, httptransport.BearerToken(au.Value))
		}
	}
	args := []reflect.Value{cm.svc, params}
	for i := 2; i < mt.NumIn(); i++ {
		if mt.IsVariadic() && i == mt.NumIn()-1 {
			break
		}
		at := mt.In(i)
		switch {
		case at.String() == "runtime.ClientAuthInfoWriter":
			if len(writers) == 0 {
				args = append(args, reflect.Zero(at))
			} else {
				var w runtime.ClientAuthInfoWriter = httptransport.Compose(writers...)
				args = append(args, reflect.ValueOf(&w).Elem())
			}
		case at.String() == "io.Writer":
			args = append(args, reflect.ValueOf(&sink).Convert(at))
		default:
			args = append(args, reflect.Zero(at))
		}
	}
	mu.Lock()
	cur, curResp = &a, rq.Respond
	mu.Unlock()
	sink.Reset()
	outs := cm.method.Func.Call(args)
	mu.Lock()
	cur, curResp = nil, nil
	mu.Unlock()
	res := map[string]interface{}{}
	for oi, o := range outs {
		if oi == len(outs)-1 { // the error slot (generated success types implement error too)
			if o.IsNil() {
				continue
			}
			err := o.Interface().(error)
			e := map[string]interface{}{"type": fmt.Sprintf("%T", err), "message": err.Error()}
			var apiErr *runtime.APIError
			if errors.As(err, &apiErr) {
				e["api_error_code"] = apiErr.Code
			}
			if c, ok := err.(interface{ Code() int }); ok {
				e["code"] = c.Code()
			}
			e["fields"] = fieldsOf(reflect.ValueOf(err))
			res["error"] = e
			continue
		}
		if o.Kind() == reflect.Ptr && o.IsNil() {
			continue
		}
		r := map[string]interface{}{"type": o.Type().String(), "fields": fieldsOf(o)}
		if c, ok := o.Interface().(interface{ Code() int }); ok {
			r["code"] = c.Code()
		}
		res["result"] = r
	}
	if sink.Len() > 0 {
		res["written"] = sink.String()
	}
	b, _ := json.Marshal(res)
	a.Extra["client_result"] = b
	return
}

var sink strings.Builder

func fieldsOf(v reflect.Value) map[string]json.RawMessage {
	out := map[string]json.RawMessage{}
	for v.Kind() == reflect.Ptr || v.Kind() == reflect.Interface {
		if v.IsNil() {
			return out
		}
		v = v.Elem()
	}
	if v.Kind() != reflect.Struct {
		return out
	}
	for i := 0; i < v.NumField(); i++ {
		f := v.Type().Field(i)
		if !f.IsExported() {
			continue
		}
		out[f.Name] = jsonOf(v.Field(i))
	}
	return out
}
`
