// Package servrig generates a server (and optionally a client) with the real
// swagger binary, compiles it with a static reflective driver and serves HTTP
// requests to it in a child process. Shared by C03, C04, C06, C08, C10.
package servrig

import (
	"encoding/base64"
	"encoding/json"
	"fmt"
	"go/ast"
	"go/parser"
	"go/token"
	"os"
	"path/filepath"
	"regexp"
	"sort"
	"strings"
	"sync"
	"time"

	"verif/rig/core"
	"verif/rig/jx"
)

type J = jx.J

type Options struct {
	ServerArgs []string // extra args for generate server
	ClientArgs []string
	WithClient bool
	YAMLInput  bool // feed the spec as YAML
	KeepDriver bool
}

type Server struct {
	Name     string
	Spec     J
	SpecPath string
	Mod      *core.Module
	Drv      string
	GenOut   string
	Stage    string // "" ok, else generate | generate-client | build
	Output   string // failure output
	Handlers []string
	Auth     []string
}

var seq struct {
	sync.Mutex
	n int
}

// Build generates and compiles. On failure the returned server has Stage != "".
func Build(c *core.Ctx, swagger string, spec J, opt Options) *Server {
	seq.Lock()
	seq.n++
	name := fmt.Sprintf("s%04d", seq.n)
	seq.Unlock()
	s := &Server{Name: name, Spec: spec}
	s.Mod = c.NewModule(filepath.Join("servers", name))
	if opt.YAMLInput {
		s.SpecPath = filepath.Join(s.Mod.Dir, "spec.yaml")
		y, err := jx.ToYAML(spec)
		core.Must(err)
		core.Must(os.WriteFile(s.SpecPath, y, 0o644))
	} else {
		s.SpecPath = filepath.Join(s.Mod.Dir, "spec.json")
		core.Must(os.WriteFile(s.SpecPath, jx.Marshal(spec), 0o644))
	}
	args := append([]string{"generate", "server", "-q", "-A", "Vf", "-f", s.SpecPath, "-t", s.Mod.Dir}, opt.ServerArgs...)
	r := core.Run(s.Mod.Dir, nil, 10*time.Minute, "", swagger, args...)
	s.GenOut = r.Stderr + r.Stdout
	if r.TimedOut {
		s.Stage, s.Output = "generate-timeout", "watchdog"
		return s
	}
	if r.Exit != 0 {
		s.Stage, s.Output = "generate", tail(s.GenOut, 4000)
		return s
	}
	if opt.WithClient {
		args := append([]string{"generate", "client", "-q", "-A", "Vf", "-f", s.SpecPath, "-t", s.Mod.Dir}, opt.ClientArgs...)
		r := core.Run(s.Mod.Dir, nil, 10*time.Minute, "", swagger, args...)
		s.GenOut += r.Stderr + r.Stdout
		if r.TimedOut {
			s.Stage, s.Output = "generate-timeout", "watchdog"
			return s
		}
		if r.Exit != 0 {
			s.Stage, s.Output = "generate-client", tail(r.Stderr+r.Stdout, 4000)
			return s
		}
	}
	drvDir := filepath.Join(s.Mod.Dir, "cmd", "vfdrv")
	core.Must(os.MkdirAll(drvDir, 0o755))
	core.Must(os.WriteFile(filepath.Join(drvDir, "main.go"), []byte(strings.ReplaceAll(driverMain, "MODPATH", s.Mod.Path)), 0o644))
	reg, err := s.registrySource()
	if err != nil {
		s.Stage, s.Output = "generate", "generated code does not parse: "+err.Error()
		return s
	}
	core.Must(os.WriteFile(filepath.Join(drvDir, "registry.go"), []byte(reg), 0o644))
	if opt.WithClient {
		core.Must(os.WriteFile(filepath.Join(drvDir, "client.go"), []byte(strings.ReplaceAll(clientMain, "MODPATH", s.Mod.Path)), 0o644))
	} else {
		core.Must(os.WriteFile(filepath.Join(drvDir, "client.go"), []byte(clientStub), 0o644))
	}
	s.Drv = filepath.Join(s.Mod.Dir, "vfdrv.bin")
	br := core.Run(s.Mod.Dir, core.GoEnv(), 15*time.Minute, "", "go", "build", "-gcflags=-e", "-o", s.Drv, "./cmd/vfdrv")
	if br.TimedOut {
		s.Stage, s.Output = "build-timeout", "watchdog"
		return s
	}
	if br.Exit != 0 {
		s.Stage, s.Output = "build", tail(br.Stderr+br.Stdout, 4000)
		return s
	}
	return s
}

func tail(s string, n int) string {
	if len(s) > n {
		return "…" + s[len(s)-n:]
	}
	return s
}

func (s *Server) Cleanup() { _ = os.RemoveAll(s.Mod.Dir) }

var rxHandlerFunc = regexp.MustCompile(`^(\w+)HandlerFunc$`)

// registrySource parses the generated server packages for responder
// constructors and polymorphic unmarshallers.
func (s *Server) registrySource() (string, error) {
	type resp struct {
		name, ctor string
		code       int
		isDefault  bool
	}
	type opInfo struct {
		pkgPath, alias, goName string
		resps                  []resp
	}
	var ops []opInfo
	imports := map[string]string{} // path -> alias
	alias := func(path string) string {
		if a, ok := imports[path]; ok {
			return a
		}
		a := fmt.Sprintf("p%d", len(imports))
		imports[path] = a
		return a
	}
	opsRoot := filepath.Join(s.Mod.Dir, "restapi", "operations")
	var dirs []string
	_ = filepath.Walk(opsRoot, func(p string, info os.FileInfo, err error) error {
		if err == nil && info.IsDir() {
			dirs = append(dirs, p)
		}
		return nil
	})
	sort.Strings(dirs)
	fset := token.NewFileSet()
	for _, d := range dirs {
		rel, _ := filepath.Rel(s.Mod.Dir, d)
		pkgPath := s.Mod.Path + "/" + filepath.ToSlash(rel)
		files, _ := filepath.Glob(filepath.Join(d, "*_responses.go"))
		sort.Strings(files)
		for _, rf := range files {
			base := strings.TrimSuffix(filepath.Base(rf), "_responses.go")
			opFile := filepath.Join(d, base+".go")
			of, err := parser.ParseFile(fset, opFile, nil, 0)
			if err != nil {
				return "", err
			}
			goName := ""
			for _, decl := range of.Decls {
				if gd, ok := decl.(*ast.GenDecl); ok && gd.Tok == token.TYPE {
					for _, sp := range gd.Specs {
						if m := rxHandlerFunc.FindStringSubmatch(sp.(*ast.TypeSpec).Name.Name); m != nil {
							goName = m[1]
						}
					}
				}
			}
			if goName == "" {
				continue
			}
			f, err := parser.ParseFile(fset, rf, nil, 0)
			if err != nil {
				return "", err
			}
			codes := map[string]int{}
			for _, decl := range f.Decls {
				if gd, ok := decl.(*ast.GenDecl); ok && gd.Tok == token.CONST {
					for _, sp := range gd.Specs {
						vs := sp.(*ast.ValueSpec)
						if len(vs.Names) == 1 && len(vs.Values) == 1 && strings.HasSuffix(vs.Names[0].Name, "Code") {
							if bl, ok := vs.Values[0].(*ast.BasicLit); ok {
								var n int
								fmt.Sscan(bl.Value, &n)
								codes[strings.TrimSuffix(vs.Names[0].Name, "Code")] = n
							}
						}
					}
				}
			}
			oi := opInfo{pkgPath: pkgPath, alias: alias(pkgPath), goName: goName}
			for _, decl := range f.Decls {
				fd, ok := decl.(*ast.FuncDecl)
				if !ok || fd.Recv != nil || !strings.HasPrefix(fd.Name.Name, "New") || fd.Type.Results == nil || len(fd.Type.Results.List) != 1 {
					continue
				}
				star, ok := fd.Type.Results.List[0].Type.(*ast.StarExpr)
				if !ok {
					continue
				}
				id, ok := star.X.(*ast.Ident)
				if !ok {
					continue
				}
				np := 0
				if fd.Type.Params != nil {
					for _, p := range fd.Type.Params.List {
						np += len(p.Names)
					}
				}
				if code, ok := codes[id.Name]; ok && np == 0 {
					oi.resps = append(oi.resps, resp{name: id.Name, ctor: fd.Name.Name, code: code})
				} else if np == 1 {
					oi.resps = append(oi.resps, resp{name: id.Name, ctor: fd.Name.Name, isDefault: true})
				}
			}
			ops = append(ops, oi)
		}
	}
	// polymorphic base types of the models package
	type poly struct{ iface, fn string }
	var polys []poly
	modelsDir := filepath.Join(s.Mod.Dir, "models")
	if mfiles, _ := filepath.Glob(filepath.Join(modelsDir, "*.go")); len(mfiles) > 0 {
		for _, mf := range mfiles {
			f, err := parser.ParseFile(fset, mf, nil, 0)
			if err != nil {
				return "", err
			}
			ifaces := map[string]bool{}
			for _, decl := range f.Decls {
				if gd, ok := decl.(*ast.GenDecl); ok && gd.Tok == token.TYPE {
					for _, sp := range gd.Specs {
						ts := sp.(*ast.TypeSpec)
						if _, ok := ts.Type.(*ast.InterfaceType); ok && ts.Name.IsExported() {
							ifaces[ts.Name.Name] = true
						}
					}
				}
			}
			for _, decl := range f.Decls {
				if fd, ok := decl.(*ast.FuncDecl); ok && fd.Recv == nil && strings.HasPrefix(fd.Name.Name, "Unmarshal") && !strings.HasSuffix(fd.Name.Name, "Slice") {
					n := strings.TrimPrefix(fd.Name.Name, "Unmarshal")
					if ifaces[n] {
						polys = append(polys, poly{iface: n, fn: fd.Name.Name})
					}
				}
			}
		}
	}
	var b strings.Builder
	b.WriteString("package main\n\nimport (\n\t\"bytes\"\n\n\t\"github.com/go-openapi/runtime\"\n")
	paths := make([]string, 0, len(imports))
	for p := range imports {
		paths = append(paths, p)
	}
	sort.Strings(paths)
	for _, p := range paths {
		fmt.Fprintf(&b, "\t%s %q\n", imports[p], p)
	}
	if len(polys) > 0 {
		fmt.Fprintf(&b, "\tvfmodels %q\n", s.Mod.Path+"/models")
	}
	b.WriteString(")\n\nvar _ = bytes.NewReader\nvar _ = runtime.JSONConsumer\n\ntype responderEntry struct {\n\tName string\n\tCode int\n\tNew  func(code int) interface{}\n}\n\nvar responders = map[string][]responderEntry{\n")
	for _, oi := range ops {
		fmt.Fprintf(&b, "\t%q: {\n", oi.pkgPath+"."+oi.goName)
		for _, r := range oi.resps {
			if r.isDefault {
				fmt.Fprintf(&b, "\t\t{Name: %q, Code: 0, New: func(code int) interface{} { return %s.%s(code) }},\n", r.name, oi.alias, r.ctor)
			} else {
				fmt.Fprintf(&b, "\t\t{Name: %q, Code: %d, New: func(code int) interface{} { return %s.%s() }},\n", r.name, r.code, oi.alias, r.ctor)
			}
		}
		b.WriteString("\t},\n")
	}
	b.WriteString("}\n\nvar polyUnmarshal = map[string]func([]byte) (interface{}, error){\n")
	for _, p := range polys {
		fmt.Fprintf(&b, "\t\"models.%s\": func(b []byte) (interface{}, error) { return vfmodels.%s(bytes.NewReader(b), runtime.JSONConsumer()) },\n", p.iface, p.fn)
	}
	b.WriteString("}\n")
	return b.String(), nil
}

// Req is one request to the driver.
type Req struct {
	ID      string              `json:"id"`
	Op      string              `json:"op,omitempty"`
	Method  string              `json:"method,omitempty"`
	URL     string              `json:"url,omitempty"`
	Header  map[string][]string `json:"header,omitempty"`
	BodyB64 string              `json:"body_b64,omitempty"`
	Respond *Respond            `json:"respond,omitempty"`
	Client  any                 `json:"client,omitempty"`
}

type Respond struct {
	Code    string         `json:"code"`
	Status  int            `json:"status"`
	Headers map[string]any `json:"headers,omitempty"`
	Payload any            `json:"payload,omitempty"`
}

// Ans is the driver's answer.
type Ans struct {
	ID        string                     `json:"id"`
	Status    int                        `json:"status"`
	Header    map[string][]string        `json:"header"`
	BodyB64   string                     `json:"body_b64"`
	Reached   string                     `json:"reached"`
	Params    map[string]json.RawMessage `json:"params"`
	Principal json.RawMessage            `json:"principal"`
	AuthCalls []string                   `json:"auth_calls"`
	Panic     string                     `json:"panic"`
	Extra     map[string]json.RawMessage `json:"extra"`
	Error     string                     `json:"error"`
	Crash     string                     `json:"-"`
}

func (a Ans) Body() []byte { b, _ := base64.StdEncoding.DecodeString(a.BodyB64); return b }

// Run serves the requests in one child process (sequentially).
func (s *Server) Run(reqs []Req) (map[string]Ans, []core.Crash) {
	var raw []map[string]any
	for _, r := range reqs {
		b, _ := json.Marshal(r)
		var m map[string]any
		_ = json.Unmarshal(b, &m)
		raw = append(raw, m)
	}
	ans, crashes := core.RunWorker(s.Mod.Dir, nil, 2*time.Minute, s.Drv, nil, raw)
	out := map[string]Ans{}
	for id, b := range ans {
		var a Ans
		if json.Unmarshal(b, &a) == nil {
			out[id] = a
		}
	}
	return out, crashes
}

// Describe asks the driver for its handler and authenticator fields.
func (s *Server) Describe() error {
	ans, crashes := s.Run([]Req{{ID: "describe", Op: "describe"}})
	if len(crashes) > 0 {
		return fmt.Errorf("driver died: %s", crashes[0].Output)
	}
	a := ans["describe"]
	_ = json.Unmarshal(a.Extra["handlers"], &s.Handlers)
	_ = json.Unmarshal(a.Extra["auth"], &s.Auth)
	return nil
}
