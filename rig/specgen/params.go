package specgen

import (
	"fmt"
	"sort"
	"strings"

	"verif/rig/jx"
)

// ParamAtom is one parameter kind, exercised alone in its own operation.
type ParamAtom struct {
	ID       string
	Param    J      // the parameter object
	Method   string // GET unless formData/body
	Consumes []any
	Aux      map[string]J // definitions needed by a body schema
	Body     bool
}

func (a ParamAtom) Name() string { n, _ := a.Param["name"].(string); return n }
func (a ParamAtom) In() string   { n, _ := a.Param["in"].(string); return n }

func merge(a J, more ...J) J {
	o := jx.CloneJ(a)
	for _, m := range more {
		for k, v := range m {
			o[k] = v
		}
	}
	return o
}

type named struct {
	id string
	s  J
}

// ParamAtoms returns the parameter catalogue (stable order).
func ParamAtoms() []ParamAtom {
	var out []ParamAtom
	add := func(id, in string, s J, required bool, extra J) {
		name := "p"
		if in == "header" {
			name = "X-P"
		}
		p := merge(s, J{"name": name, "in": in}, extra)
		if required {
			p["required"] = true
		}
		a := ParamAtom{ID: id, Param: p, Method: "GET"}
		if in == "formData" {
			a.Method = "POST"
			a.Consumes = []any{"application/x-www-form-urlencoded"}
			if s["type"] == "file" {
				a.Consumes = []any{"multipart/form-data"}
			}
		}
		out = append(out, a)
	}
	scalars := []named{
		{"string", J{"type": "string"}},
		{"string.date", J{"type": "string", "format": "date"}},
		{"string.date-time", J{"type": "string", "format": "date-time"}},
		{"string.uuid", J{"type": "string", "format": "uuid"}},
		{"string.email", J{"type": "string", "format": "email"}},
		{"string.byte", J{"type": "string", "format": "byte"}},
		{"string.password", J{"type": "string", "format": "password"}},
		{"string.duration", J{"type": "string", "format": "duration"}},
		{"integer", J{"type": "integer"}},
		{"integer.int32", J{"type": "integer", "format": "int32"}},
		{"integer.int64", J{"type": "integer", "format": "int64"}},
		{"number", J{"type": "number"}},
		{"number.float", J{"type": "number", "format": "float"}},
		{"number.double", J{"type": "number", "format": "double"}},
		{"boolean", J{"type": "boolean", "x-vf-docs": []any{"maybe", "yes", "TRUE"}}},
	}
	for _, in := range []string{"query", "header", "path", "formData"} {
		for _, sc := range scalars {
			add(in+"."+sc.id+".required", in, sc.s, true, nil)
			if in != "path" {
				add(in+"."+sc.id+".optional", in, sc.s, false, nil)
			}
		}
	}
	validated := []named{
		{"string.minLength2", J{"type": "string", "minLength": n("2")}},
		{"string.maxLength5", J{"type": "string", "maxLength": n("5")}},
		{"string.pattern", J{"type": "string", "pattern": "^[a-c]+[0-9]$", "x-vf-samples": []any{"abc1", "a2"}, "x-vf-docs": []any{"abd1", "abc", "ABC1"}}},
		{"string.enum", J{"type": "string", "enum": []any{"red", "green", "blue"}}},
		{"string.date.enum", J{"type": "string", "format": "date", "enum": []any{"2021-03-04", "1999-12-31"}}},
		{"integer.min1", J{"type": "integer", "minimum": n("1")}},
		{"integer.max10", J{"type": "integer", "maximum": n("10")}},
		{"integer.min0", J{"type": "integer", "minimum": n("0")}},
		{"integer.exclmin0", J{"type": "integer", "minimum": n("0"), "exclusiveMinimum": true}},
		{"integer.exclmax10", J{"type": "integer", "maximum": n("10"), "exclusiveMaximum": true}},
		{"integer.multipleOf3", J{"type": "integer", "multipleOf": n("3")}},
		{"integer.enum", J{"type": "integer", "enum": []any{n("1"), n("2"), n("3")}}},
		{"integer.int32.range", J{"type": "integer", "format": "int32", "minimum": n("-3"), "maximum": n("3")}},
		{"number.min0.5", J{"type": "number", "minimum": n("0.5")}},
		{"number.max9.5", J{"type": "number", "maximum": n("9.5")}},
		{"number.float.range", J{"type": "number", "format": "float", "minimum": n("-1.5"), "maximum": n("1.5")}},
		{"number.multipleOf0.5", J{"type": "number", "multipleOf": n("0.5")}},
		{"number.enum", J{"type": "number", "enum": []any{n("1.5"), n("2.5")}}},
	}
	for _, in := range []string{"query", "header", "path", "formData"} {
		for _, v := range validated {
			add(in+"."+v.id+".required", in, v.s, true, nil)
			if in == "query" || in == "header" {
				add(in+"."+v.id+".optional", in, v.s, false, nil)
			}
		}
	}
	// defaults on optional parameters
	for _, in := range []string{"query", "header", "formData"} {
		add(in+".string.default", in, J{"type": "string", "default": "dflt"}, false, nil)
		add(in+".string.enum.default", in, J{"type": "string", "enum": []any{"red", "green"}, "default": "green"}, false, nil)
		add(in+".integer.default", in, J{"type": "integer", "default": n("7"), "minimum": n("1")}, false, nil)
		add(in+".integer.int32.default", in, J{"type": "integer", "format": "int32", "default": n("7")}, false, nil)
		add(in+".number.default", in, J{"type": "number", "default": n("1.5")}, false, nil)
		add(in+".boolean.default-true", in, J{"type": "boolean", "default": true}, false, nil)
		add(in+".string.date.default", in, J{"type": "string", "format": "date", "default": "2021-03-04"}, false, nil)
		add(in+".array.csv.integer.default", in, J{"type": "array", "items": J{"type": "integer"}, "default": []any{n("1"), n("2")}}, false, nil)
		add(in+".array.csv.string.default", in, J{"type": "array", "items": J{"type": "string"}, "default": []any{"x", "y"}}, false, nil)
	}
	// allowEmptyValue (query / formData only, per Swagger 2.0)
	for _, in := range []string{"query", "formData"} {
		add(in+".string.allowEmpty.required", in, J{"type": "string", "allowEmptyValue": true}, true, nil)
		add(in+".string.allowEmpty.optional", in, J{"type": "string", "allowEmptyValue": true}, false, nil)
		add(in+".string.minLength2.allowEmpty.required", in, J{"type": "string", "minLength": n("2"), "allowEmptyValue": true}, true, nil)
		add(in+".integer.allowEmpty.optional", in, J{"type": "integer", "allowEmptyValue": true}, false, nil)
		add(in+".array.csv.string.allowEmpty.required", in, J{"type": "array", "items": J{"type": "string"}, "allowEmptyValue": true}, true, nil)
		add(in+".array.multi.integer.allowEmpty.optional", in, J{"type": "array", "collectionFormat": "multi", "items": J{"type": "integer"}, "allowEmptyValue": true}, false, nil)
	}
	// arrays
	items := []named{
		{"string", J{"type": "string"}},
		{"integer", J{"type": "integer"}},
		{"integer.int32", J{"type": "integer", "format": "int32"}},
		{"number", J{"type": "number"}},
		{"boolean", J{"type": "boolean"}},
		{"string.date", J{"type": "string", "format": "date"}},
		{"string.uuid", J{"type": "string", "format": "uuid"}},
	}
	for _, in := range []string{"query", "header", "path", "formData"} {
		cfs := []string{"", "csv", "ssv", "tsv", "pipes"}
		if in == "query" || in == "formData" {
			cfs = append(cfs, "multi")
		}
		for _, cf := range cfs {
			for k, it := range items {
				if (cf == "ssv" || cf == "tsv" || cf == "") && k > 1 {
					continue // the rarer formats only with the two main item types
				}
				if (in == "path" || in == "header") && k > 2 {
					continue
				}
				s := J{"type": "array", "items": it.s}
				cfid := "default-csv"
				if cf != "" {
					s["collectionFormat"] = cf
					cfid = cf
				}
				add(fmt.Sprintf("%s.array.%s.%s.required", in, cfid, it.id), in, s, true, nil)
				if in != "path" && k < 2 && cf != "" {
					add(fmt.Sprintf("%s.array.%s.%s.optional", in, cfid, it.id), in, s, false, nil)
				}
			}
		}
		// array-level and item-level validations
		val := []named{
			{"minItems2", J{"type": "array", "minItems": n("2"), "items": J{"type": "integer"}}},
			{"maxItems2", J{"type": "array", "maxItems": n("2"), "items": J{"type": "string"}}},
			{"uniqueItems", J{"type": "array", "uniqueItems": true, "items": J{"type": "integer"}}},
			{"items.range", J{"type": "array", "items": J{"type": "integer", "minimum": n("1"), "maximum": n("9")}}},
			{"items.enum", J{"type": "array", "items": J{"type": "string", "enum": []any{"aa", "bb"}}}},
			{"items.minLength2", J{"type": "array", "items": J{"type": "string", "minLength": n("2")}}},
			{"items.pattern", J{"type": "array", "items": J{"type": "string", "pattern": "^[a-c]+$", "x-vf-samples": []any{"abc", "cab"}, "x-vf-docs": []any{"abd"}}}},
			{"enum", J{"type": "array", "items": J{"type": "string"}, "enum": []any{[]any{"a"}, []any{"a", "b"}}}},
		}
		for _, v := range val {
			for _, cf := range []string{"csv", "pipes", "multi"} {
				if cf == "multi" && in != "query" && in != "formData" {
					continue
				}
				if cf == "pipes" && (in == "path" || in == "formData") {
					continue
				}
				add(fmt.Sprintf("%s.array.%s.%s.required", in, cf, v.id), in, merge(v.s, J{"collectionFormat": cf}), true, nil)
			}
		}
		// nested arrays
		if in == "query" || in == "header" {
			add(in+".array.pipes-of-csv.integer.required", in, J{"type": "array", "collectionFormat": "pipes", "items": J{"type": "array", "collectionFormat": "csv", "items": J{"type": "integer"}}}, true, nil)
			add(in+".array.pipes-of-csv.integer.items-range.required", in, J{"type": "array", "collectionFormat": "pipes", "items": J{"type": "array", "collectionFormat": "csv", "maxItems": n("2"), "items": J{"type": "integer", "minimum": n("1"), "maximum": n("9")}}}, true, nil)
			add(in+".array.csv-of-pipes.string.optional", in, J{"type": "array", "collectionFormat": "csv", "items": J{"type": "array", "collectionFormat": "pipes", "items": J{"type": "string", "minLength": n("2")}}}, false, nil)
			add(in+".array.pipes-of-csv-of-ssv.integer.required", in, J{"type": "array", "collectionFormat": "pipes", "items": J{"type": "array", "collectionFormat": "csv", "items": J{"type": "array", "collectionFormat": "ssv", "items": J{"type": "integer", "maximum": n("9")}}}}, true, nil)
		}
		if in == "query" || in == "header" {
			add(in+".array.pipes-of-csv.integer.default", in, J{"type": "array", "collectionFormat": "pipes", "items": J{"type": "array", "collectionFormat": "csv", "items": J{"type": "integer", "format": "int32"}},
				"default": []any{[]any{n("1"), n("2")}, []any{n("3")}}}, false, nil)
			add(in+".array.csv-of-pipes.string.default", in, J{"type": "array", "items": J{"type": "array", "collectionFormat": "pipes", "items": J{"type": "string"}}, "default": []any{[]any{"a", "b"}, []any{"c"}}}, false, nil)
		}
		if in == "query" {
			add("query.array.multi-of-csv.integer.required", in, J{"type": "array", "collectionFormat": "multi", "items": J{"type": "array", "collectionFormat": "csv", "items": J{"type": "integer"}}}, true, nil)
		}
	}
	// header names as specs spell them: not in the canonical MIME form Go's net/http stores them under
	for _, hn := range []string{"X-Request-ID", "ETag", "x-trace-level", "X-API-KEY", "Content-MD5", "x_under_score", "WWW-Authenticate-2"} {
		add("header.name="+hn+".string.required", "header", J{"type": "string", "minLength": n("2")}, true, J{"name": hn})
		add("header.name="+hn+".integer.max.optional", "header", J{"type": "integer", "maximum": n("9")}, false, J{"name": hn})
		add("header.name="+hn+".array.csv.default", "header", J{"type": "array", "items": J{"type": "string"}, "default": []any{"a", "b"}}, false, J{"name": hn})
	}
	// formData file
	add("formData.file.required", "formData", J{"type": "file"}, true, nil)
	add("formData.file.optional", "formData", J{"type": "file"}, false, nil)
	// body parameters: schema shapes from the model catalogue
	want := map[string]bool{"string": true, "integer.int32.range-3..3": true, "string.date-time": true, "array.integer.range": true, "array.of-ref": true, "map.integer.range": true, "map.of-ref": true,
		"object.required+optional": true, "object.nested": true, "object.formats": true, "object.ref-props": true, "allOf.ref+inline": true, "object.props+additional-schema": true, "array.items1-3": true, "poly.base": true}
	for _, sa := range SchemaAtoms() {
		if !want[sa.ID] {
			continue
		}
		sa := sa
		for _, variant := range []string{"inline.required", "ref.required", "inline.optional"} {
			if sa.Poly && variant != "ref.required" {
				continue
			}
			a := ParamAtom{ID: "body." + sa.ID + "." + variant, Method: "POST", Body: true, Consumes: []any{"application/json"}}
			prefix := "B" + CamelID(sa.ID) + CamelID(variant)
			var schema J
			aux := map[string]J{}
			if sa.RootOnly {
				for k, v := range sa.Aux {
					aux[k] = jx.CloneJ(v)
				}
				schema = jx.CloneJ(sa.Schema)
				if nm, ok := schema["$ref"].(string); ok {
					hint(aux[strings.TrimPrefix(nm, "#/definitions/")], &sa)
				}
			} else {
				schema = renameRefs(jx.Clone(sa.Schema), sa.Aux, prefix).(J)
				hint(schema, &sa)
				for k, v := range sa.Aux {
					aux[prefix+k] = renameRefs(jx.Clone(v), sa.Aux, prefix).(J)
				}
				if strings.HasPrefix(variant, "ref") {
					aux[prefix+"Body"] = schema
					schema = ref(prefix + "Body")
				}
			}
			a.Aux = aux
			a.Param = J{"name": "body", "in": "body", "schema": schema}
			if strings.HasSuffix(variant, "required") {
				a.Param["required"] = true
			}
			out = append(out, a)
		}
	}
	return out
}

// ParamOp is one operation of a parameter spec.
type ParamOp struct {
	Atoms  []ParamAtom // the parameters of the operation (one in pass A)
	OpID   string
	Method string
	Path   string // template
}

// ParamSpec builds a document with one operation per entry.
func ParamSpec(title string, ops []ParamOp, basePath string) J {
	paths := J{}
	defs := J{}
	for _, op := range ops {
		var params []any
		var consumes []any
		for _, a := range op.Atoms {
			params = append(params, jx.Clone(a.Param))
			for k, v := range a.Aux {
				defs[k] = v
			}
			if a.Consumes != nil {
				consumes = a.Consumes
			}
		}
		o := J{"operationId": op.OpID, "parameters": params, "responses": J{"200": J{"description": "ok"}, "default": J{"description": "error"}}}
		if consumes != nil {
			o["consumes"] = consumes
		}
		pi, _ := paths[op.Path].(J)
		if pi == nil {
			pi = J{}
			paths[op.Path] = pi
		}
		pi[strings.ToLower(op.Method)] = o
	}
	d := J{"swagger": "2.0", "info": J{"title": title, "version": "1.0.0"}, "basePath": basePath, "consumes": []any{"application/json"}, "produces": []any{"application/json"}, "paths": paths}
	if len(defs) > 0 {
		d["definitions"] = defs
	}
	return d
}

// OpFor places a single atom into its own operation number k.
func OpFor(k int, a ParamAtom) ParamOp {
	op := ParamOp{Atoms: []ParamAtom{a}, OpID: fmt.Sprintf("op%d", k), Method: a.Method, Path: fmt.Sprintf("/op%d", k)}
	if a.In() == "path" {
		op.Path += "/{" + a.Name() + "}"
	}
	return op
}

// SortedParamIDs is a helper for evidence.
func SortedParamIDs(as []ParamAtom) []string {
	ids := make([]string, len(as))
	for i, a := range as {
		ids[i] = a.ID
	}
	sort.Strings(ids)
	return ids
}
