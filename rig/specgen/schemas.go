// Package specgen holds the atom catalogues from which Swagger 2.0 documents are
// built: schema shapes (this file), name corpus, operations.
package specgen

import (
	"encoding/json"
	"fmt"
	"sort"
	"strings"

	"verif/rig/jx"
)

type J = jx.J

func n(s string) json.Number { return json.Number(s) }

// SchemaAtom is one schema shape, exercised alone in a minimal context.
type SchemaAtom struct {
	ID     string
	Schema J            // the shape; may $ref Aux definitions by "#/definitions/<name>"
	Aux    map[string]J // auxiliary definitions the shape refers to (names are globally unique)
	// Root: usable only as a whole definition (polymorphic families, tuples).
	RootOnly bool
	// Tuple shapes are only partially validated by generated code (documented).
	Tuple bool
	// Poly: polymorphic base/subtype family; documents carry a discriminator.
	Poly bool
	// Unsatisfiable under strict JSON-schema semantics (allOf of a struct and a map):
	// used for serialisation round trips (C05) only, never for validation verdicts.
	NoValidate bool
	// Docs are extra hand-written instance values for this shape (valid and invalid alike;
	// the reference validator decides).
	Docs []any
	// Sample is a valid value when the generic generator cannot synthesise one (patterns).
	Sample any
	// Samples provides several distinct valid values (uniqueItems, enum-free strings with patterns).
	Samples []any
}

var stringFormats = []string{"date", "date-time", "uuid", "uuid3", "uuid4", "uuid5", "email", "uri", "hostname", "ipv4", "ipv6", "mac",
	"byte", "password", "duration", "bsonobjectid", "ulid", "creditcard", "isbn", "isbn10", "isbn13", "ssn", "hexcolor", "rgbcolor", "cidr"}

// FormatSamples gives, per string format, valid samples and one invalid sample.
var FormatSamples = map[string]struct {
	Valid   []string
	Invalid string
}{
	"date":         {[]string{"2021-03-04", "1999-12-31"}, "2021-13-45"},
	"date-time":    {[]string{"2021-03-04T05:06:07Z", "1999-12-31T23:59:59.123+02:00"}, "2021-03-04 25:00"},
	"uuid":         {[]string{"a8098c1a-f86e-11da-bd1a-00112444be1e", "c56a4180-65aa-42ec-a945-5fd21dec0538"}, "not-a-uuid"},
	"uuid3":        {[]string{"bcd02e22-68f0-3046-a512-327cca9def8f"}, "not-a-uuid"},
	"uuid4":        {[]string{"c56a4180-65aa-42ec-a945-5fd21dec0538"}, "not-a-uuid"},
	"uuid5":        {[]string{"e8d104ca-3f2e-5f1c-a2b7-9a2f1d4c6e0b"}, "not-a-uuid"},
	"email":        {[]string{"someone@example.com", "a.b@example.org"}, "not an email"},
	"uri":          {[]string{"http://example.com/a?b=c", "https://example.org/"}, "::not a uri"},
	"hostname":     {[]string{"example.com", "sub.example.org"}, "-bad_host-.."},
	"ipv4":         {[]string{"192.168.1.10", "10.0.0.1"}, "300.1.1.1"},
	"ipv6":         {[]string{"2001:db8::1", "::1"}, "2001:db8::zz"},
	"mac":          {[]string{"01:02:03:04:05:ab", "aa:bb:cc:dd:ee:ff"}, "01:02:03"},
	"byte":         {[]string{"aGVsbG8=", "d29ybGQ="}, "@@not base64@@"},
	"password":     {[]string{"s3cret", "hunter2"}, ""},
	"duration":     {[]string{"3h", "45m"}, "three hours"},
	"bsonobjectid": {[]string{"507f1f77bcf86cd799439011", "507f191e810c19729de860ea"}, "zzz"},
	"ulid":         {[]string{"01ARZ3NDEKTSV4RRFFQ69G5FAV", "01BX5ZZKBKACTAV9WEVGEMMVRZ"}, "not-ulid"},
	"creditcard":   {[]string{"4111111111111111", "5500000000000004"}, "1234"},
	"isbn":         {[]string{"0321751043", "9780321751041"}, "123"},
	"isbn10":       {[]string{"0321751043"}, "123"},
	"isbn13":       {[]string{"9780321751041"}, "123"},
	"ssn":          {[]string{"111-11-1111", "123-45-6789"}, "111111"},
	"hexcolor":     {[]string{"#ff00aa", "#fff"}, "ff00zz"},
	"rgbcolor":     {[]string{"rgb(255,0,10)", "rgb(1,2,3)"}, "rgb(300,0,0)"},
	"cidr":         {[]string{"192.168.0.0/24", "10.0.0.0/8"}, "192.168.0.0/99"},
}

func obj(required []string, props J) J {
	o := J{"type": "object", "properties": props}
	if len(required) > 0 {
		r := make([]any, len(required))
		for i, x := range required {
			r[i] = x
		}
		o["required"] = r
	}
	return o
}

func ref(name string) J { return J{"$ref": "#/definitions/" + name} }

// SchemaAtoms returns the catalogue (stable order).
func SchemaAtoms() []SchemaAtom {
	var out []SchemaAtom
	add := func(id string, s J) *SchemaAtom {
		out = append(out, SchemaAtom{ID: id, Schema: s})
		return &out[len(out)-1]
	}
	// ---- primitives and formats
	add("string", J{"type": "string"})
	for _, f := range stringFormats {
		add("string."+f, J{"type": "string", "format": f})
	}
	add("integer", J{"type": "integer"})
	for _, f := range []string{"int32", "int64", "uint32", "uint64"} {
		add("integer."+f, J{"type": "integer", "format": f})
	}
	add("number", J{"type": "number"})
	add("number.float", J{"type": "number", "format": "float"})
	add("number.double", J{"type": "number", "format": "double"})
	add("boolean", J{"type": "boolean"})
	// ---- string validations (bounds at / around zero drive the nullable rules)
	add("string.minLength0", J{"type": "string", "minLength": n("0")})
	add("string.minLength1", J{"type": "string", "minLength": n("1")})
	add("string.minLength3", J{"type": "string", "minLength": n("3")})
	add("string.maxLength5", J{"type": "string", "maxLength": n("5")})
	add("string.maxLength0", J{"type": "string", "maxLength": n("0")})
	add("string.len2-4", J{"type": "string", "minLength": n("2"), "maxLength": n("4")})
	a := add("string.pattern", J{"type": "string", "pattern": "^[a-c]+[0-9]$"})
	a.Sample, a.Samples, a.Docs = "abc1", []any{"abc1", "a2", "cc3"}, []any{"abd1", "abc", "1", "ABC1"}
	a = add("string.pattern+len", J{"type": "string", "pattern": "^x*$", "minLength": n("2"), "maxLength": n("4")})
	a.Sample, a.Samples, a.Docs = "xxx", []any{"xx", "xxx", "xxxx"}, []any{"x", "xxxxx", "xyx"}
	add("string.enum", J{"type": "string", "enum": []any{"red", "green", "blue"}})
	add("string.enum-with-empty", J{"type": "string", "enum": []any{"", "on", "off"}})
	add("string.enum-escapes", J{"type": "string", "enum": []any{"a<b", "x&y", "q\"uote", "back\\slash", "plain"}})
	add("string.enum-commas", J{"type": "string", "enum": []any{"a, b", "c d", "[e]"}})
	add("string.date.enum", J{"type": "string", "format": "date", "enum": []any{"2021-03-04", "1999-12-31"}})
	add("string.unicode-len", J{"type": "string", "minLength": n("2"), "maxLength": n("3")}).Docs = []any{"é", "éé", "日本語", "日本語字", "👍", "👍👍"}
	add("string.date-time.minLength", J{"type": "string", "format": "date-time", "minLength": n("1")})
	add("string.uuid.maxLength", J{"type": "string", "format": "uuid", "maxLength": n("36")})
	// ---- integer validations
	for _, f := range []string{"", "int32", "int64"} {
		sfx := ""
		if f != "" {
			sfx = "." + f
		}
		mk := func(extra J) J {
			s := J{"type": "integer"}
			if f != "" {
				s["format"] = f
			}
			for k, v := range extra {
				s[k] = v
			}
			return s
		}
		add("integer"+sfx+".min0", mk(J{"minimum": n("0")}))
		add("integer"+sfx+".min1", mk(J{"minimum": n("1")}))
		add("integer"+sfx+".min-5", mk(J{"minimum": n("-5")}))
		add("integer"+sfx+".max0", mk(J{"maximum": n("0")}))
		add("integer"+sfx+".max10", mk(J{"maximum": n("10")}))
		add("integer"+sfx+".max-1", mk(J{"maximum": n("-1")}))
		add("integer"+sfx+".exclmin0", mk(J{"minimum": n("0"), "exclusiveMinimum": true}))
		add("integer"+sfx+".exclmax10", mk(J{"maximum": n("10"), "exclusiveMaximum": true}))
		add("integer"+sfx+".range-3..3", mk(J{"minimum": n("-3"), "maximum": n("3")}))
		add("integer"+sfx+".multipleOf3", mk(J{"multipleOf": n("3")}))
		add("integer"+sfx+".enum", mk(J{"enum": []any{n("1"), n("2"), n("3")}}))
		add("integer"+sfx+".enum-with-zero", mk(J{"enum": []any{n("0"), n("5")}}))
	}
	add("integer.uint32.max10", J{"type": "integer", "format": "uint32", "maximum": n("10")})
	add("integer.uint64.min1", J{"type": "integer", "format": "uint64", "minimum": n("1")})
	// every numeric Go type: exclusive flag on one bound only (the two flags must not be confused)
	for _, f := range []string{"int32", "int64", "uint32", "uint64"} {
		add("integer."+f+".min1+exclmax10", J{"type": "integer", "format": f, "minimum": n("1"), "maximum": n("10"), "exclusiveMaximum": true})
		add("integer."+f+".exclmin1+max10", J{"type": "integer", "format": f, "minimum": n("1"), "exclusiveMinimum": true, "maximum": n("10")})
		add("integer."+f+".exclmax10-only", J{"type": "integer", "format": f, "maximum": n("10"), "exclusiveMaximum": true})
	}
	for _, f := range []string{"float", "double"} {
		add("number."+f+".min1+exclmax10", J{"type": "number", "format": f, "minimum": n("1"), "maximum": n("10"), "exclusiveMaximum": true})
		add("number."+f+".exclmin1+max10", J{"type": "number", "format": f, "minimum": n("1"), "exclusiveMinimum": true, "maximum": n("10")})
	}
	// ---- number validations
	for _, f := range []string{"", "float", "double"} {
		sfx := ""
		if f != "" {
			sfx = "." + f
		}
		mk := func(extra J) J {
			s := J{"type": "number"}
			if f != "" {
				s["format"] = f
			}
			for k, v := range extra {
				s[k] = v
			}
			return s
		}
		add("number"+sfx+".min0", mk(J{"minimum": n("0")}))
		add("number"+sfx+".min0.5", mk(J{"minimum": n("0.5")}))
		add("number"+sfx+".max0", mk(J{"maximum": n("0")}))
		add("number"+sfx+".max9.5", mk(J{"maximum": n("9.5")}))
		add("number"+sfx+".exclmin0", mk(J{"minimum": n("0"), "exclusiveMinimum": true}))
		add("number"+sfx+".exclmax9.5", mk(J{"maximum": n("9.5"), "exclusiveMaximum": true}))
		add("number"+sfx+".range", mk(J{"minimum": n("-1.5"), "maximum": n("1.5")}))
		add("number"+sfx+".multipleOf0.5", mk(J{"multipleOf": n("0.5")}))
		add("number"+sfx+".enum", mk(J{"enum": []any{n("1.5"), n("2.5")}}))
	}
	// ---- arrays
	add("array.string", J{"type": "array", "items": J{"type": "string"}})
	add("array.string.minLength2", J{"type": "array", "items": J{"type": "string", "minLength": n("2")}})
	add("array.integer.range", J{"type": "array", "items": J{"type": "integer", "minimum": n("1"), "maximum": n("9")}})
	add("array.number.max", J{"type": "array", "items": J{"type": "number", "maximum": n("9.5")}})
	add("array.date", J{"type": "array", "items": J{"type": "string", "format": "date"}})
	add("array.date-time", J{"type": "array", "items": J{"type": "string", "format": "date-time"}})
	add("array.uuid", J{"type": "array", "items": J{"type": "string", "format": "uuid"}})
	add("array.boolean", J{"type": "array", "items": J{"type": "boolean"}})
	add("array.minItems1", J{"type": "array", "minItems": n("1"), "items": J{"type": "string"}})
	add("array.minItems2", J{"type": "array", "minItems": n("2"), "items": J{"type": "integer"}})
	add("array.maxItems2", J{"type": "array", "maxItems": n("2"), "items": J{"type": "string"}})
	add("array.maxItems0", J{"type": "array", "maxItems": n("0"), "items": J{"type": "string"}})
	add("array.items1-3", J{"type": "array", "minItems": n("1"), "maxItems": n("3"), "items": J{"type": "integer"}})
	add("array.unique.string", J{"type": "array", "uniqueItems": true, "items": J{"type": "string"}})
	add("array.unique.integer", J{"type": "array", "uniqueItems": true, "items": J{"type": "integer"}})
	add("array.items-enum", J{"type": "array", "items": J{"type": "string", "enum": []any{"aa", "bb"}}})
	add("array.enum", J{"type": "array", "items": J{"type": "string"}, "enum": []any{[]any{"a"}, []any{"a", "b"}}})
	add("array.of-array.integer", J{"type": "array", "items": J{"type": "array", "items": J{"type": "integer", "maximum": n("9")}}})
	add("array.of-array.maxItems", J{"type": "array", "items": J{"type": "array", "maxItems": n("2"), "items": J{"type": "string"}}})
	add("array.of-array.items-enum", J{"type": "array", "items": J{"type": "array", "items": J{"type": "string", "enum": []any{"aa", "bb"}}}})
	add("array.of-map.integer", J{"type": "array", "items": J{"type": "object", "additionalProperties": J{"type": "integer", "maximum": n("9")}}})
	a = add("array.of-ref", J{"type": "array", "items": ref("AuxThing")})
	a.Aux = map[string]J{"AuxThing": obj([]string{"id"}, J{"id": J{"type": "integer", "minimum": n("1")}, "label": J{"type": "string", "maxLength": n("4")}})}
	a = add("array.of-ref.minItems", J{"type": "array", "minItems": n("1"), "maxItems": n("2"), "items": ref("AuxThing2")})
	a.Aux = map[string]J{"AuxThing2": obj([]string{"id"}, J{"id": J{"type": "integer", "minimum": n("1")}})}
	add("array.of-object", J{"type": "array", "items": obj([]string{"k"}, J{"k": J{"type": "string", "minLength": n("2")}, "v": J{"type": "integer", "maximum": n("9")}})})
	// ---- maps
	add("map.string", J{"type": "object", "additionalProperties": J{"type": "string"}})
	add("map.string.minLength2", J{"type": "object", "additionalProperties": J{"type": "string", "minLength": n("2")}})
	add("map.integer.range", J{"type": "object", "additionalProperties": J{"type": "integer", "minimum": n("1"), "maximum": n("9")}})
	add("map.date", J{"type": "object", "additionalProperties": J{"type": "string", "format": "date"}})
	add("map.date-time", J{"type": "object", "additionalProperties": J{"type": "string", "format": "date-time"}})
	add("map.enum-values", J{"type": "object", "additionalProperties": J{"type": "string", "enum": []any{"aa", "bb"}}})
	add("map.of-array.integer", J{"type": "object", "additionalProperties": J{"type": "array", "items": J{"type": "integer", "maximum": n("9")}}})
	add("map.of-array.maxItems", J{"type": "object", "additionalProperties": J{"type": "array", "maxItems": n("2"), "items": J{"type": "string"}}})
	add("map.of-array.items-enum", J{"type": "object", "additionalProperties": J{"type": "array", "items": J{"type": "string", "enum": []any{"aa", "bb"}}}})
	add("map.of-map.integer", J{"type": "object", "additionalProperties": J{"type": "object", "additionalProperties": J{"type": "integer", "maximum": n("9")}}})
	a = add("map.of-ref", J{"type": "object", "additionalProperties": ref("AuxItem")})
	a.Aux = map[string]J{"AuxItem": obj([]string{"id"}, J{"id": J{"type": "integer", "minimum": n("1")}})}
	add("map.of-object", J{"type": "object", "additionalProperties": obj([]string{"k"}, J{"k": J{"type": "string", "minLength": n("2")}})})
	a = add("map.of-array.of-ref", J{"type": "object", "additionalProperties": J{"type": "array", "items": ref("AuxDeep1")}})
	a.Aux = map[string]J{"AuxDeep1": obj([]string{"id"}, J{"id": J{"type": "integer", "minimum": n("1")}, "tag": J{"type": "string", "maxLength": n("3")}})}
	a = add("array.of-map.of-ref", J{"type": "array", "items": J{"type": "object", "additionalProperties": ref("AuxDeep2")}})
	a.Aux = map[string]J{"AuxDeep2": obj([]string{"id"}, J{"id": J{"type": "integer", "minimum": n("1")}})}
	a = add("array.of-array.of-ref", J{"type": "array", "items": J{"type": "array", "items": ref("AuxDeep3")}})
	a.Aux = map[string]J{"AuxDeep3": obj([]string{"id"}, J{"id": J{"type": "integer", "minimum": n("1")}})}
	a = add("map.of-map.of-ref", J{"type": "object", "additionalProperties": J{"type": "object", "additionalProperties": ref("AuxDeep4")}})
	a.Aux = map[string]J{"AuxDeep4": obj([]string{"id"}, J{"id": J{"type": "integer", "minimum": n("1")}})}
	add("map.of-array.of-object", J{"type": "object", "additionalProperties": J{"type": "array", "items": obj([]string{"k"}, J{"k": J{"type": "string", "minLength": n("2")}})}})
	add("map.minProperties1", J{"type": "object", "minProperties": n("1"), "additionalProperties": J{"type": "string"}})
	add("map.maxProperties1", J{"type": "object", "maxProperties": n("1"), "additionalProperties": J{"type": "integer"}})
	add("map.true", J{"type": "object", "additionalProperties": true})
	// ---- objects
	add("object.required+optional", obj([]string{"id"}, J{"id": J{"type": "integer", "minimum": n("1")}, "note": J{"type": "string", "maxLength": n("5")}}))
	add("object.nested", obj([]string{"inner"}, J{"inner": obj([]string{"x"}, J{"x": J{"type": "string", "minLength": n("2")}, "y": J{"type": "number", "maximum": n("9.5")}})}))
	add("object.nested-optional", obj(nil, J{"inner": obj([]string{"x"}, J{"x": J{"type": "integer", "minimum": n("1")}})}))
	add("object.props+additional-schema", J{"type": "object", "required": []any{"id"}, "properties": J{"id": J{"type": "integer", "minimum": n("1")}},
		"additionalProperties": J{"type": "string", "minLength": n("2")}})
	add("object.props+additional-true", J{"type": "object", "properties": J{"id": J{"type": "integer", "maximum": n("9")}}, "additionalProperties": true})
	add("object.props+additional-false", J{"type": "object", "properties": J{"id": J{"type": "integer", "maximum": n("9")}}, "additionalProperties": false})
	add("object.minProperties", J{"type": "object", "minProperties": n("1"), "properties": J{"a": J{"type": "string"}, "b": J{"type": "string"}}})
	add("object.maxProperties", J{"type": "object", "maxProperties": n("1"), "properties": J{"a": J{"type": "string"}, "b": J{"type": "string"}}})
	add("object.x-nullable-props", obj([]string{"rq"}, J{"rq": J{"type": "string", "x-nullable": true, "minLength": n("2")}, "op": J{"type": "integer", "x-nullable": true, "minimum": n("1")},
		"st": obj(nil, J{"z": J{"type": "integer"}})}))
	add("object.required-nonnullable", obj([]string{"cnt", "txt", "flag"}, J{"cnt": J{"type": "integer", "x-nullable": false, "minimum": n("-1")}, "txt": J{"type": "string", "x-nullable": false},
		"flag": J{"type": "boolean", "x-nullable": false}}))
	add("object.readOnly", obj([]string{"id"}, J{"id": J{"type": "integer", "readOnly": true, "minimum": n("1")}, "name": J{"type": "string", "minLength": n("2")}}))
	add("object.defaults", obj([]string{"lvl"}, J{"lvl": J{"type": "integer", "default": n("3"), "minimum": n("1")}, "mode": J{"type": "string", "default": "auto", "enum": []any{"auto", "manual"}}}))
	add("object.x-omitempty-false", obj(nil, J{"a": J{"type": "string", "x-omitempty": false}, "b": J{"type": "array", "items": J{"type": "string"}, "x-omitempty": true}, "c": J{"type": "integer", "x-omitempty": false}}))
	add("object.weird-names", obj([]string{"a-b"}, J{"a-b": J{"type": "string", "minLength": n("2")}, "c d": J{"type": "integer", "maximum": n("9")}, "e.f": J{"type": "boolean"}, "1st": J{"type": "string"},
		"type": J{"type": "string"}, "@id": J{"type": "string"}, "über": J{"type": "string"}}))
	add("object.x-go-name", obj(nil, J{"id": J{"type": "integer", "x-go-name": "Identifier", "minimum": n("1")}, "other": J{"type": "string", "x-go-name": "OtherName"}}))
	add("object.formats", obj([]string{"when"}, J{"when": J{"type": "string", "format": "date-time"}, "day": J{"type": "string", "format": "date"}, "uid": J{"type": "string", "format": "uuid"},
		"took": J{"type": "string", "format": "duration"}, "raw": J{"type": "string", "format": "byte"}, "mail": J{"type": "string", "format": "email"}}))
	add("object.arrays", obj([]string{"req"}, J{"req": J{"type": "array", "items": J{"type": "string"}}, "opt": J{"type": "array", "minItems": n("1"), "items": J{"type": "integer", "minimum": n("1")}}}))
	a = add("object.ref-props", obj([]string{"main"}, J{"main": ref("AuxPoint"), "alt": ref("AuxPoint"), "when": ref("AuxDay"), "lvl": ref("AuxLevel")}))
	a.Aux = map[string]J{"AuxPoint": obj([]string{"x"}, J{"x": J{"type": "integer", "minimum": n("0")}, "y": J{"type": "integer", "maximum": n("9")}}),
		"AuxDay": J{"type": "string", "format": "date"}, "AuxLevel": J{"type": "integer", "minimum": n("1"), "maximum": n("5")}}
	a = add("object.recursive", obj(nil, J{"val": J{"type": "integer", "minimum": n("1")}, "next": ref("AuxNode")}))
	a.Aux = map[string]J{"AuxNode": obj([]string{"val"}, J{"val": J{"type": "integer", "minimum": n("1")}, "next": ref("AuxNode"), "kids": J{"type": "array", "items": ref("AuxNode")}})}
	// ---- allOf
	a = add("allOf.refs", J{"allOf": []any{ref("AuxLeft"), ref("AuxRight")}})
	a.Aux = map[string]J{"AuxLeft": obj([]string{"l"}, J{"l": J{"type": "string", "minLength": n("2")}}), "AuxRight": obj(nil, J{"r": J{"type": "integer", "maximum": n("9")}})}
	a = add("allOf.ref+inline", J{"allOf": []any{ref("AuxBase"), obj([]string{"extra"}, J{"extra": J{"type": "string", "maxLength": n("4")}, "n": J{"type": "number", "minimum": n("0.5")}})}})
	a.Aux = map[string]J{"AuxBase": obj([]string{"id"}, J{"id": J{"type": "integer", "minimum": n("1")}})}
	add("allOf.inline-only", J{"allOf": []any{obj([]string{"a"}, J{"a": J{"type": "string", "minLength": n("2")}}), obj(nil, J{"b": J{"type": "integer", "maximum": n("9")}})}})
	a = add("allOf.nested", J{"allOf": []any{ref("AuxMid")}})
	a.Aux = map[string]J{"AuxMid": J{"allOf": []any{ref("AuxBot"), obj(nil, J{"m": J{"type": "string", "maxLength": n("3")}})}}, "AuxBot": obj([]string{"b"}, J{"b": J{"type": "integer", "minimum": n("1")}})}
	a = add("allOf.nullable-member", obj(nil, J{"p": J{"allOf": []any{ref("AuxNb"), J{"x-nullable": true}}}}))
	a.Aux = map[string]J{"AuxNb": obj([]string{"q"}, J{"q": J{"type": "string", "minLength": n("2")}})}
	a = add("allOf.with-map-member", J{"allOf": []any{ref("AuxKeyed"), J{"type": "object", "additionalProperties": J{"type": "integer", "maximum": n("9")}}}})
	a.Aux = map[string]J{"AuxKeyed": obj([]string{"key"}, J{"key": J{"type": "string", "minLength": n("2")}})}
	a.NoValidate = true
	a = add("allOf.inline-required-empties", J{"allOf": []any{ref("AuxReqBase"), obj([]string{"tags", "enabled", "count", "list", "note"}, J{
		"tags": J{"type": "object", "additionalProperties": J{"type": "string"}}, "enabled": J{"type": "boolean", "x-nullable": false}, "count": J{"type": "integer", "x-nullable": false},
		"list": J{"type": "array", "items": J{"type": "string"}}, "note": J{"type": "string", "x-nullable": false}})}})
	a.Aux = map[string]J{"AuxReqBase": obj([]string{"id"}, J{"id": J{"type": "integer", "minimum": n("1")}})}
	a.Docs = []any{jx.MustParse(`{"id":2,"tags":{},"enabled":false,"count":0,"list":[],"note":""}`), jx.MustParse(`{"id":2,"tags":{"a":"b"},"enabled":true,"count":3,"list":["x"],"note":"n"}`)}
	// ---- polymorphism
	a = add("poly.base", ref("PolyAnimal"))
	a.RootOnly, a.Poly = true, true
	a.Aux = map[string]J{
		"PolyAnimal": J{"type": "object", "discriminator": "kind", "required": []any{"kind", "name"}, "properties": J{"kind": J{"type": "string"}, "name": J{"type": "string", "minLength": n("2")}}},
		"PolyCat":    J{"allOf": []any{ref("PolyAnimal"), obj(nil, J{"lives": J{"type": "integer", "minimum": n("1"), "maximum": n("9")}})}},
		"PolyDog":    J{"allOf": []any{ref("PolyAnimal"), obj([]string{"bark"}, J{"bark": J{"type": "string", "enum": []any{"loud", "soft"}}})}},
		"PolyZoo": obj(nil, J{"star": ref("PolyAnimal"), "all": J{"type": "array", "items": ref("PolyAnimal")}}),
	}
	a.Docs = []any{
		jx.MustParse(`{"kind":"PolyCat","name":"tom","lives":3}`), jx.MustParse(`{"kind":"PolyCat","name":"t","lives":3}`), jx.MustParse(`{"kind":"PolyCat","name":"tom","lives":10}`),
		jx.MustParse(`{"kind":"PolyDog","name":"rex","bark":"loud"}`), jx.MustParse(`{"kind":"PolyDog","name":"rex"}`), jx.MustParse(`{"kind":"PolyDog","name":"rex","bark":"mute"}`),
		jx.MustParse(`{"kind":"PolyDog","bark":"soft"}`),
	}
	a = add("poly.x-class", ref("PolyShape"))
	a.RootOnly, a.Poly = true, true
	a.Aux = map[string]J{
		"PolyShape":  J{"type": "object", "discriminator": "kind", "required": []any{"kind"}, "properties": J{"kind": J{"type": "string"}, "label": J{"type": "string", "maxLength": n("5")}}},
		"PolyCircle": J{"x-class": "shapes.Circle", "allOf": []any{ref("PolyShape"), obj([]string{"radius"}, J{"radius": J{"type": "number", "minimum": n("0.5")}})}},
		"PolySquare": J{"allOf": []any{ref("PolyShape"), obj(nil, J{"side": J{"type": "integer", "minimum": n("1")}})}},
		"PolyDrawing": obj(nil, J{"main": ref("PolyShape"), "shapes": J{"type": "array", "items": ref("PolyShape")}}),
	}
	a.Docs = []any{
		jx.MustParse(`{"kind":"shapes.Circle","label":"c","radius":2.5}`), jx.MustParse(`{"kind":"shapes.Circle","label":"c","radius":0.25}`), jx.MustParse(`{"kind":"shapes.Circle","label":"toolong","radius":1}`),
		jx.MustParse(`{"kind":"PolySquare","side":3}`), jx.MustParse(`{"kind":"PolySquare","side":0}`), jx.MustParse(`{"kind":"shapes.Circle","label":"c"}`),
	}
	// ---- tuples
	a = add("tuple.basic", J{"type": "array", "items": []any{J{"type": "string", "minLength": n("2")}, J{"type": "integer", "maximum": n("9")}}})
	a.RootOnly, a.Tuple = true, true
	a.Docs = []any{jx.MustParse(`["ab",1]`), jx.MustParse(`["a",1]`), jx.MustParse(`["ab",10]`), jx.MustParse(`["ab"]`), jx.MustParse(`[1,"ab"]`), jx.MustParse(`["ab",1,true]`)}
	return out
}

// CamelID turns an atom id into a Go-safe CamelCase definition-name fragment.
func CamelID(id string) string {
	var b strings.Builder
	up := true
	for _, r := range id {
		switch {
		case r >= 'a' && r <= 'z':
			if up {
				b.WriteRune(r - 32)
			} else {
				b.WriteRune(r)
			}
			up = false
		case r >= 'A' && r <= 'Z', r >= '0' && r <= '9':
			b.WriteRune(r)
			up = false
		case r == '-':
			b.WriteString("Neg")
			up = true
		case r == '+':
			b.WriteString("And")
			up = true
		default:
			up = true
		}
	}
	return b.String()
}

// Positions in which a shape is placed.
var Positions = []string{"def", "reqprop", "optprop", "items", "mapval", "allof", "refprop", "aliasprop", "nested"}

// Placed is one (atom, position) definition inside a spec.
type Placed struct {
	Atom    *SchemaAtom
	Pos     string
	DefName string
	Schema  J // the definition
}

// Place wraps an atom into a definition for a position. aux definition names are
// prefixed so that several placements of one atom do not collide.
func Place(a *SchemaAtom, pos string) (Placed, map[string]J) {
	name := "Vf" + CamelID(a.ID) + strings.ToUpper(pos[:1]) + pos[1:]
	prefix := name + "X"
	if a.RootOnly {
		// polymorphic families and tuples: aux names are kept (discriminator values are
		// definition names), the definition under test is the $ref target or a new one
		defs := map[string]J{}
		for k, v := range a.Aux {
			defs[k] = jx.CloneJ(v)
		}
		if r, ok := a.Schema["$ref"].(string); ok {
			nm := strings.TrimPrefix(r, "#/definitions/")
			hint(defs[nm], a)
			return Placed{Atom: a, Pos: "def", DefName: nm, Schema: defs[nm]}, defs
		}
		s := jx.CloneJ(a.Schema)
		hint(s, a)
		defs[name] = s
		return Placed{Atom: a, Pos: "def", DefName: name, Schema: s}, defs
	}
	rename := func(v any) any { return renameRefs(jx.Clone(v), a.Aux, prefix) }
	s := rename(a.Schema).(J)
	hint(s, a)
	defs := map[string]J{}
	for k, v := range a.Aux {
		defs[prefix+k] = rename(v).(J)
	}
	var d J
	switch pos {
	case "def":
		d = s
	case "reqprop":
		d = obj([]string{"p"}, J{"p": s})
	case "optprop":
		d = obj(nil, J{"p": s, "z": J{"type": "string"}})
	case "items":
		d = J{"type": "array", "items": s}
	case "mapval":
		d = J{"type": "object", "additionalProperties": s}
	case "allof":
		d = J{"allOf": []any{obj([]string{"p"}, J{"p": s}), obj(nil, J{"q": J{"type": "string"}})}}
	case "refprop":
		defs[prefix+"Alias"] = s
		d = obj([]string{"p"}, J{"p": ref(prefix + "Alias"), "o": ref(prefix + "Alias")})
	case "aliasprop":
		// the shape behind a chain of alias definitions (definitions that are nothing but a $ref)
		defs[prefix+"Target"] = s
		defs[prefix+"Alias"] = ref(prefix + "Target")
		defs[prefix+"Alias2"] = ref(prefix + "Alias")
		d = obj([]string{"p"}, J{"p": ref(prefix + "Alias"), "o": ref(prefix + "Alias"), "c": ref(prefix + "Alias2")})
	case "nested":
		d = obj(nil, J{"o": obj([]string{"p"}, J{"p": s})})
	default:
		panic("unknown position " + pos)
	}
	defs[name] = d
	return Placed{Atom: a, Pos: pos, DefName: name, Schema: d}, defs
}

// hint attaches the atom's hand-written samples to its schema as x-vf-* markers,
// which instgen reads and which are stripped before any tool sees the document.
func hint(s J, a *SchemaAtom) {
	if len(a.Samples) > 0 {
		s["x-vf-samples"] = a.Samples
	} else if a.Sample != nil {
		s["x-vf-samples"] = []any{a.Sample}
	}
	if len(a.Docs) > 0 {
		s["x-vf-docs"] = a.Docs
	}
}

func renameRefs(v any, aux map[string]J, prefix string) any {
	switch t := v.(type) {
	case map[string]any:
		for k, x := range t {
			if k == "$ref" {
				if r, ok := x.(string); ok && strings.HasPrefix(r, "#/definitions/") {
					nm := strings.TrimPrefix(r, "#/definitions/")
					if _, isAux := aux[nm]; isAux {
						t[k] = "#/definitions/" + prefix + nm
					}
				}
				continue
			}
			t[k] = renameRefs(x, aux, prefix)
		}
		// discriminator-based subtypes are looked up by definition name: keep documents in sync
		return t
	case []any:
		for i, x := range t {
			t[i] = renameRefs(x, aux, prefix)
		}
		return t
	}
	return v
}

// ModelSpec assembles a models-only document from definitions.
func ModelSpec(title string, defs map[string]J) J {
	d := J{}
	for _, k := range jx.Keys(defs) {
		d[k] = defs[k]
	}
	return J{"swagger": "2.0", "info": J{"title": title, "version": "1.0.0"}, "paths": J{}, "definitions": d}
}

// SortedAtomIDs is a helper for evidence.
func SortedAtomIDs(as []SchemaAtom) []string {
	ids := make([]string, len(as))
	for i, a := range as {
		ids[i] = a.ID
	}
	sort.Strings(ids)
	return ids
}

var _ = fmt.Sprint
