// Package modelrig generates models from schema atoms with the real swagger
// binary, compiles them together with a static reflective driver and feeds JSON
// documents through the generated UnmarshalJSON / Validate / MarshalJSON.
// It is shared by C02, C05 and C18 (and reused by C01 for its model targets).
package modelrig

import (
	"encoding/json"
	"fmt"
	"go/ast"
	"go/parser"
	"go/token"
	"os"
	"path/filepath"
	"regexp"
	"sort"
	"strings"
	"sync"
	"time"

	"verif/rig/core"
	"verif/rig/instgen"
	"verif/rig/jx"
	"verif/rig/oracle"
	"verif/rig/specgen"
)

type J = jx.J

// Group is one placed atom with every definition it owns.
type Group struct {
	Placed specgen.Placed
	Defs   map[string]J // all definitions of the group, hinted (x-vf-*)
}

// Unit is one generated + compiled models package with its driver.
type Unit struct {
	Name     string
	Groups   []Group
	Spec     J // hint-free document given to swagger
	Hinted   J // same with x-vf-* hints, for instgen
	SpecPath string
	Mod      *core.Module
	GoType   map[string]string // definition name -> Go type
	IsBase   map[string]bool   // definition is a discriminated base type
	Excluded map[string]string // definition name (of a group) -> reason (generation / build failure)
	Drv      string
	GenLog   string
	fileOf   map[string]string
}

// Failure describes an atom that could not be generated or compiled (C01's subject).
type Failure struct {
	Group  Group
	Stage  string // generate | build
	Output string
}

// SkipDriver makes BuildUnits compile the models package only (no driver binary).
var SkipDriver bool

var unitSeq struct {
	sync.Mutex
	n int
}

// MakeGroups places atoms at positions.
func MakeGroups(atoms []specgen.SchemaAtom, positions []string) []Group {
	var out []Group
	for i := range atoms {
		a := &atoms[i]
		for _, pos := range positions {
			if a.RootOnly && pos != "def" {
				continue
			}
			p, defs := specgen.Place(a, pos)
			out = append(out, Group{Placed: p, Defs: defs})
		}
	}
	return out
}

// BuildUnits generates and compiles the groups, splitting on failures so that a
// broken atom does not take the others down. extraArgs go to `swagger generate model`.
func BuildUnits(c *core.Ctx, swagger string, groups []Group, extraArgs []string) (units []*Unit, failures []Failure) {
	u, out, stage := buildOne(c, swagger, groups, extraArgs)
	if u != nil {
		// build-stage exclusions inside the unit
		for name, why := range u.Excluded {
			for _, g := range groups {
				if g.Placed.DefName == name {
					failures = append(failures, Failure{Group: g, Stage: "build", Output: why})
				}
			}
		}
		return []*Unit{u}, failures
	}
	if len(groups) == 1 {
		return nil, []Failure{{Group: groups[0], Stage: stage, Output: out}}
	}
	mid := len(groups) / 2
	u1, f1 := BuildUnits(c, swagger, groups[:mid], extraArgs)
	u2, f2 := BuildUnits(c, swagger, groups[mid:], extraArgs)
	return append(u1, u2...), append(f1, f2...)
}

func buildOne(c *core.Ctx, swagger string, groups []Group, extraArgs []string) (*Unit, string, string) {
	unitSeq.Lock()
	unitSeq.n++
	name := fmt.Sprintf("m%04d", unitSeq.n)
	unitSeq.Unlock()
	u := &Unit{Name: name, Groups: groups, GoType: map[string]string{}, IsBase: map[string]bool{}, Excluded: map[string]string{}}
	defs := map[string]J{}
	for _, g := range groups {
		for k, v := range g.Defs {
			defs[k] = v
		}
	}
	u.Hinted = specgen.ModelSpec("vf models "+name, defs)
	u.Spec = jx.CloneJ(u.Hinted)
	oracle.StripHints(u.Spec)
	u.Mod = c.NewModule(filepath.Join("models", name))
	u.SpecPath = filepath.Join(u.Mod.Dir, "spec.json")
	core.Must(os.WriteFile(u.SpecPath, jx.Marshal(u.Spec), 0o644))
	args := append([]string{"generate", "model", "-q", "-f", u.SpecPath, "-t", u.Mod.Dir}, extraArgs...)
	r := core.Run(u.Mod.Dir, nil, 10*time.Minute, "", swagger, args...)
	u.GenLog = r.Stderr + r.Stdout
	if r.TimedOut {
		return nil, "watchdog", "generate-timeout"
	}
	if r.Exit != 0 {
		_ = os.RemoveAll(u.Mod.Dir)
		return nil, tail(u.GenLog, 3000), "generate"
	}
	if err := u.scanModels(); err != nil {
		return nil, err.Error(), "generate"
	}
	// driver
	drvDir := filepath.Join(u.Mod.Dir, "cmd", "vfdrv")
	core.Must(os.MkdirAll(drvDir, 0o755))
	for attempt := 0; attempt < 4; attempt++ {
		core.Must(os.WriteFile(filepath.Join(drvDir, "main.go"), []byte(strings.ReplaceAll(driverMain, "MODPATH", u.Mod.Path)), 0o644))
		core.Must(os.WriteFile(filepath.Join(drvDir, "registry.go"), []byte(u.registrySource()), 0o644))
		u.Drv = filepath.Join(u.Mod.Dir, "vfdrv.bin")
		var br core.Result
		if SkipDriver {
			br = core.Run(u.Mod.Dir, core.GoEnv(), 15*time.Minute, "", "go", "build", "-gcflags=-e", "./models")
		} else {
			br = core.Run(u.Mod.Dir, core.GoEnv(), 15*time.Minute, "", "go", "build", "-gcflags=-e", "-o", u.Drv, "./cmd/vfdrv")
		}
		if br.TimedOut {
			return nil, "watchdog", "build-timeout"
		}
		if br.Exit == 0 {
			return u, "", ""
		}
		// attribute diagnostics to model files -> definitions -> groups; drop those groups' files
		bad := u.blame(br.Stderr + br.Stdout)
		if len(bad) == 0 {
			if len(groups) == 1 {
				return nil, tail(br.Stderr+br.Stdout, 3000), "build"
			}
			return nil, tail(br.Stderr+br.Stdout, 3000), "build-unattributed"
		}
		if len(groups) == 1 {
			return nil, tail(br.Stderr+br.Stdout, 3000), "build"
		}
		for gi, msg := range bad {
			g := groups[gi]
			for d := range g.Defs {
				if f, ok := u.fileOf[d]; ok {
					_ = os.Remove(f)
				}
				delete(u.GoType, d)
				delete(u.IsBase, d)
			}
			u.Excluded[g.Placed.DefName] = msg
		}
	}
	return nil, "could not isolate build failures", "build-unattributed"
}

func tail(s string, n int) string {
	if len(s) > n {
		return "…" + s[len(s)-n:]
	}
	return s
}

var rxModel = regexp.MustCompile(`swagger:model\s+(\S+)`)
var rxDisc = regexp.MustCompile(`swagger:discriminator\s+(\S+)\s+(\S+)`)

// fileOf maps a definition name to its generated file.
func (u *Unit) scanModels() error {
	u.fileOf = map[string]string{}
	dir := filepath.Join(u.Mod.Dir, "models")
	fset := token.NewFileSet()
	pkgs, err := parser.ParseDir(fset, dir, nil, parser.ParseComments)
	if err != nil {
		return fmt.Errorf("generated models do not parse: %v", err)
	}
	norm := func(s string) string {
		return strings.ToLower(regexp.MustCompile(`[^A-Za-z0-9]`).ReplaceAllString(s, ""))
	}
	defByNorm := map[string]string{}
	for _, g := range u.Groups {
		for d := range g.Defs {
			defByNorm[norm(d)] = d
		}
	}
	for _, pkg := range pkgs {
		for fname, f := range pkg.Files {
			for _, decl := range f.Decls {
				gd, ok := decl.(*ast.GenDecl)
				if !ok || gd.Tok != token.TYPE {
					continue
				}
				for _, sp := range gd.Specs {
					ts := sp.(*ast.TypeSpec)
					doc := ts.Doc
					if doc == nil {
						doc = gd.Doc
					}
					if doc == nil {
						continue
					}
					text := doc.Text()
					if m := rxModel.FindStringSubmatch(text); m != nil {
						u.GoType[m[1]] = ts.Name.Name
						u.fileOf[m[1]] = fname
					} else if m := rxDisc.FindStringSubmatch(text); m != nil {
						if d, ok := defByNorm[norm(m[1])]; ok {
							u.GoType[d] = ts.Name.Name
							u.IsBase[d] = true
							u.fileOf[d] = fname
						}
					}
				}
			}
		}
	}
	return nil
}

var rxDiagFile = regexp.MustCompile(`(?m)^(?:\./)?(models/[^\s:]+\.go):\d+`)

// blame maps compiler diagnostics to group indices.
func (u *Unit) blame(out string) map[int]string {
	files := map[string]string{}
	for _, m := range rxDiagFile.FindAllStringSubmatch(out, -1) {
		f := filepath.Join(u.Mod.Dir, m[1])
		if _, seen := files[f]; !seen {
			for _, line := range strings.Split(out, "\n") {
				if strings.Contains(line, m[1]) {
					files[f] = strings.TrimSpace(line)
					break
				}
			}
		}
	}
	bad := map[int]string{}
	for gi, g := range u.Groups {
		if _, done := u.Excluded[g.Placed.DefName]; done {
			continue
		}
		for d := range g.Defs {
			if msg, ok := files[u.fileOf[d]]; ok && u.fileOf[d] != "" {
				bad[gi] = msg
			}
		}
	}
	return bad
}

func (u *Unit) registrySource() string {
	var b strings.Builder
	b.WriteString("package main\n\nimport (\n\t\"bytes\"\n\n\t\"github.com/go-openapi/runtime\"\n\tmodels \"" + u.Mod.Path + "/models\"\n)\n\nvar _ = bytes.NewReader\nvar _ = runtime.JSONConsumer\n\nvar registry = map[string]entry{\n")
	names := make([]string, 0, len(u.GoType))
	for d := range u.GoType {
		names = append(names, d)
	}
	sort.Strings(names)
	for _, d := range names {
		t := u.GoType[d]
		if u.IsBase[d] {
			fmt.Fprintf(&b, "\t%q: {unm: func(b []byte) (any, error) { return models.Unmarshal%s(bytes.NewReader(b), runtime.JSONConsumer()) }},\n", d, t)
		} else {
			fmt.Fprintf(&b, "\t%q: {newFn: func() any { return new(models.%s) }},\n", d, t)
		}
	}
	b.WriteString("}\n")
	return b.String()
}

// DocAns is the driver's answer for one document.
type DocAns struct {
	ID           string `json:"id"`
	UnmarshalErr string `json:"unmarshal_err,omitempty"`
	ValidateErr  string `json:"validate_err,omitempty"`
	CtxErr       string `json:"ctx_err,omitempty"`
	Enc          string `json:"enc,omitempty"`
	EncErr       string `json:"enc_err,omitempty"`
	Dec2Err      string `json:"dec2_err,omitempty"`
	Enc2         string `json:"enc2,omitempty"`
	GoType       string `json:"gotype,omitempty"`
	Panic        string `json:"panic,omitempty"`
	NoSuchDef    bool   `json:"no_such_def,omitempty"`
}

// Run feeds documents {id, def, doc} through the driver.
func (u *Unit) Run(reqs []map[string]any) (map[string]DocAns, []core.Crash) {
	out := map[string]DocAns{}
	nchunks := 4
	if len(reqs) < 200 {
		nchunks = 1
	}
	chunks := make([][]map[string]any, nchunks)
	for i, r := range reqs {
		chunks[i%nchunks] = append(chunks[i%nchunks], r)
	}
	var mu sync.Mutex
	var crashes []core.Crash
	core.Parallel(nchunks, nchunks, func(k int) {
		if len(chunks[k]) == 0 {
			return
		}
		ans, cr := core.RunWorker(u.Mod.Dir, nil, 2*time.Minute, u.Drv, nil, chunks[k])
		mu.Lock()
		defer mu.Unlock()
		for id, raw := range ans {
			var a DocAns
			if json.Unmarshal(raw, &a) == nil {
				out[id] = a
			}
		}
		crashes = append(crashes, cr...)
	})
	return out, crashes
}

// Case is one document to feed to a definition.
type Case struct {
	Def     string
	Variant instgen.Variant
	OneWay  bool // tuples: only "reference-valid => accepted" is asserted
}

// Result pairs a case with the driver's answer.
type Result struct {
	Unit  *Unit
	Group Group
	Case  Case
	Ans   DocAns
	Crash string // non-empty: the driver process died on this document
}

// CasesFor generates the documents for a group: instgen variants of the placed
// definition; polymorphic families also through the subtypes and a container.
func CasesFor(u *Unit, g Group) []Case {
	defs, _ := u.Hinted["definitions"].(J)
	gen := instgen.New(defs)
	var out []Case
	a := g.Placed.Atom
	if a.Poly {
		for k, d := range a.Docs {
			label := fmt.Sprintf("hand%d", k)
			out = append(out, Case{Def: g.Placed.DefName, Variant: instgen.Variant{Doc: jx.Clone(d), Label: label, Path: "via-base"}})
			if kind, _ := d.(J)["kind"].(string); kind != "" {
				target := kind
				if _, ok := defs[target]; !ok {
					for dn, dv := range defs { // subtype named through x-class
						if dj, _ := dv.(J); dj != nil && dj["x-class"] == kind {
							target = dn
						}
					}
				}
				if _, ok := defs[target]; ok {
					out = append(out, Case{Def: target, Variant: instgen.Variant{Doc: jx.Clone(d), Label: label, Path: "direct"}})
				}
			}
			if _, ok := defs["PolyZoo"]; ok && g.Placed.DefName == "PolyAnimal" {
				out = append(out, Case{Def: "PolyZoo", Variant: instgen.Variant{Doc: J{"star": jx.Clone(d)}, Label: label, Path: "in-property"}},
					Case{Def: "PolyZoo", Variant: instgen.Variant{Doc: J{"all": []any{jx.Clone(d), jx.Clone(a.Docs[0])}}, Label: label, Path: "in-array"}})
			}
			if _, ok := defs["PolyDrawing"]; ok && g.Placed.DefName == "PolyShape" {
				out = append(out, Case{Def: "PolyDrawing", Variant: instgen.Variant{Doc: J{"main": jx.Clone(d)}, Label: label, Path: "in-property"}},
					Case{Def: "PolyDrawing", Variant: instgen.Variant{Doc: J{"shapes": []any{jx.Clone(d), jx.Clone(a.Docs[0])}}, Label: label, Path: "in-array"}})
			}
		}
		return out
	}
	schema, _ := defs[g.Placed.DefName].(J)
	for _, v := range gen.Variants(schema) {
		out = append(out, Case{Def: g.Placed.DefName, Variant: v, OneWay: a.Tuple})
	}
	return out
}

// Exercise builds the groups (in batches, in parallel) and runs every case.
func Exercise(c *core.Ctx, swagger string, groups []Group, extraArgs []string, batch int) (results []Result, failures []Failure, units []*Unit) {
	var batches [][]Group
	for i := 0; i < len(groups); i += batch {
		j := i + batch
		if j > len(groups) {
			j = len(groups)
		}
		batches = append(batches, groups[i:j])
	}
	var mu sync.Mutex
	core.Parallel(len(batches), 8, func(bi int) {
		us, fs := BuildUnits(c, swagger, batches[bi], extraArgs)
		var local []Result
		for _, u := range us {
			var reqs []map[string]any
			cases := map[string]Result{}
			for _, g := range u.Groups {
				if _, bad := u.Excluded[g.Placed.DefName]; bad {
					continue
				}
				for k, cs := range CasesFor(u, g) {
					id := fmt.Sprintf("%s/%s/%d", u.Name, g.Placed.DefName, k)
					raw := json.RawMessage(jx.Compact(cs.Variant.Doc))
					reqs = append(reqs, map[string]any{"id": id, "def": cs.Def, "doc": raw})
					cases[id] = Result{Unit: u, Group: g, Case: cs}
				}
			}
			answers, crashes := u.Run(reqs)
			for _, cr := range crashes {
				if r, ok := cases[cr.ID]; ok {
					r.Crash = cr.Output
					if cr.Killed {
						r.Crash = "watchdog: " + cr.Output
					}
					local = append(local, r)
					delete(cases, cr.ID)
				}
			}
			ids := make([]string, 0, len(cases))
			for id := range cases {
				ids = append(ids, id)
			}
			sort.Strings(ids)
			for _, id := range ids {
				r := cases[id]
				a, ok := answers[id]
				if !ok {
					continue
				}
				r.Ans = a
				local = append(local, r)
			}
		}
		mu.Lock()
		results = append(results, local...)
		failures = append(failures, fs...)
		units = append(units, us...)
		mu.Unlock()
	})
	return
}

// Cleanup removes the unit's module directory.
func (u *Unit) Cleanup() { _ = os.RemoveAll(u.Mod.Dir) }

const driverMain = `package main

import (
	"bufio"
	"bytes"
	"context"
	"encoding/json"
	"fmt"
	"io"
	"os"
	"reflect"
	"runtime/debug"

	"github.com/go-openapi/runtime"
	"github.com/go-openapi/strfmt"
)

type entry struct {
	newFn func() any
	unm   func([]byte) (any, error)
}

type req struct {
	ID  string          ` + "`json:\"id\"`" + `
	Def string          ` + "`json:\"def\"`" + `
	Doc json.RawMessage ` + "`json:\"doc\"`" + `
}

type ans struct {
	ID           string ` + "`json:\"id\"`" + `
	UnmarshalErr string ` + "`json:\"unmarshal_err,omitempty\"`" + `
	ValidateErr  string ` + "`json:\"validate_err,omitempty\"`" + `
	CtxErr       string ` + "`json:\"ctx_err,omitempty\"`" + `
	Enc          string ` + "`json:\"enc,omitempty\"`" + `
	EncErr       string ` + "`json:\"enc_err,omitempty\"`" + `
	Dec2Err      string ` + "`json:\"dec2_err,omitempty\"`" + `
	Enc2         string ` + "`json:\"enc2,omitempty\"`" + `
	GoType       string ` + "`json:\"gotype,omitempty\"`" + `
	Panic        string ` + "`json:\"panic,omitempty\"`" + `
	NoSuchDef    bool   ` + "`json:\"no_such_def,omitempty\"`" + `
}

func decode(e entry, doc []byte) (any, error) {
	if e.unm != nil {
		return e.unm(doc)
	}
	v := e.newFn()
	err := runtime.JSONConsumer().Consume(bytes.NewReader(doc), v)
	return v, err
}

func encode(v any) (string, error) {
	var buf bytes.Buffer
	if err := runtime.JSONProducer().Produce(&buf, v); err != nil {
		return "", err
	}
	return string(bytes.TrimSpace(buf.Bytes())), nil
}

func handle(r req) (a ans) {
	a.ID = r.ID
	defer func() {
		if p := recover(); p != nil {
			a.Panic = fmt.Sprint(p) + "\n" + string(debug.Stack())
		}
	}()
	e, ok := registry[r.Def]
	if !ok {
		a.NoSuchDef = true
		return
	}
	v, err := decode(e, r.Doc)
	if err != nil {
		a.UnmarshalErr = err.Error()
		return
	}
	if v == nil || (reflect.ValueOf(v).Kind() == reflect.Ptr && reflect.ValueOf(v).IsNil()) {
		a.UnmarshalErr = "decoded to nil"
		return
	}
	a.GoType = reflect.TypeOf(v).String()
	if vv, ok := v.(runtime.Validatable); ok {
		if err := vv.Validate(strfmt.Default); err != nil {
			a.ValidateErr = err.Error()
		}
	}
	if cv, ok := v.(runtime.ContextValidatable); ok {
		if err := cv.ContextValidate(context.Background(), strfmt.Default); err != nil {
			a.CtxErr = err.Error()
		}
	}
	enc, err := encode(v)
	if err != nil {
		a.EncErr = err.Error()
		return
	}
	a.Enc = enc
	v2, err := decode(e, []byte(enc))
	if err != nil {
		a.Dec2Err = err.Error()
		return
	}
	enc2, err := encode(v2)
	if err != nil {
		a.Dec2Err = "re-encode: " + err.Error()
		return
	}
	a.Enc2 = enc2
	return
}

func main() {
	rd := bufio.NewReaderSize(os.Stdin, 1<<20)
	out := bufio.NewWriter(os.Stdout)
	for {
		line, err := rd.ReadBytes('\n')
		if len(bytes.TrimSpace(line)) > 0 {
			var r req
			_ = json.Unmarshal(line, &r)
			fmt.Fprintf(os.Stderr, "BEGIN %s\n", r.ID)
			b, _ := json.Marshal(handle(r))
			out.Write(b)
			out.WriteByte('\n')
			out.Flush()
		}
		if err != nil {
			if err != io.EOF {
				os.Exit(3)
			}
			return
		}
	}
}
`
