package modelrig

import (
	"fmt"
	"math/rand"
	"strings"

	"verif/rig/specgen"
)

// Composite builds one object definition of 3–8 properties, each an atom wrapped
// as required / optional property, array items or map values.
func Composite(k int, pool []*specgen.SchemaAtom, rng *rand.Rand, wraps []string) Group {
	name := fmt.Sprintf("VfComp%03d", k)
	props := J{}
	var required []any
	defs := map[string]J{}
	np := 3 + rng.Intn(6)
	var ids []string
	for i := 0; i < np; i++ {
		a := pool[rng.Intn(len(pool))]
		w := wraps[rng.Intn(len(wraps))]
		p, d := specgen.Place(a, "def") // schema with hints, aux renamed under a unique prefix
		prefix := fmt.Sprintf("%sP%d", name, i)
		s := renameAll(p.Schema, d, p.DefName, prefix, defs)
		pn := fmt.Sprintf("p%d", i)
		switch w {
		case "req":
			props[pn] = s
			required = append(required, pn)
		case "opt":
			props[pn] = s
		case "items":
			props[pn] = J{"type": "array", "items": s}
		case "map":
			props[pn] = J{"type": "object", "additionalProperties": s}
		}
		props[pn].(J)["x-vf-atom"] = a.ID + "@B." + w
		ids = append(ids, a.ID+"@"+w)
	}
	def := J{"type": "object", "properties": props}
	if len(required) > 0 {
		def["required"] = required
	}
	defs[name] = def
	atom := &specgen.SchemaAtom{ID: "composite[" + strings.Join(ids, ",") + "]"}
	return Group{Placed: specgen.Placed{Atom: atom, Pos: "B", DefName: name, Schema: def}, Defs: defs}
}

// renameAll copies the placed atom's definitions under a new prefix and returns the schema.
func renameAll(schema J, defs map[string]J, defName, prefix string, into map[string]J) J {
	ren := map[string]string{}
	for k := range defs {
		if k != defName {
			ren[k] = prefix + k
		}
	}
	var fix func(v any) any
	fix = func(v any) any {
		switch t := v.(type) {
		case map[string]any:
			o := J{}
			for k, x := range t {
				if k == "$ref" {
					if r, ok := x.(string); ok {
						nm := strings.TrimPrefix(r, "#/definitions/")
						if nn, ok := ren[nm]; ok {
							o[k] = "#/definitions/" + nn
							continue
						}
					}
				}
				o[k] = fix(x)
			}
			return o
		case []any:
			o := make([]any, len(t))
			for i, x := range t {
				o[i] = fix(x)
			}
			return o
		}
		return v
	}
	for k, v := range defs {
		if k != defName {
			into[ren[k]] = fix(v).(J)
		}
	}
	return fix(schema).(J)
}
