#!/bin/sh
# tools/confirm_mutant.sh <mutant-dir> <seeded-id>
# Independent confirmation of a seeded change in a scratch worktree: applies, builds, the demo
# fails with it and passes without it, the pinned suite still passes (929 stable_pass tests).
src=$1; sid=$2
dst=/verif/seeded/$sid
mkdir -p "$dst"
cp "$src/patch.diff" "$dst/patch.diff"
rm -rf "$dst/demo"; cp -r "$src/demo" "$dst/demo"
[ -f "$src/README.md" ] && cp "$src/README.md" "$dst/README.md"
wt=/tmp/mutconfirm/$sid
rm -rf "$wt"; mkdir -p /tmp/mutconfirm; git -C /repo worktree prune
git -C /repo worktree add -q "$wt" HEAD || exit 2
export GOFLAGS=-mod=mod GOPROXY=off GOSUMDB=off GOTOOLCHAIN=local
log="$dst/confirm.log"; : > "$log"
echo "== clean tree: demo" >> "$log"
( bash "$dst/demo/run.sh" "$wt" ) >> "$log" 2>&1; clean_rc=$?
echo "demo exit on clean tree: $clean_rc" >> "$log"
git -C "$wt" apply "$dst/patch.diff" >> "$log" 2>&1 || { echo "PATCH DOES NOT APPLY" >> "$log"; git -C /repo worktree remove --force "$wt"; exit 2; }
echo "== with the change: go build ./..." >> "$log"
( cd "$wt" && go build ./... ) >> "$log" 2>&1; build_rc=$?
echo "build exit: $build_rc" >> "$log"
echo "== with the change: demo" >> "$log"
( bash "$dst/demo/run.sh" "$wt" ) >> "$log" 2>&1; mut_rc=$?
echo "demo exit with the change: $mut_rc" >> "$log"
echo "== with the change: pinned suite" >> "$log"
( cd "$wt" && go test -json -vet=off -count=1 -timeout 25m ./... 2>/dev/null ) > "/tmp/mutconfirm/$sid.json"
python3 - "$sid" >> "$log" <<'PY'
import json,sys
sid=sys.argv[1]
passed=set()
for l in open('/tmp/mutconfirm/%s.json'%sid):
    try: e=json.loads(l)
    except Exception: continue
    if e.get('Action')=='pass' and e.get('Test'): passed.add(e['Package']+'::'+e['Test'])
want=set(json.load(open('/root/.vp/BASELINE.json'))['stable_pass'])
missing=sorted(want-passed)
print('stable_pass',len(want),'passed',len(want&passed),'missing',len(missing), missing[:10])
PY
rm -f "/tmp/mutconfirm/$sid.json"
git -C /repo worktree remove --force "$wt"
tail -1 "$log"
echo "RESULT $sid clean_demo=$clean_rc build=$build_rc mutant_demo=$mut_rc" | tee -a "$log"
