#!/usr/bin/env python3
"""Regenerates /verif/MANIFEST.json from the table below (kept as code so that the
manifest stays valid and consistent with what is implemented)."""
import json,os,subprocess
V='/verif'
ALL=['C%02d'%i for i in range(1,20)]
# id -> (technique, level text, level note, design section)
CHECKS={
 'C02':('runtime monitoring: generated models compiled with a reflective driver; JSON documents fed through UnmarshalJSON+Validate; differential oracle = go-openapi/validate on the input definition modulo the documented exceptions',
        'held on the executions observed: every schema-shape atom x position (definition, required/optional property, items, map values, allOf member, $ref alias, nested) x instgen documents (bounds -1/0/+1, lengths, counts, enum misses, malformed formats, zero values, missing/extra properties, type confusion), plus seeded composite objects; generated accept/reject must be an allowed verdict. Known disagreements are listed by (atom@position, document class).',
        'trusts go-openapi/validate v0.24.0 as reference; documented exceptions implemented in rig/oracle/modelsem.go; atoms whose generation/compilation fails are C01\'s','C02'),
 'C03':('runtime monitoring: generated server run in a child process behind a reflective recording driver; HTTP requests from a reference encoder + mutations; differential oracle = reference parameter binder (accept with values / reject / unspecified)',
        'held on the executions observed: every parameter atom (location x type/format x collectionFormat x nesting x required/optional/default/allowEmptyValue x validation, bodies, files) alone and in seeded multi-parameter operations; the handler must run exactly for requests the reference binder accepts, with equal bound values, and every rejected request must get a 4xx without reaching the handler.',
        'reference binder rig/oracle/refbind.go + go-openapi/validate; unspecified classes (empty optional non-string values, repeated keys, empty items, lenient boolean words) counted, not judged','C03'),
 'C04':('runtime monitoring: generated client wired to the generated server through an in-process RoundTripper in one child process; values-in = values-out monitor on both directions',
        'held on the executions observed: every parameter atom with every reference-valid value set on the client params struct reaches the server handler with equal values; every declared / default / undeclared status with header values and payloads returned by generated typed responders comes back from the client as the typed result, typed error or APIError carrying that code and equal values.',
        'only reference-accepted values are sent; bodies compared with the tolerant schema-directed comparison; a 2xx answered through the default response may come back in either wrapper','C04'),
 'C06':('runtime monitoring: generated server with reflective authenticators in a child process; exhaustive credential assignments per operation; OR-of-ANDs security evaluator as oracle',
        'held on the executions observed: for every requirement shape (global / per operation / explicit empty, each scheme type and location, oauth2 scopes, AND, OR, OR of ANDs, schemes sharing a header) and EVERY assignment of absent/valid/invalid/insufficient-scope credentials the handler runs iff an alternative of the effective requirement is satisfied, else 401/403, and the principal comes from an authenticator of a satisfied alternative.',
        'authenticators follow the documented convention (error code 401 for bad credentials); which satisfied alternative wins and 401 vs 403 not asserted','C06'),
 'C01':('runtime monitoring: the real swagger binary generates model / server / client / cli code for batches of atoms, then go build compiles the output; exit statuses and compiler diagnostics are the monitor, attribution through swagger:model / swagger:route markers',
        'held on the executions observed: every schema shape, parameter kind, (name, name position) pair of a ~130-string corpus and free-text breaker, under the flatten modes and a covering set of option switches, plus seeded 30-atom composites: a document accepted by validate.Spec must generate with exit 0 and compile. Atoms that fail today are listed per (atom, target, configuration).',
        'validity by go-openapi/validate; expand mode not run on polymorphic/recursive atoms; x-go-type, custom templates, XML, remote refs outside the fragment','C01'),
 'C07':('runtime monitoring: repeated fresh-process executions with output hashing, plus a -race build of the harness calling the generator and diff libraries concurrently with injected yields (verif hooks); Go race detector + sequential-baseline comparison',
        'held on the executions observed: every command run K times in fresh processes on map-populating inputs gives byte-identical outputs; every concurrent library generation equals the sequential generation of the same job at the same path; zero race reports; the evidence lists the yield sites hit and the number of distinct per-goroutine yield sequences produced.',
        'same absolute paths across compared runs; race reports counted from the GORACE log; watchdog expiry inconclusive; a miss is possible for maps the inputs leave with <2 entries','C07'),
 'C09':('runtime monitoring: generate twice into the same path (neutral vs hostile free text), parse every generated file with go/parser, erase comments and literal values, compare ASTs',
        'held on the executions observed: ~50 free-text positions x breakers (all positions at once, bisected) and injectors that stay valid Go when they escape a block comment, line comment, raw string or interpreted string; server, client, cli and models with description/example struct tags; minimal and full flatten. Identical erased ASTs required; a generation error is an accepted outcome.',
        'string-literal concatenations are folded (that is how backticks are escaped); equal erased ASTs + a compiling neutral rendering imply a compiling hostile rendering','C09'),
 'C08':('runtime monitoring: generate server+client for colliding-name documents, then count artefacts and route a uniquely marked request to every (method, path) in the compiled server; every generated file is put to go/build's file-selection rule (a file go build leaves out because of its name is a dropped handler or model)',
        'held on the executions observed: for each collision atom the outcome must be a generator error or a bijection operations <-> handler fields <-> client methods <-> bound markers and definitions <-> model types. Atoms where operations / definitions are silently dropped today are listed in known-findings.json.',
        'a generation that exits 0 but does not compile is left to C01, except when a generated file is excluded from the build by its name (judged here)','C08'),
 'C10':('runtime monitoring: generated servers (JSON/YAML input, three flatten modes) dump restapi.SwaggerJSON, FlatSwaggerJSON and GET /swagger.json through the driver; JSON-equality and expanded-equality oracles against the input',
        'held on the executions observed: base document with every hostile string class in every free-text position, hand-written shapes, model and parameter atom batches and seeded composites; the embedded original and the served document must be JSON-equal to the input and the flattened one equal after $ref expansion.',
        'expansion by go-openapi/spec; x-go-* keys only on the flattened side ignored; circular documents not compared in expanded form','C10'),
 'C05':('runtime monitoring: generated models decode->encode->decode->encode reference-valid documents; schema-directed tree comparison + byte idempotence monitor',
        'held on the executions observed: for every valid instgen document of every atom x position the re-encoded tree must keep every declared / allowed value at its path (three documented tolerances only), add nothing, and the second encoding must reproduce the first byte for byte; subtypes restored through base types.',
        'document validity by go-openapi/validate; tolerances in rig/oracle/roundtrip.go; x-omitempty:false zero rendering is not counted as an addition','C05'),
 'C16':('runtime monitoring: codescan.Run on generated model declarations in a child worker; the same types compiled with a reflect-based driver that marshals seeded values and unmarshals schema-valid documents; reference validator as oracle',
        'held on the executions observed: 264 field-kind atoms (every basic kind, pointers, slices, arrays, maps, nested / embedded / anonymous structs, time.Time, RawMessage, named and aliased types, json tag options, ignored fields) alone and in seeded composite structs, 30-100 values each, default and nullable-pointer scan options: every encoding/json output must validate against the scanned definition and every definition-valid document must decode.',
        'go-openapi/validate as reference plus format-range rule and the documented x-nullable meaning; nil pointers under default options, >int64 integers, empty byte strings and untyped positions counted, not judged','C16'),
 'C17':('runtime monitoring: codescan.Run in child workers on generated annotated programs (with intent models) and on comment-fuzzed variants; panic / validity / faithfulness monitors',
        'held on the executions observed: 151 annotation forms alone and in seeded compositions must give an error or a document that passes validate.Spec and contains every intended route, parameter, response and model; ~900-5000 fuzzed variants (18 operators, token stream preserved) must never crash the scanner. Crash sites and forms that fail today are listed in known-findings.json.',
        'intent model only asserts what docs/reference/annotations documents; fuzzed programs judged for crashes (and validity only for grammar-preserving operators)','C17'),
 'C19':('runtime monitoring: the real swagger binary run with JSON vs YAML output and JSON vs YAML input on documents carrying a corpus of YAML-hostile scalars in every position; reload-and-compare monitor',
        'held on the executions observed: flatten / expand / mixin / generate spec / init spec asked for JSON and for YAML on the same input must give JSON-equal documents (YAML reloaded with go-openapi/loads) for 53 string classes, 9 number classes, numeric keys and status codes at 11+ position classes; validate / flatten / expand / mixin / diff / generate model / generate server must give identical results for the JSON and three YAML renderings of the same input.',
        'the reference reader is go-openapi/loads (the tool\'s own loader); a YAML rendering is used only if it reads back JSON-equal; known run-to-run instabilities are tolerated by repeating (they are C07\'s)','C19'),
 'C18':('runtime monitoring: spec -> swagger generate model -> swagger generate spec -m; keyword-by-keyword comparison of original and scanned definitions',
        'held on the executions observed: every atom x position definition is pushed through both halves of the toolkit and compared on type, format (default-format equivalence), $ref, required, readOnly, bounds, lengths, pattern, enum, uniqueItems, item counts and property names at every nesting context. The (keyword, context) cells that are lost today are listed in known-findings.json; every other cell must be preserved.',
        'generator-added inline definitions are compared through; multipleOf / min,maxProperties informational (outside the statement\'s enumeration)','C18'),
 'C11':('runtime monitoring: histories of generate runs / user edits / spec edits on one target directory with the real swagger binary; per-step file snapshots plus the verif file-decision event log; history model as oracle',
        'held on the executions observed: a catalogue of 2-3-step histories (one per action x prior-state transition, 35 option atoms, 20 classes of user files) and seeded 4-10-step histories: user files are never modified or removed, an existing configure file is never rewritten unless asked, and every file a run writes equals a fresh generation of the same command into an empty directory at the same absolute path.',
        'fresh generation at the same absolute path (generated files embed relative paths); a real-vs-fresh difference counts only if a second fresh run agrees with the first; leftovers of removed operations not asserted','C11'),
 'C12':('runtime monitoring: diff.Compare executed in child processes over identity variants and pair workloads, panic/crash/watchdog monitor, identity oracle',
        'held on the executions observed: every reference-valid repository fixture and hand-written hostile spec compared with itself and with JSON / YAML / list-shuffled re-serialisations (0 differences, exit 0 required), and several thousand (A,B) pairs for totality (no panic, no fatal error, no watchdog expiry). Exploration, not proof: shapes the corpus does not contain are not covered.',
        'trusts go-openapi/validate v0.24.0 for spec validity and go-openapi/loads for re-serialisation equality; watchdog expiry is inconclusive','C12'),
 'C14':('runtime monitoring: diff.Compare executed in both directions in child processes; offline mirror-relation checker over the two recorded reports plus an absolute-direction oracle on single-cause edits',
        'held on the executions observed: for every pair the multiset of (location, change code) of diff(A,B) must be the mirror image of diff(B,A) (Added<->Deleted, Widened<->Narrowed, OptionalToRequired<->RequiredToOptional), and on catalogue edits whose cause is known the code must have the right absolute direction. Asymmetries that exist today are listed in known-findings.json by signature.',
        'mirror map in rig/difflib/mirror.go (DESIGN appendix B); documents with circular $refs are excluded because the report itself is not deterministic on them (C07 finding)','C14'),
 'C15':('runtime monitoring: the real swagger binary run with -f json / txt / -b / -i / -d on generated pairs; report-coherence monitor over outputs and exit statuses',
        'held on the executions observed: ignore-all gives an empty report and exit 0, ignore-subset (every singleton, seeded halves) removes exactly the listed entries, exit status non-zero iff a non-ignored Breaking entry remains (per format), text / JSON / breaking-only reports describe the same multiset of entries.',
        'entries identified by their full JSON form (the tool\'s Matches relation); text lines rendered with the tool\'s own String(); pairs whose report content varies between two runs are left to C07','C15'),
 'C13':('runtime monitoring: swagger diff run on a catalogue of single spec edits, each with a witness request decided by a reference binder (accept before / reject after)',
        'held on the executions observed: every (edit kind x position) atom with a verified witness, plus seeded noisy composites, must yield >=1 Breaking entry and a non-zero exit. Atoms that genuinely fail today are listed in known-findings.json; any other failing atom is a violation.',
        'trusts the reference binder (rig/oracle/refbind.go) and go-openapi/validate for request validity; exit status from the text-format run','C13'),
}
def main():
    src=subprocess.run(['git','-C','/repo','log','--format=%h %s'],capture_output=True,text=True).stdout.splitlines()
    hooks=[l.split()[0] for l in src if l.split(' ',1)[1].startswith('verif:')]
    checks=[]
    for pid in ALL:
        if pid not in CHECKS: continue
        tech,text,note,ref=CHECKS[pid]
        checks.append({
          'property_id':pid,
          'quick_cmd':'./check %s quick'%pid,
          'thorough_cmd':'./check %s thorough'%pid,
          'evidence_file':'/verif/evidence/%s.json'%pid,
          'replay_cmd_template':'./check %s --replay {path}'%pid,
          'engine':'rig',
          'level_claimed':{'category':'exploration','text':text,'design_ref':'DESIGN.md section 4, '+ref},
          'level_note':note,
          'technique':tech,
        })
    na=[{'property_id':p,'reason':'check not implemented yet in this round (runtime monitoring applies; see DESIGN.md section 4)'} for p in ALL if p not in CHECKS]
    m={'version':1,
       'setup_cmd':'./check --setup',
       'hooks':{'guard':'verif','enable':'go build -tags verif (Go build tag; every check builds /repo code with it)',
                'baseline_off_cmd':'cd /repo && GOFLAGS=-mod=mod go test -vet=off -count=1 -timeout 25m ./...',
                'source_commits':hooks,'add_only':True},
       'engines':[{'name':'rig','path':'/verif/rig','serves_properties':sorted(CHECKS),
                   'kind_free_text':'Go harness: workload generators, reference oracles (validator, binder, security evaluator, mirror map), child-process drivers around the real swagger binary / library and around the Go code it generates, verdict + evidence writers'}],
       'checks':checks,
       'notes':'Known genuine defects are listed in /verif/known-findings.json (status known|fixed); see DESIGN.md.',
       'not_applicable':na}
    json.dump(m,open(V+'/MANIFEST.json','w'),indent=1)
    print('checks',len(checks),'na',len(na))
main()
