#!/usr/bin/env python3
"""Runs the repository suite with the verif guard OFF and compares with BASELINE.json stable_pass."""
import json,subprocess,os,sys
env=dict(os.environ,GOFLAGS='-mod=mod',GOPROXY='off',GOSUMDB='off',GOTOOLCHAIN='local')
p=subprocess.run('go test -json -vet=off -count=1 -timeout 25m ./...',shell=True,cwd='/repo',env=env,capture_output=True,text=True)
passed=set()
for l in p.stdout.splitlines():
    try: e=json.loads(l)
    except Exception: continue
    if e.get('Action')=='pass' and e.get('Test'): passed.add(e['Package']+'::'+e['Test'])
base=json.load(open('/root/.vp/BASELINE.json'))
want=set(base['stable_pass'])
missing=sorted(want-passed)
print('stable_pass',len(want),'passed now',len(want&passed),'missing',len(missing))
for m in missing[:30]: print('  MISSING',m)
sys.exit(1 if missing else 0)
