#!/bin/sh
# tools/try_mutant.sh <CHECK-ID> <patch.diff> <tag> [tier]
# Runs a check against a scratch worktree of /repo with the patch applied (VF_REPO), so that
# /repo itself and anything else running against it is not disturbed. Prints the verdict.
id=$1; patch=$2; tag=$3; tier=${4:-quick}
wt=/tmp/mutrepo/$tag
rm -rf "$wt"; git -C /repo worktree prune
git -C /repo worktree add -q "$wt" HEAD || exit 2
git -C "$wt" apply "$patch" || { echo "PATCH-DOES-NOT-APPLY"; git -C /repo worktree remove --force "$wt"; exit 2; }
cd /verif
VF_REPO="$wt" VF_BINSUFFIX=".$tag" ./check "$id" "$tier" > "/tmp/mutrepo/$tag.$id.out" 2>&1
rc=$?
echo "check=$id tag=$tag exit=$rc"
grep -c "^VIOLATION" "/tmp/mutrepo/$tag.$id.out"
grep "^VIOLATION" "/tmp/mutrepo/$tag.$id.out" | head -5 | cut -c1-400
grep "^SUMMARY\|^INCONCLUSIVE" "/tmp/mutrepo/$tag.$id.out" | head -3
git -C /repo worktree remove --force "$wt"
rm -f "/verif/.work/$(echo $id | tr A-Z a-z).$tag"
exit $rc
