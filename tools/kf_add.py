#!/usr/bin/env python3
"""Add the unlisted violations of an evidence file to known-findings.json.
Manual step, run by hand after each violation class has been reproduced and read against
the property text; never run by a check. usage: kf_add.py <ID> [key-substring] [--what text]"""
import json,sys,os
vid=sys.argv[1]
sub=None; what=None
args=sys.argv[2:]
while args:
    a=args.pop(0)
    if a=='--what': what=args.pop(0)
    else: sub=a
kfp='/verif/known-findings.json'
kf=json.load(open(kfp)) if os.path.exists(kfp) else {"findings":[]}
have={(f['property'],f['key']) for f in kf['findings']}
ev=json.load(open('/verif/evidence/%s.json'%vid))
n=0
for v in ev['coverage']['violations_detail']:
    if v['known']: continue
    if sub and sub not in v['key']: continue
    if (vid,v['key']) in have: continue
    kf['findings'].append({"property":vid,"key":v['key'],"status":"known","what":what or v['what']})
    n+=1
kf['findings'].sort(key=lambda f:(f['property'],f['status'],f['key']))
json.dump(kf,open(kfp,'w'),indent=1,ensure_ascii=False)
print('added',n)
