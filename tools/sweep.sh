#!/bin/sh
# tools/sweep.sh [tier] [seed] : runs every check once, prints one line each
tier=${1:-quick}; seed=${2:-1}
cd /verif
for id in C01 C02 C03 C04 C05 C06 C07 C08 C09 C10 C11 C12 C13 C14 C15 C16 C17 C18 C19; do
  VERIF_SEED=$seed ./check $id $tier > /tmp/sweep.$id.$tier.$seed.out 2>&1; rc=$?
  echo "$id rc=$rc $(grep '^SUMMARY' /tmp/sweep.$id.$tier.$seed.out | cut -c1-200)"
done
