#!/usr/bin/env python3
"""Writes /verif/seeded/<ID>-m<k>/meta.json from the material gathered while validating the
checks against seeded changes, and prints the markdown table used in DESIGN.md (R1.4).

Inputs per seeded change (all under /verif/seeded/<ID>-m<k>/):
  README.md          the seeding agent's description (title, "What is needed for it to manifest")
  patch.diff         the change (git apply on /repo HEAD)
  demo/              the agent's demonstration (run.sh <repo>): exit 0 without, non-zero with the change
  confirm.log        my own confirmation run (tools/confirm_mutant.sh)
  check-verdict.txt  output of tools/try_mutant.sh: the property's quick check against the change
The table below (what happened on the first trial, what was strengthened) is kept by hand."""
import json, os, re, sys

# first trial: True = the check as it stood caught it; text = what was added when it did not
FIRST = {
 'C01-m1': (False, "operation-layout atoms `op.params.together=*`: parameter names that meet each other and the fields the generated Params structs reserve (timeout, Context, HTTPClient)"),
 'C01-m2': (False, "operation-layout atoms `op.resp.*`: 26 response layouts, among them a stream on a non-2xx code only"),
 'C02-m1': (False, "schema atoms with deep containers of $ref'd objects (map of arrays of objects) and zero-valued members in the instance generator"),
 'C02-m2': (False, "unsigned formats x exclusive bounds atoms (`integer.uint64.maximum.exclusive` ...)"),
 'C03-m1': (False, "allowEmptyValue semantics in the reference binder (an allowed empty value is a loose accept) and allowEmptyValue atoms for formData / query / arrays"),
 'C03-m2': (False, "parameter atoms with defaults on nested arrays (array of arrays, every collectionFormat)"),
 'C04-m1': (False, "a servrig variant whose operation-level consumes differs from the spec-level produces; JSON-dialect codecs registered in the driver"),
 'C04-m2': (False, "allowEmptyValue formData atoms on the client encoder side, judged with the loose-accept rule"),
 'C05-m1': (False, "atom `allOf.inline-required-empties` (required properties of an allOf member holding empty / zero values)"),
 'C05-m2': (False, "atoms `poly.x-class` (discriminator value differs from the definition name) and decoding through the base type"),
 'C06-m1': (False, "requests that are unauthenticated *and* carry an invalid parameter: the answer must be 401, never 422"),
 'C06-m2': (True, ""),
 'C07-m1': (False, "every media-type family of the generator's pattern tables in the consumes / produces of the wide input (application/gzip, x-gzip, zip, ...)"),
 'C07-m2': (False, "a batch of eight look-alike tenants (same base name `swagger.json`, same size, --keep-spec-order) generated concurrently for 10-40 rounds, a new yield point between the x-order rewrite and the reload (verif: c71bc90); client jobs of part 2 corrected to use the client layout"),
 'C08-m1': (False, "atom `opids.vs-default-name.other-order` (an explicit operationId equal to the default name of another operation, in both orders)"),
 'C08-m2': (False, "atoms `paths.root.no-basepath` / `paths.root.with-basepath` (an operation on `/`)"),
 'C09-m1': (True, ""),
 'C09-m2': (False, "split layout: the definitions, and the hostile text, live in a second document reached only through $ref; the root document stays neutral"),
 'C10-m1': (True, ""),
 'C10-m2': (True, ""),
 'C11-m1': (False, "histories that run the same optioned command before and after a spec change (`spec:<edit>/same-opts`, ten server options, four client options)"),
 'C11-m2': (False, "option atom `config-file=layout`: a --config-file spelling out the built-in server layout with `skip_exists: true` on the configure entry"),
 'C12-m1': (False, "hostile document `same-name-params` (one name in query, header, path, formData of one operation) in the identity corpus"),
 'C12-m2': (True, ""),
 'C13-m1': (False, "edit slot `query:limit(override)`: the parameter is declared at path level and overridden at operation level"),
 'C13-m2': (True, ""),
 'C14-m1': (False, "edit kinds `maximum+exclusive-added` / `minimum+exclusive-added` (a bound that arrives together with its exclusive flag) under the absolute-direction oracle"),
 'C14-m2': (True, ""),
 'C15-m1': (True, ""),
 'C15-m2': (True, ""),
 'C16-m1': (False, "atoms `tag.rename.named-string.*` (json tag names on fields of named string types, with and without options)"),
 'C16-m2': (True, ""),
 'C17-m1': (False, "forms `merge.params-into-input-op.<method>`: the --input document declares put / post / delete / patch / head / options operations that the scanned parameters must be merged into"),
 'C17-m2': (False, "forms `params.valid.items.minimum.exclusive` / `maximum.exclusive` on array items"),
 'C18-m1': (True, ""),
 'C18-m2': (False, "atom `string.enum-escapes` (enum values containing `<`, `&`, `\"`, `\\\\`) and `string.enum-commas`"),
 'C19-m1': (False, "exact comparison of integer literals in jx.Diff (was float64), integers near 2^53 first in the catalogue, `max length` / `max items` slots"),
 'C19-m2': (True, ""),
 # third round (six properties, one more change each, after the first 38 were all caught)
 'C02-m3': (False, "position `aliasprop`: the shape behind a chain of alias definitions (definitions that are nothing but a $ref), referred to from a required and two optional properties; it also exposed the order-sensitive planning of definitions (fix dc6159c)"),
 'C03-m3': (False, "header parameter atoms whose names are not in canonical MIME form (`X-Request-ID`, `ETag`, `x-trace-level`, `Content-MD5`, `x_under_score` ...)"),
 'C05-m3': (False, "a canonical valid document that UnmarshalJSON refuses is now a loss (`valid-document-not-decoded`; it used to be left to C02), plus the `aliasprop` position"),
 'C06-m3': (True, ""),
 'C13-m3': (False, "edits `required-property-added@body.no-properties(map|allOf)`: the schema has no `properties` of its own before the edit"),
 'C16-m3': (False, "an empty scanned schema is probed with one document of every JSON kind instead of being left unjudged (`untyped-position`)"),
 # fourth round (eight properties, one more change each; asked to avoid the mechanisms already seeded)
 'C08-m3': (False, "atoms `files.def|op-goos|goarch-suffix` (a name ending in every word go/build reads as a build constraint) and a new oracle: a generated file that go/build leaves out is a dropped handler / model, judged whether or not the rest compiles (ParseDir used to see the type in the excluded file); it exposed the missing `wasip1` (fix 691fb3d). patch.diff is the agent's change rebased on 691fb3d (patch.orig.diff)"),
 'C10-m3': (False, "document `selection` (operations carrying several tags) generated with `--tags`, `--operation`, `--model`, `--skip-tag-packages`: the generated code covers a part, the embedded documents must stay the whole input"),
 'C11-m3': (False, "application name that needs file-name mangling (`A=mixed` = TodoList) with the built-in layout and with config files naming the configure file in both documented spellings (`config-file=layout-doc`: `configure_{{ .Name }}.go`)"),
 'C12-m3': (True, ""),
 'C14-m3': (False, "pair class `rename` (115 pairs): one named element respelled by case only or renamed, at every position the analyser matches by name (response headers, parameters in every location, properties at every depth, definitions, paths, enum values, tags, media types, extension keys)"),
 'C15-m3': (True, ""),
 'C17-m3': (False, "forms `route.responses.named.model-namesake` (a swagger:response and a swagger:model under one name; untagged / `response:` / `body:` references) and `route.responses.tagged`"),
 'C19-m3': (True, ""),
}

root = '/verif/seeded'
rows = []
for sid in sorted(os.listdir(root)):
    d = os.path.join(root, sid)
    if not os.path.isdir(d) or sid not in FIRST:
        continue
    readme = open(os.path.join(d, 'README.md'), errors='replace').read() if os.path.exists(os.path.join(d, 'README.md')) else ''
    title = readme.splitlines()[0].lstrip('# ').strip() if readme else sid
    title = re.sub(r'^(C\d\d\s*/\s*)?MUTANT\s*\d\s*[-—–:]+\s*', '', title)
    title = re.sub(r'^C\d\d\s+seed(ed change)?\s*:\s*', '', title)
    m = re.search(r'^##[^\n]*needed for it to manifest[^\n]*\n(.*?)(?=^## )', readme, re.S | re.M)
    needs = m.group(1).strip() if m else ''
    confirm = {}
    cl = os.path.join(d, 'confirm.log')
    if os.path.exists(cl):
        txt = open(cl, errors='replace').read()
        r = re.search(r'RESULT \S+ clean_demo=(\d+) build=(\d+) mutant_demo=(\d+)', txt)
        s = re.search(r'stable_pass (\d+) passed (\d+) missing (\d+)', txt)
        if r:
            confirm = {'demo_exit_without_change': int(r.group(1)), 'go_build_exit_with_change': int(r.group(2)), 'demo_exit_with_change': int(r.group(3))}
        if s:
            confirm['pinned_suite_with_change'] = {'stable_pass': int(s.group(1)), 'passed': int(s.group(2)), 'missing': int(s.group(3))}
    verdict = {}
    vf = os.path.join(d, 'check-verdict.txt')
    keys = []
    if os.path.exists(vf):
        txt = open(vf, errors='replace').read()
        r = re.search(r'check=(\S+) tag=\S+ exit=(\d+)', txt)
        keys = re.findall(r'^VIOLATION property=\S+ replay=\S+ key=(\S+)', txt, re.M)
        n = re.search(r'^(\d+)$', txt, re.M)
        if r:
            verdict = {'check': r.group(1), 'tier': 'quick', 'exit': int(r.group(2)), 'violations': int(n.group(1)) if n else len(keys), 'first_keys': keys[:5]}
    first, added = FIRST[sid]
    prop = sid.split('-')[0]
    meta = {
        'seeded_id': sid,
        'property': prop,
        'change': title,
        'patch': 'patch.diff (git -C <worktree of /repo HEAD> apply)',
        'needs_to_manifest': needs,
        'demonstration': 'demo/run.sh <repo root>: exit 0 on the unchanged tree, non-zero with the change',
        'what_i_ran': [
            'tools/confirm_mutant.sh: fresh worktree of /repo HEAD; demo on the clean tree; git apply; go build ./...; demo again; go test -json -vet=off -count=1 ./... compared with the 929 stable_pass tests of /root/.vp/BASELINE.json (confirm.log)',
            'tools/try_mutant.sh %s patch.diff <tag> quick: ./check %s quick with VF_REPO=<worktree with the change> (check-verdict.txt)' % (prop, prop),
        ],
        'confirmation': confirm,
        'caught_by_first_version_of_the_check': first,
        'check_strengthened_with': added,
        'final_verdict': verdict,
    }
    json.dump(meta, open(os.path.join(d, 'meta.json'), 'w'), indent=1, ensure_ascii=False)
    k = ', '.join('`%s`' % x for x in keys[:2]) + (' …' if len(keys) > 2 else '')
    rows.append('| %s | %s | %s | %s | %s |' % (sid, title.replace('|', '/'), 'yes' if first else 'no', added.replace('|', '/') if added else '—', ('exit %s, %s keys: %s' % (verdict.get('exit'), verdict.get('violations'), k)) if verdict else 'n/a'))
print('| seeded change | what it does | caught at first trial | added to the check | final quick verdict |')
print('|---|---|---|---|---|')
print('\n'.join(rows))
